#[cfg(test)]
mod verif_demo_cfb_9 {
    use super::*;
    // C13 / C20: a compound file whose streams are all >= 4096 bytes has no mini stream: the root entry's start sector is ENDOFCHAIN
    // and the header declares 0 mini FAT sectors ([MS-CFB] 2.6.3). Cfb::new accepts that in a version 3 container (512-byte sectors)
    // but rejects the same logical content in a version 4 container (4096-byte sectors) with EmptyRootDir.
    fn container(shift: u16, content: &[u8]) -> Vec<u8> {
        let size = 1usize << shift;
        let n = (content.len() + size - 1) / size; // stream sectors 2..2+n
        let mut f = vec![0u8; size];
        f[..8].copy_from_slice(&0xE11A_B1A1_E011_CFD0u64.to_le_bytes());
        f[24..26].copy_from_slice(&0x3Eu16.to_le_bytes());
        f[26..28].copy_from_slice(&(if shift == 9 { 3u16 } else { 4u16 }).to_le_bytes());
        f[28..30].copy_from_slice(&0xFFFEu16.to_le_bytes());
        f[30..32].copy_from_slice(&shift.to_le_bytes());
        f[32..34].copy_from_slice(&6u16.to_le_bytes());
        f[40..44].copy_from_slice(&(if shift == 9 { 0u32 } else { 1u32 }).to_le_bytes()); // directory sectors (0 in v3)
        f[44..48].copy_from_slice(&1u32.to_le_bytes()); // FAT sectors
        f[48..52].copy_from_slice(&1u32.to_le_bytes()); // first directory sector
        f[56..60].copy_from_slice(&4096u32.to_le_bytes()); // mini stream cutoff
        f[60..64].copy_from_slice(&ENDOFCHAIN.to_le_bytes()); // first mini FAT sector: none
        f[64..68].copy_from_slice(&0u32.to_le_bytes()); // mini FAT sectors: 0
        f[68..72].copy_from_slice(&ENDOFCHAIN.to_le_bytes()); // first DIFAT sector: none
        for i in 0..109 {
            let v: u32 = if i == 0 { 0 } else { 0xFFFF_FFFF };
            f[76 + 4 * i..80 + 4 * i].copy_from_slice(&v.to_le_bytes());
        }
        // sector 0: FAT
        let mut fat = vec![0xFFu8; size];
        let mut set = |i: usize, v: u32| fat[4 * i..4 * i + 4].copy_from_slice(&v.to_le_bytes());
        set(0, 0xFFFF_FFFD);
        set(1, ENDOFCHAIN);
        for k in 0..n {
            set(2 + k, if k + 1 == n { ENDOFCHAIN } else { (3 + k) as u32 });
        }
        f.extend(fat);
        // sector 1: directory
        let mut dir = vec![0u8; size];
        let mut entry = |i: usize, name: &str, typ: u8, start: u32, len: u64| {
            let e = &mut dir[128 * i..128 * (i + 1)];
            let mut l = 0;
            for (k, u) in name.encode_utf16().enumerate() {
                e[2 * k..2 * k + 2].copy_from_slice(&u.to_le_bytes());
                l = 2 * k + 4;
            }
            e[64..66].copy_from_slice(&(l as u16).to_le_bytes());
            e[66] = typ;
            e[68..80].copy_from_slice(&[0xFF; 12]);
            e[116..120].copy_from_slice(&start.to_le_bytes());
            e[120..128].copy_from_slice(&len.to_le_bytes());
        };
        entry(0, "Root Entry", 5, ENDOFCHAIN, 0); // no mini stream
        entry(1, "Workbook", 2, 2, content.len() as u64);
        dir[68..72].copy_from_slice(&0xFFFF_FFFFu32.to_le_bytes());
        dir[76..80].copy_from_slice(&1u32.to_le_bytes()); // root's child
        f.extend(dir);
        // stream sectors
        let mut s = content.to_vec();
        s.resize(n * size, 0);
        f.extend(s);
        f
    }
    fn read(shift: u16, content: &[u8]) -> Result<Vec<u8>, CfbError> {
        let bytes = container(shift, content);
        let mut r: &[u8] = &bytes;
        let mut cfb = Cfb::new(&mut r, bytes.len())?;
        cfb.get_stream("Workbook", &mut r)
    }
    #[test]
    fn verif_demo_cfb_v4_without_mini_stream_is_rejected() {
        let content: Vec<u8> = (0..5000u32).map(|i| (i % 251) as u8).collect();
        // control: version 3 container
        assert_eq!(read(9, &content).unwrap(), content);
        // WRONG: the same logical content in a version 4 container is refused (should read as `content`)
        assert!(matches!(read(12, &content), Err(CfbError::EmptyRootDir)));
    }
}
