// Demonstration for fixes gaps3_1 / gaps3_2 (drop into tests/ and run: cargo test --offline --test gaps3_demo).
// Before the patches both tests fail on /repo (first: the text of the first cell is lost; second: Ods::new fails with ParseInt); after them both pass.
use calamine::{Data, Ods, Reader};
use std::io::{Cursor, Write};
use zip::write::SimpleFileOptions;
use zip::{CompressionMethod, ZipWriter};

fn ods_with(content: &str) -> Vec<u8> {
    let manifest = r#"<?xml version="1.0" encoding="UTF-8"?>
<manifest:manifest xmlns:manifest="urn:oasis:names:tc:opendocument:xmlns:manifest:1.0" manifest:version="1.2">
 <manifest:file-entry manifest:full-path="/" manifest:version="1.2" manifest:media-type="application/vnd.oasis.opendocument.spreadsheet"/>
 <manifest:file-entry manifest:full-path="content.xml" manifest:media-type="text/xml"/>
</manifest:manifest>"#;
    let mut zip = ZipWriter::new(Cursor::new(Vec::new()));
    let opt = SimpleFileOptions::default().compression_method(CompressionMethod::Stored);
    for (name, bytes) in [
        (
            "mimetype",
            "application/vnd.oasis.opendocument.spreadsheet".as_bytes(),
        ),
        ("META-INF/manifest.xml", manifest.as_bytes()),
        ("content.xml", content.as_bytes()),
    ] {
        zip.start_file(name, opt).unwrap();
        zip.write_all(bytes).unwrap();
    }
    zip.finish().unwrap().into_inner()
}

fn content(row: &str) -> String {
    format!(
        r#"<?xml version="1.0" encoding="UTF-8"?>
<office:document-content xmlns:office="urn:oasis:names:tc:opendocument:xmlns:office:1.0" xmlns:table="urn:oasis:names:tc:opendocument:xmlns:table:1.0" xmlns:text="urn:oasis:names:tc:opendocument:xmlns:text:1.0" xmlns:calcext="urn:org:documentfoundation:names:experimental:calc:xmlns:calcext:1.0" office:version="1.2"><office:body><office:spreadsheet><table:table table:name="S"><table:table-row>{row}</table:table-row></table:table></office:spreadsheet></office:body></office:document-content>"#
    )
}

fn first_row(row: &str) -> Vec<Data> {
    let mut wb: Ods<_> = Ods::new(Cursor::new(ods_with(&content(row)))).expect("ods opens");
    let range = wb.worksheet_range("S").expect("sheet S");
    range.rows().next().expect("one row").to_vec()
}


#[test]
fn value_type_written_with_a_character_reference() {
    // `&#115;tring` is the attribute value `string` (XML 1.0 4.1: character reference)
    let row = concat!(
        r#"<table:table-cell office:value-type="&#115;tring"><text:p>abc</text:p></table:table-cell>"#,
        r#"<table:table-cell office:value-type="string"><text:p>abc</text:p></table:table-cell>"#,
    );
    assert_eq!(first_row(row), [Data::String("abc".to_string()), Data::String("abc".to_string())]);
}
#[test]
fn repeat_count_written_with_a_character_reference() {
    let row = concat!(
        r#"<table:table-cell table:number-columns-repeated="&#50;" office:value-type="float" office:value="1"><text:p>1</text:p></table:table-cell>"#,
    );
    assert_eq!(first_row(row), [Data::Float(1.0), Data::Float(1.0)]);
}
