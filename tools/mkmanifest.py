#!/usr/bin/env python3
"""mkmanifest.py -- (re)generate /verif/MANIFEST.json from tools/manifest_table.json.

manifest_table.json: {"claimed": {"C01": {"text":..., "note":..., "technique":..., "design_ref":...}, ...},
                      "not_applicable": {"Cxx": "reason"}}
Only properties that have at least one unit or Kani harness are emitted as checks.
"""
import json, os, sys
VERIF = os.path.dirname(os.path.dirname(os.path.abspath(__file__)))
sys.path.insert(0, os.path.join(VERIF, "tools"))
import driver, kani_run

tab = json.load(open(os.path.join(VERIF, "tools", "manifest_table.json")))
checks = []
for pid in sorted(tab["claimed"]):
    e = tab["claimed"][pid]
    units = driver.units_for(pid)
    hs = [h for h in kani_run.load_harnesses() if pid in h["props"]]
    if pid not in tab.get("ready", []):
        tab.setdefault("not_applicable", {})[pid] = "check under construction at this commit (units exist but are not yet green end to end); see DESIGN.md §7 " + pid
        continue
    if not units and not hs:
        tab.setdefault("not_applicable", {})[pid] = "no check registered yet for this property at this commit (machinery under construction; see DESIGN.md §7 " + pid + ")"
        continue
    checks.append({
        "property_id": pid,
        "quick_cmd": f"./check {pid} --tier quick",
        "thorough_cmd": f"./check {pid} --tier thorough",
        "evidence_file": f"/verif/evidence/{pid}.json",
        "replay_cmd_template": f"./check {pid} --replay {{path}}",
        "engine": "verus+kani",
        "level_claimed": {"category": e.get("category", "proof"), "text": e["text"], "design_ref": e.get("design_ref", "DESIGN.md §7 " + pid)},
        "level_note": e["note"],
        "technique": e.get("technique", "contract-based deductive verification (Verus on verbatim extracted functions; Kani function harnesses on the real crate)"),
    })
m = {
    "version": 1,
    "setup_cmd": "cd /verif/tools/rsx && CARGO_NET_OFFLINE=true cargo build --release --offline",
    "hooks": {
        "guard": "cfg(kani)",
        "enable": "no source hook is needed: Verus reads verbatim byte spans of /repo/src; Kani harness modules are appended to a scratch copy of the crate under #[cfg(kani)]",
        "baseline_off_cmd": "cd /repo && cargo test --workspace --no-fail-fast --offline",
        "source_commits": tab.get("source_commits", []),
        "add_only": True,
    },
    "engines": [
        {"name": "verus", "path": "/verif/units", "serves_properties": sorted({p for c in checks for p in [c["property_id"]] if driver.units_for(p)}),
         "kind_free_text": "Verus 0.2026.09.13 on verbatim function text spliced with contracts (tools/splice.py, tools/rsx)"},
        {"name": "kani", "path": "/verif/kani", "serves_properties": sorted({p for h in kani_run.load_harnesses() for p in h["props"]}),
         "kind_free_text": "Kani 0.68 function harnesses appended to a scratch overlay of the whole crate (complete = loop-free/full-domain; bounded = stated bound, never counted as proved)"},
    ],
    "checks": checks,
    "notes": "See DESIGN.md. Known genuine defects are listed in findings/*.json (KNOWN-FINDING lines); repaired ones as fixed: entries.",
    "not_applicable": [{"property_id": k, "reason": v} for k, v in sorted(tab.get("not_applicable", {}).items())],
}
json.dump(m, open(os.path.join(VERIF, "MANIFEST.json"), "w"), indent=1)
print(f"MANIFEST.json: {len(checks)} checks, {len(m['not_applicable'])} not applicable")
