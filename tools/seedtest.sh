#!/bin/bash
# seedtest.sh <seed_id> [props...] -- apply seeded/<id>/patch.diff to a SCRATCH COPY of /repo (never /repo itself, other
# runs may be reading it), run ./check for the given properties (default: the seed's own property) with VERIF_REPO pointing
# at the copy, print the result lines, remove the copy.
ID=$1; shift
PROPS="$@"
[ -z "$PROPS" ] && PROPS=$(echo $ID | cut -d_ -f1)
S=/tmp/seedrepo_$ID
rm -rf $S; mkdir -p $S
rsync -a --exclude target --exclude .git /repo/ $S/
(cd $S && git init -q . && git apply /verif/seeded/$ID/patch.diff) || { echo "patch does not apply"; rm -rf $S; exit 2; }
cd /verif
for p in $PROPS; do
  out=$(VERIF_REPO=$S VERIF_WORK=/verif/.work/seed_$ID ./check $p 2>&1); rc=$?
  echo "== $ID vs $p: exit $rc"
  echo "$out" | grep -E "^VIOLATION|^UNDECIDED|^OK" | cut -c1-260 | head -8
done
rm -rf $S /verif/.work/seed_$ID
