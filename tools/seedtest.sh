#!/bin/bash
# seedtest.sh <seed_id> [props...] -- apply seeded/<id>/patch.diff to /repo, run ./check for the given properties
# (default: the seed's own property), print the result lines, and ALWAYS restore /repo afterwards.
ID=$1; shift
PROPS="$@"
[ -z "$PROPS" ] && PROPS=$(echo $ID | cut -d_ -f1)
cd /verif
if [ -n "$(git -C /repo status --porcelain -- src)" ]; then echo "/repo/src is dirty; refusing"; exit 2; fi
git -C /repo apply /verif/seeded/$ID/patch.diff || { echo "patch does not apply"; exit 2; }
trap 'git -C /repo checkout -- . ' EXIT
for p in $PROPS; do
  out=$(VERIF_WORK=/verif/.work/seed_$ID ./check $p 2>&1); rc=$?
  echo "== $ID vs $p: exit $rc"
  echo "$out" | grep -E "^VIOLATION|^UNDECIDED|^OK" | cut -c1-260 | head -8
done
