#!/usr/bin/env python3
"""harmless_matrix.py [ids...] -- apply every semantics-preserving edit of seeded/harmless/<id>/patch.diff to a scratch copy of /repo and run
the checks named in its meta.json (`checked_properties`): exit 0 (OK) or exit 2 (undecided: lost anchor) are acceptable, exit 1 (VIOLATION) is
a FALSE ALARM. Results in seeded/harmless/RESULTS.json."""
import json, os, subprocess, sys, glob, re, shutil
V = "/verif"
ids = sys.argv[1:] or sorted(os.path.basename(d.rstrip("/")) for d in glob.glob(V + "/seeded/harmless/H*/"))
resp = V + "/seeded/harmless/RESULTS.json"
for i in ids:
    m = json.load(open(f"{V}/seeded/harmless/{i}/meta.json"))
    s = f"/tmp/harmrepo_{i}"
    shutil.rmtree(s, ignore_errors=True)
    subprocess.run(["rsync", "-a", "--exclude", "target", "--exclude", ".git", "/repo/", s + "/"], check=True)
    a = subprocess.run(f"cd {s} && git init -q . && git apply {V}/seeded/harmless/{i}/patch.diff", shell=True, capture_output=True, text=True)
    out = {}
    if a.returncode != 0:
        out = {"note": "patch does not apply: " + a.stderr[:200]}
    else:
        for prop in m.get("checked_properties", []):
            env = dict(os.environ, VERIF_REPO=s, VERIF_WORK=f"{V}/.work/harm_{i}")
            p = subprocess.run(["./check", prop], cwd=V, env=env, capture_output=True, text=True)
            vio = re.findall(r"^VIOLATION property=\S+ replay=\S+ obligation=(.*?)(?: no-failing-input-found)?$", p.stdout, re.M)
            und = re.findall(r"^UNDECIDED: (.*)$", p.stdout, re.M)
            out[prop] = {"exit": p.returncode, "violations": [v[:160] for v in vio][:4], "undecided": [u[:200] for u in und][:2]}
            print(i, prop, "exit", p.returncode, (vio[:1] or und[:1] or [""])[0][:140], flush=True)
    shutil.rmtree(s, ignore_errors=True)
    shutil.rmtree(f"{V}/.work/harm_{i}", ignore_errors=True)
    cur = json.load(open(resp)) if os.path.exists(resp) else {}
    cur[i] = {"site": m.get("site"), "kind": m.get("kind"), "results": out}
    tmp = resp + f".{os.getpid()}.tmp"
    json.dump(cur, open(tmp, "w"), indent=1)
    os.replace(tmp, resp)
