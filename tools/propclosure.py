#!/usr/bin/env python3
"""propclosure.py -- which properties does a function under contract serve *through its callers*?

A property X is decided by the clauses labelled X.  But the proof of a caller F (serving X) uses the CONTRACT of every callee G it calls
(Verus is modular: at the call site only G's contract is known).  If G's own clauses are labelled for other properties only, a change that
breaks G's contract fails an obligation that the check of X would not look at -- although X's proof rests on it.  This module computes, on
the current source, the call graph between the functions under contract (real text in some unit) and lets a callee inherit from its callers:

    eff(G) = declared(G)  ∪  ⋃ { declared(F) : F under contract (real text), F's body calls G }        (direct callers only)

`./check X` then (a) also runs every unit that holds a function with X in eff, and (b) reports a failing obligation of G under its label's
properties and under eff(G) − declared(G) (the inherited ones).  Name resolution is syntactic (method / function name in the caller's source
lines); ambiguous names are resolved to the same source file or skipped; generic method names are skipped.  Printing `python3 propclosure.py`
shows the inherited properties per function."""
import json, os, re, sys

VERIF = os.path.dirname(os.path.dirname(os.path.abspath(__file__)))
sys.path.insert(0, os.path.join(VERIF, "tools"))
import splice  # noqa: E402

# callers that serve more properties than this are dispatchers, not "the labelled function a helper belongs to"
MAX_CALLER_PROPS = 4

GENERIC = {"new", "next", "next_back", "get", "len", "index", "index_mut", "default", "clone", "from", "fmt", "deserialize", "eq", "into",
           "size_hint", "is_empty", "start", "end", "width", "height", "rows", "cells", "metadata", "deref", "drop", "source", "try_from"}


def _method(item):
    return item.split("::")[-1].strip()


def compute(repo, work, ready_units):
    fns = []  # every function entry of every unit
    for u in ready_units:
        udir = os.path.join(VERIF, "units", u)
        if not os.path.exists(os.path.join(udir, "unit.rs")):
            continue
        try:
            log = splice.build(udir, os.path.join(work, f"closure_{u}.rs"))
        except Exception:
            continue  # lost anchor etc.: the unit itself will report it
        uprops = [p for p in log["props"] if p]
        for f in log["functions"]:
            ext = bool(f.get("external_body"))
            declared = set(p for p in (f["props"] or "").split(",") if p)
            if not declared and not ext:
                declared = set(uprops)
            fns.append({"unit": u, "file": f["file"], "item": f["item"].split("@")[0], "lines": f["lines"], "ext": ext, "declared": declared})
    proved = {}  # (file, item) -> declared props of the real-text extractions
    for f in fns:
        if not f["ext"]:
            proved.setdefault((f["file"], f["item"]), set()).update(f["declared"])
    by_method = {}
    for k in proved:
        by_method.setdefault(_method(k[1]), []).append(k)
    src_cache = {}

    def body(f):
        p = os.path.join(repo, f["file"])
        if p not in src_cache:
            try:
                src_cache[p] = open(p, encoding="utf-8", errors="replace").read().split("\n")
            except OSError:
                src_cache[p] = []
        a, b = f["lines"]
        return "\n".join(src_cache[p][a - 1 : b])

    calls = {}  # caller key -> set(callee keys)
    for f in fns:
        if f["ext"]:
            continue
        me = (f["file"], f["item"])
        text = body(f)
        for m, keys in by_method.items():
            if m in GENERIC or len(m) < 4:
                continue
            if not re.search(r"(?<![A-Za-z0-9_])" + re.escape(m) + r"\s*(::<[^>]*>)?\s*\(", text):
                continue
            if len(keys) > 1:
                # a name several functions share (next_cell, parse_formula, skip, ...): only the one in the caller's own file, if unique
                cands = [k for k in keys if k[0] == f["file"] and k != me]
                if len(cands) != 1:
                    continue
            else:
                cands = [k for k in keys if k != me]
            if not cands:
                continue
            for k in cands:
                calls.setdefault(me, set()).add(k)
    # ONE step only (direct callers, their DECLARED properties): the transitive closure makes nearly every function of a format serve
    # nearly every property of that format (everything is reachable from the constructors), which would turn any failure into an alarm of
    # ten properties; one step is what the misses of the seeded rounds called for (helper of a labelled function)
    eff = {k: set(v) for k, v in proved.items()}
    for caller, callees in calls.items():
        src = proved.get(caller, set())
        if len(src - {"C06"}) > MAX_CALLER_PROPS:
            continue  # a dispatcher (parse_workbook, the constructors): it calls everything and serves everything
        for g in callees:
            eff[g] |= src
    inherited = {k: sorted(eff[k] - proved[k]) for k in eff if eff[k] - proved[k]}
    units_of = {}
    for f in fns:
        if not f["ext"]:
            units_of.setdefault((f["file"], f["item"]), set()).add(f["unit"])
    return {"eff": eff, "declared": proved, "inherited": inherited, "units_of": units_of, "calls": calls}


if __name__ == "__main__":
    rd = json.load(open(os.path.join(VERIF, "tools", "ready.json")))
    repo = os.environ.get("VERIF_REPO", "/repo")
    work = os.environ.get("VERIF_WORK") or os.path.join(VERIF, ".work")
    os.makedirs(work, exist_ok=True)
    c = compute(repo, work, rd["units"])
    for k in sorted(c["inherited"]):
        print(f"{k[0]} {k[1]}: declared {sorted(c['declared'][k])} + inherited {c['inherited'][k]}  (units {sorted(c['units_of'][k])})")
    print(len(c["inherited"]), "functions inherit properties from callers;", sum(len(v) for v in c["calls"].values()), "call edges")
