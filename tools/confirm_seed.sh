#!/bin/bash
# confirm_seed.sh <seed_dir>   -- independent confirmation of a seeded change in a scratch worktree of /repo:
#   (a) demo passes on the clean tree, (b) with the patch the existing suite still passes (except the
#   pre-existing failure mul_rk), (c) with the patch the demo fails.  The worktree is removed afterwards.
# demo.rs is either an integration test (uses `calamine::`) or a `#[cfg(test)] mod` snippet whose header
# comment names the src file it must be appended to ("append to src/xxx.rs").
set -u
SEED=$(readlink -f "$1")
ID=$(basename "$SEED")
WT=/tmp/confirm_$ID
export CARGO_NET_OFFLINE=true
export CARGO_TARGET_DIR=${CONFIRM_TARGET:-/verif/.cache/target-confirm}
git -C /repo worktree remove --force "$WT" >/dev/null 2>&1
git -C /repo worktree add --detach "$WT" HEAD >/dev/null 2>&1 || { echo "cannot create worktree"; exit 2; }
cleanup() { git -C /repo worktree remove --force "$WT" >/dev/null 2>&1; }
trap cleanup EXIT
cd "$WT" || exit 2
APPEND=$(grep -m1 -oiE 'append(ed)? to (the end of )?`?(/tmp/[a-zA-Z0-9_]+/)?src/[a-z_/]+\.rs' "$SEED/demo.rs" | grep -oE 'src/[a-z_/]+\.rs')
FEATS=""
grep -qiE 'features? .?dates|--features dates' "$SEED/demo.rs" "$SEED/meta.json" && FEATS="--features dates"
run_demo() {
  if [ -n "$APPEND" ] && ! grep -q '^use calamine' "$SEED/demo.rs"; then
    cp "$APPEND" "$APPEND.orig"
    cat "$SEED/demo.rs" >> "$APPEND"
    cargo test --offline $FEATS --lib 2>&1 | tail -40 > /tmp/confirm_$ID.demo.log
    rc=${PIPESTATUS[0]}
    mv "$APPEND.orig" "$APPEND"
  else
    cp "$SEED/demo.rs" tests/demo_seed.rs
    cargo test --offline $FEATS --test demo_seed 2>&1 | tail -40 > /tmp/confirm_$ID.demo.log
    rc=${PIPESTATUS[0]}
    rm -f tests/demo_seed.rs
  fi
  return $rc
}
run_demo; clean_rc=$?
grep -E "^test result" /tmp/confirm_$ID.demo.log | head -3
if [ $clean_rc -ne 0 ]; then echo "CONFIRM $ID: FAIL (demo does not pass on the clean tree)"; tail -20 /tmp/confirm_$ID.demo.log; exit 1; fi
git apply "$SEED/patch.diff" || { echo "CONFIRM $ID: FAIL (patch does not apply)"; exit 1; }
cargo test --offline --no-fail-fast 2>&1 | grep -E "^test .*FAILED|^test result|^error\[E|could not compile" > /tmp/confirm_$ID.suite.log
if grep -E "^error\[E|could not compile" /tmp/confirm_$ID.suite.log; then echo "CONFIRM $ID: FAIL (does not compile)"; exit 1; fi
BAD=$(grep -E "^test .*FAILED" /tmp/confirm_$ID.suite.log | grep -v "^test result" | grep -v "mul_rk" | wc -l)
if [ "$BAD" -ne 0 ]; then echo "CONFIRM $ID: FAIL (existing tests fail with the patch)"; grep FAILED /tmp/confirm_$ID.suite.log; exit 1; fi
run_demo; mut_rc=$?
grep -E "^test result" /tmp/confirm_$ID.demo.log | head -3
if [ $mut_rc -eq 0 ]; then echo "CONFIRM $ID: FAIL (demo passes with the patch)"; exit 1; fi
echo "CONFIRM $ID: OK (demo passes clean, suite passes with patch except mul_rk, demo fails with patch)"
rm -f /tmp/confirm_$ID.*.log
exit 0
