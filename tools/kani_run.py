"""kani_run.py -- Kani back end (overlay of the whole crate). Filled in below."""
def run_for(prop, tier):
    return []
def demo_findings():
    return 0
def replay(prop, path):
    return 0
