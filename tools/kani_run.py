"""kani_run.py -- Kani back end.

A scratch copy ("overlay") of the whole crate is made under /tmp/verif.<pid>/ on every run
from /repo's *current working tree*; every file kani/<mod>.rs named in kani/harnesses.json is
appended to the copy of its src file as `#[cfg(kani)] mod verif_kani_<mod> { use super::*; ... }`.
The real functions are untouched; private items are reachable because the harness module is a
child of their module.  Nothing is kept under /tmp after the run; only the dependency build
cache lives in /verif/.cache (re-creatable).

harnesses.json entries:
  {"name": fn name of the harness, "module": "xls" (kani/xls.rs), "append_to": "src/xls.rs",
   "props": ["C02"], "kind": "complete"|"bounded", "bound": "text" (bounded only),
   "tier": "quick"|"thorough", "timeout": seconds, "features": "dates", "unwind": N|null,
   "obligation": "short name", "stubs_expected": ["fmt::format"]}
"""
import json, os, re, shutil, subprocess, sys, tempfile, time, hashlib, atexit, signal
sys.path.insert(0, os.path.dirname(os.path.abspath(__file__)))

VERIF = os.path.dirname(os.path.dirname(os.path.abspath(__file__)))
REPO = os.environ.get("VERIF_REPO", "/repo")
CACHE = os.environ.get("VERIF_CACHE") or os.path.join(VERIF, ".cache")  # VERIF_CACHE: separate build cache (parallel lanes of tools/seed_matrix.py)

_overlays = []


def _cleanup():
    for d in _overlays:
        shutil.rmtree(d, ignore_errors=True)


atexit.register(_cleanup)


def load_harnesses():
    """kani/<module>.json: {"append_to": "src/x.rs", "harnesses": [...]} next to kani/<module>.rs"""
    out = []
    kd = os.path.join(VERIF, "kani")
    for fn in sorted(os.listdir(kd)) if os.path.isdir(kd) else []:
        if fn.endswith(".json"):
            d = json.load(open(os.path.join(kd, fn)))
            for h in d.get("harnesses", []):
                h["module"] = fn[:-5]
                h["append_to"] = d["append_to"]
                out.append(h)
    return out


def all_modules(selected=None):
    """modules to append: those of the selected harnesses, the modules they declare in "needs", and the
    always-present helper module `datatype` (a half-written module of another unit must not break the build)"""
    kd = os.path.join(VERIF, "kani")
    allm = {}
    for fn in sorted(os.listdir(kd)) if os.path.isdir(kd) else []:
        if fn.endswith(".json"):
            allm[fn[:-5]] = json.load(open(os.path.join(kd, fn)))
    if selected is None:
        return {m: j["append_to"] for m, j in allm.items()}
    want = set(selected) | {"datatype"}
    todo = list(want)
    while todo:
        m = todo.pop()
        for n in allm.get(m, {}).get("needs", []):
            if n not in want:
                want.add(n)
                todo.append(n)
    return {m: allm[m]["append_to"] for m in want if m in allm}


def make_overlay(modules=None, extra_tests=None, kani=True):
    """copy /repo working tree (without target/.git) and append harness modules; returns dir"""
    d = tempfile.mkdtemp(prefix=f"verif.{os.getpid()}.", dir="/tmp")
    _overlays.append(d)
    root = os.path.join(d, "calamine")
    shutil.copytree(REPO, root, ignore=shutil.ignore_patterns("target", ".git", "fuzz", "benches", "examples"))
    # strip [[bench]]/[[example]] sections that point at removed dirs (none in this crate, but be safe)
    mods = modules or {}
    for m, append_to in mods.items():
        src = open(os.path.join(VERIF, "kani", f"{m}.rs")).read()
        mj = json.load(open(os.path.join(VERIF, "kani", f"{m}.json")))
        feats = {h.get("features", "") for h in mj.get("harnesses", [])}
        gate = mj.get("cfg_feature") or (feats.pop() if len(feats) == 1 and "" not in feats else "")
        cfg = f'all(kani, feature = "{gate}")' if gate else "kani"
        with open(os.path.join(root, append_to), "a") as f:
            f.write(f"\n#[cfg({cfg})]\n#[allow(unused, clippy::all)]\npub(crate) mod verif_kani_{m} {{\n    use super::*;\n{src}\n}}\n")
    for append_to, text in (extra_tests or []):
        with open(os.path.join(root, append_to), "a") as f:
            f.write("\n" + text + "\n")
    cfg = os.path.join(root, ".cargo")
    os.makedirs(cfg, exist_ok=True)
    with open(os.path.join(cfg, "config.toml"), "w") as f:
        f.write("[net]\noffline = true\n")
    return root


def parse_kani_output(out):
    """returns {harness: {"status":..., "checks": n, "failed": [descr], "time_s": t}}"""
    res = {}
    cur = None
    threads = {}
    for line in out.split("\n"):
        m = re.match(r"Checking harness (\S+?)\.\.\.", line)
        if m:
            cur = m.group(1).split("::")[-1]
            res[cur] = {"status": "UNKNOWN", "checks": 0, "failed": [], "time_s": 0.0, "cover_unsat": []}
            continue
        m = re.match(r"Thread (\d+): Checking harness (\S+?)\.\.\.", line)
        if m:
            h = m.group(2).split("::")[-1]
            threads[m.group(1)] = h
            res.setdefault(h, {"status": "UNKNOWN", "checks": 0, "failed": [], "time_s": 0.0, "cover_unsat": []})
            continue
        m = re.match(r"Thread (\d+):\s*$", line)
        if m:
            cur = threads.get(m.group(1))
            continue
        if cur is None:
            continue
        m = re.match(r"\s*\*\* (\d+) of (\d+) failed", line)
        if m:
            res[cur]["checks"] = int(m.group(2))
        m = re.match(r"Failed Checks: (.*)", line)
        if m:
            res[cur]["failed"].append(m.group(1).strip())
        m = re.match(r"\s*\*\* (\d+) of (\d+) cover properties satisfied", line)
        if m and int(m.group(1)) != int(m.group(2)):
            res[cur]["cover_unsat"].append(line.strip())
        if re.match(r"CBMC failed with status|CBMC timed out|CBMC appears to have run out of memory", line):
            res[cur]["crashed"] = line.strip()
        m = re.match(r"VERIFICATION:- (\w+)", line)
        if m:
            res[cur]["status"] = "SUCCESS" if m.group(1) == "SUCCESSFUL" else "FAILED"
            if res[cur].get("crashed") and not res[cur]["failed"]:
                res[cur]["status"] = "UNKNOWN"  # tool failure (killed / out of memory), not a refutation
        m = re.match(r"Verification Time: ([\d.]+)s", line)
        if m:
            res[cur]["time_s"] = float(m.group(1))
    # terse / parallel summary lines: "Verification failed for - harness" / "Complete - N successfully verified"
    for m in re.finditer(r"Verification failed for - (\S+)", out):
        h = m.group(1).split("::")[-1]
        r = res.setdefault(h, {"status": "FAILED", "checks": 0, "failed": [], "time_s": 0.0, "cover_unsat": []})
        if not r.get("crashed"):
            r["status"] = "FAILED"
    return res


def kani_env():
    env = dict(os.environ)
    env["CARGO_NET_OFFLINE"] = "true"
    env["CARGO_TARGET_DIR"] = os.path.join(CACHE, "target-kani")
    return env


def run_group(root, hs, features, timeout):
    """run a list of harnesses (same features) in one cargo kani invocation"""
    cmd = ["cargo", "kani", "-Z", "function-contracts", "-Z", "stubbing", "--output-format", "terse", "-j", str(min(16, max(1, len(hs))))]
    ca = hs[0].get("cbmc_args")
    if ca:
        cmd[6:6] = ["-Z", "unstable-options"]
    if features:
        cmd += ["--features", features]
    cmd += ["--exact"]
    for h in hs:
        mp = h["append_to"][len("src/"):-len(".rs")].replace("/", "::")
        if mp.endswith("::mod"):
            mp = mp[:-5]
        mp = "" if mp == "lib" else mp + "::"
        cmd += ["--harness", f"{mp}verif_kani_{h['module']}::{h['name']}"]
    if ca:
        cmd += ["--cbmc-args"] + list(ca)  # per-harness option "cbmc_args": passed through to CBMC (must come last)
    t0 = time.time()
    # own process group, so that a timeout kills only THIS run's cbmc processes (other runs may be in flight)
    p = subprocess.Popen(cmd, cwd=root, stdout=subprocess.PIPE, stderr=subprocess.PIPE, text=True, env=kani_env(), start_new_session=True)
    try:
        so, se = p.communicate(timeout=timeout)
        out = so + "\n" + se
        to = False
    except subprocess.TimeoutExpired:
        try:
            os.killpg(p.pid, signal.SIGKILL)
        except ProcessLookupError:
            pass
        so, se = p.communicate()
        out = (so or "") + "\n" + (se or "")
        to = True
    return " ".join(cmd), out, to, time.time() - t0


def playback_for(root, h, features):
    """ask Kani for a concrete counterexample of harness h; returns test source or None"""
    mp = h["append_to"][len("src/"):-len(".rs")].replace("/", "::")
    if mp.endswith("::mod"):
        mp = mp[:-5]
    mp = "" if mp == "lib" else mp + "::"
    cmd = ["cargo", "kani", "-Z", "function-contracts", "-Z", "stubbing", "-Z", "concrete-playback", "--concrete-playback=print", "--exact",
           "--harness", f"{mp}verif_kani_{h['module']}::{h['name']}"]
    if features:
        cmd += ["--features", features]
    if h.get("cbmc_args"):
        cmd[6:6] = ["-Z", "unstable-options"]
        cmd += ["--cbmc-args"] + list(h["cbmc_args"])
    try:
        p = subprocess.run(cmd, cwd=root, capture_output=True, text=True, env=kani_env(), timeout=h.get("timeout", 300))
    except subprocess.TimeoutExpired:
        return None
    out = p.stdout
    tests = re.findall(r"(/// Test generated for harness.*?\n}\n)", out, re.S)
    # Kani also prints playback tests for satisfied `cover`s: prefer the one generated for the failing check
    fails = [t for t in tests if "Check for `cover`" not in t.split("#[test]")[0]]
    if fails:
        return fails[0]
    return tests[0] if tests else None


def run_for(prop, tier, known_names=frozenset()):
    import driver
    rd = driver.ready()
    hs = [h for h in load_harnesses() if prop in h["props"] and (tier == "thorough" or h.get("tier", "quick") == "quick")
          and (rd is None or h["module"] in rd["kani"])]
    if not hs:
        return []
    root = make_overlay(all_modules({h["module"] for h in hs}))
    results = []
    groups = {}
    for h in hs:
        groups.setdefault((h.get("features", ""), tuple(h.get("cbmc_args", []))), []).append(h)
    for (feats, _ca), gh in groups.items():
        timeout = max(h.get("timeout", 300) for h in gh) + 120
        cmd, out, timed_out, wall = run_group(root, gh, feats, timeout)
        parsed = parse_kani_output(out)
        os.makedirs(os.path.join(VERIF, ".work"), exist_ok=True)
        open(os.path.join(VERIF, ".work", f"kani_{prop}_{feats or 'nofeat'}.log"), "w").write(out)
        kr = {"cmds": [cmd], "harnesses": [], "failed": [], "undecided": [], "trusted": []}
        for m in re.finditer(r"- Stub: (\S+) -> (\S+)|stub[^\n]*?(\w+::fmt::format)", out):
            pass
        for h in gh:
            r = parsed.get(h["name"])
            if r is None or r["status"] == "UNKNOWN":
                why = "timed out" if timed_out else (r.get("crashed") if r and r.get("crashed") else "no result (build error?)")
                errs = re.findall(r"(error(?:\[E\d+\])?: .*?)\n\s*\n", out, re.S)
                tail = "" if timed_out else " :: " + re.sub(r"\s+", " ", " | ".join(errs)[:1200] or out[-600:])
                kr["undecided"].append(f"kani:{h['name']}: {why}{tail}")
                kr["harnesses"].append({"name": h["name"], "kind": h["kind"], "status": "UNDECIDED", "checks": 0, "time_s": round(wall, 1), "bound": h.get("bound")})
                continue
            if r["cover_unsat"]:
                kr["undecided"].append(f"kani:{h['name']}: vacuity: {r['cover_unsat']}")
            kr["harnesses"].append({"name": h["name"], "module": h["module"], "kind": h["kind"], "status": r["status"], "checks": r["checks"], "time_s": r["time_s"], "bound": h.get("bound"), "obligation": h.get("obligation")})
            if r["status"] == "FAILED":
                name = f"kani/{h['module']}/{h.get('obligation', h['name'])}"
                # no counterexample search for registered known findings (they have native demonstrations already)
                test = None if name in known_names else playback_for(root, h, feats)
                os.makedirs(os.path.join(VERIF, "replay"), exist_ok=True)
                hh = hashlib.sha256(name.encode()).hexdigest()[:10]
                path = os.path.join(VERIF, "replay", f"{prop}-{hh}.json")
                json.dump({"property": prop, "obligation": name, "backend": "kani", "harness": h["name"], "module": h["module"], "append_to": h["append_to"],
                           "features": feats, "failed_checks": r["failed"], "playback_test": test,
                           "failing_input": "see playback_test (concrete bytes for every kani::any())" if test else None,
                           "replay_cmd": f"./check {prop} --replay {path}"}, open(path, "w"), indent=1)
                kr["failed"].append({"name": name, "props": h["props"], "replay": path, "has_input": bool(test), "kind": "kani", "fn": h.get("obligation", h["name"])})
        for h in gh:
            for s in h.get("stubs", []):
                kr["trusted"].append(f"kani stub in {h['name']}: {s}")
        results.append(kr)
    shutil.rmtree(os.path.dirname(root), ignore_errors=True)
    return results


def replay(prop, path):
    d = json.load(open(path))
    if d.get("backend") == "kani":
        if not d.get("playback_test"):
            print(f"replay: no concrete input recorded for {d['obligation']}; failed checks: {d['failed_checks']}")
            return 1
        test = d["playback_test"]
        m = re.search(r"fn (kani_concrete_playback_\w+)", test)
        tname = m.group(1)
        root = make_overlay(all_modules({d["module"]}))
        # put the playback test inside the harness module
        p = os.path.join(root, d["append_to"])
        txt = open(p).read()
        idx = txt.rindex("}")
        txt = txt[:idx] + "\n" + test + "\n}\n"
        open(p, "w").write(txt)
        cmd = ["cargo", "kani", "playback", "-Z", "concrete-playback", "--", tname]
        if d.get("features"):
            cmd[3:3] = ["--features", d["features"]]
        p = subprocess.run(cmd, cwd=root, env=kani_env(), capture_output=True, text=True)
        print(p.stdout[-3000:])
        print(p.stderr[-3000:])
        ok = ("test result: FAILED" in p.stdout) or ("panicked" in p.stdout + p.stderr)
        print("replay: violation reproduced on the real code" if ok else "replay: NOT reproduced")
        return 1 if ok else 0
    else:
        # verus obligation: re-run the unit and report whether the obligation still fails
        sys.path.insert(0, os.path.join(VERIF, "tools"))
        import driver
        ur = driver.run_unit(d["unit"], threads=8)
        still = [o for o in ur.failed if o["name"] == d["obligation"]]
        print(f"obligation {d['obligation']}: {'STILL FAILS' if still else 'discharged now'}")
        for t in d.get("verifier_output", []):
            print(t)
        return 1 if still else 0


def demo_findings():
    """run the native demonstration of every known finding against the real code (cargo test in an overlay)"""
    sys.path.insert(0, os.path.join(VERIF, "tools"))
    import driver
    kf = driver.load_known()
    tests = []
    for k in kf["findings"]:
        demo = k.get("demo")
        if demo:
            tests.append((demo["append_to"], open(os.path.join(VERIF, demo["file"])).read()))
    if not tests:
        print("no demos")
        return 0
    root = make_overlay({}, extra_tests=tests, kani=False)
    env = dict(os.environ)
    env["CARGO_NET_OFFLINE"] = "true"
    env["CARGO_TARGET_DIR"] = os.path.join(CACHE, "target-native")
    p = subprocess.run(["cargo", "test", "--offline", "--lib", "--features", "dates", "verif_demo"], cwd=root, env=env, capture_output=True, text=True)
    print(p.stdout[-6000:])
    if p.returncode != 0:
        print(p.stderr[-3000:])
    shutil.rmtree(os.path.dirname(root), ignore_errors=True)
    return p.returncode
