#!/usr/bin/env python3
"""driver.py -- decide a property: splice its units, run Verus / Kani, name obligations,
compare with known findings, write evidence, print VIOLATION / KNOWN-FINDING lines.

usage: check <Cxx> [--tier quick|thorough] [--replay FILE]
       check --unit <unit> [-v]          (development: show every failing obligation of a unit)
       check --demo-findings             (run the native demonstrations of all known findings)
exit: 0 property held on everything explored; 1 violation; 2 undecided (lost anchor, rlimit, tool error)
"""
import json, os, re, subprocess, sys, time, hashlib, shutil, tempfile, concurrent.futures as cf

VERIF = os.path.dirname(os.path.dirname(os.path.abspath(__file__)))
sys.path.insert(0, os.path.join(VERIF, "tools"))
import splice  # noqa: E402

REPO = os.environ.get("VERIF_REPO", "/repo")
WORK = os.environ.get("VERIF_WORK") or os.path.join(VERIF, ".work")
VERUS = shutil.which("verus") or "verus"
RLIMIT = int(os.environ.get("VERIF_RLIMIT", "40"))

VERIF_MSGS = [
    (re.compile(r"^postcondition not satisfied"), "post"),
    (re.compile(r"^unable to prove post-condition of closure"), "post"),
    (re.compile(r"^precondition not satisfied"), "pre"),
    (re.compile(r"^precondition not met"), "pre"),  # verus wording for slice/array `s[i]` index obligations
    (re.compile(r"^possible arithmetic underflow/overflow"), "overflow"),
    (re.compile(r"^possible division by zero"), "divzero"),
    (re.compile(r"^possible bit shift underflow/overflow"), "shift"),
    (re.compile(r"^assertion failed"), "assert"),
    (re.compile(r"^invariant not satisfied before loop"), "inv-entry"),
    (re.compile(r"^invariant not satisfied at end of loop body"), "inv-step"),
    (re.compile(r"^loop invariant not satisfied"), "inv"),
    (re.compile(r"^decreases not satisfied"), "termination"),
    (re.compile(r"^could not prove termination"), "termination"),
    (re.compile(r"^recursive function|^decreases"), "termination"),
    (re.compile(r"^unreachable|^call to .*unreachable|^panic|^explicit panic"), "panic"),
    (re.compile(r"^cannot show invariant|^failed to|^index out of bounds"), "assert"),
]
UNDECIDED_MSGS = [re.compile(r"[Rr]esource limit|rlimit"), re.compile(r"timed? ?out")]
INHERIT = {}
IMPLICIT_KINDS = {"overflow", "divzero", "shift", "pre-implicit", "panic", "termination", "assert-src", "pre-call"}


def norm(s, n=100):
    s = re.sub(r"\s+", " ", s).strip()
    return s if len(s) <= n else s[: n - 3] + "..."


class UnitRun:
    def __init__(self, unit):
        self.unit = unit
        self.failed = []  # list of obligation dicts
        self.undecided = []  # list of strings
        self.functions = []  # per-function results from verus
        self.log = None
        self.verified = 0
        self.errors = 0
        self.wall = 0.0
        self.smt_ms = 0
        self.cmd = ""
        self.canary_failed = False
        self.raw = ""
        self.labels = []
        self.trusted = []


def seg_at(segs, off):
    lo, hi = 0, len(segs) - 1
    while lo <= hi:
        m = (lo + hi) // 2
        s = segs[m]
        if off < s["start"]:
            hi = m - 1
        elif off >= s["end"]:
            lo = m + 1
        else:
            return s
    return None


def label_before(gen, seg, off):
    """nearest `//# label` line preceding byte offset off inside the contract segment"""
    chunk = gen[seg["start"] : off].decode("utf-8", "replace")
    ms = re.findall(r"//#\s*(\S+)", chunk)
    return ms[-1] if ms else None


def enclosing_fn(gen, off):
    chunk = gen[:off].decode("utf-8", "replace")
    ms = list(re.finditer(r"\bfn\s+(\w+)", chunk))
    return ms[-1].group(1) if ms else "?"


def scan_trusted(text):
    """mechanical scan of the generated file for everything that is assumed rather than proved"""
    out = []
    for m in re.finditer(r"assume_specification\s*(?:<[^>]*>\s*)?\[\s*([^\]]+?)\s*\]", text):
        out.append("assume_specification[" + norm(m.group(1), 80) + "]")
    for m in re.finditer(r"#\[verifier::external_body\]\s*(?:#\[[^\]]*\]\s*)*(pub\s+)?(?:open\s+|closed\s+)?(?:proof\s+|spec\s+|exec\s+)?(fn|struct)\s+(\w+)", text):
        out.append(f"external_body {m.group(2)} {m.group(3)}")
    for m in re.finditer(r"\buninterp\s+spec\s+fn\s+(\w+)", text):
        out.append(f"uninterp spec fn {m.group(1)}")
    for m in re.finditer(r"\b(admit|assume)\s*\(", text):
        if "/* R16:" in text[m.start() : m.start() + 60]:
            # splice rule R16 (case split of a `match`): the arm is cut in this copy and verified in another copy; splice checks the cover
            out.append("R16 case_split: assume(false) at the start of the match arms that are verified in another copy of the function (cover checked by splice)")
            continue
        out.append(f"{m.group(1)}() at byte {m.start()}")
    for m in re.finditer(r"#\[verifier::external_type_specification\][^;]*?struct\s+(\w+)\s*(?:<[^>]*>)?\s*\(([^)]*)\)", text):
        out.append(f"external_type_specification {m.group(2).strip()}")
    for m in re.finditer(r"#\[verifier::external\]", text):
        out.append(f"verifier::external at byte {m.start()}")
    for m in re.finditer(r"\baxiom\s+fn\s+(\w+)|broadcast\s+(?:proof\s+)?fn\s+(axiom_\w+)", text):
        out.append(f"axiom {m.group(1) or m.group(2)}")
    return sorted(set(out))


def _parse_diagnostics(ur, unit, stderr, gen, gen_path, segs, fnprops, seen, sink=None):
    """turn Verus' JSON diagnostics into named obligations (appended to ur.failed, or to `sink` when given)"""
    for line in stderr.split("\n"):
        line = line.strip()
        if not line.startswith("{"):
            continue
        try:
            d = json.loads(line)
        except Exception:
            continue
        if d.get("level") not in ("error",):
            continue
        msg = d.get("message", "")
        if msg.startswith("aborting due to"):
            continue
        kind = None
        for rx, k in VERIF_MSGS:
            if rx.search(msg):
                kind = k
                break
        prim = [s for s in d.get("spans", []) if s.get("is_primary")]
        sec = [s for s in d.get("spans", []) if not s.get("is_primary")]
        gname = os.path.basename(gen_path)
        if kind is None:
            if any(rx.search(msg) for rx in UNDECIDED_MSGS):
                where = enclosing_fn(gen, prim[0]["byte_start"]) if prim and prim[0]["file_name"].endswith(gname) else "?"
                ur.undecided.append(f"{unit}/{where}: {msg}")
            else:
                loc = f"{prim[0]['file_name']}:{prim[0]['line_start']}" if prim else ""
                ur.undecided.append(f"{unit}: verifier rejected the file (not a proof failure): {norm(msg, 200)} {loc}")
            continue
        if prim and not prim[0]["file_name"].endswith(gname):
            # (additive, unit apiglue) a proof failure whose primary span lies inside a std macro expansion (`unimplemented!()`, `panic!`,
            # `unreachable!()` in the real text): name it by the macro call site in the generated file instead of giving up
            _s = prim[0]
            while _s is not None and not _s["file_name"].endswith(gname):
                _s = (_s.get("expansion") or {}).get("span")
            if _s is not None:
                prim = [_s] + prim[1:]
        if not prim or not prim[0]["file_name"].endswith(gname):
            ur.undecided.append(f"{unit}: diagnostic outside generated file: {norm(msg,200)}")
            continue
        ps = prim[0]
        pseg = seg_at(segs, ps["byte_start"]) or {"type": "?"}
        ptext = gen[ps["byte_start"] : ps["byte_end"]].decode("utf-8", "replace")
        if pseg.get("type") == "canary":
            ur.canary_failed = True
            continue
        ob = {"unit": unit, "kind": kind, "msg": msg, "line": ps["line_start"], "span": (ps["byte_start"], ps["byte_end"])}
        # which function does the obligation belong to?
        if kind in ("post", "inv-entry", "inv-step", "inv"):
            # primary span = the clause; belongs to the fn whose contract it is
            if pseg.get("type") == "contract":
                ob["fn"] = pseg["fn"]
                ob["label"] = label_before(gen, pseg, ps["byte_start"]) or norm(ptext, 70)
            else:
                ob["fn"] = enclosing_fn(gen, ps["byte_start"])
                ob["label"] = norm(ptext, 70)
            ob["origin"] = pseg.get("type")
            ob["detail"] = ob["label"]
            exits = [norm(gen[s["byte_start"] : s["byte_end"]].decode("utf-8", "replace"), 60) for s in sec if s["file_name"].endswith(gname)]
            ob["exits"] = exits
        elif kind == "pre":
            ob["fn"] = pseg.get("fn") or enclosing_fn(gen, ps["byte_start"])
            ob["origin"] = pseg.get("type")
            callee = None
            for s in sec:
                if s["file_name"].endswith(gname):
                    cseg = seg_at(segs, s["byte_start"]) or {}
                    ctext = gen[s["byte_start"] : s["byte_end"]].decode("utf-8", "replace")
                    if cseg.get("type") == "contract":
                        lab = label_before(gen, cseg, s["byte_start"]) or norm(ctext, 60)
                        callee = f"{cseg['fn']}.{lab}"
                    else:
                        callee = f"{enclosing_fn(gen, s['byte_start'])}.[{norm(ctext, 60)}]"
                else:
                    t = s.get("text") or []
                    ctext = t[0]["text"][t[0]["highlight_start"] - 1 : t[0]["highlight_end"] - 1] if t else ""
                    callee = f"std[{norm(ctext, 60)}]"
            if callee is None:
                callee = "index-in-bounds" if "index" in msg else "builtin"
            ob["kind"] = "pre-call" if not (callee.startswith("std[") or callee in ("index-in-bounds", "builtin")) else "pre-implicit"
            ob["detail"] = f"{callee} @ {norm(ptext, 70)}"
        else:
            ob["fn"] = pseg.get("fn") or enclosing_fn(gen, ps["byte_start"])
            ob["origin"] = pseg.get("type")
            if kind == "assert" and pseg.get("type") == "src":
                ob["kind"] = "assert-src"
            if kind == "assert" and pseg.get("type") == "contract":
                lab = label_before(gen, pseg, ps["byte_start"])
                ob["label"] = lab
            ob["detail"] = norm(ptext, 90)
        ob["name"] = f"{unit}/{ob['fn']}/{ob['kind']}:{ob['detail']}"
        # property attribution
        lab = ob.get("label") or ""
        m = re.match(r"((?:C\d\d,?)+)\.", lab)
        f = fnprops.get(ob["fn"])
        if m:
            props = m.group(1).split(",")
        elif f is not None and f["entry"] and ob["kind"] in IMPLICIT_KINDS and ob.get("origin") in ("src", "rewrite", "annot"):
            props = ["C06"]
        elif f is not None and f["props"]:
            props = f["props"].split(",")
        elif pseg.get("props"):
            props = pseg["props"].split(",")
        else:
            props = [x for x in ur.log["props"] if x]
        # a failed loop invariant is ASSUMED at every later use of the loop (next iterations, code after the loop), so every clause of
        # this function behind it -- whatever its own label -- is proved only under a now-false fact: the failure is reported under the
        # invariant's own label AND under every property the function serves (`props=` of the `//@@ fn` line).  (For failed spliced
        # assertions the unmasking pass below finds the clauses behind them precisely; an invariant cannot be dropped that way.)
        if ob["kind"] in ("inv-entry", "inv-step", "inv") and f is not None and f["props"]:
            props = list(dict.fromkeys(list(props) + [x for x in f["props"].split(",") if x]))
        # a callee inherits the properties of the labelled functions that call it directly (tools/propclosure.py): their proofs use this
        # function's contract, so a failure here is reported under those properties too (only in units that are run for them anyway)
        if f is not None and INHERIT:
            inh = INHERIT.get((f.get("file"), ob["fn"].split("@")[0]))
            if inh:
                props = list(dict.fromkeys(list(props) + sorted(inh)))
                ob["inherited_props"] = sorted(inh)
        ob["props"] = props
        if ob["name"] in seen:
            if ob.get("exits"):
                seen[ob["name"]].setdefault("exits", []).extend(ob["exits"])
            continue
        seen[ob["name"]] = ob
        ur.failed.append(ob)


def _unmask_pass(ur, unit, cmd, gen, gen_path, segs, fnprops, seen, env, oj):
    """Verus ASSUMES a failed `assert` for the rest of the function, so obligations behind it are only proved under a now-false fact.
    When a spliced (contract-text) assertion fails that is labelled for fewer properties than its function serves, re-verify the unit once
    with exactly those assertions replaced by `assert(true)`: clauses that then fail were masked, and are reported under their own labels
    (`unmasked_after`). Assertions registered as known findings are never unmasked (their consequences are the recorded defect)."""
    if ur.undecided or not oj:
        return
    try:
        reg = set()
        fp = os.path.join(VERIF, "findings", unit + ".json")
        if os.path.exists(fp):
            for k in json.load(open(fp)).get("findings", []):
                reg.update(k.get("obligations", []))
    except Exception:
        reg = set()
    def pick(obs, done):
        out = []
        for ob in obs:
            if ob["kind"] != "assert" or ob.get("origin") not in ("contract", "annot") or ob["name"] in reg or not ob.get("span") or ob["name"] in done:
                continue
            f = fnprops.get(ob["fn"])
            fp_ = set((f or {}).get("props", "").split(",")) - {""} if f else set()
            if fp_ - set(ob["props"]) and ob["span"][1] - ob["span"][0] >= 4:
                out.append(ob)
        return out

    done = {}
    new = pick(ur.failed, done)
    g2 = bytearray(gen)
    p2 = gen_path[:-3] + "_unmask.rs"
    cmd2 = [p2 if c == gen_path else c for c in cmd]
    for _round in range(4):  # a chain of assertions each assumed by the next: peel one layer per round
        if not new:
            break
        for ob in new:
            a, b = ob["span"]
            g2[a:b] = b"true" + b" " * (b - a - 4)
            done[ob["name"]] = ob
        open(p2, "wb").write(bytes(g2))
        q = subprocess.run(cmd2, capture_output=True, text=True, cwd=WORK, env=env)
        try:
            json.loads(q.stdout)
        except Exception:
            return
        u2 = UnitRun(unit)
        u2.log = ur.log
        _parse_diagnostics(u2, unit, q.stderr.replace(os.path.basename(p2), os.path.basename(gen_path)), bytes(g2), gen_path, segs, fnprops, {})
        if u2.undecided:
            return
        masked_fns = {ob["fn"] for ob in done.values()}
        fresh = []
        for ob in u2.failed:
            if ob["name"] in seen or ob["fn"] not in masked_fns or ob["name"] in reg:
                continue
            ob["unmasked_after"] = sorted(c["name"] for c in done.values() if c["fn"] == ob["fn"])
            seen[ob["name"]] = ob
            ur.failed.append(ob)
            fresh.append(ob)
        new = pick(fresh, done)


def run_unit(unit, threads=4, extra_args=None, rlimit=None, rlimit_scale=1.0):
    ur = UnitRun(unit)
    t0 = time.time()
    udir = os.path.join(VERIF, "units", unit)
    os.makedirs(WORK, exist_ok=True)
    gen_path = os.path.join(WORK, f"{unit}.rs" if rlimit_scale == 1.0 else f"{unit}_stab.rs")
    try:
        ur.log = splice.build(udir, gen_path)
    except splice.LostAnchor as e:
        ur.undecided.append(f"lost anchor: {e}")
        ur.wall = time.time() - t0
        return ur
    gen = open(gen_path, "rb").read()
    gmap = json.load(open(gen_path + ".map.json"))
    segs = gmap["segments"]
    ur.trusted = scan_trusted(gen.decode("utf-8", "replace")) + ur.log["trusted"]
    ur.labels = sorted(set(re.findall(r"//#\s*(\S+)", gen.decode("utf-8", "replace"))))
    # per-unit resource limit: `//@@ unit props=.. rlimit=N` (units whose functions carry many *known failing* obligations need a
    # larger budget, because Verus re-solves once per reported error); never lower than the global default
    try:
        _m = re.search(r"//@@ unit\b[^\n]*\brlimit=(\d+)", open(os.path.join(udir, "unit.rs")).read(4000))
        if _m and not rlimit:
            rlimit = max(int(_m.group(1)), RLIMIT)
    except Exception:
        pass
    cmd = [VERUS, gen_path, "--error-format=json", "--output-json", "--time-expanded", "--multiple-errors", "200",
           "--rlimit", str(max(1, int((rlimit or RLIMIT) * rlimit_scale))), "--num-threads", str(threads)] + (extra_args or [])
    ur.cmd = " ".join(cmd)
    env = dict(os.environ)
    p = subprocess.run(cmd, capture_output=True, text=True, cwd=WORK, env=env)
    ur.raw = p.stderr
    try:
        oj = json.loads(p.stdout)
    except Exception:
        oj = None
    fnprops = {f["item"]: f for f in ur.log["functions"]}
    seen = {}
    _parse_diagnostics(ur, unit, p.stderr, gen, gen_path, segs, fnprops, seen)
    _unmask_pass(ur, unit, cmd, gen, gen_path, segs, fnprops, seen, env, oj)
    if oj:
        vr = oj.get("verification-results", {})
        ur.verified = vr.get("verified", 0)
        ur.errors = vr.get("errors", 0)
        if vr.get("encountered-vir-error"):
            ur.undecided.append(f"{unit}: verus VIR error (unsupported construct)")
        tm = oj.get("times-ms", {})
        ur.smt_ms = tm.get("smt", {}).get("smt-run", 0)
        for mt in tm.get("smt", {}).get("smt-run-module-times", []):
            for fb in mt.get("function-breakdown", []):
                ur.functions.append({"function": fb["function"], "success": fb["success"], "ms": fb["time"], "rlimit": fb["rlimit"]})
    else:
        if not ur.undecided:
            ur.undecided.append(f"{unit}: verus produced no JSON result (exit {p.returncode}): {norm(p.stderr[-400:], 400)}")
    if oj and not ur.canary_failed and not ur.undecided:
        ur.undecided.append(f"{unit}: vacuity canary `ensures false` was NOT rejected -- assumed contracts are inconsistent")
    # a function verus reports as failed but for which we named no obligation -> undecided
    named_fns = {o["fn"].split("::")[-1].split("@")[0] for o in ur.failed}
    for f in ur.functions:
        short = f["function"].split("::")[-1]
        if not f["success"] and short not in named_fns and short != "__verif_canary":
            if not any(short in u for u in ur.undecided):
                ur.undecided.append(f"{unit}/{short}: verification failed without a nameable obligation")
    ur.wall = time.time() - t0
    return ur


def ready():
    """units / kani modules that are integrated (tools/ready.json); others are under construction and only run with --unit / krun"""
    p = os.path.join(VERIF, "tools", "ready.json")
    if os.environ.get("VERIF_INCLUDE_WIP") or not os.path.exists(p):
        return None
    return json.load(open(p))


def units_for(prop):
    out = []
    rd = ready()
    for u in sorted(os.listdir(os.path.join(VERIF, "units"))):
        if rd is not None and u not in rd["units"]:
            continue
        t = os.path.join(VERIF, "units", u, "unit.rs")
        if not os.path.exists(t):
            continue
        head = open(t).read(4000)
        m = re.search(r"//@@ unit\s+props=(\S+)", head)
        if m and prop in m.group(1).split(","):
            out.append(u)
    return out


def load_known():
    """known findings: committed files findings/*.json ({"findings": [...], "fixed": [...]}); never written at run time"""
    out = {"findings": [], "fixed": []}
    fd = os.path.join(VERIF, "findings")
    for fn in sorted(os.listdir(fd)) if os.path.isdir(fd) else []:
        if fn.endswith(".json"):
            d = json.load(open(os.path.join(fd, fn)))
            for k in d.get("findings", []):
                k.setdefault("unit", fn[:-5])
            out["findings"] += d.get("findings", [])
            out["fixed"] += d.get("fixed", [])
    return out


def write_replay(prop, ob, ur):
    os.makedirs(os.path.join(VERIF, "replay"), exist_ok=True)
    h = hashlib.sha256(ob["name"].encode()).hexdigest()[:10]
    path = os.path.join(VERIF, "replay", f"{prop}-{h}.json")
    # verifier output for this obligation
    outp = []
    for line in ur.raw.split("\n"):
        if line.startswith("{"):
            try:
                d = json.loads(line)
            except Exception:
                continue
            if d.get("rendered") and any(s.get("line_start") == ob["line"] for s in d.get("spans", [])):
                outp.append(d["rendered"])
    json.dump({"property": prop, "obligation": ob["name"], "kind": ob["kind"], "function": ob["fn"], "unit": ob["unit"],
               "backend": "verus", "failing_input": None, "verifier_output": outp, "replay_cmd": f"./check {prop} --replay {path}"},
              open(path, "w"), indent=1)
    return path


def decide(prop, tier, seed):
    import kani_run
    t0 = time.time()
    units = units_for(prop)
    global INHERIT
    try:
        import propclosure
        rd_ = ready()
        os.makedirs(WORK, exist_ok=True)
        INHERIT = propclosure.compute(REPO, WORK, rd_["units"] if rd_ else sorted(os.listdir(os.path.join(VERIF, "units"))))["inherited"]
        INHERIT = {k: set(v) for k, v in INHERIT.items()}
    except Exception as e:  # never let the refinement break a check
        INHERIT = {}
        print(f"NOTE: property inheritance not computed ({e})")
    known = load_known()
    kf = [k for k in known["findings"] if k["property"] == prop]
    kf_obl = {o: k for k in kf for o in k["obligations"]}
    # an obligation registered under ANOTHER property's finding stays a known finding when it is (also) attributed to this property
    for k in known["findings"]:
        for o in k["obligations"]:
            kf_obl.setdefault(o, k)
    results = []
    nthreads = max(2, 16 // max(1, len(units)))
    with cf.ThreadPoolExecutor(max_workers=8) as ex:
        futs = {ex.submit(run_unit, u, nthreads): u for u in units}
        for f in cf.as_completed(futs):
            results.append(f.result())
    results.sort(key=lambda r: r.unit)
    unstable = []
    if tier == "thorough":
        # stability re-run: half the resource limit and a different solver seed; an obligation that only passes at the
        # full limit is reported as unstable (exit code unaffected)
        with cf.ThreadPoolExecutor(max_workers=8) as ex:
            futs = {ex.submit(run_unit, u, nthreads, ["--smt-option", f"smt.random_seed={seed + 1}"], None, 0.5): u for u in units}
            first = {r.unit: {o["name"] for o in r.failed} | set(r.undecided) for r in results}
            for f in cf.as_completed(futs):
                r2 = f.result()
                for o in r2.failed:
                    if o["name"] not in first.get(r2.unit, set()):
                        unstable.append(o["name"])
                for u in r2.undecided:
                    if u not in first.get(r2.unit, set()):
                        unstable.append("undecided at half rlimit: " + u)
        for u in unstable:
            print(f"UNSTABLE: {u}")
    kres = kani_run.run_for(prop, tier, frozenset(kf_obl))
    violations, knowns, undecided = [], [], []
    obligations = 0
    discharged = 0
    fn_list, trusted, rewrites, samples = [], set(), [], []
    items_known = []
    smt_ms = 0
    for ur in results:
        undecided += ur.undecided
        if ur.log:
            for f in ur.log["functions"]:
                if prop in (f["props"].split(",") if f["props"] else ur.log["props"]) or (prop == "C06" and f["entry"]):
                    fn_list.append({k: f[k] for k in ("file", "item", "sha256", "lines", "entry")} | {"unit": ur.unit})
            rewrites += [{**r, "unit": ur.unit} for r in ur.log["rewrites"]]
        trusted |= {f"{ur.unit}: {t}" for t in ur.trusted}
        smt_ms += ur.smt_ms
        mine = [o for o in ur.failed if prop in o["props"]]
        # obligations: one per Verus verification item (a real function under contract with all of its implicit and
        # explicit VCs, a lemma, a spec-fn termination check).  An item that fails only through obligations attributed to
        # *other* properties, or only through registered known findings, is not counted (it is listed separately).
        items = [f for f in ur.functions if not f["function"].endswith("__verif_canary")]
        by_fn = {}
        for o in ur.failed:
            by_fn.setdefault(o["fn"].split("::")[-1].split("@")[0], []).append(o)
        for f in items:
            short = f["function"].split("::")[-1]
            if f["success"]:
                obligations += 1
                discharged += 1
                continue
            fails = by_fn.get(short, [])
            mine_here = [o for o in fails if prop in o["props"]]
            if not mine_here:
                continue  # failed for another property's reasons only
            if all(o["name"] in kf_obl for o in mine_here):
                items_known.append(f"{ur.unit}/{short}")
                continue
            obligations += 1
            if os.environ.get("VERIF_DEBUG"):
                print("DEBUG counted-undischarged", ur.unit, f["function"], [o["name"] for o in mine_here if o["name"] not in kf_obl])
        for o in mine:
            if o["name"] in kf_obl:
                knowns.append((o, kf_obl[o["name"]]))
            else:
                violations.append((o, ur))
        samples += [f"{ur.unit}/{f['function'].split('::')[-1]}: discharged ({f['ms']} ms, rlimit {f['rlimit']})" for f in items if f["success"]][:6]
    # kani
    for kr in kres:
        undecided += kr.get("undecided", [])
        for o in kr.get("failed", []):
            if o["name"] in kf_obl:
                knowns.append((o, kf_obl[o["name"]]))
            else:
                violations.append((o, None))
        trusted |= set(kr.get("trusted", []))
    k_complete = [h for kr in kres for h in kr.get("harnesses", []) if h["kind"] == "complete"]
    k_bounded = [h for kr in kres for h in kr.get("harnesses", []) if h["kind"] == "bounded"]
    known_kani = {o["name"] for o, _k in knowns if o.get("kind") == "kani"}
    for h in k_complete:
        nm = f"kani/{h.get('module')}/{h.get('obligation', h['name'])}"
        if h["status"] != "SUCCESS" and nm in known_kani:
            items_known.append(nm)  # a complete harness failing only through a registered known finding is not counted
            continue
        obligations += 1
        discharged += 1 if h["status"] == "SUCCESS" else 0
    samples += [f"kani:{h['name']}: {h['status']} ({h['checks']} checks, {h['time_s']}s)" for h in k_complete[:4]]
    known_failed_items = 0
    # report
    printed = set()
    for o, k in knowns:
        key = k["what"]
        if key in printed:
            continue
        printed.add(key)
        print(f"KNOWN-FINDING: property={prop} {k['what']} [input: {k.get('input','')}]")
    # findings registered with a native demonstration only (no verifier obligation can express them with the functions
    # under contract): always listed, so that the known defect is visible on every run
    rd = ready()
    for k in kf:
        if not k.get("obligations") and k["what"] not in printed:
            unit_of = k.get("unit")
            if rd is not None and unit_of and unit_of not in rd["units"] and unit_of not in rd["kani"]:
                continue
            printed.add(k["what"])
            print(f"KNOWN-FINDING: property={prop} {k['what']} [native demonstration only; input: {k.get('input','')}]")
    # known findings count as obligations that are NOT discharged: evidence must stay honest
    vio_lines = []
    for o, ur in violations:
        if ur is not None:
            path = write_replay(prop, o, ur)
            vio_lines.append(f"VIOLATION property={prop} replay={path} obligation={o['name']!r} no-failing-input-found")
        else:
            vio_lines.append(f"VIOLATION property={prop} replay={o['replay']} obligation={o['name']!r}" + ("" if o.get("has_input") else " no-failing-input-found"))
    for l in vio_lines:
        print(l)
    for u in undecided:
        print(f"UNDECIDED: {u}")
    wall = time.time() - t0
    n_known_obl = len(knowns)
    level = "proof"
    ev = {
        "property_id": prop,
        "tier": tier,
        "seed": seed,
        "level": level,
        "coverage": {
            "obligations": obligations,
            "discharged": discharged,
            "checker_cmd": "; ".join([r.cmd for r in results if r.cmd] + [c for kr in kres for c in kr.get("cmds", [])][:3]) or "none",
            "trusted_base": sorted(trusted),
            "explanation": "obligations = Verus verification items (each real function under contract with all its implicit and explicit VCs, each lemma) + complete Kani harnesses; bounded Kani harnesses are listed under bounded_checks and not counted",
            "functions_under_contract": fn_list,
            "backends": {"verus": {"units": [r.unit for r in results], "items": sum(len(r.functions) for r in results), "smt_ms": smt_ms},
                         "kani": {"complete": len(k_complete), "bounded": len(k_bounded), "harnesses": [h for kr in kres for h in kr.get("harnesses", [])]}},
            "bounded_checks": [{"name": h["name"], "bound": h.get("bound"), "status": h["status"]} for h in k_bounded],
            "labelled_clauses": sorted({l for r in results for l in r.labels}),
            "rewrites_applied": rewrites,
            "items_failing_only_by_known_findings": items_known,
            "known_findings_matched": [{"obligation": o["name"], "what": k["what"]} for o, k in knowns],
            "failed_obligations": [o["name"] for o, _ in violations],
            "undecided": undecided,
            "unstable_at_half_rlimit_other_seed": unstable,
            "samples": samples[:12] or ["none"],
        },
        "assumptions": sorted(trusted)[:200],
        "wall_s": round(wall, 2),
        "violations": len(violations),
    }
    # evidence/ describes runs against /repo itself; a run against another tree (VERIF_REPO: seeded / harmless-change experiments on
    # scratch copies) must not overwrite it and leaves its record in its own work directory
    evdir = os.path.join(VERIF, "evidence") if os.path.realpath(REPO) == "/repo" else os.path.join(WORK, "evidence")
    os.makedirs(evdir, exist_ok=True)
    json.dump(ev, open(os.path.join(evdir, f"{prop}.json"), "w"), indent=1)
    if violations:
        return 1
    if undecided:
        return 2
    if obligations == 0:
        print(f"UNDECIDED: {prop}: zero obligations generated")
        return 2
    print(f"OK property={prop} obligations={obligations} discharged={discharged} known_findings={len(printed)} wall={wall:.1f}s")
    return 0


def main():
    a = sys.argv[1:]
    if not a:
        print(__doc__)
        return 64
    if a[0] == "--unit":
        ur = run_unit(a[1], threads=8)
        for o in ur.failed:
            print("FAILED", ",".join(o["props"]), o["name"], ("exits=" + str(o.get("exits"))) if "-v" in a and o.get("exits") else "")
        for u in ur.undecided:
            print("UNDECIDED", u)
        for f in ur.functions:
            print(("ok  " if f["success"] else "FAIL"), f["function"], f["ms"], "ms rlimit", f["rlimit"])
        print(f"verified={ur.verified} errors={ur.errors} canary_failed={ur.canary_failed} wall={ur.wall:.1f}s")
        if "-v" in a:
            for line in ur.raw.split("\n"):
                if line.startswith("{"):
                    try:
                        print(json.loads(line).get("rendered", ""))
                    except Exception:
                        pass
        return 0
    if a[0] == "--demo-findings":
        import kani_run
        return kani_run.demo_findings()
    prop = a[0]
    global WORK
    if not os.environ.get("VERIF_WORK"):
        WORK = os.path.join(VERIF, ".work", "check_" + prop)  # do not disturb `--unit` development runs
    tier = os.environ.get("VERIF_TIER", "quick")
    if "--tier" in a:
        tier = a[a.index("--tier") + 1]
    seed = int(os.environ.get("VERIF_SEED", "0"))
    if "--replay" in a:
        import kani_run
        return kani_run.replay(prop, a[a.index("--replay") + 1])
    return decide(prop, tier, seed)


if __name__ == "__main__":
    sys.exit(main())
