#!/usr/bin/env python3
"""krun.py <harness>... [--features F] [--playback] : run named Kani harnesses through the overlay, print results"""
import sys, os, json, time, re, shutil
sys.path.insert(0, os.path.dirname(os.path.abspath(__file__)))
import kani_run
a = sys.argv[1:]
feats = ""
if "--features" in a:
    i = a.index("--features"); feats = a[i + 1]; del a[i:i + 2]
pb = "--playback" in a
a = [x for x in a if not x.startswith("--")]
hs = [h for h in kani_run.load_harnesses() if h["name"] in a]
missing = set(a) - {h["name"] for h in hs}
if missing:
    print("not registered in kani/*.json:", missing); sys.exit(2)
root = kani_run.make_overlay(kani_run.all_modules({h["module"] for h in hs}))
to = max(h.get("timeout", 300) for h in hs) + 120
cmd, out, timed_out, wall = kani_run.run_group(root, hs, feats or hs[0].get("features", ""), to)
log = os.path.join(kani_run.VERIF, ".work", f"krun_{os.getpid()}.log")
os.makedirs(os.path.dirname(log), exist_ok=True)
open(log, "w").write(out)
res = kani_run.parse_kani_output(out)
print(cmd)
for h in hs:
    r = res.get(h["name"])
    print(h["name"], json.dumps(r) if r else ("TIMEOUT" if timed_out else "NO RESULT (build error? see log)"))
    if r and r["status"] == "FAILED" and pb:
        print(kani_run.playback_for(root, h, feats or h.get("features", "")))
if not res:
    errs = re.findall(r"(error(?:\[E\d+\])?: .*?)\n\s*\n", out, re.S)
    print("\n".join(errs[:10]))
print(f"wall {wall:.1f}s log {log}")
shutil.rmtree(os.path.dirname(root), ignore_errors=True)
