#!/usr/bin/env python3
"""mkseed_table.py -- regenerate DESIGN.md section 11.6 (between `<!-- SEED-TABLE:BEGIN -->` / `<!-- SEED-TABLE:END -->`) from
seeded/RESULTS.json (written by tools/seed_matrix.py) and seeded/<id>/meta.json."""
import json, os, glob
V = os.path.dirname(os.path.dirname(os.path.abspath(__file__)))
res = json.load(open(V + "/seeded/RESULTS.json"))
rows, n = [], {"caught": 0, "undecided": 0, "missed": 0, "other": 0}
cut = lambda s, k: ((s[: k - 1] + "…") if len(s) > k else s).replace("|", "\\|").replace("\n", " ")
for d in sorted(glob.glob(V + "/seeded/C*_*/")):
    i = os.path.basename(d.rstrip("/"))
    m = json.load(open(d + "meta.json"))
    r = res.get(i, {})
    site = m.get("site", "")
    what = cut(" ".join(str(m.get("summary", "")).split()), 150)
    if m.get("obsolete"):
        verdict, by = "obsolete", cut(m["obsolete"], 120); n["other"] += 1
    elif r.get("exit") == 1:
        verdict = "caught" + ("" if r.get("with_counterexample") else " (no-failing-input-found)")
        by = cut("; ".join(r.get("violations", [])[:2]), 170); n["caught"] += 1
    elif r.get("exit") == 2:
        verdict, by = "undecided (exit 2)", cut("; ".join(r.get("undecided", [])[:1]), 170); n["undecided"] += 1
    elif r.get("exit") == 0:
        verdict, by = "MISSED", ""; n["missed"] += 1
    else:
        verdict, by = "not run", cut(str(r.get("note", "")), 100); n["other"] += 1
    rows.append(f"| {i} | {cut(site, 60)} | {what} | {verdict} | {by} |")
txt = (f"{len(rows)} seeded changes: **{n['caught']} caught** (exit 1, named obligation), **{n['undecided']} undecided** (exit 2: the change restructures or "
       f"deletes the text a contract is anchored on, or uses a construct the verifier rejects), **{n['missed']} missed** (exit 0), {n['other']} other.\n\n"
       "| seed | site | change | verdict of `./check <property>` | first named obligation / reason |\n|---|---|---|---|---|\n" + "\n".join(rows) + "\n")
p = V + "/DESIGN.md"
s = open(p).read()
B, E = "<!-- SEED-TABLE:BEGIN -->", "<!-- SEED-TABLE:END -->"
if B in s and E in s:
    s = s[: s.index(B) + len(B)] + "\n" + txt + s[s.index(E):]
    open(p, "w").write(s)
    print("DESIGN.md 11.6 regenerated:", n)
else:
    print(txt)
