#!/usr/bin/env python3
"""mkfindings_table.py -- regenerate the two tables of DESIGN.md section 11.4 (between the markers
`<!-- FINDINGS-TABLES:BEGIN -->` and `<!-- FINDINGS-TABLES:END -->`) from findings/*.json."""
import json, glob, os, re, subprocess
V = os.path.dirname(os.path.dirname(os.path.abspath(__file__)))
fixed, known = [], []
for f in sorted(glob.glob(V + "/findings/*.json")):
    unit = os.path.basename(f)[:-5]
    d = json.load(open(f))
    for s in d.get("fixed", []):
        m = re.match(r"fixed: property=(C\d\d) (\S+) (.*)", s, re.S)
        if m:
            fixed.append((m.group(1), m.group(2), unit, " ".join(m.group(3).split())))
    for x in d.get("findings", []):
        demo = "yes" if x.get("demo") else "no (" + (x.get("no_demo_reason") or "deductive only: see the finding's `input`") + ")"
        known.append((x["property"], unit, " ".join(x["what"].split()), len(x.get("obligations", [])), demo))
fixed.sort()
known.sort()
commits = sorted({c for _, c, _, _ in fixed})
log = subprocess.run(["git", "-C", "/repo", "log", "--format=%h %s", "5863ad5..HEAD"], capture_output=True, text=True).stdout.strip().split("\n")
nfix = sum(1 for l in log if l.split(" ", 1)[1].startswith("fix:"))
cut = lambda s, n: ((s[: n - 1] + "…") if len(s) > n else s).replace("|", "\\|")
out = []
out.append(f"**Repaired ({len(fixed)} entries recorded by the units, {len(commits)} distinct commits named; /repo has {nfix} `fix:` commits on top of the pinned commit):**\n")
out.append("| prop | commit | unit | what failed |\n|---|---|---|---|")
for p, c, u, w in fixed:
    out.append(f"| {p} | {c} | {u} | {cut(w, 240)} |")
out.append("")
out.append(f"**Recorded as known findings ({len(known)} entries; the check prints `KNOWN-FINDING:` and exits 0; any other failing obligation of the same function is still a VIOLATION):**\n")
out.append("| prop | unit | what fails | obligations | native demo |\n|---|---|---|---|---|")
for p, u, w, n, d in known:
    out.append(f"| {p} | {u} | {cut(w, 240)} | {n} | {cut(d, 60)} |")
txt = "\n".join(out) + "\n"
p = V + "/DESIGN.md"
s = open(p).read()
B, E = "<!-- FINDINGS-TABLES:BEGIN -->", "<!-- FINDINGS-TABLES:END -->"
if B in s and E in s:
    s = s[: s.index(B) + len(B)] + "\n" + txt + s[s.index(E):]
    open(p, "w").write(s)
    print("DESIGN.md 11.4 regenerated:", len(fixed), "fixed,", len(known), "known,", nfix, "fix commits")
else:
    print(txt)
