#!/bin/bash
# apply_fix.sh <name>  -- apply /verif/fixes/<name>.diff to /repo as ONE "fix:" commit after checking that the repository's
# own test suite (110 stable tests of /root/.vp/BASELINE.json), unedited, still passes. Prints the commit hash.
set -u
N=$1
cd /repo || exit 2
[ -n "$(git status --porcelain -- src)" ] && { echo "/repo/src dirty"; exit 2; }
git apply /verif/fixes/$N.diff || { echo "patch does not apply"; exit 1; }
CARGO_NET_OFFLINE=true cargo test --workspace --no-fail-fast --offline 2>&1 | grep -E "^test .* \.\.\. " > /tmp/fix_$N.tests
python3 - "$N" <<'PY'
import json,sys,re
base=json.load(open('/root/.vp/BASELINE.json'))['stable_pass']
res={}
for l in open('/tmp/fix_%s.tests'%sys.argv[1]):
    m=re.match(r"test (\S+) \.\.\. (\w+)",l)
    if m: res[m.group(1)]=m.group(2)
bad=[]
for t in base:
    short=t.split('calamine::',1)[1]
    # unit tests are reported as `formats::test_x`, integration tests as `date_xls` etc.
    cands=[k for k in res if k==short or k==short.split('::',1)[-1] or short.endswith('::'+k) or k.endswith(short)]
    if not cands or not all(res[k]=='ok' for k in cands): bad.append((t,[ (k,res[k]) for k in cands]))
print("baseline tests:",len(base),"not passing:",len(bad))
for b in bad[:10]: print("  ",b)
sys.exit(1 if bad else 0)
PY
if [ $? -ne 0 ]; then echo "SUITE BROKEN - reverting"; git checkout -- .; exit 1; fi
git commit -qam "$(cat /verif/fixes/$N.msg)" && H=$(git rev-parse --short HEAD) && echo "COMMITTED $H"
