#!/bin/bash
# apply_and_fill.sh <patchname> [findings-file ...]  -- tools/apply_fix.sh, then write the commit hash into the findings files:
# every `<COMMIT:patchname>` token in findings/*.json, and every plain `<COMMIT>` token in the files named on the command line.
N=$1; shift
OUT=$(bash /verif/tools/apply_fix.sh "$N" 2>&1); echo "$OUT" | tail -2
H=$(echo "$OUT" | grep -oE "COMMITTED [0-9a-f]+" | cut -d' ' -f2)
[ -z "$H" ] && exit 1
sed -i "s/<COMMIT:$N>/$H/g" /verif/findings/*.json
for f in "$@"; do sed -i "s/<COMMIT>/$H/g" "$f"; done
grep -l "$H" /verif/findings/*.json
