#!/usr/bin/env python3
"""seed_matrix.py [ids...] -- run every seeded change against the check of its property on a scratch copy of /repo
(VERIF_REPO), record exit code and the named obligations in seeded/RESULTS.json (and a table for DESIGN.md)."""
import json, os, subprocess, sys, glob, re, shutil
V = os.environ.get("SEED_V", "/verif")  # SEED_V: a snapshot of /verif; SEED_BASE: the tree the patches are applied to
BASE = os.environ.get("SEED_BASE", "/repo")
ids = sys.argv[1:] or sorted(os.path.basename(d.rstrip("/")) for d in glob.glob(V + "/seeded/C*_*/"))
resp = os.path.join("/verif", "seeded", "RESULTS.json")
res = json.load(open(resp)) if os.path.exists(resp) else {}
for i in ids:
    prop = i.split("_")[0]
    s = f"/tmp/seedrepo_{i}"
    shutil.rmtree(s, ignore_errors=True)
    subprocess.run(["rsync", "-a", "--exclude", "target", "--exclude", ".git", BASE.rstrip("/") + "/", s + "/"], check=True)
    a = subprocess.run(f"cd {s} && git init -q . && git apply /verif/seeded/{i}/patch.diff", shell=True, capture_output=True, text=True)
    if a.returncode != 0:
        res[i] = {"property": prop, "exit": None, "note": "patch does not apply: " + a.stderr[:200]}
        continue
    env = dict(os.environ, VERIF_REPO=s, VERIF_WORK=f"{V}/.work/seed_{i}")
    p = subprocess.run(["./check", prop], cwd=V, env=env, capture_output=True, text=True)
    vio = re.findall(r"^VIOLATION property=\S+ replay=\S+ obligation=(.*?)(?: no-failing-input-found)?$", p.stdout, re.M)
    und = re.findall(r"^UNDECIDED: (.*)$", p.stdout, re.M)
    res[i] = {"property": prop, "exit": p.returncode, "violations": [v.strip("'\"")[:160] for v in vio][:6], "n_violations": len(vio),
              "undecided": [u[:200] for u in und][:3], "with_counterexample": sum(1 for l in p.stdout.split("\n") if l.startswith("VIOLATION") and "no-failing-input-found" not in l)}
    print(i, "exit", p.returncode, (vio[:1] or und[:1] or [""])[0][:140], flush=True)
    shutil.rmtree(s, ignore_errors=True)
    shutil.rmtree(f"{V}/.work/seed_{i}", ignore_errors=True)
    # parallel lanes share the file: merge this seed's entry into what is on disk now
    cur = json.load(open(resp)) if os.path.exists(resp) else {}
    cur[i] = res[i]
    tmp = resp + f".{os.getpid()}.tmp"
    json.dump(cur, open(tmp, "w"), indent=1)
    os.replace(tmp, resp)
