//! rsx: print, for a Rust source file, every item with its path and byte spans.
//!
//! Used by tools/splice.py to copy function text *verbatim* from /repo into a
//! Verus file. Nothing is pretty-printed: only byte offsets into the original
//! file are reported.
//!
//! usage: rsx <file.rs>   -> JSON on stdout
use proc_macro2::{LineColumn, Span};
use quote::ToTokens;
use std::fmt::Write as _;
use syn::spanned::Spanned;
use syn::visit::Visit;

struct Src {
    line_starts: Vec<usize>,
    text: String,
}

impl Src {
    fn new(text: String) -> Self {
        let mut line_starts = vec![0usize];
        for (i, b) in text.bytes().enumerate() {
            if b == b'\n' {
                line_starts.push(i + 1);
            }
        }
        Src { line_starts, text }
    }
    fn off(&self, lc: LineColumn) -> usize {
        let ls = self.line_starts[lc.line - 1];
        let mut n = 0usize;
        let mut off = ls;
        for ch in self.text[ls..].chars() {
            if n == lc.column {
                break;
            }
            n += 1;
            off += ch.len_utf8();
        }
        off
    }
    fn span(&self, s: Span) -> (usize, usize) {
        (self.off(s.start()), self.off(s.end()))
    }
}

fn compact(ts: impl ToTokens) -> String {
    let s = ts.to_token_stream().to_string();
    // token stream printing inserts spaces; remove those not between two identifier chars
    let cs: Vec<char> = s.chars().collect();
    let mut out = String::new();
    for (i, &c) in cs.iter().enumerate() {
        if c == ' ' {
            let prev = if i > 0 { cs[i - 1] } else { ' ' };
            let next = if i + 1 < cs.len() { cs[i + 1] } else { ' ' };
            let idc = |x: char| x.is_alphanumeric() || x == '_' || x == '\'';
            if idc(prev) && idc(next) {
                out.push(' ');
            }
        } else {
            out.push(c);
        }
    }
    out
}

fn jstr(s: &str) -> String {
    let mut o = String::from("\"");
    for c in s.chars() {
        match c {
            '"' => o.push_str("\\\""),
            '\\' => o.push_str("\\\\"),
            '\n' => o.push_str("\\n"),
            '\t' => o.push_str("\\t"),
            '\r' => o.push_str("\\r"),
            c if (c as u32) < 0x20 => {
                let _ = write!(o, "\\u{:04x}", c as u32);
            }
            c => o.push(c),
        }
    }
    o.push('"');
    o
}

struct LoopRec {
    kind: &'static str,
    start: usize,
    body_start: usize,
    end: usize,
    label: Option<String>,
    pat: Option<(usize, usize)>,
    expr: Option<(usize, usize)>,
}

struct ClosureRec {
    // (pat_start, pat_end) of every non-identifier parameter, body span
    pats: Vec<(usize, usize)>,
    body: (usize, usize),
    start: usize,
    block: bool,
}

struct LoopVisitor<'a> {
    src: &'a Src,
    loops: Vec<LoopRec>,
    closures: Vec<ClosureRec>,
}

impl<'a, 'ast> Visit<'ast> for LoopVisitor<'a> {
    fn visit_item_fn(&mut self, _i: &'ast syn::ItemFn) {
        // nested fn items are reported separately
    }
    fn visit_expr_closure(&mut self, e: &'ast syn::ExprClosure) {
        let mut pats = vec![];
        for p in &e.inputs {
            let simple = match p {
                syn::Pat::Ident(pi) => pi.subpat.is_none() && pi.by_ref.is_none(),
                syn::Pat::Type(pt) => matches!(&*pt.pat, syn::Pat::Ident(pi) if pi.subpat.is_none() && pi.by_ref.is_none()),
                _ => false,
            };
            if !simple {
                let sp = match p {
                    syn::Pat::Type(pt) => pt.pat.span(),
                    _ => p.span(),
                };
                pats.push(self.src.span(sp));
            }
        }
        self.closures.push(ClosureRec {
            pats,
            body: self.src.span(e.body.span()),
            start: self.src.span(e.span()).0,
            block: matches!(&*e.body, syn::Expr::Block(_)),
        });
        syn::visit::visit_expr_closure(self, e);
    }
    fn visit_expr_for_loop(&mut self, e: &'ast syn::ExprForLoop) {
        let (s, en) = self.src.span(e.span());
        let start = match &e.label {
            Some(l) => self.src.span(l.span()).0,
            None => self.src.span(e.for_token.span()).0,
        };
        let _ = s;
        self.loops.push(LoopRec {
            kind: "for",
            start,
            body_start: self.src.span(e.body.brace_token.span.open()).0,
            end: en,
            label: e.label.as_ref().map(|l| l.name.ident.to_string()),
            pat: Some(self.src.span(e.pat.span())),
            expr: Some(self.src.span(e.expr.span())),
        });
        syn::visit::visit_expr_for_loop(self, e);
    }
    fn visit_expr_while(&mut self, e: &'ast syn::ExprWhile) {
        let (_, en) = self.src.span(e.span());
        let start = match &e.label {
            Some(l) => self.src.span(l.span()).0,
            None => self.src.span(e.while_token.span()).0,
        };
        self.loops.push(LoopRec {
            kind: "while",
            start,
            body_start: self.src.span(e.body.brace_token.span.open()).0,
            end: en,
            label: e.label.as_ref().map(|l| l.name.ident.to_string()),
            pat: None,
            expr: Some(self.src.span(e.cond.span())),
        });
        syn::visit::visit_expr_while(self, e);
    }
    fn visit_expr_loop(&mut self, e: &'ast syn::ExprLoop) {
        let (_, en) = self.src.span(e.span());
        let start = match &e.label {
            Some(l) => self.src.span(l.span()).0,
            None => self.src.span(e.loop_token.span()).0,
        };
        self.loops.push(LoopRec {
            kind: "loop",
            start,
            body_start: self.src.span(e.body.brace_token.span.open()).0,
            end: en,
            label: e.label.as_ref().map(|l| l.name.ident.to_string()),
            pat: None,
            expr: None,
        });
        syn::visit::visit_expr_loop(self, e);
    }
}

struct Out<'a> {
    src: &'a Src,
    recs: Vec<String>,
}

impl<'a> Out<'a> {
    fn attrs_end(&self, attrs: &[syn::Attribute], item_start: usize) -> usize {
        // byte offset where the item proper (vis / keywords) starts, i.e. after outer attrs + docs
        let mut e = item_start;
        for a in attrs {
            if let syn::AttrStyle::Outer = a.style {
                let (_, en) = self.src.span(a.span());
                if en > e {
                    e = en;
                }
            }
        }
        // skip whitespace
        let b = self.src.text.as_bytes();
        while e < b.len() && (b[e] as char).is_whitespace() {
            e += 1;
        }
        e
    }

    fn attr_list(&self, attrs: &[syn::Attribute]) -> String {
        let v: Vec<String> = attrs
            .iter()
            .filter(|a| !a.path().is_ident("doc"))
            .map(|a| jstr(&compact(&a.meta)))
            .collect();
        format!("[{}]", v.join(","))
    }

    fn emit_fn(
        &mut self,
        path: &str,
        ctx: &str,
        attrs: &[syn::Attribute],
        sig: &syn::Signature,
        block: Option<&syn::Block>,
        whole: Span,
        impl_idx: Option<usize>,
    ) {
        let (s, e) = self.src.span(whole);
        let ae = self.attrs_end(attrs, s);
        let (sig_s, sig_e) = self.src.span(sig.span());
        let mut r = String::new();
        let _ = write!(
            r,
            "{{\"kind\":\"fn\",\"path\":{},\"ctx\":{},\"name\":{},\"start\":{},\"end\":{},\"item_start\":{},\"sig_start\":{},\"sig_end\":{},\"attrs\":{}",
            jstr(path),
            jstr(ctx),
            jstr(&sig.ident.to_string()),
            s,
            e,
            ae,
            sig_s,
            sig_e,
            self.attr_list(attrs)
        );
        if let Some(i) = impl_idx {
            let _ = write!(r, ",\"impl\":{}", i);
        }
        // params
        let mut ps = vec![];
        for inp in &sig.inputs {
            match inp {
                syn::FnArg::Receiver(rc) => {
                    let (a, b) = self.src.span(rc.span());
                    ps.push(format!("{{\"recv\":true,\"start\":{},\"end\":{}}}", a, b));
                }
                syn::FnArg::Typed(pt) => {
                    let (a, b) = self.src.span(pt.pat.span());
                    let (c, d) = self.src.span(pt.ty.span());
                    let simple = matches!(&*pt.pat, syn::Pat::Ident(pi) if pi.subpat.is_none());
                    ps.push(format!(
                        "{{\"recv\":false,\"pat\":[{},{}],\"ty\":[{},{}],\"simple\":{}}}",
                        a, b, c, d, simple
                    ));
                }
            }
        }
        let _ = write!(r, ",\"params\":[{}]", ps.join(","));
        if let syn::ReturnType::Type(_, ty) = &sig.output {
            let (a, b) = self.src.span(ty.span());
            let _ = write!(r, ",\"ret\":[{},{}]", a, b);
        }
        if let Some(b) = block {
            let (bs, be) = self.src.span(b.span());
            let _ = write!(r, ",\"body_start\":{},\"body_end\":{}", bs, be);
            let mut lv = LoopVisitor {
                src: self.src,
                loops: vec![],
                closures: vec![],
            };
            lv.visit_block(b);
            lv.loops.sort_by_key(|l| l.start);
            lv.closures.sort_by_key(|c| c.start);
            let ls: Vec<String> = lv
                .loops
                .iter()
                .map(|l| {
                    let mut s = format!(
                        "{{\"kind\":\"{}\",\"start\":{},\"body_start\":{},\"end\":{}",
                        l.kind, l.start, l.body_start, l.end
                    );
                    if let Some(lb) = &l.label {
                        let _ = write!(s, ",\"label\":{}", jstr(lb));
                    }
                    if let Some((a, b)) = l.pat {
                        let _ = write!(s, ",\"pat\":[{},{}]", a, b);
                    }
                    if let Some((a, b)) = l.expr {
                        let _ = write!(s, ",\"expr\":[{},{}]", a, b);
                    }
                    s.push('}');
                    s
                })
                .collect();
            let _ = write!(r, ",\"loops\":[{}]", ls.join(","));
            let cs: Vec<String> = lv
                .closures
                .iter()
                .map(|c| {
                    let ps: Vec<String> = c.pats.iter().map(|(a, b)| format!("[{},{}]", a, b)).collect();
                    format!("{{\"pats\":[{}],\"body\":[{},{}],\"start\":{},\"block\":{}}}", ps.join(","), c.body.0, c.body.1, c.start, c.block)
                })
                .collect();
            let _ = write!(r, ",\"closures\":[{}]", cs.join(","));
        }
        r.push('}');
        self.recs.push(r);
    }

    fn emit_simple(&mut self, kind: &str, path: &str, attrs: &[syn::Attribute], whole: Span) {
        let (s, e) = self.src.span(whole);
        let ae = self.attrs_end(attrs, s);
        self.recs.push(format!(
            "{{\"kind\":{},\"path\":{},\"start\":{},\"end\":{},\"item_start\":{},\"attrs\":{}}}",
            jstr(kind),
            jstr(path),
            s,
            e,
            ae,
            self.attr_list(attrs)
        ));
    }

    fn items(&mut self, items: &[syn::Item], modpath: &str) {
        for it in items {
            match it {
                syn::Item::Fn(f) => {
                    let p = format!("{}{}", modpath, f.sig.ident);
                    self.emit_fn(&p, "", &f.attrs, &f.sig, Some(&f.block), f.span(), None);
                    self.nested(&f.block, &format!("{}::", p));
                }
                syn::Item::Struct(s) => {
                    self.emit_simple("struct", &format!("{}{}", modpath, s.ident), &s.attrs, s.span())
                }
                syn::Item::Enum(s) => {
                    self.emit_simple("enum", &format!("{}{}", modpath, s.ident), &s.attrs, s.span())
                }
                syn::Item::Const(s) => {
                    self.emit_simple("const", &format!("{}{}", modpath, s.ident), &s.attrs, s.span())
                }
                syn::Item::Static(s) => {
                    self.emit_simple("static", &format!("{}{}", modpath, s.ident), &s.attrs, s.span())
                }
                syn::Item::Type(s) => {
                    self.emit_simple("type", &format!("{}{}", modpath, s.ident), &s.attrs, s.span())
                }
                syn::Item::Use(s) => self.emit_simple("use", &compact(&s.tree), &s.attrs, s.span()),
                syn::Item::Macro(m) => {
                    let name = m
                        .ident
                        .as_ref()
                        .map(|i| i.to_string())
                        .unwrap_or_else(|| compact(&m.mac.path));
                    self.emit_simple("macro", &format!("{}{}", modpath, name), &m.attrs, m.span())
                }
                syn::Item::Trait(t) => {
                    let tname = format!("{}trait {}", modpath, t.ident);
                    let (s, e) = self.src.span(t.span());
                    let ae = self.attrs_end(&t.attrs, s);
                    let hs = self.src.span(t.brace_token.span.open()).0;
                    let idx = self.recs.len();
                    self.recs.push(format!(
                        "{{\"kind\":\"trait\",\"path\":{},\"start\":{},\"end\":{},\"item_start\":{},\"header_end\":{},\"attrs\":{}}}",
                        jstr(&tname), s, e, ae, hs, self.attr_list(&t.attrs)
                    ));
                    for ti in &t.items {
                        if let syn::TraitItem::Fn(f) = ti {
                            let p = format!("{}::{}", tname, f.sig.ident);
                            self.emit_fn(&p, &tname, &f.attrs, &f.sig, f.default.as_ref(), f.span(), Some(idx));
                        }
                    }
                }
                syn::Item::Impl(im) => {
                    let selfty = compact(&im.self_ty);
                    let short = match &*im.self_ty {
                        syn::Type::Path(tp) => tp
                            .path
                            .segments
                            .last()
                            .map(|s| s.ident.to_string())
                            .unwrap_or(selfty.clone()),
                        _ => selfty.clone(),
                    };
                    let ctx = match &im.trait_ {
                        Some((_, tr, _)) => format!("{}{} for {}", modpath, compact(tr), selfty),
                        None => format!("{}{}", modpath, short),
                    };
                    let (s, e) = self.src.span(im.span());
                    let ae = self.attrs_end(&im.attrs, s);
                    let hs = self.src.span(im.brace_token.span.open()).0;
                    let idx = self.recs.len();
                    self.recs.push(format!(
                        "{{\"kind\":\"impl\",\"path\":{},\"start\":{},\"end\":{},\"item_start\":{},\"header_end\":{},\"attrs\":{}}}",
                        jstr(&ctx), s, e, ae, hs, self.attr_list(&im.attrs)
                    ));
                    for ii in &im.items {
                        match ii {
                            syn::ImplItem::Fn(f) => {
                                let p = format!("{}::{}", ctx, f.sig.ident);
                                self.emit_fn(&p, &ctx, &f.attrs, &f.sig, Some(&f.block), f.span(), Some(idx));
                                self.nested(&f.block, &format!("{}::", p));
                            }
                            syn::ImplItem::Type(t) => {
                                let p = format!("{}::type {}", ctx, t.ident);
                                self.emit_simple("impl_type", &p, &t.attrs, t.span());
                            }
                            syn::ImplItem::Const(t) => {
                                let p = format!("{}::const {}", ctx, t.ident);
                                self.emit_simple("impl_const", &p, &t.attrs, t.span());
                            }
                            _ => {}
                        }
                    }
                }
                syn::Item::Mod(m) => {
                    if let Some((_, its)) = &m.content {
                        let mp = format!("{}{}::", modpath, m.ident);
                        self.emit_simple("mod", &format!("{}{}", modpath, m.ident), &m.attrs, m.span());
                        self.items(its, &mp);
                    }
                }
                _ => {}
            }
        }
    }

    fn nested(&mut self, b: &syn::Block, prefix: &str) {
        // fn items nested directly in a block (one level)
        for st in &b.stmts {
            if let syn::Stmt::Item(syn::Item::Fn(f)) = st {
                let p = format!("{}{}", prefix, f.sig.ident);
                self.emit_fn(&p, "", &f.attrs, &f.sig, Some(&f.block), f.span(), None);
            }
        }
    }
}

fn main() {
    let path = std::env::args().nth(1).expect("usage: rsx <file.rs>");
    let text = std::fs::read_to_string(&path).expect("read");
    let file = syn::parse_file(&text).unwrap_or_else(|e| {
        eprintln!("rsx: parse error in {}: {}", path, e);
        std::process::exit(3);
    });
    let src = Src::new(text);
    let mut out = Out {
        src: &src,
        recs: vec![],
    };
    out.items(&file.items, "");
    println!("[\n{}\n]", out.recs.join(",\n"));
}
