#!/usr/bin/env python3
"""splice.py -- build one Verus file per unit from verbatim spans of /repo + contract text.

A unit template (units/<unit>/unit.rs) is a Verus source file with `//@@` directives.
Everything that is not a directive is copied as is ("prelude": spec fns, lemmas,
assumed contracts).  Directives pull *verbatim byte spans* of the current /repo
source (located by tools/rsx, a syn-based span printer) and insert contract text
around them.

Directives
  //@@ unit props=C01,C06            header: properties served by this unit
  //@@ props C10                     attribution of following prelude proof fns
  //@@ include common/bytes.rs       splice another template file (path relative to units/) at this point
  //@@ item <file> <kind> <path> [keep_attrs] [nth=N]
                                     copy a struct/enum/const/static/type verbatim
  //@@ impl <file> <path> [nth=N]    open an impl block (header copied verbatim)
  //@@ endimpl
  //@@ fn <file> <path> [props=..] [entry] [ret=NAME] [r4] [nth=N] [external_body]
       sub-directives until `//@@ end`:
  //@@ sig                           text inserted between signature and body
  //@@ loop K [GHOST]                text inserted before the body of the K-th loop;
                                     GHOST names the ghost iterator of a `for`
  //@@ loopat /REGEX/ [GHOST]        (additive, unit odsxml) like `loop`, but the loop is addressed by text instead of by index: REGEX must
                                     match exactly once in the fn text and selects the first loop (source order) that starts at or after
                                     the start of the match -- so that removing another loop does not shift this one's invariants.
                                     `loopat?`: if REGEX does not match (the loop was removed) the text is simply not inserted.
  //@@ r6 K                          desugar for-loop K (rewrite R6)
  //@@ before /REGEX/[#KofN]         text inserted before the unique match in the fn text (or the K-th of exactly N matches)
  //@@ after /REGEX/                 text inserted after the unique match
  //@@ closure K                     Verus closure signature (`-> (r: T) ensures ...`) for the K-th closure of the fn (source order)
  //@@ body                          text inserted right after the body's `{`
  //@@ replace /REGEX/ WHY           ad-hoc declared rewrite: match replaced by the text block
  //@@ end
Inside contract text a line `//# label` names the clauses that follow it.

Opt-in generic rewrites (fn options; additive, used by unit odsxml; each application is logged in the evidence)
  r11   R11: a match-arm PATTERN that is a `QName` tuple-struct pattern over byte-string literals (Verus rejects byte-string-literal
        patterns, and "a match arm containing both an or-pattern and a match-guard"):
            QName(b"x") => ..                      ->  __k if __k == QName(b"x") => ..
            QName(b"x") if G => ..                 ->  __k if (__k == QName(b"x")) && (G) => ..
            QName(b"x" | b"y") [if G] => ..        ->  __k if (__k == QName(b"x") || __k == QName(b"y")) [&& (G)] => ..
        Applied only where the text has exactly this shape AND sits at the start of an arm (preceded by `{`, `,` or `}`), so that the
        *expression* `e.name() == QName(b"x")` inside a guard is left alone.  Valid because (a) quick_xml::name::QName derives
        Clone/Copy/PartialEq/Eq over its single field `&[u8]`, so `k == QName(lit)` holds exactly when the pattern `QName(lit)` matches k
        (a byte-string-literal pattern matches a slice iff the bytes are equal); (b) the scrutinee is a place of a Copy type, so the
        binding `__k` copies it and the arm body can still use the scrutinee; (c) arm order and guards are kept, `&&` evaluates the
        original guard only when the pattern test succeeded -- as `PAT if G` does; the literals stay verbatim.
  r12   R12: a tuple-variant constructor used as a function value in `.map_err(Type::Variant)` (Verus: "using a datatype constructor
        as a function value" is unsupported) is eta-expanded, with the closure's specification stating just that:
            .map_err(Type::Variant)  ->  .map_err(|__e| -> (__r: Type) ensures __r == Type::Variant(__e) { Type::Variant(__e) })

  r13   R13 (additive, unit xlsfml): formatting macros whose format string is a plain string literal made of literal text and `{}`
        placeholders only (no `{{`, `}}`, no `{:..}` / `{name}` specs) are expanded into their documented meaning (std::fmt: "the
        literal pieces and the `Display` output of each argument are written in order; arguments are evaluated once, left to right,
        before anything is written"; `impl fmt::Write for String` appends and never fails, so the `.unwrap()` of the result is a no-op):
            write!(&mut S, "p0{}p1{}p2", a1, a2).unwrap()  ->   (also `write!(buf, ..)` with `buf: &mut String`)  { let __w0 = &(a1); let __w1 = &(a2); verif_fmt_lit(&mut S, "p0");
                                                                  verif_fmt_arg(&mut S, __w0); verif_fmt_lit(&mut S, "p1"); verif_fmt_arg(&mut S, __w1); verif_fmt_lit(&mut S, "p2"); }
            format!("p0{}p1", a1)                          ->  { let __w0 = &(a1); let mut __f13 = String::new(); ...; __f13 }
        The argument expressions and the literal pieces stay verbatim (empty pieces are dropped).  The unit declares
        `verif_fmt_lit(&mut String, &str)` (appends the text) and `verif_fmt_arg<T>(&mut String, &T)` (appends `Display` of the value)
        with their contracts.  Sites of any other shape are left alone (Verus then rejects the file: undecided, never a silent change).

  R16   case split of a `match` (additive, unit xlsfml): sub-directive `//@@ case_split /REGEX/ keep=i,j,..` of a fn block.  REGEX must match
        exactly once and end at the `{` that opens a `match`; the arms of that match are numbered in source order.  In this copy of the
        function every arm that is NOT kept starts with `proof { assume(false); }`, i.e. this copy's verification condition covers the
        executions whose iteration takes a kept arm (plus everything outside the match); the same real function is extracted several times
        (`alias=`), and splice REFUSES the unit (exit 2) unless the kept sets of all copies of that function (same REGEX) together
        contain every arm.  This is verification by cases: an execution path through arm k is checked in the copy that keeps k, under the
        same contract and loop invariants (the copies share their annotation text via `same_as=`), so every obligation of the function
        is checked in at least one copy; what the split buys is that each SMT query contains the terms of a few arms only (measured on
        xls::parse_formula: 27 arms in one query > 15 min, the same arms in 8 queries < 10 s each).  Each application is logged.
  same_as=ALIAS  (fn option) the sub-directives of the earlier fn block of the same function with `alias=ALIAS` are used for this copy too
        (followed by this block's own sub-directives)

Exit codes: 0 ok, 2 lost anchor / unsupported (never a violation).
"""
import json, os, re, subprocess, sys, hashlib

VERIF = os.path.dirname(os.path.dirname(os.path.abspath(__file__)))
RSX = os.path.join(VERIF, "tools", "rsx", "target", "release", "rsx")
REPO = os.environ.get("VERIF_REPO", "/repo")


class LostAnchor(Exception):
    pass


_rsx_cache = {}
_src_cache = {}


def _key(relfile):
    # caches are keyed by path + mtime so that they never need clearing (units are built from parallel threads)
    p = os.path.join(REPO, relfile)
    if not os.path.exists(p):
        raise LostAnchor(f"source file {relfile} missing")
    return (p, os.stat(p).st_mtime_ns)


def src_bytes(relfile):
    k = _key(relfile)
    if k not in _src_cache:
        with open(k[0], "rb") as f:
            _src_cache[k] = f.read()
    return _src_cache[k]


def rsx(relfile):
    k = _key(relfile)
    if k not in _rsx_cache:
        r = subprocess.run([RSX, k[0]], capture_output=True, text=True)
        if r.returncode != 0:
            raise LostAnchor(f"rsx failed on {relfile}: {r.stderr.strip()}")
        _rsx_cache[k] = json.loads(r.stdout)
    return _rsx_cache[k]


def find_item(relfile, kind, path, nth=0):
    kinds = {kind}
    if kind == "item":
        kinds = {"struct", "enum", "const", "static", "type", "macro", "impl_type", "impl_const", "trait"}
    c = [r for r in rsx(relfile) if r["kind"] in kinds and r["path"] == path]
    if len(c) <= nth:
        raise LostAnchor(f"{kind} `{path}` (nth={nth}) not found in {relfile}")
    return c[nth]


# ---------------------------------------------------------------- segments
class Out:
    """generated file as a list of (text, origin) segments"""

    def __init__(self):
        self.segs = []

    def add(self, text, origin):
        if text:
            self.segs.append((text, origin))

    def render(self):
        pos = 0
        parts = []
        segmap = []
        for t, o in self.segs:
            b = t.encode("utf-8")
            segmap.append({"start": pos, "end": pos + len(b), **o})
            parts.append(t)
            pos += len(b)
        return "".join(parts), segmap


def balanced_end(text, i, open_ch="(", close_ch=")"):
    """index just past the bracket matching text[i] (which must be open_ch); string/char aware (simple)"""
    assert text[i] == open_ch
    depth = 0
    n = len(text)
    j = i
    while j < n:
        c = text[j]
        if c == '"':
            j += 1
            while j < n and text[j] != '"':
                if text[j] == "\\":
                    j += 1
                j += 1
        elif c == "'" and j + 2 < n and (text[j + 2] == "'" or (text[j + 1] == "\\" and "'" in text[j + 2 : j + 6])):
            # char literal
            k = text.index("'", j + 2 if text[j + 1] != "\\" else j + 3)
            j = k
        elif c == "/" and text[j : j + 2] == "//":
            while j < n and text[j] != "\n":
                j += 1
            continue
        elif c == open_ch:
            depth += 1
        elif c == close_ch:
            depth -= 1
            if depth == 0:
                return j + 1
        j += 1
    raise LostAnchor("unbalanced brackets in source text")



def anchor_rx(pat):
    """compile an anchor regex; a literal space outside a character class stands for any white space (`\\s+`), so that
    re-flowing the source (rustfmt with another width, a line break after `=`) does not lose the anchor"""
    out, i, n, in_class = "", 0, len(pat), False
    while i < n:
        ch = pat[i]
        if ch == "\\" and i + 1 < n:
            out += pat[i : i + 2]
            i += 2
            continue
        if ch == "[":
            in_class = True
        elif ch == "]":
            in_class = False
        if ch == " " and not in_class:
            # keep quantifiers that follow the space (` *`, ` ?`) meaningful: `\s` + quantifier, else `\s+`
            nxt = pat[i + 1] if i + 1 < n else ""
            out += "\\s" if nxt in "*+?{" else "\\s+"
        else:
            out += ch
        i += 1
    return re.compile(out, re.S)

LOG_RE = re.compile(r"(?<![\w:!])(?:log::)?(?:debug|warn|trace|info|error)!\s*\(")
ASSERT_EQ_RE = re.compile(r"(?<![\w:!])(debug_assert_eq|assert_eq|assert_ne|debug_assert_ne|debug_assert)!\s*\(")


def split_top_commas(s):
    parts, depth, cur, i, n = [], 0, "", 0, len(s)
    while i < n:
        c = s[i]
        if c == '"':
            j = i + 1
            while j < n and s[j] != '"':
                if s[j] == "\\":
                    j += 1
                j += 1
            cur += s[i : j + 1]
            i = j + 1
            continue
        if c in "([{":
            depth += 1
        elif c in ")]}":
            depth -= 1
        if c == "," and depth == 0:
            parts.append(cur)
            cur = ""
        else:
            cur += c
        i += 1
    if cur.strip():
        parts.append(cur)
    return parts


def r13_pieces(lit):
    """literal pieces of a plain format-string literal `"p0{}p1{}..."` (escape sequences kept verbatim); None if not of that shape"""
    if len(lit) < 2 or lit[0] != '"' or lit[-1] != '"':
        return None
    body, pieces, cur, i = lit[1:-1], [], "", 0
    while i < len(body):
        ch = body[i]
        if ch == "\\":
            if i + 1 >= len(body):
                return None
            cur += body[i : i + 2]
            i += 2
        elif ch == "{":
            if body[i : i + 2] != "{}":
                return None
            pieces.append(cur)
            cur = ""
            i += 2
        elif ch in '}"':
            return None
        else:
            cur += ch
            i += 1
    pieces.append(cur)
    return pieces


def match_arms(text, open_idx):
    """arms of the match whose `{` is at text[open_idx]: list of (arm start, index of the `{` opening the arm's block body or None)"""
    end = balanced_end(text, open_idx, "{", "}") - 1
    arms, i, n = [], open_idx + 1, end
    while True:
        while i < n and (text[i].isspace() or text[i] == ","):
            i += 1
        if i < n and text[i : i + 2] == "//":
            while i < n and text[i] != "\n":
                i += 1
            continue
        if i >= n:
            break
        a_start = i
        # pattern (and guard) up to `=>` at depth 0
        depth = 0
        while i < n:
            ch = text[i]
            if ch == '"':
                i += 1
                while i < n and text[i] != '"':
                    if text[i] == "\\":
                        i += 1
                    i += 1
            elif ch in "([{":
                depth += 1
            elif ch in ")]}":
                depth -= 1
            elif ch == "=" and text[i : i + 2] == "=>" and depth == 0:
                break
            i += 1
        if i >= n:
            raise LostAnchor("case_split: arm without `=>`")
        i += 2
        while i < n and text[i].isspace():
            i += 1
        if text[i] == "{":
            body_open = i
            i = balanced_end(text, i, "{", "}")
        else:
            body_open = None
            depth = 0
            while i < n:
                ch = text[i]
                if ch == '"':
                    i += 1
                    while i < n and text[i] != '"':
                        if text[i] == "\\":
                            i += 1
                        i += 1
                elif ch in "([{":
                    depth += 1
                elif ch in ")]}":
                    depth -= 1
                elif ch == "," and depth == 0:
                    break
                i += 1
        arms.append((a_start, body_open))
    return arms


class FnSpec:
    def __init__(self, relfile, path, opts, tline):
        self.relfile = relfile
        self.path = path
        self.opts = opts
        self.tline = tline
        self.parts = []  # (kind, arg, text, tline)


def parse_opts(tokens):
    o = {}
    for t in tokens:
        if "=" in t:
            k, v = t.split("=", 1)
            o[k] = v
        else:
            o[t] = True
    return o


def parse_template(path):
    """returns (unit_opts, nodes) ; nodes: ('text', str, line) | ('item', ...) | ('impl', ...) | ('endimpl',) | ('fn', FnSpec) | ('props', str)"""
    lines = open(path).read().split("\n")
    nodes = []
    unit_opts = {}
    i = 0
    buf = []
    bufline = 1

    def flush():
        nonlocal buf
        if buf:
            nodes.append(("text", "\n".join(buf) + "\n", bufline))
            buf = []

    while i < len(lines):
        ln = lines[i]
        st = ln.strip()
        if st.startswith("//@@"):
            tok = st[4:].split()
            if not tok:
                i += 1
                continue
            d = tok[0]
            if d == "unit":
                unit_opts = parse_opts(tok[1:])
            elif d == "props":
                flush()
                nodes.append(("props", tok[1], i + 1))
            elif d == "include":
                flush()
                inc = os.path.join(VERIF, "units", tok[1])
                u2, n2 = parse_template(inc)
                nodes.extend(n2)
            elif d == "item":
                flush()
                nodes.append(("item", tok[1], tok[2], " ".join(tok[3:]).split(" [")[0] if False else None, tok, i + 1))
            elif d == "impl":
                flush()
                nodes.append(("impl", tok, i + 1))
            elif d == "endimpl":
                flush()
                nodes.append(("endimpl", i + 1))
            elif d == "fn":
                flush()
                # //@@ fn <file> <path...> [opts]; path may contain spaces ("Index<usize> for Range<T>::index")
                relfile = tok[1]
                rest = st[4:].split(None, 2)[2]
                m = re.match(r'"([^"]+)"\s*(.*)$', rest)
                if m:
                    fpath, optstr = m.group(1), m.group(2)
                else:
                    sp = rest.split()
                    fpath, optstr = sp[0], " ".join(sp[1:])
                fs = FnSpec(relfile, fpath, parse_opts(optstr.split()), i + 1)
                i += 1
                cur = None
                while i < len(lines):
                    l2 = lines[i]
                    s2 = l2.strip()
                    if s2.startswith("//@@"):
                        t2 = s2[4:].split()
                        if t2[0] == "end":
                            break
                        if cur:
                            fs.parts.append(cur)
                        arg = s2[4:].strip()[len(t2[0]) :].strip()
                        cur = [t2[0], arg, "", i + 1]
                    else:
                        if cur is None:
                            if s2:
                                raise SystemExit(f"{path}:{i+1}: text outside sub-directive in fn block")
                        else:
                            cur[2] += l2 + "\n"
                    i += 1
                if cur:
                    fs.parts.append(cur)
                nodes.append(("fn", fs))
            else:
                raise SystemExit(f"{path}:{i+1}: unknown directive {d}")
            bufline = i + 2
        else:
            if not buf:
                bufline = i + 1
            buf.append(ln)
        i += 1
    flush()
    return unit_opts, nodes


def quoted_path(tok, start):
    """parse path possibly quoted from token list starting at index start; returns (path, remaining tokens)"""
    s = " ".join(tok[start:])
    m = re.match(r'"([^"]+)"\s*(.*)$', s)
    if m:
        return m.group(1), m.group(2).split()
    return tok[start], tok[start + 1 :]


def render_fn(fs, out, unit, log):
    relfile = fs.relfile
    nth = int(fs.opts.get("nth", 0))
    rec = find_item(relfile, "fn", fs.path, nth)
    if "body_start" not in rec:
        raise LostAnchor(f"fn {fs.path} has no body")
    src = src_bytes(relfile)
    s0, e0 = rec["item_start"], rec["end"]
    text = src[s0:e0].decode("utf-8")
    # all offsets below are *character* offsets into `text`; convert byte offsets via prefix decode
    def c(off):  # byte offset in file -> char offset in text
        return len(src[s0:off].decode("utf-8"))

    # `alias=X`: the same real function extracted a second time (under other hypotheses); obligations are named `<path>@X`
    flabel = fs.path + ("@" + fs.opts["alias"] if fs.opts.get("alias") else "")
    fn_origin = {"type": "src", "file": relfile, "fn": flabel, "unit": unit}
    edits = []  # (pos, del_len, text, origin, prio)

    def ins(pos, t, origin=None, dl=0, prio=0):
        edits.append((pos, dl, t, origin or fn_origin, prio))

    body_s, body_e = c(rec["body_start"]), c(rec["body_end"])
    fn_text_hash = hashlib.sha256(text.encode()).hexdigest()

    # return value naming
    retname = fs.opts.get("ret")
    if retname and "ret" in rec:
        a, b = c(rec["ret"][0]), c(rec["ret"][1])
        ins(a, f"({retname}: ", {"type": "annot", "fn": flabel, "unit": unit, "what": "ret"})
        ins(b, ")", {"type": "annot", "fn": flabel, "unit": unit, "what": "ret"}, prio=-1)

    # R2 pattern parameters
    r2_lets = []
    for k, p in enumerate(rec["params"]):
        if not p["recv"] and not p["simple"]:
            a, b = c(p["pat"][0]), c(p["pat"][1])
            pat = text[a:b]
            nm = f"__arg{k}"
            ins(a, nm, {"type": "rewrite", "rule": "R2", "fn": flabel, "unit": unit}, dl=b - a)
            r2_lets.append(f" let {pat} = {nm};")
            log["rewrites"].append({"rule": "R2", "fn": flabel, "from": pat, "to": nm})
        elif fs.opts.get("mutparams") and not p["recv"] and text[c(p["pat"][0]) : c(p["pat"][1])].startswith("mut "):
            # R2m (additive option `mutparams`, unit xlswb): `fn f(mut x: T) { B }` -> `fn f(__p_x: T) { let mut x = __p_x; B }` -- the
            # definition of a `mut` by-value parameter (Rust reference, "function parameters are irrefutable patterns"); it gives the entry
            # value of the parameter a name (`__p_x`) that contracts and loop invariants can mention after the body has mutated `x`
            a, b = c(p["pat"][0]), c(p["pat"][1])
            pat = text[a:b]
            nm = "__p_" + pat[4:].strip()
            ins(a, nm, {"type": "rewrite", "rule": "R2m", "fn": flabel, "unit": unit}, dl=b - a)
            r2_lets.append(f" let {pat} = {nm};")
            log["rewrites"].append({"rule": "R2m", "fn": flabel, "from": pat, "to": nm})

    # R2c: closures with pattern parameters `|PAT| BODY` -> `|__cK| { let PAT = __cK; BODY }` (Verus accepts only variables);
    # `//@@ closure K` parts put a Verus closure signature (`-> (r: T) requires .. ensures ..`) between `|params|` and the body
    closure_specs = {int(arg.split()[0]): (ptxt, tline) for kind, arg, ptxt, tline in fs.parts if kind == "closure"}
    for ci, cl in enumerate(rec.get("closures", [])):
        ro = {"type": "rewrite", "rule": "R2c", "fn": flabel, "unit": unit}
        lets = ""
        for pj, (a0, b0) in enumerate(cl["pats"]):
            a, b = c(a0), c(b0)
            nm = f"__c{ci}_{pj}"
            ins(a, nm, ro, dl=b - a)
            ptxt_ = text[a:b]
            if fs.opts.get("deref_pat") and re.match(r"&\s*\(", ptxt_):
                # additive fn option `deref_pat` (unit xlsxwb; ad hoc, logged): Verus rejects reference patterns. A closure parameter pattern
                # `&(x, _)` on an argument of type `&&(A, B)` binds what `(x, _)` binds under default binding modes (x: &A) -- the leading `&` is dropped
                log["rewrites"].append({"rule": "adhoc", "fn": flabel, "from": ptxt_, "to": ptxt_[1:].lstrip(), "why": "reference pattern on a `&&(A, B)` closure argument: `(x, _)` binds the same references under default binding modes (Verus: ref patterns unsupported)"})
                ptxt_ = ptxt_[1:].lstrip()
            lets += f"let {ptxt_} = {nm}; "
            log["rewrites"].append({"rule": "R2c", "fn": flabel, "from": text[a:b], "to": nm})
        spec = closure_specs.pop(ci, None)
        if spec:
            ins(c(cl["body"][0]), " " + spec[0].strip() + " ", {"type": "contract", "fn": flabel, "unit": unit, "part": f"closure {ci}", "tline": spec[1]}, prio=5)
        if lets or (spec and not cl["block"]):
            ins(c(cl["body"][0]), "{ " + lets, ro, prio=4)
            ins(c(cl["body"][1]), " }", ro, prio=-4)
    if closure_specs:
        raise LostAnchor(f"fn {fs.path}: closure(s) {sorted(closure_specs)} not found ({len(rec.get('closures', []))} closures)")

    if fs.opts.get("external_body"):
        # body not verified by Verus (declared; counted as trusted unless a Kani harness discharges the contract)
        log["trusted"].append(f"external_body on real fn {fs.path}: contract assumed in Verus" + (f" (discharged by Kani harness {fs.opts['by']})" if fs.opts.get("by") else ""))
        ins(0, "#[verifier::external_body]\n", {"type": "annot", "fn": flabel, "unit": unit, "what": "external_body"}, prio=5)

    loops = rec.get("loops", [])
    body_ins = "".join(r2_lets)
    for kind, arg, ptxt, tline in fs.parts:
        origin = {"type": "contract", "fn": flabel, "unit": unit, "part": f"{kind} {arg}".strip(), "tline": tline}
        if kind == "sig":
            ins(body_s, "\n" + ptxt, origin, prio=1)
        elif kind == "body":
            body_ins_origin = origin
            ins(body_s + 1, "\n" + ptxt, origin, prio=2)
        elif kind == "loop":
            a = arg.split()
            k = int(a[0])
            if k >= len(loops):
                raise LostAnchor(f"fn {fs.path}: loop {k} not found ({len(loops)} loops)")
            lp = loops[k]
            if len(a) > 1:
                if lp["kind"] != "for":
                    raise LostAnchor(f"fn {fs.path}: loop {k} is not a for loop")
                ins(c(lp["expr"][0]), a[1] + ": ", {"type": "annot", "fn": flabel, "unit": unit, "what": "ghost-iter"})
            ins(c(lp["body_start"]), "\n" + ptxt, origin, prio=1)
        elif kind in ("loopat", "loopat?"):
            m = re.match(r"/(.+)/\s*(\w*)\s*$", arg)
            if not m:
                raise SystemExit(f"template line {tline}: bad loopat {arg}")
            ms = list(anchor_rx(m.group(1)).finditer(text, body_s, body_e))
            if kind == "loopat?" and len(ms) == 0:
                continue
            if len(ms) != 1:
                raise LostAnchor(f"fn {fs.path}: loopat /{m.group(1)}/ matches {len(ms)} times (need exactly 1)")
            cand = [lp for lp in loops if c(lp["start"]) >= ms[0].start()]
            if not cand:
                raise LostAnchor(f"fn {fs.path}: loopat /{m.group(1)}/: no loop at or after the match")
            lp = min(cand, key=lambda l: l["start"])
            if m.group(2):
                if lp["kind"] != "for":
                    raise LostAnchor(f"fn {fs.path}: loopat /{m.group(1)}/ is not a for loop")
                ins(c(lp["expr"][0]), m.group(2) + ": ", {"type": "annot", "fn": flabel, "unit": unit, "what": "ghost-iter"})
            ins(c(lp["body_start"]), "\n" + ptxt, origin, prio=1)
        elif kind == "r6":
            k = int(arg.split()[0])
            if k >= len(loops) or loops[k]["kind"] != "for":
                raise LostAnchor(f"fn {fs.path}: for-loop {k} not found")
            lp = loops[k]
            ls, lb, le = c(lp["start"]), c(lp["body_start"]), c(lp["end"])
            pat = text[c(lp["pat"][0]) : c(lp["pat"][1])]
            expr = text[c(lp["expr"][0]) : c(lp["expr"][1])]
            # additive option `//@@ r6 K iter /REGEX/ why..` + part text: the iterator expression (which must fully match REGEX, else the
            # anchor is lost) is replaced by the part text -- an ad-hoc rewrite, logged like `replace` (a `replace` inside the loop header
            # cannot be combined with r6 because r6 rewrites that span)
            mo = re.match(r"\d+\s+iter\s+/(.+?)/\s*(.*)$", arg)
            if mo:
                if not re.fullmatch(mo.group(1), expr, re.S):
                    raise LostAnchor(f"fn {fs.path}: r6 {k}: iterator expression `{norm_ws(expr)}` does not match /{mo.group(1)}/")
                log["rewrites"].append({"rule": "adhoc", "fn": flabel, "from": expr, "to": ptxt.strip(), "why": mo.group(2)})
                expr = ptxt.strip()
            label = f"'{lp['label']}: " if lp.get("label") else ""
            itn = f"__it{k}"
            ro = {"type": "rewrite", "rule": "R6", "fn": flabel, "unit": unit}
            # `[label:] for PAT in EXPR ` -> `{ let mut it = IntoIterator::into_iter(EXPR); [label:] loop `
            ins(ls, f"{{ let mut {itn} = IntoIterator::into_iter({expr}); {label}loop ", ro, dl=lb - ls)
            # invariants for this loop come from a `loop K` part (inserted at body_start with prio=1, i.e. after this)
            ins(lb, f"{{ match {itn}.next() {{ None => break, Some({pat}) => ", ro, prio=0)  # after the `loop K` text (prio=1): `loop invariant.. {{ match ..`
            ins(le, " } } }", ro, prio=-2)
            log["rewrites"].append({"rule": "R6", "fn": flabel, "loop": k, "iter": expr})
        elif kind == "closure":
            pass  # handled below
        elif kind == "case_split":
            m = re.match(r"/(.+)/\s+keep=([\d,]*)\s*$", arg)
            if not m:
                raise SystemExit(f"template line {tline}: bad case_split {arg}")
            ms = list(anchor_rx(m.group(1)).finditer(text, body_s, body_e))
            if len(ms) != 1 or text[ms[0].end() - 1] != "{":
                raise LostAnchor(f"fn {fs.path}: case_split /{m.group(1)}/ must match exactly once and end at the `{{` of the match ({len(ms)} matches)")
            keep = sorted(int(x) for x in m.group(2).split(",") if x)
            arms = match_arms(text, ms[0].end() - 1)
            for k in keep:
                if k >= len(arms):
                    raise LostAnchor(f"fn {fs.path}: case_split keeps arm {k} but the match has {len(arms)} arms")
            for i, (a_start, body_open) in enumerate(arms):
                if i in keep:
                    continue
                if body_open is None:
                    raise LostAnchor(f"fn {fs.path}: case_split: arm {i} has no block body")
                ins(body_open + 1, " proof { assume(false); } /* R16: arm verified in another copy */ ", {"type": "rewrite", "rule": "R16", "fn": flabel, "unit": unit, "tline": tline}, prio=9)
            log["rewrites"].append({"rule": "R16", "fn": flabel, "match": m.group(1), "arms": len(arms), "keep": keep})
            log["trusted"].append(f"R16 case_split: copy {flabel} verifies arms {keep} of the {len(arms)}-arm match; its other arms start with assume(false) and are verified in the sibling copies (cover checked)")
            log.setdefault("case_splits", []).append({"file": relfile, "path": fs.path, "match": m.group(1), "arms": len(arms), "keep": keep, "fn": flabel})
        elif kind in ("before", "after", "replace", "replace?", "before?", "after?"):
            m = re.match(r"/(.+)/(?:#(\d+)of(\d+))?\s*(.*)$", arg)
            if not m:
                raise SystemExit(f"template line {tline}: bad anchor {arg}")
            rx = anchor_rx(m.group(1))
            ms = list(rx.finditer(text, body_s, body_e))
            # `replace?`: optional rewrite -- if the construct it works around is no longer in the text, the text is taken as is
            # (so that an edit removing the construct is *verified*, not reported as a lost anchor)
            if kind == "replace?" and len(ms) == 0:
                log["rewrites"].append({"rule": "adhoc-optional", "fn": flabel, "from": None, "to": ptxt.strip(), "why": "not applied: construct absent; " + m.group(4)})
                continue
            # `before?` / `after?`: optional proof-text anchor -- if the statement it hangs on was removed, the ghost text is simply not
            # inserted (the proof then fails at a named obligation instead of the check ending with a lost anchor)
            if kind in ("before?", "after?"):
                if len(ms) == 0:
                    continue
                kind = kind[:-1]
            # `/re/` must match exactly once; `/re/#KofN` must match exactly N times and selects the K-th (0-based)
            want = int(m.group(3)) if m.group(3) else 1
            if len(ms) != want:
                raise LostAnchor(f"fn {fs.path}: anchor /{m.group(1)}/ matches {len(ms)} times (need exactly {want})")
            mm = ms[int(m.group(2)) if m.group(2) else 0]
            if kind == "before":
                ins(mm.start(), ptxt, origin, prio=1)
            elif kind == "after":
                ins(mm.end(), "\n" + ptxt, origin, prio=-1)
            else:
                # additive: `\g<N>` in the replacement text re-inserts the verbatim text of capture group N (so a rewrite can wrap real code)
                rep = mm.expand(ptxt.rstrip("\n")) if "\\g<" in ptxt else ptxt.rstrip("\n")
                ins(mm.start(), rep, {"type": "rewrite", "rule": "adhoc", "fn": flabel, "unit": unit, "tline": tline}, dl=mm.end() - mm.start())
                log["rewrites"].append({"rule": "adhoc", "fn": flabel, "from": mm.group(0), "to": rep.strip(), "why": m.group(4)})
        else:
            raise SystemExit(f"template line {tline}: unknown fn sub-directive {kind}")
    if body_ins:
        ins(body_s + 1, body_ins, {"type": "rewrite", "rule": "R2", "fn": flabel, "unit": unit}, prio=3)

    # R1 logging statements, R7 assert_eq (generic, by pattern, inside body only)
    for m in LOG_RE.finditer(text, body_s, body_e):
        pe = balanced_end(text, m.end() - 1)
        end = pe
        while end < len(text) and text[end] in " \t":
            end += 1
        if end < len(text) and text[end] == ";":
            end += 1
            ins(m.start(), "/* R1: log stmt dropped */", {"type": "rewrite", "rule": "R1", "fn": flabel, "unit": unit}, dl=end - m.start())
        else:
            ins(m.start(), "()", {"type": "rewrite", "rule": "R1", "fn": flabel, "unit": unit}, dl=pe - m.start())
        log["rewrites"].append({"rule": "R1", "fn": flabel, "from": text[m.start() : end]})
    for m in ASSERT_EQ_RE.finditer(text, body_s, body_e):
        pe = balanced_end(text, m.end() - 1)
        inner = text[m.end() : pe - 1]
        parts = split_top_commas(inner)
        mac = m.group(1)
        if mac == "debug_assert":
            new = "/* R7: debug_assert dropped (no-op in release builds) */ ()"
        elif mac.startswith("debug_"):
            new = "/* R7: debug_assert dropped */ ()"
        else:
            op = "==" if mac.endswith("_eq") else "!="
            new = f"assert!(({parts[0].strip()}) {op} ({parts[1].strip()}))"
        ins(m.start(), new, {"type": "src", "file": relfile, "fn": flabel, "unit": unit, "rule": "R7"}, dl=pe - m.start())
        log["rewrites"].append({"rule": "R7", "fn": flabel, "from": text[m.start() : pe], "to": new})
    # R7b: assert!(cond, "msg" ...) -> assert!(cond)
    for m in re.finditer(r"(?<![\w:!])assert!\s*\(", text[body_s:body_e]):
        st = body_s + m.start()
        pe = balanced_end(text, body_s + m.end() - 1)
        inner = text[body_s + m.end() : pe - 1]
        parts = split_top_commas(inner)
        if len(parts) > 1:
            new = f"assert!({parts[0].strip()})"
            ins(st, new, {"type": "src", "file": relfile, "fn": flabel, "unit": unit, "rule": "R7"}, dl=pe - st)
            log["rewrites"].append({"rule": "R7", "fn": flabel, "from": text[st:pe], "to": new})
    # R9: `x |= <bool expr>;` / `x &= <bool expr>;` (non-short-circuit bool ops are rejected by Verus) ->
    #     `{ let __r9 = <expr>; x = x || __r9; }` (same evaluation order and value).  Applied only when the right-hand side
    #     contains a comparison (== != < >) at top level, i.e. is syntactically boolean.
    for m in re.finditer(r"(?m)^([ \t]*)([A-Za-z_][\w\.]*) (\||&)= ([^;\n]*?(?:==|!=|<=|>=|[^-<>=]<[^<=]|[^->=]>[^>=])[^;\n]*);", text[body_s:body_e]):
        st = body_s + m.start()
        en = body_s + m.end()
        op = "||" if m.group(3) == "|" else "&&"
        new = f"{m.group(1)}{{ let __r9: bool = {m.group(4)}; {m.group(2)} = {m.group(2)} {op} __r9; }}"
        ins(st, new, {"type": "src", "file": relfile, "fn": flabel, "unit": unit, "rule": "R9"}, dl=en - st)
        log["rewrites"].append({"rule": "R9", "fn": flabel, "from": text[st:en].strip(), "to": new.strip()})
    if fs.opts.get("r11"):
        # R11 (see module docstring): QName byte-string-literal arm patterns -> binding + equality guard
        lit = r'b"(?:[^"\\]|\\.)*"'
        for m in re.finditer(r"(?P<pre>[{},]\s*)QName\(\s*(?P<alts>" + lit + r"(?:\s*\|\s*" + lit + r")*)\s*\)(?P<post>\s*(?:if\b|=>))", text[body_s:body_e]):
            st = body_s + m.start() + len(m.group("pre"))
            alts = re.findall(lit, m.group("alts"))
            cond = " || ".join(f"__k == QName({a})" for a in alts)
            if m.group("post").strip() == "=>":
                en = body_s + m.end()
                new = f"__k if {cond} =>"
            else:
                # guard text: up to the next `=>` outside brackets / strings
                j, depth, n = body_s + m.end(), 0, body_e
                while j < n:
                    ch = text[j]
                    if ch == '"':
                        j += 1
                        while j < n and text[j] != '"':
                            if text[j] == "\\":
                                j += 1
                            j += 1
                    elif ch in "([{":
                        depth += 1
                    elif ch in ")]}":
                        depth -= 1
                    elif ch == "=" and text[j : j + 2] == "=>" and depth == 0:
                        break
                    j += 1
                if j >= n:
                    raise LostAnchor(f"fn {fs.path}: R11: guard without `=>`")
                guard = text[body_s + m.end() : j].strip()
                en = j + 2
                new = f"__k if ({cond}) && ({guard}) =>"
            ins(st, new, {"type": "src", "file": relfile, "fn": flabel, "unit": unit, "rule": "R11"}, dl=en - st)
            log["rewrites"].append({"rule": "R11", "fn": flabel, "from": norm_ws(text[st:en]), "to": new})
    if fs.opts.get("r12"):
        # R12 (see module docstring): `.map_err(Type::Variant)` -> eta-expanded closure with its specification
        for m in re.finditer(r"\.map_err\(\s*([A-Z]\w*)::([A-Z]\w*)\s*\)", text[body_s:body_e]):
            st, en = body_s + m.start(), body_s + m.end()
            ty, va = m.group(1), m.group(2)
            new = f".map_err(|__e| -> (__r: {ty}) ensures __r == {ty}::{va}(__e) {{ {ty}::{va}(__e) }})"
            ins(st, new, {"type": "src", "file": relfile, "fn": flabel, "unit": unit, "rule": "R12"}, dl=en - st)
            log["rewrites"].append({"rule": "R12", "fn": flabel, "from": text[st:en], "to": new})
    r13_sites = set()
    if fs.opts.get("r13"):
        # R13 (see module docstring): `write!(&mut S, "lit{}lit..", a1, ..).unwrap()` / `format!("lit{}..", a1, ..)` -> explicit pieces
        for m in re.finditer(r"(?<![\w:!])(write|format)!\s*\(", text[body_s:body_e]):
            st = body_s + m.start()
            pe = balanced_end(text, body_s + m.end() - 1)
            parts = [p.strip() for p in split_top_commas(text[body_s + m.end() : pe - 1])]
            is_write = m.group(1) == "write"
            if is_write:
                mu = re.match(r"\.\s*unwrap\s*\(\s*\)", text[pe:])
                if not mu or len(parts) < 2 or not re.fullmatch(r"(?:&mut )?[A-Za-z_]\w*", parts[0]):  # `&mut s` or a `&mut String` variable `buf`
                    continue
                dest, fmt, args, en = parts[0], parts[1], parts[2:], pe + mu.end()
            else:
                if len(parts) < 1:
                    continue
                dest, fmt, args, en = "&mut __f13", parts[0], parts[1:], pe
            pieces = r13_pieces(fmt)
            if pieces is None or len(pieces) != len(args) + 1:
                continue  # not the plain shape: left as is (Verus will reject it -> undecided, never a silent change)
            new = "{ " + "".join(f"let __w{k} = &({a}); " for k, a in enumerate(args))
            if not is_write:
                new += "let mut __f13 = String::new(); "
            for k, lit in enumerate(pieces):
                if lit:
                    new += f'verif_fmt_lit({dest}, "{lit}"); '
                if k < len(args):
                    new += f"verif_fmt_arg({dest}, __w{k}); "
            new += "}" if is_write else "__f13 }"
            r13_sites.add(st)
            ins(st, new, {"type": "src", "file": relfile, "fn": flabel, "unit": unit, "rule": "R13"}, dl=en - st)
            log["rewrites"].append({"rule": "R13", "fn": flabel, "from": text[st:en], "to": new})
    if fs.opts.get("r4"):
        for m in re.finditer(r"(?<![\w:!])format!\s*\(", text[body_s:body_e]):
            st = body_s + m.start()
            if st in r13_sites:
                continue
            pe = balanced_end(text, body_s + m.end() - 1)
            ins(st, "verif_opaque_string()", {"type": "rewrite", "rule": "R4", "fn": flabel, "unit": unit}, dl=pe - st)
            log["rewrites"].append({"rule": "R4", "fn": flabel, "from": text[st:pe]})

    # apply edits
    edits.sort(key=lambda e: (e[0], -e[4]))
    # detect overlapping deletions
    pos = 0
    for (p, dl, t, o, pr) in edits:
        if p < pos:
            # an edit inside a deleted region (e.g. inside dropped log stmt): skip if pure nested, else error
            if p + dl <= pos:
                continue
            raise LostAnchor(f"fn {fs.path}: overlapping rewrites at char {p}")
        out.add(text[pos:p], {**fn_origin, "src_char": pos, "src_byte": s0 + len(text[:pos].encode())})
        out.add(t, o)
        pos = p + dl
    out.add(text[pos:], {**fn_origin, "src_char": pos, "src_byte": s0 + len(text[:pos].encode())})
    out.add("\n", {"type": "glue"})
    log["functions"].append(
        {
            "file": relfile,
            "item": flabel,
            "sha256": fn_text_hash,
            "lines": [src[:s0].count(b"\n") + 1, src[:e0].count(b"\n") + 1],
            "entry": bool(fs.opts.get("entry")),
            "props": fs.opts.get("props", ""),
            "external_body": bool(fs.opts.get("external_body")),
        }
    )


def norm_ws(x):
    return re.sub(r"\s+", " ", x).strip()


def build(unit_dir, out_path):
    unit = os.path.basename(unit_dir.rstrip("/"))
    tpl = os.path.join(unit_dir, "unit.rs")
    unit_opts, nodes = parse_template(tpl)
    out = Out()
    tpl_text = open(tpl).read()
    for nd in nodes:
        pass
    # R5: module-level consts of the same source file that an extracted fn refers to are extracted too (verbatim), unless the
    # template already provides an item of that name (`//@@ item ... const X`, or `const X` / `static X` in template text)
    provided = set(re.findall(r"\b(?:const|static)\s+([A-Z][A-Z0-9_]*)\b", tpl_text))
    for inc in re.findall(r"//@@ include (\S+)", tpl_text):
        try:
            provided |= set(re.findall(r"\b(?:const|static)\s+([A-Z][A-Z0-9_]*)\b", open(os.path.join(VERIF, "units", inc)).read()))
        except OSError:
            pass
    provided |= set(re.findall(r"//@@ item \S+ (?:const|static) \"?([A-Za-z_][A-Za-z0-9_]*)", tpl_text))
    log = {"unit": unit, "props": unit_opts.get("props", "").split(","), "rewrites": [], "functions": [], "trusted": [], "items": []}
    cur_props = None
    impl_open_at = None
    auto_consts = []
    for nd in nodes:
        k = nd[0]
        if k == "text":
            out.add(nd[1], {"type": "prelude", "unit": unit, "tline": nd[2], "props": cur_props})
        elif k == "props":
            cur_props = nd[1]
        elif k == "item":
            tok = nd[4]
            relfile, kind = tok[1], tok[2]
            path, rest = quoted_path(tok, 3)
            o = parse_opts(rest)
            rec = find_item(relfile, kind, path, int(o.get("nth", 0)))
            src = src_bytes(relfile)
            st = rec["start"] if o.get("keep_attrs") else rec["item_start"]
            t = src[st : rec["end"]].decode("utf-8")
            if o.get("strip_field_docs", True):
                pass
            if o.get("cfg_off"):
                # R8 (additive option `cfg_off=<feature>`): drop variants/fields gated by `#[cfg(feature = "<feature>")]`, exactly what
                # rustc does when the feature is off (the verified configuration = default features). Needed because the verus! macro
                # generates variant helpers before cfg-stripping ("no variant `Art` for this datatype").
                feat = re.escape(o["cfg_off"])
                while True:
                    m = re.search(r'[ \t]*#\[cfg\(feature\s*=\s*"' + feat + r'"\)\]\s*', t)
                    if not m:
                        break
                    j, depth = m.end(), 0
                    while j < len(t):
                        ch = t[j]
                        if ch in "([{":
                            depth += 1
                        elif ch in ")]}":
                            if depth == 0:
                                break
                            depth -= 1
                        elif ch == "," and depth == 0:
                            j += 1
                            break
                        j += 1
                    log["rewrites"].append({"rule": "R8", "fn": path, "from": norm_ws(t[m.start():j]), "to": "", "why": f"feature {o['cfg_off']} is off in the verified configuration"})
                    t = t[: m.start()] + t[j:]
            if o.get("static_refs") and rec["kind"] in ("const", "static"):
                # R14 (additive item option `static_refs`, unit xlsfml): in the TYPE of a `const`/`static` item an elided reference lifetime is
                # `'static` (Rust reference, "Lifetime elision: `'static` lifetime elision"); the verus! macro turns a const into a function,
                # where the elision is no longer legal ("missing lifetime specifier"), so the lifetime is written out.  Nothing else changes.
                mt = re.match(r"(?s)(.*?\b(?:const|static)\s+\w+\s*:)(.*?)(=.*)$", t)
                if mt and re.search(r"&(?!\s*')", mt.group(2)):
                    ty2 = re.sub(r"&(?!\s*')\s*", "&'static ", mt.group(2))
                    log["rewrites"].append({"rule": "R14", "fn": path, "from": norm_ws(mt.group(2)), "to": norm_ws(ty2), "why": "elided lifetime in a const/static type is 'static"})
                    t = mt.group(1) + ty2 + mt.group(3)
            if o.get("hide_value") and rec["kind"] in ("const", "static"):
                # additive item option `hide_value` (unit xlsfml): `#[verifier::external_body]` in front of a const/static -- Verus then knows
                # the item's TYPE (for an array: its length) but not its value.  Nothing is assumed by this (facts are removed, none added);
                # it keeps big data tables (485-entry FTAB) out of every SMT query of the unit (measured: 22 s -> 3 s per query).
                log["rewrites"].append({"rule": "hide_value", "fn": path, "from": "", "to": "#[verifier::external_body]", "why": "value of the table hidden from the verifier (only its type/length is used)"})
                t = "#[verifier::external_body] " + t
            out.add(t + "\n", {"type": "src", "file": relfile, "fn": path, "unit": unit, "src_byte": st, "item": True})
            log["items"].append({"file": relfile, "item": path, "kind": kind, "sha256": hashlib.sha256(t.encode()).hexdigest()})
        elif k == "impl":
            tok = nd[1]
            relfile = tok[1]
            path, rest = quoted_path(tok, 2)
            o = parse_opts(rest)
            rec = find_item(relfile, "impl", path, int(o.get("nth", 0))) if not path.startswith("trait ") else find_item(relfile, "trait", path, 0)
            src = src_bytes(relfile)
            t = src[rec["item_start"] : rec["header_end"]].decode("utf-8")
            impl_open_at = len(out.segs)
            out.add(t + "{\n", {"type": "src", "file": relfile, "fn": path, "unit": unit, "src_byte": rec["item_start"], "item": True})
        elif k == "endimpl":
            impl_open_at = None
            out.add("}\n", {"type": "glue"})
        elif k == "fn":
            fs = nd[1]
            try:
                rec0 = find_item(fs.relfile, "fn", fs.path, int(fs.opts.get("nth", 0)))
                ftxt = src_bytes(fs.relfile)[rec0["item_start"]:rec0["end"]].decode("utf-8")
                for cr in rsx(fs.relfile):
                    if cr["kind"] in ("const", "static") and "::" not in cr["path"] and cr["path"] not in provided \
                            and re.search(r"(?<![\w:])" + re.escape(cr["path"]) + r"\b", ftxt) and not fs.opts.get("external_body"):
                        ctxt = src_bytes(fs.relfile)[cr["item_start"]:cr["end"]].decode("utf-8")
                        seg = (ctxt + "\n", {"type": "src", "file": fs.relfile, "fn": cr["path"], "unit": unit, "src_byte": cr["item_start"], "item": True, "rule": "R5"})
                        auto_consts.append(seg)  # emitted at crate level in a verus! block of their own (end of file)
                        provided.add(cr["path"])
                        log["items"].append({"file": fs.relfile, "item": cr["path"], "kind": cr["kind"], "auto": "R5", "sha256": hashlib.sha256(ctxt.encode()).hexdigest()})
            except LostAnchor:
                pass
            if fs.opts.get("same_as"):
                # `same_as=ALIAS`: this copy of the function carries the sub-directives of the earlier copy with that alias, then its own
                ref = [n2[1] for n2 in nodes if n2[0] == "fn" and n2[1].path == fs.path and n2[1].relfile == fs.relfile and n2[1].opts.get("alias") == fs.opts["same_as"]]
                if not ref:
                    raise SystemExit(f"template line {fs.tline}: same_as={fs.opts['same_as']}: no such copy of {fs.path}")
                if not getattr(fs, "_merged", False):
                    fs.parts = [pt for pt in ref[0].parts if pt[0] != "case_split"] + fs.parts
                    fs._merged = True
            render_fn(fs, out, unit, log)
    # R16 coverage: the kept arms of all copies of a function (same match anchor) must cover every arm of that match
    groups = {}
    for cs in log.get("case_splits", []):
        groups.setdefault((cs["file"], cs["path"], cs["match"]), []).append(cs)
    for (cf, cp, cm), lst in groups.items():
        n_arms = lst[0]["arms"]
        covered = set()
        for cs in lst:
            if cs["arms"] != n_arms:
                raise LostAnchor(f"fn {cp}: case_split copies disagree on the number of arms")
            covered |= set(cs["keep"])
        missing = [k for k in range(n_arms) if k not in covered]
        if missing:
            raise LostAnchor(f"fn {cp}: case_split /{cm}/: arms {missing} of {n_arms} are kept by no copy (the case split is incomplete)")
        log["rewrites"].append({"rule": "R16-coverage", "fn": cp, "match": cm, "arms": n_arms, "copies": [cs["fn"] for cs in lst]})
    if auto_consts:
        out.add("\nverus! {\n", {"type": "glue"})
        for seg in auto_consts:
            out.segs.append(seg)
        out.add("}\n", {"type": "glue"})
    text, segmap = out.render()
    # vacuity canary: must FAIL
    canary = "\nverus! { proof fn __verif_canary() ensures false { } }\n"
    segmap.append({"start": len(text.encode()), "end": len((text + canary).encode()), "type": "canary"})
    text += canary
    os.makedirs(os.path.dirname(out_path), exist_ok=True)
    with open(out_path, "w") as f:
        f.write(text)
    with open(out_path + ".map.json", "w") as f:
        json.dump({"segments": segmap, "log": log}, f)
    return log


if __name__ == "__main__":
    if len(sys.argv) != 3:
        print(__doc__)
        sys.exit(64)
    try:
        lg = build(sys.argv[1], sys.argv[2])
        print(json.dumps({"functions": len(lg["functions"]), "rewrites": len(lg["rewrites"])}))
    except LostAnchor as e:
        print(f"LOST-ANCHOR: {e}", file=sys.stderr)
        sys.exit(2)
