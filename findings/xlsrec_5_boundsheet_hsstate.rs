#[cfg(test)]
mod verif_demo_xlsrec_boundsheet_hsstate {
    use super::*;
    // BoundSheet8 [MS-XLS] 2.4.28: hsState is the low 2 bits of byte 4, the other 6 bits are "unused, MUST be ignored".
    // The code masks with 0b0011_1111, so a visible worksheet (hsState = 0) whose unused bit 2 is set is rejected.
    #[test]
    fn verif_demo_boundsheet_unused_bits_not_ignored() {
        let enc = XlsEncoding::from_codepage(1252).unwrap();
        // lbPlyPos = 0x1234, byte 4 = 0b0000_0100 (hsState 0 = visible), dt = 0 (worksheet), stName = "A" (cch 1, fHighByte 0)
        let data = [0x34u8, 0x12, 0, 0, 0x04, 0x00, 0x01, 0x00, b'A'];
        let mut r = Record { typ: 0x0085, data: &data, cont: None };
        let res = parse_sheet_metadata(&mut r, &enc, Biff::Biff8);
        // expected by the format: Ok((0x1234, Sheet { name: "A", visible: Visible, typ: WorkSheet })); observed:
        assert!(matches!(res, Err(XlsError::Unrecognized { typ: "BoundSheet8:hsState", val: 4 })));
        // control: with the unused bits clear the very same record is accepted
        let data = [0x34u8, 0x12, 0, 0, 0x00, 0x00, 0x01, 0x00, b'A'];
        let mut r = Record { typ: 0x0085, data: &data, cont: None };
        let (pos, sheet) = parse_sheet_metadata(&mut r, &enc, Biff::Biff8).unwrap();
        assert!(pos == 0x1234 && sheet.name == "A" && sheet.visible == SheetVisible::Visible && sheet.typ == SheetType::WorkSheet);
    }
}
