#[cfg(test)]
mod verif_demo_cfb_3 {
    use super::*;
    // Sectors::get_chain: `fats[sector_id as usize]` with a sector id that is not in the FAT
    #[test]
    #[should_panic(expected = "index out of bounds")]
    fn verif_demo_cfb_chain_id_outside_fat() {
        let mut s = Sectors::new(512, vec![0u8; 512]);
        let mut r: &[u8] = &[];
        let _ = s.get_chain(0, &[], &mut r, 0);
    }
    // through the public entry point: valid header, DIFAT all free (empty FAT), first directory sector 0, one sector of data
    #[test]
    #[should_panic(expected = "index out of bounds")]
    fn verif_demo_cfb_new_empty_fat() {
        let mut f = [0u8; 1024];
        f[..8].copy_from_slice(&[0xD0, 0xCF, 0x11, 0xE0, 0xA1, 0xB1, 0x1A, 0xE1]);
        f[26] = 3;
        f[30] = 9;
        f[32] = 6;
        f[60..64].copy_from_slice(&ENDOFCHAIN.to_le_bytes());
        f[68..72].copy_from_slice(&ENDOFCHAIN.to_le_bytes());
        for b in f[76..512].iter_mut() {
            *b = 0xFF;
        }
        let mut r: &[u8] = &f;
        let _ = Cfb::new(&mut r, 1024);
    }
}
