#[cfg(test)]
mod verif_demo_xlsbfml_c06 {
    use super::*;
    // xlsb parse_formula takes the bare token bytes (rgce); `sheets` is the extern-sheet list, `names` the defined names
    fn pf(tokens: &[u8]) -> Result<String, String> {
        let sheets = vec!["S0".to_string(), "S1".to_string()];
        parse_formula(tokens, &sheets, &[]).map_err(|e| e.to_string())
    }
    // ---- obligation token_not_truncated: no arm checks that the token's bytes are there
    #[test]
    #[should_panic]
    fn verif_demo_xlsbfml_truncated_ptgref() {
        let _ = pf(&[0x44, 0, 0]); // PtgRef needs 6 bytes
    }
    #[test]
    #[should_panic]
    fn verif_demo_xlsbfml_truncated_ptgint() {
        let _ = pf(&[0x1E, 1]); // PtgInt needs 2 bytes
    }
    #[test]
    #[should_panic]
    fn verif_demo_xlsbfml_truncated_ptgstr() {
        let _ = pf(&[0x17, 5, 0, b'a', 0]); // cch = 5, one character present
    }
    #[test]
    #[should_panic]
    fn verif_demo_xlsbfml_truncated_ptgmemfunc() {
        let _ = pf(&[0x29, 9, 0, 0x1E, 1, 0]); // cce = 9, three bytes present
    }
    #[test]
    #[should_panic]
    fn verif_demo_xlsbfml_truncated_ptgattr() {
        let _ = pf(&[0x1E, 1, 0, 0x19]); // PtgAttr without its flag byte
    }
    // ---- obligation token_fields_in_range: fields used as index / in unchecked arithmetic
    #[test]
    #[should_panic(expected = "index out of bounds")]
    fn verif_demo_xlsbfml_ixti_out_of_range() {
        let _ = pf(&[0x3B, 7, 0, 0, 0, 0, 0, 0, 0, 0, 0, 0, 0, 0, 0]); // PtgArea3d, ixti = 7, two extern sheets
    }
    #[test]
    #[should_panic(expected = "attempt to add with overflow")]
    fn verif_demo_xlsbfml_row_ffffffff() {
        let _ = pf(&[0x25, 0, 0, 0, 0, 0xFF, 0xFF, 0xFF, 0xFF, 0, 0, 0, 0]); // PtgArea, rowLast = 0xFFFFFFFF
    }
    #[test]
    #[should_panic(expected = "index out of bounds")]
    fn verif_demo_xlsbfml_funcvar_iftab_out_of_table() {
        let _ = pf(&[0x42, 0, 0xFF, 0x7F]); // PtgFuncVar, no argument, iftab = 0x7FFF
    }
    #[test]
    #[should_panic(expected = "attempt to subtract with overflow")]
    fn verif_demo_xlsbfml_name_index_zero() {
        let _ = pf(&[0x43, 0, 0, 0, 0]); // PtgName, one-based index 0
    }
}
