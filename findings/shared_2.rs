#[cfg(test)]
mod verif_demo_c15_non_references_rewritten {
    use super::*;
    // everything that is not a cell reference must be reproduced unchanged; the asserted values are the WRONG outputs
    #[test]
    fn verif_demo_shared_function_name_with_digits_shifted() {
        assert_eq!(replace_cell_names("LOG10(A1)", (1, 1)).unwrap(), "LOH11(B2)"); // expected LOG10(B2)
    }
    #[test]
    fn verif_demo_shared_sheet_name_shifted() {
        assert_eq!(replace_cell_names("Q1!A1", (1, 1)).unwrap(), "R2!B2"); // expected Q1!B2
        assert_eq!(replace_cell_names("'Data A1'!A1", (1, 1)).unwrap(), "'Data B2'!B2"); // expected 'Data A1'!B2
    }
    #[test]
    fn verif_demo_shared_defined_name_shifted() {
        assert_eq!(replace_cell_names("TAX2020*A1", (1, 0)).unwrap(), "TAX2021*A2"); // expected TAX2020*A2
        assert_eq!(replace_cell_names("my_A1+A1", (1, 1)).unwrap(), "my_B2+B2"); // expected my_A1+B2
    }
    #[test]
    fn verif_demo_shared_number_literal_shifted() {
        assert_eq!(replace_cell_names("1E5+A1", (1, 1)).unwrap(), "1F6+B2"); // expected 1E5+B2
    }
    #[test]
    fn verif_demo_shared_quoted_text_untouched_ok() {
        assert_eq!(replace_cell_names("\"A1\"&A1", (1, 1)).unwrap(), "\"A1\"&B2");
    }
}
