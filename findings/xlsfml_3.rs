#[cfg(test)]
mod verif_demo_c14_xls_attrspace {
    use super::*;
    fn pf(tokens: &[u8]) -> Result<String, String> {
        let mut rgce = vec![tokens.len() as u8, (tokens.len() >> 8) as u8];
        rgce.extend_from_slice(tokens);
        let enc = XlsEncoding::from_codepage(1200).unwrap();
        parse_formula(&rgce, &[], &[], &[], &enc).map_err(|e| e.to_string())
    }
    // [MS-XLS] 2.5.198.38 PtgAttrSpace (0x19 0x40, type, cch): white space in front of the NEXT token (type 0).  The code needs an
    // operand on its stack for it and puts the blanks in front of the PREVIOUS operand; a formula typed with a blank after `=` has the
    // PtgAttrSpace as its first token and is not rendered at all (the workbook reader then stores a placeholder text for the cell).
    #[test]
    fn verif_demo_xls_leading_space_formula_is_not_rendered() {
        // `= 1`  ->  PtgAttrSpace(type 0, 1 blank), PtgInt 1
        assert_eq!(pf(&[0x19, 0x40, 0, 1, 0x1E, 1, 0]).unwrap_err(), "Invalid stack length"); // expected " 1" (or "1")
    }
    #[test]
    fn verif_demo_xls_space_goes_in_front_of_the_previous_operand() {
        // `=1+ 2`  ->  PtgInt 1, PtgAttrSpace(1 blank), PtgInt 2, PtgAdd
        assert_eq!(pf(&[0x1E, 1, 0, 0x19, 0x40, 0, 1, 0x1E, 2, 0, 0x03]).unwrap(), " 1+2"); // expected "1+ 2"
    }
}
