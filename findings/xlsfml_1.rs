#[cfg(test)]
mod verif_demo_c14_xls_ge_gt_swapped {
    use super::*;
    fn pf(tokens: &[u8]) -> Result<String, String> {
        let mut rgce = vec![tokens.len() as u8, (tokens.len() >> 8) as u8];
        rgce.extend_from_slice(tokens);
        let enc = XlsEncoding::from_codepage(1200).unwrap();
        parse_formula(&rgce, &[], &[], &[], &enc).map_err(|e| e.to_string())
    }
    // [MS-XLS] 2.5.198.25 Ptg table: 0x0C = PtgGe (`>=`), 0x0D = PtgGt (`>`).  The code's operator table has the two texts exchanged.
    // The asserted values are the WRONG outputs.
    #[test]
    fn verif_demo_xls_ptgge_ptggt_texts_swapped() {
        assert_eq!(pf(&[0x1E, 1, 0, 0x1E, 2, 0, 0x0C]).unwrap(), "1>2"); // PtgGe: expected "1>=2"
        assert_eq!(pf(&[0x1E, 1, 0, 0x1E, 2, 0, 0x0D]).unwrap(), "1>=2"); // PtgGt: expected "1>2"
    }
    // ground truth written by Excel: tests/issues.xls and tests/issues.xlsx are the same workbook saved in both formats; cell A4 of sheet
    // "datatypes" holds `A1>A2` (the xlsx stores the text, the xls the token 0x0D).  The xls reader renders it as `A1>=A2`.
    #[test]
    fn verif_demo_xls_issues_xls_a4_differs_from_its_xlsx_twin() {
        use crate::{open_workbook, Reader, Xls, Xlsx};
        let mut xls: Xls<_> = open_workbook(concat!(env!("CARGO_MANIFEST_DIR"), "/tests/issues.xls")).unwrap();
        let mut xlsx: Xlsx<_> = open_workbook(concat!(env!("CARGO_MANIFEST_DIR"), "/tests/issues.xlsx")).unwrap();
        let a = xls.worksheet_formula("datatypes").unwrap();
        let b = xlsx.worksheet_formula("datatypes").unwrap();
        assert_eq!(b.get_value((3, 0)).unwrap(), "A1>A2");
        assert_eq!(a.get_value((3, 0)).unwrap(), "A1>=A2"); // expected "A1>A2"
    }
}
