#[cfg(test)]
mod verif_demo_xlsstr_9 {
    use super::*;
    // a CONTINUE boundary between the two code units of a surrogate pair: each fragment is decoded on its own
    #[test]
    fn verif_demo_xlsstr_surrogate_pair_split_by_continue() {
        let enc = XlsEncoding::from_codepage(1200).unwrap();
        let whole: &[u8] = &[0x3D, 0xD8, 0x00, 0xDE]; // U+1F600 as D83D DE00
        let mut r = Record { typ: 0x00FC, data: whole, cont: None };
        assert_eq!(read_dbcs(&enc, 2, &mut r, true).unwrap(), "\u{1F600}");
        let a: &[u8] = &[0x3D, 0xD8];
        let b: &[u8] = &[0x01, 0x00, 0xDE]; // flag byte (16-bit), low surrogate
        let mut r = Record { typ: 0x00FC, data: a, cont: Some(vec![b]) };
        assert_eq!(read_dbcs(&enc, 2, &mut r, true).unwrap(), "\u{FFFD}\u{FFFD}"); // expected U+1F600
    }
}
