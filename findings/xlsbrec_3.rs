#[cfg(test)]
mod verif_demo_xlsbrec_c06_short {
    use super::*;
    use crate::CellErrorType;
    use std::io::{Cursor, Write};

    /// a zip archive (stored) holding one file `s.bin` with the given BIFF12 record stream
    fn zip_with(bin: &[u8]) -> ZipArchive<Cursor<Vec<u8>>> {
        let mut w = zip::ZipWriter::new(Cursor::new(Vec::new()));
        let opt = zip::write::SimpleFileOptions::default().compression_method(zip::CompressionMethod::Stored);
        w.start_file("s.bin", opt).unwrap();
        w.write_all(bin).unwrap();
        ZipArchive::new(w.finish().unwrap()).unwrap()
    }
    /// one record: 1- or 2-byte type, 1-byte size, payload ([MS-XLSB] 2.1.4)
    fn rec(typ: u16, payload: &[u8]) -> Vec<u8> {
        let mut v = Vec::new();
        if typ < 0x80 { v.push(typ as u8); } else { v.push((typ & 0x7F) as u8 | 0x80); v.push((typ >> 7) as u8); }
        assert!(payload.len() < 0x80);
        v.push(payload.len() as u8);
        v.extend_from_slice(payload);
        v
    }
    /// worksheet part: BrtBeginSheet, BrtWsDim (wsdim bytes), BrtBeginSheetData, BrtRowHdr(row 0), the cell records, BrtEndSheetData
    fn sheet(wsdim: &[u8], rowhdr: &[u8], cells: &[Vec<u8>]) -> Vec<u8> {
        let mut s = Vec::new();
        s.extend(rec(0x0081, &[]));
        s.extend(rec(0x0094, wsdim));
        s.extend(rec(0x0091, &[]));
        s.extend(rec(0x0000, rowhdr));
        for c in cells { s.extend_from_slice(c); }
        s.extend(rec(0x0092, &[]));
        s
    }
    /// all cells `XlsbCellsReader` reports for the stream
    fn read_cells(bin: &[u8], formats: &[CellFormat], strings: &[String]) -> Vec<((u32, u32), DataRef<'static>)> {
        let mut z = zip_with(bin);
        let it = RecordIter::from_zip(&mut z, "s.bin").unwrap();
        let mut r = XlsbCellsReader::new(it, formats, strings, &[], &[], false).unwrap();
        let mut got = Vec::new();
        while let Some(c) = r.next_cell().unwrap() {
            let v = match c.get_value() { DataRef::SharedString(s) => DataRef::String(s.to_string()), DataRef::Int(i) => DataRef::Int(*i),
                DataRef::Float(f) => DataRef::Float(*f), DataRef::String(s) => DataRef::String(s.clone()), DataRef::Bool(b) => DataRef::Bool(*b),
                DataRef::DateTime(d) => DataRef::DateTime(*d), DataRef::Error(e) => DataRef::Error(e.clone()), _ => DataRef::Empty };
            got.push((c.get_position(), v));
        }
        got
    }

    // C06: hostile input must give Err, never a panic. None of the cell arms of XlsbCellsReader::next_cell (nor the BrtRowHdr arm)
    // checks the record length before indexing `self.buf`.
    #[test]
    #[should_panic]
    fn verif_demo_xlsbrec_short_bool_record() {
        // BrtCellBool with an 8-byte payload (no value byte): `self.buf[8]`
        let _ = read_cells(&sheet(&[0u8; 16], &[0u8; 17], &[rec(0x0004, &[0u8; 8])]), &[], &[]);
    }
    #[test]
    #[should_panic]
    fn verif_demo_xlsbrec_short_rk_record() {
        // BrtCellRk with 9 bytes: `&self.buf[8..12]`
        let _ = read_cells(&sheet(&[0u8; 16], &[0u8; 17], &[rec(0x0002, &[0u8; 9])]), &[], &[]);
    }
    #[test]
    #[should_panic]
    fn verif_demo_xlsbrec_short_real_record() {
        // BrtCellReal with 12 bytes: `&self.buf[8..16]`
        let _ = read_cells(&sheet(&[0u8; 16], &[0u8; 17], &[rec(0x0005, &[0u8; 12])]), &[], &[]);
    }
    #[test]
    #[should_panic]
    fn verif_demo_xlsbrec_short_st_record() {
        // BrtCellSt with 4 bytes: `&self.buf[8..]`
        let _ = read_cells(&sheet(&[0u8; 16], &[0u8; 17], &[rec(0x0006, &[0u8; 4])]), &[], &[]);
    }
    #[test]
    #[should_panic]
    fn verif_demo_xlsbrec_short_rowhdr() {
        // BrtRowHdr with 2 bytes: `read_u32(&self.buf)`
        let _ = read_cells(&sheet(&[0u8; 16], &[0u8; 2], &[]), &[], &[]);
    }
}
#[cfg(test)]
mod verif_demo_xlsbrec_c06_isst {
    use super::*;
    use crate::CellErrorType;
    use std::io::{Cursor, Write};

    /// a zip archive (stored) holding one file `s.bin` with the given BIFF12 record stream
    fn zip_with(bin: &[u8]) -> ZipArchive<Cursor<Vec<u8>>> {
        let mut w = zip::ZipWriter::new(Cursor::new(Vec::new()));
        let opt = zip::write::SimpleFileOptions::default().compression_method(zip::CompressionMethod::Stored);
        w.start_file("s.bin", opt).unwrap();
        w.write_all(bin).unwrap();
        ZipArchive::new(w.finish().unwrap()).unwrap()
    }
    /// one record: 1- or 2-byte type, 1-byte size, payload ([MS-XLSB] 2.1.4)
    fn rec(typ: u16, payload: &[u8]) -> Vec<u8> {
        let mut v = Vec::new();
        if typ < 0x80 { v.push(typ as u8); } else { v.push((typ & 0x7F) as u8 | 0x80); v.push((typ >> 7) as u8); }
        assert!(payload.len() < 0x80);
        v.push(payload.len() as u8);
        v.extend_from_slice(payload);
        v
    }
    /// worksheet part: BrtBeginSheet, BrtWsDim (wsdim bytes), BrtBeginSheetData, BrtRowHdr(row 0), the cell records, BrtEndSheetData
    fn sheet(wsdim: &[u8], rowhdr: &[u8], cells: &[Vec<u8>]) -> Vec<u8> {
        let mut s = Vec::new();
        s.extend(rec(0x0081, &[]));
        s.extend(rec(0x0094, wsdim));
        s.extend(rec(0x0091, &[]));
        s.extend(rec(0x0000, rowhdr));
        for c in cells { s.extend_from_slice(c); }
        s.extend(rec(0x0092, &[]));
        s
    }
    /// all cells `XlsbCellsReader` reports for the stream
    fn read_cells(bin: &[u8], formats: &[CellFormat], strings: &[String]) -> Vec<((u32, u32), DataRef<'static>)> {
        let mut z = zip_with(bin);
        let it = RecordIter::from_zip(&mut z, "s.bin").unwrap();
        let mut r = XlsbCellsReader::new(it, formats, strings, &[], &[], false).unwrap();
        let mut got = Vec::new();
        while let Some(c) = r.next_cell().unwrap() {
            let v = match c.get_value() { DataRef::SharedString(s) => DataRef::String(s.to_string()), DataRef::Int(i) => DataRef::Int(*i),
                DataRef::Float(f) => DataRef::Float(*f), DataRef::String(s) => DataRef::String(s.clone()), DataRef::Bool(b) => DataRef::Bool(*b),
                DataRef::DateTime(d) => DataRef::DateTime(*d), DataRef::Error(e) => DataRef::Error(e.clone()), _ => DataRef::Empty };
            got.push((c.get_position(), v));
        }
        got
    }

    // C06: BrtCellIsst indexes the shared string table with the index stored in the file, unchecked.
    #[test]
    #[should_panic]
    fn verif_demo_xlsbrec_isst_out_of_range() {
        // BrtCellIsst with isst = 5 and an empty shared string table: `self.strings[isst]`
        let _ = read_cells(&sheet(&[0u8; 16], &[0u8; 17], &[rec(0x0007, &[0, 0, 0, 0, 0, 0, 0, 0, 5, 0, 0, 0])]), &[], &[]);
    }
}
