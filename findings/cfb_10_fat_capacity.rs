#[cfg(test)]
mod verif_demo_cfb_10 {
    use super::*;
    // Cfb::new: `Vec::with_capacity(h.fat_len)` with the header's "number of FAT sectors" (u32, unchecked): a 1536-byte well-formed
    // file that declares 16 M FAT sectors reserves 64 MiB (4 bytes per declared sector; up to 16 GiB)
    #[test]
    fn verif_demo_cfb_new_fat_capacity_from_header() {
        let mut f = vec![0u8; 1536];
        f[..8].copy_from_slice(&[0xD0, 0xCF, 0x11, 0xE0, 0xA1, 0xB1, 0x1A, 0xE1]);
        f[26] = 3;
        f[30] = 9;
        f[32] = 6;
        f[44..48].copy_from_slice(&0x0100_0000u32.to_le_bytes()); // number of FAT sectors (really 1)
        f[48..52].copy_from_slice(&1u32.to_le_bytes()); // first directory sector
        f[60..64].copy_from_slice(&ENDOFCHAIN.to_le_bytes());
        f[68..72].copy_from_slice(&ENDOFCHAIN.to_le_bytes());
        for b in f[80..512].iter_mut() {
            *b = 0xFF; // DIFAT[0] = 0, rest FREESECT
        }
        // sector 0 = FAT: [FATSECT, ENDOFCHAIN, FREESECT..]
        for b in f[512..1024].iter_mut() {
            *b = 0xFF;
        }
        f[512..516].copy_from_slice(&0xFFFF_FFFDu32.to_le_bytes());
        f[516..520].copy_from_slice(&ENDOFCHAIN.to_le_bytes());
        // sector 1 = directory (4 zeroed entries)
        let mut r: &[u8] = &f;
        let cfb = Cfb::new(&mut r, 1536).unwrap();
        assert_eq!(cfb.fats.len(), 128);
        assert!(cfb.fats.capacity() >= 0x0100_0000);
    }
}
