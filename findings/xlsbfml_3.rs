#[cfg(test)]
mod verif_demo_xlsbfml_tokens {
    use super::*;
    fn pf(tokens: &[u8]) -> String {
        parse_formula(tokens, &[], &[]).unwrap()
    }
    // [MS-XLSB] Ptg table: PtgGe = 0x0C, PtgGt = 0x0D
    #[test]
    fn verif_demo_xlsbfml_ge_and_gt_swapped() {
        assert_eq!(pf(&[0x1E, 1, 0, 0x1E, 2, 0, 0x0C]), "1>2"); // PtgGe: expected "1>=2"
        assert_eq!(pf(&[0x1E, 1, 0, 0x1E, 2, 0, 0x0D]), "1>=2"); // PtgGt: expected "1>2"
        assert_eq!(pf(&[0x1E, 1, 0, 0x1E, 2, 0, 0x0A]), "1<=2"); // PtgLe: right
    }
    // a string literal containing a double quote: formula text writes it twice
    #[test]
    fn verif_demo_xlsbfml_string_quote_not_doubled() {
        // PtgStr a"b : expected "a""b" (with the enclosing quotes: 6 characters), got "a"b"
        assert_eq!(pf(&[0x17, 3, 0, b'a', 0, b'"', 0, b'b', 0]), "\"a\"b\"");
    }
}
