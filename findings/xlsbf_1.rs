#[cfg(test)]
mod verif_demo_c14_xlsb_refs {
    use super::*;
    // xlsb parse_formula takes the bare token bytes; `sheets` is the extern-sheet list already resolved per XTI
    fn pf(tokens: &[u8]) -> Result<String, String> {
        let sheets = vec!["S0".to_string(), "S1".to_string()];
        parse_formula(tokens, &sheets, &[]).map_err(|e| e.to_string())
    }
    // [MS-XLSB] 2.5.97.68 PtgRef = ptg, RgceLoc { row: u32, col: bits 0-13 column, bit 14 fColRel, bit 15 fRwRel }
    #[test]
    fn verif_demo_xlsb_ptgref_uniform_flags_ok() {
        assert_eq!(pf(&[0x44, 2, 0, 0, 0, 1, 0xC0]).unwrap(), "B3");
        assert_eq!(pf(&[0x44, 2, 0, 0, 0, 1, 0x00]).unwrap(), "$B$3");
    }
    #[test]
    fn verif_demo_xlsb_ptgref_mixed_flags_swapped() {
        assert_eq!(pf(&[0x44, 2, 0, 0, 0, 1, 0x80]).unwrap(), "B$3"); // fRwRel only: encodes $B3
        assert_eq!(pf(&[0x44, 2, 0, 0, 0, 1, 0x40]).unwrap(), "$B3"); // fColRel only: encodes B$3
    }
    // PtgRef3d / PtgArea / PtgArea3d: always `$`, and the flag bits are not masked out of the column
    #[test]
    fn verif_demo_xlsb_ref3d_area_relative_flags_ignored_and_not_masked() {
        assert_eq!(pf(&[0x3A, 1, 0, 2, 0, 0, 0, 1, 0xC0]).unwrap(), "S1!$BTRN$3"); // expected S1!B3
        assert_eq!(pf(&[0x25, 0, 0, 0, 0, 1, 0, 0, 0, 0, 0xC0, 1, 0xC0]).unwrap(), "$BTRM$1:$BTRN$2"); // expected A1:B2
        assert_eq!(pf(&[0x3B, 1, 0, 0, 0, 0, 0, 1, 0, 0, 0, 0, 0xC0, 1, 0xC0]).unwrap(), "S1!$BTRM$1:$BTRN$2"); // expected S1!A1:B2
    }
    #[test]
    fn verif_demo_xlsb_absolute_area_ok() {
        assert_eq!(pf(&[0x3A, 1, 0, 2, 0, 0, 0, 1, 0x00]).unwrap(), "S1!$B$3");
        assert_eq!(pf(&[0x25, 0, 0, 0, 0, 1, 0, 0, 0, 0, 0, 1, 0]).unwrap(), "$A$1:$B$2");
    }
    // PtgArray pushes a stack slot but no text; PtgExtend likewise: operands vanish from the rendering
    #[test]
    fn verif_demo_xlsb_ptgarray_operand_vanishes() {
        assert_eq!(pf(&[0x60, 0, 0, 0, 0, 0, 0, 0, 0, 0, 0, 0, 0, 0, 0, 0x22, 1, 4, 0]).unwrap(), "SUM()");
    }
}
