#[cfg(test)]
mod verif_demo_c14_xlsb_refs {
    use super::*;
    // xlsb parse_formula takes the bare token bytes; `sheets` is the extern-sheet list already resolved per XTI
    fn pf(tokens: &[u8]) -> Result<String, String> {
        let sheets = vec!["S0".to_string(), "S1".to_string()];
        parse_formula(tokens, &sheets, &[]).map_err(|e| e.to_string())
    }
    // PtgArray pushes a stack slot but no text; PtgExtend likewise: operands vanish from the rendering
    #[test]
    fn verif_demo_xlsb_ptgarray_operand_vanishes() {
        assert_eq!(pf(&[0x60, 0, 0, 0, 0, 0, 0, 0, 0, 0, 0, 0, 0, 0, 0, 0x22, 1, 4, 0]).unwrap(), "SUM()");
    }
}
