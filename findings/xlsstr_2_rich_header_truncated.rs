#[cfg(test)]
mod verif_demo_xlsstr_2 {
    use super::*;
    // read_rich_extended_string checks only the 3 fixed header bytes; cRun (fRichSt) / cbExtRst (fExtSt) are read unchecked
    #[test]
    #[should_panic]
    fn verif_demo_xlsstr_rich_crun_missing() {
        let enc = XlsEncoding::from_codepage(1200).unwrap();
        let d: &[u8] = &[0, 0, 0x08]; // cch = 0, fRichSt, record ends
        let mut r = Record { typ: 0x00FC, data: d, cont: None };
        let _ = read_rich_extended_string(&mut r, &enc);
    }
    #[test]
    #[should_panic]
    fn verif_demo_xlsstr_rich_cbextrst_missing() {
        let enc = XlsEncoding::from_codepage(1200).unwrap();
        let d: &[u8] = &[0, 0, 0x04, 1, 2]; // cch = 0, fExtSt, only 2 of the 4 cbExtRst bytes
        let mut r = Record { typ: 0x00FC, data: d, cont: None };
        let _ = read_rich_extended_string(&mut r, &enc);
    }
}
