#[cfg(test)]
mod verif_demo_vbadec_from_cfb {
    use super::*;
    // VbaProject::from_cfb is outside the reach of Verus (closures capturing `&mut cfb`/`&mut r`, `collect::<Result<BTreeMap,..>>`).
    // This module builds a `Cfb` value by hand (two mini-streams: "dir" and a module stream), runs the REAL from_cfb and shows
    //  (control) the module is stored under MODULENAME with the content of the stream named by MODULESTREAMNAME cut at TextOffset;
    //  (finding, C06) a TextOffset beyond the module stream panics in `&s[m.text_offset..]`.

    /// [MS-OVBA] 2.4.1 container made of ONE compressed chunk of literal tokens only (a FlagByte 0x00 before every 8 literals)
    fn compress_literals(data: &[u8]) -> Vec<u8> {
        let mut body = Vec::new();
        for g in data.chunks(8) {
            body.push(0x00);
            body.extend_from_slice(g);
        }
        let size = (body.len() + 2 - 3) as u16;
        assert!(size <= 0x0FFF);
        let header = 0xB000u16 | size;
        let mut v = vec![0x01, (header & 0xFF) as u8, (header >> 8) as u8];
        v.extend_from_slice(&body);
        v
    }
    fn var(id: u16, payload: &[u8]) -> Vec<u8> {
        let mut v = vec![(id & 0xFF) as u8, (id >> 8) as u8];
        v.extend_from_slice(&(payload.len() as u32).to_le_bytes());
        v.extend_from_slice(payload);
        v
    }
    /// decompressed dir stream: one module, MODULENAME `name`, MODULESTREAMNAME `stream_name`, TextOffset `text_offset`
    fn dir_stream(name: &[u8], stream_name: &[u8], text_offset: u32) -> Vec<u8> {
        let mut d = Vec::new();
        d.extend_from_slice(&[0x01, 0, 4, 0, 0, 0, 1, 0, 0, 0]); // PROJECTSYSKIND
        d.extend_from_slice(&[0x02, 0, 4, 0, 0, 0, 9, 4, 0, 0]); // PROJECTLCID
        d.extend_from_slice(&[0x14, 0, 4, 0, 0, 0, 9, 4, 0, 0]); // PROJECTLCIDINVOKE
        d.extend_from_slice(&[0x03, 0, 2, 0, 0, 0, 0xE4, 0x04]); // PROJECTCODEPAGE 1252
        d.extend(var(0x04, b"P")); // PROJECTNAME
        d.extend(var(0x05, b"")); // PROJECTDOCSTRING
        d.extend(var(0x40, b""));
        d.extend(var(0x06, b"")); // PROJECTHELPFILEPATH
        d.extend(var(0x3D, b""));
        d.extend_from_slice(&[0u8; 32]); // PROJECTHELPCONTEXT, PROJECTLIBFLAGS, PROJECTVERSION
        d.extend(var(0x0C, b"")); // PROJECTCONSTANTS
        d.extend(var(0x3C, b""));
        d.extend_from_slice(&[0x0F, 0x00, 2, 0, 0, 0, 1, 0]); // (no references) PROJECTMODULES: count 1
        d.extend_from_slice(&[0x13, 0x00, 2, 0, 0, 0, 0xFF, 0xFF]); // PROJECTCOOKIE
        d.extend(var(0x19, name));
        d.extend(var(0x47, b""));
        d.extend(var(0x1A, stream_name));
        d.extend(var(0x32, b""));
        d.extend(var(0x1C, b""));
        d.extend(var(0x48, b""));
        d.extend_from_slice(&[0x31, 0x00, 4, 0, 0, 0]);
        d.extend_from_slice(&text_offset.to_le_bytes()); // MODULEOFFSET
        d.extend_from_slice(&[0x1E, 0x00, 4, 0, 0, 0, 0, 0, 0, 0]); // MODULEHELPCONTEXT
        d.extend_from_slice(&[0x2C, 0x00, 2, 0, 0, 0, 0xFF, 0xFF]); // MODULECOOKIE
        d.extend_from_slice(&[0x21, 0x00, 0, 0, 0, 0]); // MODULETYPE procedural
        d.extend_from_slice(&[0x2B, 0x00, 0, 0, 0, 0]); // Terminator
        d
    }
    /// a Cfb whose mini-stream holds the given named streams (each < 4096 bytes), 64-byte mini sectors chained in order
    fn cfb_with(streams: &[(&str, Vec<u8>)]) -> Cfb {
        let mut data = Vec::new();
        let mut mini_fats = Vec::new();
        let mut directories = Vec::new();
        for (name, bytes) in streams {
            assert!(bytes.len() < 4096 && !bytes.is_empty());
            let first = mini_fats.len() as u32;
            let n = (bytes.len() + 63) / 64;
            for k in 0..n {
                mini_fats.push(if k + 1 == n { ENDOFCHAIN } else { first + k as u32 + 1 });
            }
            data.extend_from_slice(bytes);
            data.resize(mini_fats.len() * 64, 0);
            directories.push(Directory { name: name.to_string(), start: first, len: bytes.len() });
        }
        Cfb { directories, sectors: Sectors::new(512, Vec::new()), fats: Vec::new(), mini_sectors: Sectors::new(64, data), mini_fats }
    }

    #[test]
    fn verif_demo_vbadec_from_cfb_control_module_by_stream_name_at_offset() {
        // module NAME "Mod1", STREAM NAME "StrA" (different), 5 bytes of p-code before the compressed source
        let source = b"Sub Hello()\r\nEnd Sub\r\n";
        let mut module_stream = vec![0xAA, 0xBB, 0xCC, 0xDD, 0xEE];
        module_stream.extend(compress_literals(source));
        let mut cfb = cfb_with(&[
            ("dir", compress_literals(&dir_stream(b"Mod1", b"StrA", 5))),
            ("Mod1", vec![0x01, 0x01, 0xB0, 0x00, b'X']), // decoy stream carrying the module NAME: must NOT be used
            ("StrA", module_stream),
        ]);
        let mut r: &[u8] = &[];
        let p = crate::vba::VbaProject::from_cfb(&mut r, &mut cfb).unwrap();
        assert_eq!(p.get_module_names(), vec!["Mod1"]);
        assert_eq!(p.get_module_raw("Mod1").unwrap(), &source[..]);
        assert_eq!(p.get_module("Mod1").unwrap(), String::from_utf8_lossy(source));
        assert!(p.get_references().is_empty());
    }
    #[test]
    #[should_panic]
    fn verif_demo_vbadec_from_cfb_text_offset_beyond_stream() {
        // same project, TextOffset = 1000 > length of the module stream: `&s[m.text_offset..]` panics (C06)
        let source = b"Sub Hello()\r\nEnd Sub\r\n";
        let mut module_stream = vec![0xAA, 0xBB, 0xCC, 0xDD, 0xEE];
        module_stream.extend(compress_literals(source));
        let mut cfb = cfb_with(&[("dir", compress_literals(&dir_stream(b"Mod1", b"StrA", 1000))), ("StrA", module_stream)]);
        let mut r: &[u8] = &[];
        let _ = crate::vba::VbaProject::from_cfb(&mut r, &mut cfb);
    }
    #[test]
    #[should_panic]
    fn verif_demo_vbadec_from_cfb_text_offset_at_end_of_stream() {
        // TextOffset == stream length: `decompress_stream(&[])` -> `s[0]` panics (the empty-input finding, reached from the entry point)
        let module_stream = vec![0xAA, 0xBB, 0xCC, 0xDD, 0xEE];
        let mut cfb = cfb_with(&[("dir", compress_literals(&dir_stream(b"Mod1", b"StrA", 5))), ("StrA", module_stream)]);
        let mut r: &[u8] = &[];
        let _ = crate::vba::VbaProject::from_cfb(&mut r, &mut cfb);
    }
}
