#[cfg(test)]
mod verif_demo_c14_xls_ptgref3d {
    use super::*;
    // rgce of a CellParsedFormula: u16 cce, then the tokens
    fn pf(tokens: &[u8]) -> Result<String, String> {
        let mut rgce = vec![tokens.len() as u8, (tokens.len() >> 8) as u8];
        rgce.extend_from_slice(tokens);
        let sheets = vec!["S0".to_string(), "S1".to_string(), "S2".to_string()];
        // XTI table: ixti 0 -> sheet 2 (S2), ixti 1 -> sheet 0 (S0)
        let xtis = vec![Xti { _isup_book: 0, itab_first: 2, _itab_last: 2 }, Xti { _isup_book: 0, itab_first: 0, _itab_last: 0 }];
        let enc = XlsEncoding::from_codepage(1200).unwrap();
        parse_formula(&rgce, &sheets, &[], &xtis, &enc).map_err(|e| e.to_string())
    }
    // [MS-XLS] 2.5.198.85 PtgRef3d = ptg, ixti: u16, RgceLoc { rw, col|flags } -- same RgceLoc as PtgRef.
    // The code computes `col = colu << 2` and tests `colu & 2` / `colu & 1` (bits of the column number) for the `$`s.
    #[test]
    fn verif_demo_xls_ptgref3d_column_and_flags_wrong() {
        // ixti 0 -> S2, row 2, col 1, both relative: expected "S2!B3"
        assert_eq!(pf(&[0x3A, 0, 0, 2, 0, 1, 0xC0]).unwrap(), "S2!E$3");
        // ixti 1 -> S0, row 2, col 1, both absolute: expected "S0!$B$3"
        assert_eq!(pf(&[0x3A, 1, 0, 2, 0, 1, 0x00]).unwrap(), "S0!E$3");
        // ixti 1 -> S0, row 0, col 2, column absolute: expected "S0!$C1"
        assert_eq!(pf(&[0x3A, 1, 0, 0, 0, 2, 0x80]).unwrap(), "S0!$I1");
    }
    #[test]
    fn verif_demo_xls_ptgref3d_sheet_resolved_through_xti_ok() {
        assert_eq!(pf(&[0x3A, 1, 0, 0, 0, 0, 0xC0]).unwrap(), "S0!A1"); // column 0: `<< 2` and the bit tests happen to be harmless
    }
}
