#[cfg(test)]
mod verif_demo_xlsbwb_framing {
    use super::*;
    use std::io::{Cursor, Write};

    /// one record: 1- or 2-byte type, 1-byte size, payload ([MS-XLSB] 2.1.4)
    pub(super) fn rec(typ: u16, payload: &[u8]) -> Vec<u8> {
        let mut v = Vec::new();
        if typ < 0x80 { v.push(typ as u8); } else { v.push((typ & 0x7F) as u8 | 0x80); v.push((typ >> 7) as u8); }
        assert!(payload.len() < 0x80);
        v.push(payload.len() as u8);
        v.extend_from_slice(payload);
        v
    }
    pub(super) fn wstr(s: &str) -> Vec<u8> {
        let u: Vec<u16> = s.encode_utf16().collect();
        let mut v = (u.len() as u32).to_le_bytes().to_vec();
        for c in u { v.extend_from_slice(&c.to_le_bytes()); }
        v
    }
    /// BrtBundleSh: hsState, iTabID, strRelID, strName
    pub(super) fn bundle(hs: u32, tab: u32, rid: &str, name: &str) -> Vec<u8> {
        let mut p = hs.to_le_bytes().to_vec();
        p.extend_from_slice(&tab.to_le_bytes());
        p.extend(wstr(rid));
        p.extend(wstr(name));
        rec(0x009C, &p)
    }
    /// an in-memory xlsb package: workbook.bin, its relationship part (rId1 -> target), optional styles / shared strings parts
    pub(super) fn open(workbook: &[u8], target: &str, styles: Option<&[u8]>, sst: Option<&[u8]>) -> Result<Xlsb<Cursor<Vec<u8>>>, XlsbError> {
        let mut zw = zip::ZipWriter::new(Cursor::new(Vec::new()));
        let opt = zip::write::SimpleFileOptions::default().compression_method(zip::CompressionMethod::Stored);
        zw.start_file("xl/workbook.bin", opt).unwrap();
        zw.write_all(workbook).unwrap();
        zw.start_file("xl/_rels/workbook.bin.rels", opt).unwrap();
        zw.write_all(format!(r#"<?xml version="1.0" encoding="UTF-8"?><Relationships xmlns="http://schemas.openxmlformats.org/package/2006/relationships"><Relationship Id="rId1" Type="http://schemas.openxmlformats.org/officeDocument/2006/relationships/worksheet" Target="{target}"/></Relationships>"#).as_bytes()).unwrap();
        if let Some(s) = styles { zw.start_file("xl/styles.bin", opt).unwrap(); zw.write_all(s).unwrap(); }
        if let Some(s) = sst { zw.start_file("xl/sharedStrings.bin", opt).unwrap(); zw.write_all(s).unwrap(); }
        let cur = zw.finish().unwrap();
        Xlsb::new(Cursor::new(cur.into_inner()))
    }
    /// BrtBookView ([MS-XLSB] 2.4.301): xWn, yWn, dxWn, dyWn i32, iTabRatio, itabFirst, itabCur u32, flags u8 -- a record kind the reader
    /// does not interpret
    fn book_view(dx_wn: i32) -> Vec<u8> {
        let mut p = Vec::new();
        for v in [0i32, 0, dx_wn, 0] { p.extend_from_slice(&v.to_le_bytes()); }
        for v in [600u32, 0, 0] { p.extend_from_slice(&v.to_le_bytes()); }
        p.push(0x78);
        rec(0x009E, &p)
    }
    fn workbook(dx_wn: i32) -> Vec<u8> {
        let mut w = Vec::new();
        w.extend(rec(0x0083, &[]));          // BrtBeginBook
        w.extend(book_view(dx_wn));          // BrtBookView
        w.extend(rec(0x008F, &[]));          // BrtBeginBundleShs
        w.extend(bundle(0, 1, "rId1", "Sheet1"));
        w.extend(rec(0x0090, &[]));          // BrtEndBundleShs
        w.extend(rec(0x0084, &[]));          // BrtEndBook
        w
    }

    // C03 / C16: `_ => ()` in read_workbook does not skip the size and payload of record kinds the reader does not interpret; the payload
    // bytes are parsed as record types.  A window width of 400 (bytes 90 01 00 00) inside BrtBookView is read as BrtEndBundleShs (0x0090 is
    // encoded 90 01): the sheet list "ends" before the first BrtBundleSh and the workbook opens with NO sheets.
    #[test]
    fn verif_demo_xlsbwb_unskipped_payload_drops_all_sheets() {
        // control: same workbook, window width 28800
        let ok = open(&workbook(28800), "worksheets/sheet1.bin", None, None).unwrap();
        assert_eq!(ok.sheet_names(), vec!["Sheet1".to_string()]);
        // window width 400: expected the same sheet list
        let bad = open(&workbook(400), "worksheets/sheet1.bin", None, None).unwrap();
        assert_eq!(bad.sheet_names(), Vec::<String>::new());   // expected ["Sheet1"]
        assert!(bad.sheets_metadata().is_empty());
    }

    // C03 / C16: the same in the second loop of read_workbook (`_ => debug!(..)`): an ignorable record after the sheet list whose payload
    // contains the bytes 84 01 (BrtEndBook) ends the scan before the BrtName records: the defined names are dropped.
    #[test]
    fn verif_demo_xlsbwb_unskipped_payload_drops_defined_names() {
        fn name_rec(name: &str) -> Vec<u8> {
            // BrtName: flags u32, chKey u8, itab u32, name XLWideString, cce u32 = 0 (empty formula)
            let mut p = vec![0u8; 9];
            p.extend(wstr(name));
            p.extend_from_slice(&0u32.to_le_bytes());
            rec(0x0027, &p)
        }
        fn wb(filler: &[u8]) -> Vec<u8> {
            let mut w = Vec::new();
            w.extend(rec(0x0083, &[]));
            w.extend(rec(0x008F, &[]));
            w.extend(bundle(0, 1, "rId1", "Sheet1"));
            w.extend(rec(0x0090, &[]));
            w.extend(rec(0x0165, filler));      // BrtBeginExternals-like ignorable record with a payload
            w.extend(name_rec("MyName"));
            w.extend(rec(0x0084, &[]));
            w
        }
        let ok = open(&wb(&[0x01, 0x02, 0x03, 0x04]), "worksheets/sheet1.bin", None, None).unwrap();
        assert_eq!(ok.defined_names().len(), 1);
        let bad = open(&wb(&[0x84, 0x01, 0x03, 0x04]), "worksheets/sheet1.bin", None, None).unwrap();
        assert_eq!(bad.defined_names().len(), 0);   // expected 1: [("MyName", "")]
    }

    // C03 / C10: same pattern in read_styles (`_ => ()` then `buf.clear()`): the payload of an ignorable record that contains E9 04
    // (BrtBeginCellXFs 0x0269) is taken for the cell-XF table; the real table is never read, so no cell is ever typed as a date.
    #[test]
    fn verif_demo_xlsbwb_unskipped_payload_in_styles_loses_date_formats() {
        fn styles(filler: &[u8]) -> Vec<u8> {
            let mut s = Vec::new();
            s.extend(rec(0x0116, &[]));                 // BrtBeginStyleSheet
            s.extend(rec(0x0263, filler));              // BrtBeginFonts-like ignorable record with a payload
            s.extend(rec(0x0269, &1u32.to_le_bytes())); // BrtBeginCellXFs, 1 XF
            s.extend(rec(0x002F, &[0, 0, 14, 0, 0, 0, 0, 0, 0, 0, 0, 0, 0, 0, 0, 0])); // BrtXF iFmt = 14 (m/d/yyyy)
            s.extend(rec(0x026A, &[]));
            s
        }
        let wbk = workbook(28800);
        let ok = open(&wbk, "worksheets/sheet1.bin", Some(&styles(&[1, 0, 0, 0, 0, 0, 0])), None).unwrap();
        assert_eq!(ok.formats, vec![CellFormat::DateTime]);
        // filler E9 04 | 04 | 00 00 00 00  = "BrtBeginCellXFs, size 4, count 0"
        let bad = open(&wbk, "worksheets/sheet1.bin", Some(&styles(&[0xE9, 0x04, 0x04, 0, 0, 0, 0])), None).unwrap();
        assert_eq!(bad.formats, Vec::<CellFormat>::new());   // expected [DateTime]
    }
}
