#[cfg(test)]
mod verif_demo_apiglue_range_ref_unimplemented {
    use super::*;
    use std::io::Cursor;

    fn fixture(name: &str) -> Vec<u8> {
        std::fs::read(format!("{}/tests/{}", env!("CARGO_MANIFEST_DIR"), name)).unwrap()
    }

    // control: the same workbook saved as xlsx / xlsb, opened through auto-detection, serves worksheet_range_ref and
    // worksheet_range_at_ref like the format's own reader
    #[test]
    fn verif_demo_apiglue_auto_xlsx_xlsb_range_ref_ok() {
        for f in ["any_sheets.xlsx", "any_sheets.xlsb"] {
            let mut wb = open_workbook_auto_from_rs(Cursor::new(fixture(f))).unwrap();
            let name = wb.sheet_names()[0].clone();
            let by_name = wb.worksheet_range_ref(&name).unwrap().get_size();
            let by_index = wb.worksheet_range_at_ref(0).unwrap().unwrap().get_size();
            assert_eq!(by_name, by_index);
            assert!(wb.worksheet_range_ref("no such sheet").is_err());
        }
    }

    // C06: "every subsequent read call on a workbook that opened ... returns Ok or Err: it does not panic". An .xls file opened through
    // auto-detection opens fine, worksheet_range works, but the ReaderRef read calls hit `Sheets::Xls(_) => unimplemented!()`.
    #[test]
    #[should_panic(expected = "not implemented")]
    fn verif_demo_apiglue_auto_xls_range_ref_panics() {
        let mut wb = open_workbook_auto_from_rs(Cursor::new(fixture("any_sheets.xls"))).unwrap();
        let name = wb.sheet_names()[0].clone();
        assert!(wb.worksheet_range(&name).is_ok());
        let _ = wb.worksheet_range_ref(&name);
    }

    // the same through the file-name based entry point and through the by-index default method of trait ReaderRef
    #[test]
    #[should_panic(expected = "not implemented")]
    fn verif_demo_apiglue_auto_xls_path_range_at_ref_panics() {
        let mut wb = open_workbook_auto(format!("{}/tests/any_sheets.xls", env!("CARGO_MANIFEST_DIR"))).unwrap();
        let _ = wb.worksheet_range_at_ref(0);
    }

    // ... and for ods; even an unknown sheet name (an Err for every other read call) panics
    #[test]
    #[should_panic(expected = "not implemented")]
    fn verif_demo_apiglue_auto_ods_range_ref_panics() {
        let mut wb = open_workbook_auto_from_rs(Cursor::new(fixture("any_sheets.ods"))).unwrap();
        assert!(wb.worksheet_range("no such sheet").is_err());
        let _ = wb.worksheet_range_ref("no such sheet");
    }
}
