#[cfg(test)]
mod verif_demo_c06_vbadec_vba {
    use super::*;
    // the decompressed `dir` stream of a VBA project is file-controlled; its fixed-size records are skipped with `&stream[n..]`
    // and variable records are cut with `split_at(len)`, all without comparing with the bytes left.
    #[test]
    #[should_panic]
    fn verif_demo_vbadec_var_record_size_beyond_end() {
        // size field 0x7FFFFFFF, no payload: split_at(len) panics
        let mut r: &[u8] = &[0xFF, 0xFF, 0xFF, 0x7F];
        let _ = read_variable_record(&mut r, 1);
    }
    #[test]
    #[should_panic]
    fn verif_demo_vbadec_check_variable_record_size_beyond_end() {
        // record id 0x0019 as expected, size 5, only 1 payload byte
        let mut r: &[u8] = &[0x19, 0x00, 0x05, 0x00, 0x00, 0x00, 0x41];
        let _ = check_variable_record(0x0019, &mut r);
    }
    #[test]
    #[should_panic]
    fn verif_demo_vbadec_dir_information_empty() {
        let mut r: &[u8] = &[];
        let _ = read_dir_information(&mut r); // &stream[10..]
    }
    #[test]
    #[should_panic]
    fn verif_demo_vbadec_dir_information_ends_after_syskind() {
        let mut r: &[u8] = &[0u8; 10];
        let _ = read_dir_information(&mut r); // &stream[0..2]
    }
    #[test]
    #[should_panic]
    fn verif_demo_vbadec_dir_information_truncated_compat_version() {
        let mut v = vec![0u8; 10];
        v.extend_from_slice(&[0x4A, 0x00, 0x04]); // PROJECTCOMPATVERSION id, then truncated
        let mut r: &[u8] = &v;
        let _ = read_dir_information(&mut r); // second &stream[10..]
    }
    #[test]
    #[should_panic]
    fn verif_demo_vbadec_dir_information_truncated_lcid() {
        let mut r: &[u8] = &[0u8; 25];
        let _ = read_dir_information(&mut r); // &stream[20..]
    }
    #[test]
    #[should_panic]
    fn verif_demo_vbadec_dir_information_truncated_codepage() {
        let mut r: &[u8] = &[0u8; 37];
        let _ = read_dir_information(&mut r); // &stream[6..8]
    }
    #[test]
    #[should_panic]
    fn verif_demo_vbadec_dir_information_truncated_after_helpfile() {
        // 30 bytes SYSKIND/LCID/LCIDINVOKE, code page record with 1252, then the five variable records with size 0, then < 32 bytes
        let mut v = vec![0u8; 30];
        v.extend_from_slice(&[0x03, 0x00, 0x02, 0x00, 0x00, 0x00, 0xE4, 0x04]);
        for id in [0x04u8, 0x05, 0x40, 0x06, 0x3D] {
            v.extend_from_slice(&[id, 0x00, 0, 0, 0, 0]);
        }
        v.extend_from_slice(&[0u8; 31]);
        let mut r: &[u8] = &v;
        let _ = read_dir_information(&mut r); // &stream[32..]
    }
    fn enc() -> XlsEncoding {
        XlsEncoding::from_codepage(1252).unwrap()
    }
    #[test]
    #[should_panic]
    fn verif_demo_vbadec_modules_empty() {
        let mut r: &[u8] = &[];
        let _ = read_modules(&mut r, &enc()); // &stream[4..]
    }
    #[test]
    #[should_panic]
    fn verif_demo_vbadec_modules_truncated_cookie() {
        // PROJECTMODULES size, count = 0, PROJECTCOOKIE truncated
        let mut r: &[u8] = &[0x02, 0x00, 0x00, 0x00, 0x00, 0x00, 0x13, 0x00, 0x02];
        let _ = read_modules(&mut r, &enc()); // &stream[8..]
    }
    fn module_prefix() -> Vec<u8> {
        // (the id 0x000F of PROJECTMODULES was consumed by Reference::from_stream) size, count = 1, PROJECTCOOKIE,
        // then MODULENAME .. MODULEDOCSTRINGUNICODE with empty payloads
        let mut v = vec![0x02, 0x00, 0x00, 0x00, 0x01, 0x00, 0x13, 0x00, 0x02, 0x00, 0x00, 0x00, 0xFF, 0xFF];
        for id in [0x19u8, 0x47, 0x1A, 0x32, 0x1C, 0x48] {
            v.extend_from_slice(&[id, 0x00, 0, 0, 0, 0]);
        }
        v
    }
    #[test]
    #[should_panic]
    fn verif_demo_vbadec_modules_truncated_offset_record() {
        let mut v = module_prefix();
        v.extend_from_slice(&[0x31, 0x00, 0x04]); // MODULEOFFSET id, size truncated
        let mut r: &[u8] = &v;
        let _ = read_modules(&mut r, &enc()); // &stream[4..] after check_record(0x0031)
    }
    #[test]
    #[should_panic]
    fn verif_demo_vbadec_modules_truncated_helpcontext_and_cookie() {
        let mut v = module_prefix();
        v.extend_from_slice(&[0x31, 0x00, 0x04, 0, 0, 0, 0x10, 0, 0, 0]); // MODULEOFFSET
        v.extend_from_slice(&[0x1E, 0x00, 0x04, 0, 0, 0, 0, 0, 0, 0]); // MODULEHELPCONTEXT
        v.extend_from_slice(&[0x2C, 0x00, 0x02]); // MODULECOOKIE truncated
        let mut r: &[u8] = &v;
        let _ = read_modules(&mut r, &enc()); // &stream[6..]
    }
    #[test]
    #[should_panic]
    fn verif_demo_vbadec_modules_truncated_type_reserved() {
        let mut v = module_prefix();
        v.extend_from_slice(&[0x31, 0x00, 0x04, 0, 0, 0, 0x10, 0, 0, 0]);
        v.extend_from_slice(&[0x1E, 0x00, 0x04, 0, 0, 0, 0, 0, 0, 0]);
        v.extend_from_slice(&[0x2C, 0x00, 0x02, 0, 0, 0, 0xFF, 0xFF]);
        v.extend_from_slice(&[0x21, 0x00, 0x00]); // MODULETYPE id, reserved u32 truncated
        let mut r: &[u8] = &v;
        let _ = read_modules(&mut r, &enc()); // &stream[4..] in the flags loop
    }
    #[test]
    fn verif_demo_vbadec_modules_control_ok() {
        // control: the same module completed correctly parses, text_offset = 0x10
        let mut v = module_prefix();
        v.extend_from_slice(&[0x31, 0x00, 0x04, 0, 0, 0, 0x10, 0, 0, 0]);
        v.extend_from_slice(&[0x1E, 0x00, 0x04, 0, 0, 0, 0, 0, 0, 0]);
        v.extend_from_slice(&[0x2C, 0x00, 0x02, 0, 0, 0, 0xFF, 0xFF]);
        v.extend_from_slice(&[0x21, 0x00, 0, 0, 0, 0, 0x2B, 0x00, 0, 0, 0, 0]);
        let mut r: &[u8] = &v;
        let m = read_modules(&mut r, &enc()).unwrap();
        assert_eq!(m.len(), 1);
        assert_eq!(m[0].text_offset, 0x10);
        assert!(r.is_empty());
    }
    #[test]
    #[should_panic]
    fn verif_demo_vbadec_references_control_truncated_size() {
        // REFERENCECONTROL id 0x002F, then only 1 byte of SizeTwiddled: &stream[4..]
        let mut r: &[u8] = &[0x2F, 0x00, 0x01];
        let _ = Reference::from_stream(&mut r, &enc());
    }
    #[test]
    #[should_panic]
    fn verif_demo_vbadec_references_registered_truncated_reserved() {
        // REFERENCEREGISTERED id 0x000D, size u32, libid record of size 0, then only 2 of the 6 reserved bytes: &stream[6..]
        let mut r: &[u8] = &[0x0D, 0x00, 0, 0, 0, 0, 0, 0, 0, 0, 0xAA, 0xBB];
        let _ = Reference::from_stream(&mut r, &enc());
    }
    #[test]
    #[should_panic]
    fn verif_demo_vbadec_references_control_truncated_tail() {
        // REFERENCECONTROL: id, SizeTwiddled, libid (size 0), 6 reserved, id 0x0030, SizeExtended, libid (size 0), then 3 of the 26 tail bytes
        let mut v = vec![0x2F, 0x00, 0, 0, 0, 0, 0, 0, 0, 0, 0, 0, 0, 0, 0, 0, 0x30, 0x00, 0, 0, 0, 0, 0, 0, 0, 0];
        v.extend_from_slice(&[1, 2, 3]);
        let mut r: &[u8] = &v;
        let _ = Reference::from_stream(&mut r, &enc()); // &stream[26..]
    }
    #[test]
    fn verif_demo_vbadec_references_control_ok() {
        // control: REFERENCENAME "Lib" + unicode, REFERENCEREGISTERED with libid "a#b#c", terminator 0x000F
        let mut v = vec![0x16, 0x00, 3, 0, 0, 0, b'L', b'i', b'b', 0x3E, 0x00, 0, 0, 0, 0];
        v.extend_from_slice(&[0x0D, 0x00, 0, 0, 0, 0, 5, 0, 0, 0, b'a', b'#', b'b', b'#', b'c', 0, 0, 0, 0, 0, 0]);
        v.extend_from_slice(&[0x0F, 0x00]);
        let mut r: &[u8] = &v;
        let refs = Reference::from_stream(&mut r, &enc()).unwrap();
        assert_eq!(refs.len(), 1);
        assert_eq!(refs[0].name, "Lib");
        assert!(r.is_empty());
    }
}
