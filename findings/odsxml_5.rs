#[cfg(test)]
mod verif_demo_odsxml_c04_escaped_values {
    use super::*;
    use std::io::{Cursor, Write};

    /// a minimal .ods in memory: mimetype + manifest + the given content.xml
    fn ods_bytes(content: &str) -> Vec<u8> {
        let mut w = zip::ZipWriter::new(Cursor::new(Vec::new()));
        let stored = zip::write::SimpleFileOptions::default().compression_method(zip::CompressionMethod::Stored);
        w.start_file("mimetype", stored).unwrap();
        w.write_all(MIMETYPE).unwrap();
        w.start_file("META-INF/manifest.xml", stored).unwrap();
        w.write_all(br#"<?xml version="1.0" encoding="UTF-8"?><manifest:manifest xmlns:manifest="urn:oasis:names:tc:opendocument:xmlns:manifest:1.0"><manifest:file-entry manifest:full-path="/" manifest:media-type="application/vnd.oasis.opendocument.spreadsheet"/></manifest:manifest>"#).unwrap();
        w.start_file("content.xml", stored).unwrap();
        w.write_all(content.as_bytes()).unwrap();
        w.finish().unwrap().into_inner()
    }
    const HEAD: &str = r#"<?xml version="1.0" encoding="UTF-8"?><office:document-content xmlns:office="urn:oasis:names:tc:opendocument:xmlns:office:1.0" xmlns:table="urn:oasis:names:tc:opendocument:xmlns:table:1.0" xmlns:text="urn:oasis:names:tc:opendocument:xmlns:text:1.0" xmlns:dc="http://purl.org/dc/elements/1.1/" office:version="1.2"><office:body><office:spreadsheet>"#;
    const TAIL: &str = "</office:spreadsheet></office:body></office:document-content>";
    fn sheet(cells: &str) -> String {
        format!("{HEAD}<table:table table:name=\"S\"><table:table-row>{cells}</table:table-row></table:table>{TAIL}")
    }
    fn open(content: &str) -> Result<Ods<Cursor<Vec<u8>>>, OdsError> {
        Ods::new(Cursor::new(ods_bytes(content)))
    }
    fn a1(content: &str) -> Data {
        let mut wb = open(content).expect("workbook opens");
        let r = wb.worksheet_range("S").expect("sheet S");
        r.get_value((0, 0)).cloned().unwrap_or(Data::Empty)
    }

    // ---- C04 (obligation C04.ods_value_typing_unescaped): the value of an XML attribute is its text with character references resolved;
    // office:value / office:boolean-value / office:value-type are read as raw bytes: a well-formed numeric cell is rejected, a true
    // boolean reads back false
    #[test]
    fn verif_demo_odsxml_escaped_numeric_value_rejected() {
        // &#46; is '.'
        let c = sheet(r#"<table:table-cell office:value-type="float" office:value="1&#46;5"/>"#);
        assert!(matches!(open(&c), Err(OdsError::ParseFloat(_))));
    }
    #[test]
    fn verif_demo_odsxml_escaped_boolean_reads_false() {
        // &#116; is 't'
        let c = sheet(r#"<table:table-cell office:value-type="boolean" office:boolean-value="&#116;rue"/>"#);
        assert_eq!(a1(&c), Data::Bool(false));
    }
}
