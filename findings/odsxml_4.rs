#[cfg(test)]
mod verif_demo_odsxml_c06_column_repeat_memory {
    use super::*;
    use std::io::{Cursor, Write};

    /// a minimal .ods in memory: mimetype + manifest + the given content.xml
    fn ods_bytes(content: &str) -> Vec<u8> {
        let mut w = zip::ZipWriter::new(Cursor::new(Vec::new()));
        let stored = zip::write::SimpleFileOptions::default().compression_method(zip::CompressionMethod::Stored);
        w.start_file("mimetype", stored).unwrap();
        w.write_all(MIMETYPE).unwrap();
        w.start_file("META-INF/manifest.xml", stored).unwrap();
        w.write_all(br#"<?xml version="1.0" encoding="UTF-8"?><manifest:manifest xmlns:manifest="urn:oasis:names:tc:opendocument:xmlns:manifest:1.0"><manifest:file-entry manifest:full-path="/" manifest:media-type="application/vnd.oasis.opendocument.spreadsheet"/></manifest:manifest>"#).unwrap();
        w.start_file("content.xml", stored).unwrap();
        w.write_all(content.as_bytes()).unwrap();
        w.finish().unwrap().into_inner()
    }
    const HEAD: &str = r#"<?xml version="1.0" encoding="UTF-8"?><office:document-content xmlns:office="urn:oasis:names:tc:opendocument:xmlns:office:1.0" xmlns:table="urn:oasis:names:tc:opendocument:xmlns:table:1.0" xmlns:text="urn:oasis:names:tc:opendocument:xmlns:text:1.0" xmlns:dc="http://purl.org/dc/elements/1.1/" office:version="1.2"><office:body><office:spreadsheet>"#;
    const TAIL: &str = "</office:spreadsheet></office:body></office:document-content>";
    fn sheet(cells: &str) -> String {
        format!("{HEAD}<table:table table:name=\"S\"><table:table-row>{cells}</table:table-row></table:table>{TAIL}")
    }
    fn open(content: &str) -> Result<Ods<Cursor<Vec<u8>>>, OdsError> {
        Ods::new(Cursor::new(ods_bytes(content)))
    }
    fn a1(content: &str) -> Data {
        let mut wb = open(content).expect("workbook opens");
        let r = wb.worksheet_range("S").expect("sheet S");
        r.get_value((0, 0)).cloned().unwrap_or(Data::Empty)
    }

    // ---- C06 (obligations read_table/pre-call:get_range.C06.get_range_resource_bound_cells): `table:number-columns-repeated` on a
    // NON-empty cell makes read_row push that many clones of the value and of the formula string: memory out of all proportion to the
    // input (2 million here, to stay harmless; the attribute accepts any usize)
    #[test]
    fn verif_demo_odsxml_column_repeat_memory_blow_up() {
        let c = sheet(r#"<table:table-cell table:number-columns-repeated="2000000" office:value-type="float" office:value="1"/>"#);
        let bytes = ods_bytes(&c);
        assert!(bytes.len() < 2000);
        let mut wb = Ods::new(Cursor::new(bytes)).unwrap();
        let r = wb.worksheet_range("S").unwrap();
        assert_eq!(r.get_size(), (1, 2_000_000));
        // 2 000 000 cells of 24 bytes (plus as many formula strings) from a file of < 2 kB
        assert!(r.get_size().1 * std::mem::size_of::<Data>() > 20_000 * bytes_len_bound());
    }
    fn bytes_len_bound() -> usize { 2000 }

}
