#[cfg(test)]
mod verif_demo_odsxml_c04_indented_row {
    use super::*;
    use std::io::{Cursor, Write};

    /// a minimal .ods in memory: mimetype + manifest + the given content.xml
    fn ods_bytes(content: &str) -> Vec<u8> {
        let mut w = zip::ZipWriter::new(Cursor::new(Vec::new()));
        let stored = zip::write::SimpleFileOptions::default().compression_method(zip::CompressionMethod::Stored);
        w.start_file("mimetype", stored).unwrap();
        w.write_all(MIMETYPE).unwrap();
        w.start_file("META-INF/manifest.xml", stored).unwrap();
        w.write_all(br#"<?xml version="1.0" encoding="UTF-8"?><manifest:manifest xmlns:manifest="urn:oasis:names:tc:opendocument:xmlns:manifest:1.0"><manifest:file-entry manifest:full-path="/" manifest:media-type="application/vnd.oasis.opendocument.spreadsheet"/></manifest:manifest>"#).unwrap();
        w.start_file("content.xml", stored).unwrap();
        w.write_all(content.as_bytes()).unwrap();
        w.finish().unwrap().into_inner()
    }
    const HEAD: &str = r#"<?xml version="1.0" encoding="UTF-8"?><office:document-content xmlns:office="urn:oasis:names:tc:opendocument:xmlns:office:1.0" xmlns:table="urn:oasis:names:tc:opendocument:xmlns:table:1.0" xmlns:text="urn:oasis:names:tc:opendocument:xmlns:text:1.0" xmlns:dc="http://purl.org/dc/elements/1.1/" office:version="1.2"><office:body><office:spreadsheet>"#;
    const TAIL: &str = "</office:spreadsheet></office:body></office:document-content>";
    fn sheet(cells: &str) -> String {
        format!("{HEAD}<table:table table:name=\"S\"><table:table-row>{cells}</table:table-row></table:table>{TAIL}")
    }
    fn open(content: &str) -> Result<Ods<Cursor<Vec<u8>>>, OdsError> {
        Ods::new(Cursor::new(ods_bytes(content)))
    }
    fn a1(content: &str) -> Data {
        let mut wb = open(content).expect("workbook opens");
        let r = wb.worksheet_range("S").expect("sheet S");
        r.get_value((0, 0)).cloned().unwrap_or(Data::Empty)
    }

    // ---- C04 (native demonstration only): white space between <table:table-row> and <table:table-cell> -- what every indented
    // content.xml has -- is answered with Err(Mismatch): the workbook cannot be opened at all (read_row; unit ods)
    #[test]
    fn verif_demo_odsxml_indented_row_rejected() {
        let cell = r#"<table:table-cell office:value-type="float" office:value="1"/>"#;
        let indented = format!("{HEAD}<table:table table:name=\"S\"><table:table-row>\n  {cell}\n</table:table-row></table:table>{TAIL}");
        assert!(matches!(open(&indented), Err(OdsError::Mismatch { expected: "table-cell", .. })));
    }
}
