#[cfg(test)]
mod verif_demo_c15_mixed_refs {
    use super::*;
    // master formula translated by (rows, cols) = (1, 1); `$` components must not move, relative ones must
    #[test]
    fn verif_demo_shared_fully_absolute_and_relative_ok() {
        assert_eq!(replace_cell_names("$A$1+A1", (1, 1)).unwrap(), "$A$1+B2");
    }
    #[test]
    fn verif_demo_shared_absolute_column_moves() {
        // $A1: column absolute, row relative -> expected "$A2"; the code moves the column too
        assert_eq!(replace_cell_names("$A1", (1, 1)).unwrap(), "$B2");
    }
    #[test]
    fn verif_demo_shared_relative_column_with_absolute_row_not_moved() {
        // A$1: column relative, row absolute -> expected "B$1"; the code leaves it unchanged
        assert_eq!(replace_cell_names("A$1", (1, 1)).unwrap(), "A$1");
        assert_eq!(replace_cell_names("$A1+A$1", (2, 3)).unwrap(), "$D3+A$1"); // expected "$A3+D$1"
    }
}
