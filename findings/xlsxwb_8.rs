#[cfg(test)]
mod verif_demo_xlsxwb_table_parent_folder {
    use super::*;
    use std::io::{Cursor, Write};
    const MAIN: &str = "http://schemas.openxmlformats.org/spreadsheetml/2006/main";
    const RNS: &str = r#"xmlns:r="http://schemas.openxmlformats.org/officeDocument/2006/relationships""#;
    /// a tiny xlsx in memory: the given parts (name, content)
    fn mk(parts: &[(&str, String)]) -> Result<Xlsx<Cursor<Vec<u8>>>, XlsxError> {
        let mut zw = zip::ZipWriter::new(Cursor::new(Vec::new()));
        let opt = zip::write::SimpleFileOptions::default().compression_method(zip::CompressionMethod::Stored);
        for (name, content) in parts {
            zw.start_file(*name, opt).unwrap();
            zw.write_all(content.as_bytes()).unwrap();
        }
        let cur = zw.finish().unwrap();
        Xlsx::new(Cursor::new(cur.into_inner()))
    }
    #[test]
    fn verif_demo_load_tables_panics_for_a_sheet_part_directly_under_xl() {
        // a sheet whose part is "xl/worksheets" (relationship target "worksheets": accepted by read_workbook as a worksheet, the folder test
        // looks at the second path segment only) and whose relationship part refers to its table with a "../" target
        let wb = format!(r#"<?xml version="1.0" encoding="UTF-8"?><workbook xmlns="{MAIN}" {RNS}><sheets><sheet name="S" sheetId="1" r:id="rId1"/></sheets></workbook>"#);
        let rels = r#"<?xml version="1.0" encoding="UTF-8"?><Relationships xmlns="http://schemas.openxmlformats.org/package/2006/relationships"><Relationship Id="rId1" Type="http://schemas.openxmlformats.org/officeDocument/2006/relationships/worksheet" Target="worksheets"/></Relationships>"#.to_string();
        let sheet = format!(r#"<?xml version="1.0" encoding="UTF-8"?><worksheet xmlns="{MAIN}"><sheetData/></worksheet>"#);
        let sheet_rels = r#"<?xml version="1.0" encoding="UTF-8"?><Relationships xmlns="http://schemas.openxmlformats.org/package/2006/relationships"><Relationship Id="rId1" Type="http://schemas.openxmlformats.org/officeDocument/2006/relationships/table" Target="../tables/table1.xml"/></Relationships>"#.to_string();
        let mut x = mk(&[("xl/workbook.xml", wb), ("xl/_rels/workbook.xml.rels", rels), ("xl/worksheets", sheet), ("xl/_rels/worksheets.rels", sheet_rels)]).unwrap();
        assert_eq!(x.sheets, vec![("S".to_string(), "xl/worksheets".to_string())]);
        // base_folder == "xl": `base_folder.rfind('/').expect("Must be a parent folder")` panics
        let r = std::panic::catch_unwind(std::panic::AssertUnwindSafe(|| { let _ = x.load_tables(); }));
        assert!(r.is_err()); // expected Ok or Err, not a panic
    }
}
