#[cfg(test)]
mod verif_demo_xlswb_3 {
    use super::verif_demo_xlswb_2::{bof, boundsheet, open, rec};
    // BoundSheet8.lbPlyPos beyond the end of the Workbook stream: `&stream[pos..]` panics
    #[test]
    #[should_panic(expected = "out of range")]
    fn verif_demo_xlswb_sheet_position_beyond_stream() {
        let mut wb = bof(0x0005);
        wb.extend(boundsheet(0x00FF_FFFF, "A"));
        wb.extend(rec(0x000A, &[]));
        let _ = open(&wb);
    }
}
