#[cfg(test)]
mod verif_demo_c06_xlsb_formula_panics {
    use super::*;
    // xlsb parse_formula takes the bare token bytes; `sheets` is the extern-sheet list already resolved per XTI
    fn pf(tokens: &[u8]) -> Result<String, String> {
        let sheets = vec!["S0".to_string(), "S1".to_string()];
        parse_formula(tokens, &sheets, &[]).map_err(|e| e.to_string())
    }
    // PtgFuncVar: FTAB[iftab] is indexed without any check, whatever argc
    #[test]
    #[should_panic(expected = "index out of bounds")]
    fn verif_demo_xlsb_ptgfuncvar_unknown_iftab() {
        let _ = pf(&[0x1E, 1, 0, 0x22, 1, 0xE5, 0x01]);
    }
    // 3-D tokens index `sheets` by ixti without a bound check
    #[test]
    #[should_panic(expected = "index out of bounds: the len is 2 but the index is 2")]
    fn verif_demo_xlsb_ref3d_ixti_out_of_range() {
        let _ = pf(&[0x3A, 2, 0, 2, 0, 0, 0, 1, 0xC0]);
    }
    #[test]
    #[should_panic(expected = "attempt to add with overflow")]
    fn verif_demo_xlsb_ptgref_row_ffffffff() {
        let _ = pf(&[0x44, 0xFF, 0xFF, 0xFF, 0xFF, 0, 0xC0]);
    }
    #[test]
    #[should_panic(expected = "attempt to subtract with overflow")]
    fn verif_demo_xlsb_ptgname_zero() {
        let _ = pf(&[0x23, 0, 0, 0, 0]);
    }
    #[test]
    #[should_panic]
    fn verif_demo_xlsb_truncated_token() {
        let _ = pf(&[0x44, 0, 0]);
    }
}
