#[cfg(test)]
mod verif_demo_c09_size_hint {
    use super::*;
    fn sheet() -> Range<Data> {
        // 3 rows x 2 cols at origin (3,2)
        let mut r: Range<Data> = Range::new((3, 2), (5, 3));
        for i in 0..3u32 {
            for j in 0..2u32 {
                r.set_value((3 + i, 2 + j), Data::Int((10 * i + j) as i64));
            }
        }
        r
    }
    // 3 items are still to come but the upper bound says 2
    #[test]
    fn verif_demo_size_hint_upper_bound_too_small() {
        let r = sheet();
        let mut b = RangeDeserializerBuilder::new();
        b.has_headers(false);
        let it: RangeDeserializer<'_, Data, (i64, i64)> = b.from_range(&r).unwrap();
        assert_eq!(it.size_hint(), (2, Some(2)));
        assert_eq!(it.count(), 3);
    }
    // the cursor never advances: after all 3 items were taken the lower bound still says 2
    #[test]
    fn verif_demo_size_hint_never_decreases() {
        let r = sheet();
        let mut b = RangeDeserializerBuilder::new();
        b.has_headers(false);
        let mut it: RangeDeserializer<'_, Data, (i64, i64)> = b.from_range(&r).unwrap();
        for _ in 0..3 {
            assert!(it.next().unwrap().is_ok());
            assert_eq!(it.size_hint(), (2, Some(2)));
        }
        assert!(it.next().is_none());
        assert_eq!(it.size_hint(), (2, Some(2)));
    }
    // with a header row: 1 data row to come, size_hint says (0, Some(0))
    #[test]
    fn verif_demo_size_hint_with_headers() {
        let mut r: Range<Data> = Range::new((0, 0), (1, 0));
        r.set_value((0, 0), Data::String("a".into()));
        r.set_value((1, 0), Data::Int(7));
        let it: RangeDeserializer<'_, Data, (i64,)> = RangeDeserializerBuilder::new().from_range(&r).unwrap();
        assert_eq!(it.size_hint(), (0, Some(0)));
        assert_eq!(it.count(), 1);
    }
}
