#[cfg(test)]
mod verif_demo_xlsxwb_table_cell_count {
    use super::*;
    use std::io::{Cursor, Write};
    const MAIN: &str = "http://schemas.openxmlformats.org/spreadsheetml/2006/main";
    const RNS: &str = r#"xmlns:r="http://schemas.openxmlformats.org/officeDocument/2006/relationships""#;
    /// a tiny xlsx in memory: the given parts (name, content)
    fn mk(parts: &[(&str, String)]) -> Result<Xlsx<Cursor<Vec<u8>>>, XlsxError> {
        let mut zw = zip::ZipWriter::new(Cursor::new(Vec::new()));
        let opt = zip::write::SimpleFileOptions::default().compression_method(zip::CompressionMethod::Stored);
        for (name, content) in parts {
            zw.start_file(*name, opt).unwrap();
            zw.write_all(content.as_bytes()).unwrap();
        }
        let cur = zw.finish().unwrap();
        Xlsx::new(Cursor::new(cur.into_inner()))
    }
    fn rels() -> String {
        r#"<?xml version="1.0" encoding="UTF-8"?><Relationships xmlns="http://schemas.openxmlformats.org/package/2006/relationships"><Relationship Id="rId1" Type="http://schemas.openxmlformats.org/officeDocument/2006/relationships/worksheet" Target="worksheets/sheet1.xml"/></Relationships>"#.to_string()
    }
    fn workbook() -> String {
        format!(r#"<?xml version="1.0" encoding="UTF-8"?><workbook xmlns="{MAIN}" {RNS}><sheets><sheet name="S" sheetId="1" r:id="rId1"/></sheets></workbook>"#)
    }
    /// sheet S: numbers 11,12 / 21,22 / 31,32 / 41,42 in A1:B4
    fn sheet() -> String {
        let mut rows = String::new();
        for r in 1..=4 {
            rows += &format!(r#"<row r="{r}"><c r="A{r}"><v>{r}1</v></c><c r="B{r}"><v>{r}2</v></c></row>"#);
        }
        format!(r#"<?xml version="1.0" encoding="UTF-8"?><worksheet xmlns="{MAIN}" {RNS}><sheetData>{rows}</sheetData><tableParts count="1"><tablePart r:id="rId1"/></tableParts></worksheet>"#)
    }
    fn sheet_rels() -> String {
        r#"<?xml version="1.0" encoding="UTF-8"?><Relationships xmlns="http://schemas.openxmlformats.org/package/2006/relationships"><Relationship Id="rId1" Type="http://schemas.openxmlformats.org/officeDocument/2006/relationships/table" Target="../tables/table1.xml"/></Relationships>"#.to_string()
    }
    /// table part with the given attributes on <table>
    fn table(attrs: &str) -> String {
        format!(r#"<?xml version="1.0" encoding="UTF-8"?><table xmlns="{MAIN}" id="1" name="T" displayName="T" {attrs}><tableColumns count="2"><tableColumn id="1" name="a"/><tableColumn id="2" name="b"/></tableColumns></table>"#)
    }
    fn open(table_attrs: &str) -> Xlsx<Cursor<Vec<u8>>> {
        mk(&[("xl/workbook.xml", workbook()), ("xl/_rels/workbook.xml.rels", rels()), ("xl/worksheets/sheet1.xml", sheet()),
             ("xl/worksheets/_rels/sheet1.xml.rels", sheet_rels()), ("xl/tables/table1.xml", table(table_attrs))]).unwrap()
    }

    #[test]
    fn verif_demo_table_over_the_whole_sheet_overflows_the_u32_cell_count() {
        // a table over the whole grid: ref A1:XFD1048576 (legal); data dimensions (1,0)-(1048575,16383) = 2^34 - 2^14 cells.
        // table_by_name -> Range::range -> Range::new computes the cell count in u32 (debug build: "attempt to multiply with overflow";
        // release build: silent wrap-around, a buffer shorter than height * width)
        let mut x = open(r#"ref="A1:XFD1048576""#);
        x.load_tables().unwrap();
        assert_eq!(x.tables.as_ref().unwrap()[0].3, Dimensions { start: (1, 0), end: (1048575, 16383) });
        let r = std::panic::catch_unwind(std::panic::AssertUnwindSafe(|| x.table_by_name("T").map(|_| ())));
        assert!(r.is_err()); // expected: Ok or Err, not a panic
        let r = std::panic::catch_unwind(std::panic::AssertUnwindSafe(|| x.table_by_name_ref("T").map(|_| ())));
        assert!(r.is_err());
    }
}
