#[cfg(test)]
mod verif_demo_odsxml_c06_zero_repeat {
    use super::*;
    use std::io::{Cursor, Write};

    /// a minimal .ods in memory: mimetype + manifest + the given content.xml
    fn ods_bytes(content: &str) -> Vec<u8> {
        let mut w = zip::ZipWriter::new(Cursor::new(Vec::new()));
        let stored = zip::write::SimpleFileOptions::default().compression_method(zip::CompressionMethod::Stored);
        w.start_file("mimetype", stored).unwrap();
        w.write_all(MIMETYPE).unwrap();
        w.start_file("META-INF/manifest.xml", stored).unwrap();
        w.write_all(br#"<?xml version="1.0" encoding="UTF-8"?><manifest:manifest xmlns:manifest="urn:oasis:names:tc:opendocument:xmlns:manifest:1.0"><manifest:file-entry manifest:full-path="/" manifest:media-type="application/vnd.oasis.opendocument.spreadsheet"/></manifest:manifest>"#).unwrap();
        w.start_file("content.xml", stored).unwrap();
        w.write_all(content.as_bytes()).unwrap();
        w.finish().unwrap().into_inner()
    }
    const HEAD: &str = r#"<?xml version="1.0" encoding="UTF-8"?><office:document-content xmlns:office="urn:oasis:names:tc:opendocument:xmlns:office:1.0" xmlns:table="urn:oasis:names:tc:opendocument:xmlns:table:1.0" xmlns:text="urn:oasis:names:tc:opendocument:xmlns:text:1.0" xmlns:dc="http://purl.org/dc/elements/1.1/" office:version="1.2"><office:body><office:spreadsheet>"#;
    const TAIL: &str = "</office:spreadsheet></office:body></office:document-content>";
    fn sheet(cells: &str) -> String {
        format!("{HEAD}<table:table table:name=\"S\"><table:table-row>{cells}</table:table-row></table:table>{TAIL}")
    }
    fn open(content: &str) -> Result<Ods<Cursor<Vec<u8>>>, OdsError> {
        Ods::new(Cursor::new(ods_bytes(content)))
    }
    fn a1(content: &str) -> Data {
        let mut wb = open(content).expect("workbook opens");
        let r = wb.worksheet_range("S").expect("sheet S");
        r.get_value((0, 0)).cloned().unwrap_or(Data::Empty)
    }

    // ---- C06 (native demonstration only): `table:number-rows-repeated="0"` (not an ODF positiveInteger; parsed with str::parse::<usize>
    // and handed to get_range unchecked) yields a Range that claims 3 rows but holds 2 cells; indexing a position INSIDE its declared
    // bounds then panics.  (get_range's contract in unit ods is stated under `reps_pos`; read_table does not establish it.)
    #[test]
    fn verif_demo_odsxml_zero_row_repeat_corrupt_range() {
        let cell = r#"<table:table-cell office:value-type="float" office:value="1"/>"#;
        let c = format!("{HEAD}<table:table table:name=\"S\"><table:table-row>{cell}</table:table-row><table:table-row table:number-rows-repeated=\"0\">{cell}</table:table-row><table:table-row>{cell}</table:table-row></table:table>{TAIL}");
        let mut wb = open(&c).expect("opens: no error is reported");
        let r = wb.worksheet_range("S").unwrap();
        assert_eq!(r.get_size(), (3, 1));
        assert_eq!(r.end(), Some((2, 0)));
        assert_eq!(r.rows().count(), 2);      // only 2 of the 3 declared rows exist
        assert_eq!(r.get((2, 0)), None);
    }
    #[test]
    #[should_panic(expected = "index out of bounds")]
    fn verif_demo_odsxml_zero_row_repeat_index_panics() {
        let cell = r#"<table:table-cell office:value-type="float" office:value="1"/>"#;
        let c = format!("{HEAD}<table:table table:name=\"S\"><table:table-row>{cell}</table:table-row><table:table-row table:number-rows-repeated=\"0\">{cell}</table:table-row><table:table-row>{cell}</table:table-row></table:table>{TAIL}");
        let mut wb = open(&c).unwrap();
        let r = wb.worksheet_range("S").unwrap();
        let _ = &r[(2, 0)];                   // (2, 0) lies inside start()..=end()
    }
}
