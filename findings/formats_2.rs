#[cfg(test)]
mod verif_demo_c06_formats_brackets {
    use super::*;
    // C06: `brackets += 1` on a u8 counter: 256 consecutive unquoted '[' overflow (panic with overflow checks,
    // silent wrap to depth 0 in release, after which bracketed letters are read as date tokens)
    #[test]
    #[should_panic]
    fn verif_demo_formats_bracket_depth_overflow() {
        let _ = detect_custom_number_format(&"[".repeat(256));
    }
}
