#[cfg(test)]
mod verif_demo_c06_dimensions_len {
    use super::*;
    // C06: Dimensions::len is computed on the raw BrtWsDim record of an xlsb sheet (rwFirst, rwLast, colFirst, colLast: four
    // unchecked u32 fields, src/xlsb/cells_reader.rs parse_dimensions) and on `<dimension ref>` of an xlsx sheet; with last < first,
    // or a span of 2^32 rows, `end - start + 1` overflows u32: panic in debug builds (before any cell is read), silent wrap in release.
    #[test]
    #[should_panic(expected = "attempt to subtract with overflow")]
    fn verif_demo_lazyrange_dimensions_len_reversed_panics() {
        let _ = Dimensions::new((5, 0), (2, 2)).len();
    }
    #[test]
    #[should_panic(expected = "attempt to add with overflow")]
    fn verif_demo_lazyrange_dimensions_len_full_span_panics() {
        let _ = Dimensions::new((0, 0), (u32::MAX, 0)).len();
    }
    // control
    #[test]
    fn verif_demo_lazyrange_dimensions_len_ok() {
        assert_eq!(Dimensions::new((1, 1), (3, 4)).len(), 12);
    }
}
