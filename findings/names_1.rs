#[cfg(test)]
mod verif_demo_names_1 {
    use super::*;

    // [MS-XLS] 2.5.198.84 PtgRef3d: ptg 0x3A, ixti (2), loc = row (2), column (2): bits 0-13 col, bit 14 colRelative, bit 15 rowRelative.
    // control: an absolute reference to B1 on the sheet of XTI 0
    #[test]
    fn verif_demo_names_ref3d_absolute_control() {
        assert_eq!(parse_defined_names(&[0x3A, 0, 0, 0, 0, 1, 0]).unwrap(), (Some(0), "$B$1".to_string()));
        assert_eq!(parse_defined_names(&[0x3B, 2, 0, 0, 0, 9, 0, 0, 0, 2, 0]).unwrap(), (Some(2), "$A$1:$C$10".to_string()));
    }
    // the column field is pushed unmasked: with colRelative (bit 14) set, column 1 is printed as the ABSOLUTE column 16385 = "XFF"
    // (the last column of any Excel grid is XFD = 16383); expected by the format: column letters of the low 14 bits ("B"), no `$`
    #[test]
    fn verif_demo_names_ref3d_relative_column_flag_printed_as_column() {
        let (ixti, text) = parse_defined_names(&[0x3A, 0, 0, 0, 0, 0x01, 0x40]).unwrap();
        assert_eq!(ixti, Some(0));
        assert_eq!(text, "$XFF$1"); // wrong: B$1
    }
    // rowRelative (bit 15) / both flags
    #[test]
    fn verif_demo_names_ref3d_relative_row_flag_printed_as_column() {
        assert_eq!(parse_defined_names(&[0x3A, 0, 0, 4, 0, 0x01, 0x80]).unwrap().1, "$AVLJ$5"); // wrong: $B5
        assert_eq!(parse_defined_names(&[0x3A, 0, 0, 4, 0, 0x01, 0xC0]).unwrap().1, "$BTRN$5"); // wrong: B5
    }
    // PtgArea3d (0x3B): ixti, rowFirst, rowLast, columnFirst, columnLast -- both column fields carry flags
    #[test]
    fn verif_demo_names_area3d_relative_flags_printed_as_columns() {
        let (_, text) = parse_defined_names(&[0x3B, 2, 0, 0, 0, 9, 0, 0x00, 0xC0, 0x02, 0xC0]).unwrap();
        assert_eq!(text, "$BTRM$1:$BTRO$10"); // wrong: A1:C10
    }
}
