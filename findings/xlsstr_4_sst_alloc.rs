#[cfg(test)]
mod verif_demo_xlsstr_4 {
    use super::*;
    use std::alloc::{GlobalAlloc, Layout, System};
    use std::sync::atomic::{AtomicUsize, Ordering};
    // records the largest single allocation request (test builds only); everything is passed on to the system allocator
    struct Peak;
    static PEAK: AtomicUsize = AtomicUsize::new(0);
    unsafe impl GlobalAlloc for Peak {
        unsafe fn alloc(&self, l: Layout) -> *mut u8 {
            PEAK.fetch_max(l.size(), Ordering::SeqCst);
            System.alloc(l)
        }
        unsafe fn dealloc(&self, p: *mut u8, l: Layout) {
            System.dealloc(p, l)
        }
    }
    #[global_allocator]
    static A: Peak = Peak;

    // parse_sst: `Vec::with_capacity(cstUnique)` before a single string is read: an 8-byte record asks for count * 24 bytes
    // (here 16 Mi strings = 384 MiB; up to 2^31 * 24 bytes = 48 GiB for cstUnique = 0x7FFF_FFFF)
    #[test]
    fn verif_demo_xlsstr_sst_capacity_from_count() {
        let enc = XlsEncoding::from_codepage(1200).unwrap();
        let d: &[u8] = &[0, 0, 0, 0, 0x00, 0x00, 0x00, 0x01];
        let mut r = Record { typ: 0x00FC, data: d, cont: None };
        let res = parse_sst(&mut r, &enc);
        assert!(res.is_err()); // no string follows
        assert!(PEAK.load(Ordering::SeqCst) >= 0x0100_0000 * std::mem::size_of::<String>());
    }
}
