#[cfg(test)]
mod verif_demo_xlsxxml_cdata {
    use super::*;
    use std::io::{Cursor, Write};
    fn mk(sst: Option<&str>, sheet_xml: &str) -> Result<Xlsx<Cursor<Vec<u8>>>, XlsxError> {
        let mut zw = zip::ZipWriter::new(Cursor::new(Vec::new()));
        let opt = zip::write::SimpleFileOptions::default().compression_method(zip::CompressionMethod::Stored);
        zw.start_file("xl/workbook.xml", opt).unwrap();
        zw.write_all(br#"<?xml version="1.0" encoding="UTF-8"?><workbook xmlns="http://schemas.openxmlformats.org/spreadsheetml/2006/main" xmlns:r="http://schemas.openxmlformats.org/officeDocument/2006/relationships"><sheets><sheet name="S" sheetId="1" r:id="rId1"/></sheets></workbook>"#).unwrap();
        zw.start_file("xl/_rels/workbook.xml.rels", opt).unwrap();
        zw.write_all(br#"<?xml version="1.0" encoding="UTF-8"?><Relationships xmlns="http://schemas.openxmlformats.org/package/2006/relationships"><Relationship Id="rId1" Type="http://schemas.openxmlformats.org/officeDocument/2006/relationships/worksheet" Target="worksheets/sheet1.xml"/></Relationships>"#).unwrap();
        if let Some(sst) = sst {
            zw.start_file("xl/sharedStrings.xml", opt).unwrap();
            zw.write_all(sst.as_bytes()).unwrap();
        }
        zw.start_file("xl/worksheets/sheet1.xml", opt).unwrap();
        zw.write_all(sheet_xml.as_bytes()).unwrap();
        let cur = zw.finish().unwrap();
        Xlsx::new(Cursor::new(cur.into_inner()))
    }
    const NS: &str = r#"xmlns="http://schemas.openxmlformats.org/spreadsheetml/2006/main""#;
    const XNS: &str = r#"xmlns:x="http://schemas.openxmlformats.org/spreadsheetml/2006/main""#;
    fn sheet(rows: &str) -> String {
        format!(r#"<?xml version="1.0" encoding="UTF-8"?><worksheet {NS}><sheetData>{rows}</sheetData></worksheet>"#)
    }

    #[test]
    fn verif_demo_cdata_text_of_shared_strings_is_dropped() {
        // character data written as CDATA sections (legal XML for text with many special characters)
        let sst = format!(r#"<?xml version="1.0" encoding="UTF-8"?><sst {NS} count="3" uniqueCount="3"><si><t><![CDATA[a<b]]></t></si><si><t>x<![CDATA[y]]>z</t></si><si><r><t><![CDATA[q]]></t></r></si></sst>"#);
        let x = mk(Some(&sst), &sheet("")).unwrap();
        // expected ["a<b", "xyz", "q"]
        assert_eq!(x.strings, vec!["".to_string(), "xz".to_string(), "".to_string()]);
    }
    #[test]
    fn verif_demo_cdata_text_of_cell_values_is_dropped() {
        let mut x = mk(None, &sheet(r#"<row r="1"><c r="A1" t="str"><v><![CDATA[vv]]></v></c><c r="B1" t="inlineStr"><is><t><![CDATA[in]]></t></is></c></row>"#)).unwrap();
        let r = x.worksheet_range("S").unwrap();
        // expected A1 = "vv", B1 = "in"; both come back empty (the range has no non-empty cell at all)
        assert!(r.get_value((0, 0)).map_or(true, |v| *v == Data::String(String::new()) || *v == Data::Empty));
        assert!(r.get_value((0, 1)).map_or(true, |v| *v == Data::String(String::new()) || *v == Data::Empty));
    }
}
