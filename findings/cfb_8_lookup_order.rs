#[cfg(test)]
mod verif_demo_cfb_8 {
    use super::*;
    // Cfb::get_stream looks the name up in the flat directory array (first match, any object type, any parent storage).
    // Names are unique only among the children of one storage ([MS-CFB] 2.6.4): an xls file with an embedded workbook holds
    // `Workbook` twice (root and `MBD.../Workbook`). Two containers with the same tree but a different entry order read differently.
    fn cfb(dirs: Vec<Directory>) -> Cfb {
        let mut data = vec![1u8; 4096];
        data.extend(vec![2u8; 4096]);
        Cfb {
            directories: dirs,
            sectors: Sectors::new(512, data),
            // two 8-sector chains: 0..7 and 8..15
            fats: (0u32..16).map(|i| if i == 7 || i == 15 { ENDOFCHAIN } else { i + 1 }).collect(),
            mini_sectors: Sectors::new(64, Vec::new()),
            mini_fats: Vec::new(),
        }
    }
    fn d(name: &str, start: u32) -> Directory {
        Directory { name: name.to_string(), start, len: 4096 }
    }
    #[test]
    fn verif_demo_cfb_lookup_depends_on_directory_order() {
        let mut r: &[u8] = &[];
        let a = cfb(vec![d("Root Entry", ENDOFCHAIN), d("Workbook", 0), d("MBD0001", ENDOFCHAIN), d("Workbook", 8)])
            .get_stream("Workbook", &mut r)
            .unwrap();
        let b = cfb(vec![d("Root Entry", ENDOFCHAIN), d("MBD0001", ENDOFCHAIN), d("Workbook", 8), d("Workbook", 0)])
            .get_stream("Workbook", &mut r)
            .unwrap();
        assert_eq!(a, vec![1u8; 4096]);
        assert_eq!(b, vec![2u8; 4096]); // same streams, different directory order, different workbook
        assert_ne!(a, b);
    }
}
