#[cfg(test)]
mod verif_demo_xlsxparts_table_insertrow {
    use super::*;
    use std::io::{Cursor, Write};
    /// one sheet "S" with values 1..=8 in A1:B4 and one table "T" over `table_attrs`
    fn mk(table_attrs: &str, col_name: &str) -> Xlsx<Cursor<Vec<u8>>> {
        let mut zw = zip::ZipWriter::new(Cursor::new(Vec::new()));
        let opt = zip::write::SimpleFileOptions::default().compression_method(zip::CompressionMethod::Stored);
        zw.start_file("xl/workbook.xml", opt).unwrap();
        zw.write_all(br#"<?xml version="1.0" encoding="UTF-8"?><workbook xmlns="http://schemas.openxmlformats.org/spreadsheetml/2006/main" xmlns:r="http://schemas.openxmlformats.org/officeDocument/2006/relationships"><sheets><sheet name="S" sheetId="1" r:id="rId1"/></sheets></workbook>"#).unwrap();
        zw.start_file("xl/_rels/workbook.xml.rels", opt).unwrap();
        zw.write_all(br#"<?xml version="1.0" encoding="UTF-8"?><Relationships xmlns="http://schemas.openxmlformats.org/package/2006/relationships"><Relationship Id="rId1" Type="http://schemas.openxmlformats.org/officeDocument/2006/relationships/worksheet" Target="worksheets/sheet1.xml"/></Relationships>"#).unwrap();
        zw.start_file("xl/worksheets/sheet1.xml", opt).unwrap();
        zw.write_all(br#"<?xml version="1.0" encoding="UTF-8"?><worksheet xmlns="http://schemas.openxmlformats.org/spreadsheetml/2006/main"><sheetData><row r="1"><c r="A1"><v>1</v></c><c r="B1"><v>2</v></c></row><row r="2"><c r="A2"><v>3</v></c><c r="B2"><v>4</v></c></row><row r="3"><c r="A3"><v>5</v></c><c r="B3"><v>6</v></c></row><row r="4"><c r="A4"><v>7</v></c><c r="B4"><v>8</v></c></row></sheetData><tableParts count="1"><tablePart xmlns:r="http://schemas.openxmlformats.org/officeDocument/2006/relationships" r:id="rId1"/></tableParts></worksheet>"#).unwrap();
        zw.start_file("xl/worksheets/_rels/sheet1.xml.rels", opt).unwrap();
        zw.write_all(br#"<?xml version="1.0" encoding="UTF-8"?><Relationships xmlns="http://schemas.openxmlformats.org/package/2006/relationships"><Relationship Id="rId1" Type="http://schemas.openxmlformats.org/officeDocument/2006/relationships/table" Target="../tables/table1.xml"/></Relationships>"#).unwrap();
        zw.start_file("xl/tables/table1.xml", opt).unwrap();
        zw.write_all(format!(r#"<?xml version="1.0" encoding="UTF-8"?><table xmlns="http://schemas.openxmlformats.org/spreadsheetml/2006/main" id="1" name="T" displayName="T" {table_attrs}><tableColumns count="2"><tableColumn id="1" name="{col_name}"/><tableColumn id="2" name="b"/></tableColumns></table>"#).as_bytes()).unwrap();
        let cur = zw.finish().unwrap();
        let mut x = Xlsx::new(Cursor::new(cur.into_inner())).unwrap();
        x.load_tables().unwrap();
        x
    }
    #[test]
    fn verif_demo_insert_row_false_is_read_as_true() {
        // control: without the attribute (default false) the data range is the reference minus the header row: A2:B4, three rows
        let mut c = mk(r#"ref="A1:B4""#, "a");
        assert_eq!(c.table_by_name("T").unwrap().data().height(), 3);
        // insertRow is an xsd:boolean; "false" is its other spelling of "0"
        let mut z = mk(r#"ref="A1:B4" insertRow="0""#, "a");
        assert_eq!(z.table_by_name("T").unwrap().data().height(), 3);
        let mut x = mk(r#"ref="A1:B4" insertRow="false""#, "a");
        // read_table_metadata tests `value != "0"`: "false" counts as true and the last data row is cut off
        assert_eq!(x.table_by_name("T").unwrap().data().height(), 2); // expected 3
    }
}
