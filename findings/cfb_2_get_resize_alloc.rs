#[cfg(test)]
mod verif_demo_cfb_2 {
    use super::*;
    // Sectors::get: `self.data.resize((id + 1) * size, 0)` is driven by the sector id alone (a FAT / header field):
    // an EMPTY input makes it allocate and zero-fill (id + 1) * 512 bytes before anything is read (here 10 MB; up to 2 TB for
    // id = 0xFFFF_FFF9 with 512-byte sectors, 16 TB with 4096-byte sectors); the call then (correctly) fails
    #[test]
    fn verif_demo_cfb_get_allocates_from_sector_id() {
        let mut s = Sectors::new(512, Vec::new());
        let mut rd: &[u8] = &[];
        assert!(s.get(20_000, &mut rd).is_err());
        assert_eq!(s.data.len(), 20_001 * 512); // 10 MB held for a 0-byte input
    }
}
