#[cfg(all(test, feature = "dates"))]
mod verif_demo_c11_nan_is_a_date {
    use super::*;
    // C11 (quantified over "negative, huge, infinite and NaN values"): a value without a calendar date yields None rather than
    // a wrong date. NaN fails `f >= 60.0`, stays NaN through `+ 1.0` and `* MS_MULTIPLIER`, and `NaN.round() as i64` is 0:
    // the result is Some(1899-12-30T00:00:00) -- the date of serial -1 -- in both date systems.
    #[test]
    fn verif_demo_dates_nan_converts_to_epoch() {
        let epoch = chrono::NaiveDate::from_ymd_opt(1899, 12, 30).unwrap().and_hms_opt(0, 0, 0).unwrap();
        // WRONG (should be None)
        assert_eq!(ExcelDateTime::new(f64::NAN, ExcelDateTimeType::DateTime, false).as_datetime(), Some(epoch));
        assert_eq!(ExcelDateTime::new(f64::NAN, ExcelDateTimeType::DateTime, true).as_datetime(), Some(epoch));
        assert_eq!(Data::Float(f64::NAN).as_date(), Some(epoch.date()));
        // control: +infinity is None
        assert_eq!(Data::Float(f64::INFINITY).as_datetime(), None);
    }
}
