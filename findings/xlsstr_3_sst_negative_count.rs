#[cfg(test)]
mod verif_demo_xlsstr_3 {
    use super::*;
    // parse_sst: cstUnique is read as i32 and converted with try_into().unwrap(): a negative count panics
    #[test]
    #[should_panic(expected = "TryFromIntError")]
    fn verif_demo_xlsstr_sst_negative_count() {
        let enc = XlsEncoding::from_codepage(1200).unwrap();
        let d: &[u8] = &[0, 0, 0, 0, 0xFF, 0xFF, 0xFF, 0xFF];
        let mut r = Record { typ: 0x00FC, data: d, cont: None };
        let _ = parse_sst(&mut r, &enc);
    }
}
