#[cfg(test)]
mod verif_demo_xlsrec_merge_cells {
    use super::*;
    // MergeCells [MS-XLS] 2.4.168 record body shorter than the cmcs field: read_u16 on an empty slice (panics in every build)
    #[test]
    #[should_panic]
    fn verif_demo_merge_cells_empty_record() {
        let mut m = Vec::new();
        let _ = parse_merge_cells(&[], &mut m);
    }
    // cmcs = 1 but no Ref8 follows: reads past the record (panics in every build)
    #[test]
    #[should_panic]
    fn verif_demo_merge_cells_count_exceeds_body() {
        let mut m = Vec::new();
        let _ = parse_merge_cells(&[1, 0], &mut m);
    }
    // cmcs = 3, only two complete Ref8: two regions are pushed, then the third read runs off the end
    #[test]
    #[should_panic]
    fn verif_demo_merge_cells_truncated_last_ref8() {
        let mut r = vec![3u8, 0];
        r.extend_from_slice(&[0u8; 16]);
        r.extend_from_slice(&[0u8; 5]);
        let mut m = Vec::new();
        let _ = parse_merge_cells(&r, &mut m);
    }
    // cmcs >= 8193 on a slice long enough: `2 + i * 8` is computed in u16 and overflows at i = 8192
    // (panic with overflow checks on; without them the offset wraps and regions 8192.. are read from the wrong bytes).
    // Not producible by RecordIter (a record body is at most 65535 bytes) -- direct call only.
    #[test]
    #[should_panic]
    fn verif_demo_merge_cells_u16_offset_overflow() {
        let r = vec![0xFFu8; 2 + 8 * 8193];
        let mut m = Vec::new();
        let _ = parse_merge_cells(&r, &mut m);
    }
}
