#[cfg(test)]
mod verif_demo_names_3 {
    use super::*;
    use std::io::Cursor;

    /// one BIFF record: type, size, body
    fn rec(typ: u16, body: &[u8]) -> Vec<u8> {
        let mut v = typ.to_le_bytes().to_vec();
        v.extend_from_slice(&(body.len() as u16).to_le_bytes());
        v.extend_from_slice(body);
        v
    }
    /// BOF [MS-XLS] 2.4.21: vers 0x0600 (BIFF8), dt (0x0005 globals / 0x0010 worksheet)
    fn bof(dt: u16) -> Vec<u8> {
        let mut b = vec![0x00, 0x06];
        b.extend_from_slice(&dt.to_le_bytes());
        b.extend_from_slice(&[0xDB, 0x0F, 0xCC, 0x07, 0, 0, 0, 0, 6, 0, 0, 0]);
        rec(0x0809, &b)
    }
    /// BoundSheet8 [MS-XLS] 2.4.28: lbPlyPos, hsState 0, dt 0, name (cch, flags 0 = compressed, bytes)
    fn boundsheet(pos: u32, name: &str) -> Vec<u8> {
        let mut b = pos.to_le_bytes().to_vec();
        b.extend_from_slice(&[0, 0, name.len() as u8, 0]);
        b.extend_from_slice(name.as_bytes());
        rec(0x0085, &b)
    }
    /// Lbl [MS-XLS] 2.4.150: flags, chKey, cch, cce, reserved3, itab, reserved4..7, Name (flag byte 0 + compressed chars), rgce
    fn lbl(name: &str, rgce: &[u8]) -> Vec<u8> {
        let mut b = vec![0, 0, 0, name.len() as u8];
        b.extend_from_slice(&(rgce.len() as u16).to_le_bytes());
        b.extend_from_slice(&[0, 0, 0, 0, 0, 0, 0, 0]);
        b.push(0);
        b.extend_from_slice(name.as_bytes());
        b.extend_from_slice(rgce);
        rec(0x0018, &b)
    }
    /// a minimal version-3 compound file (512-byte sectors: FAT = sector 0, directory = sector 1, stream = sectors 2..)
    /// holding one stream "Workbook" (zero padded to >= 4096 bytes so that it lives in regular sectors)
    fn image(workbook: &[u8]) -> Vec<u8> {
        const END: u32 = 0xFFFF_FFFE;
        let mut stream = workbook.to_vec();
        let n = std::cmp::max(8, (stream.len() + 511) / 512);
        stream.resize(n * 512, 0);
        assert!(n + 2 <= 128, "one FAT sector");
        let mut h = vec![0u8; 512];
        h[..8].copy_from_slice(&[0xD0, 0xCF, 0x11, 0xE0, 0xA1, 0xB1, 0x1A, 0xE1]);
        h[24..26].copy_from_slice(&0x003Eu16.to_le_bytes());
        h[26..28].copy_from_slice(&3u16.to_le_bytes());
        h[28..30].copy_from_slice(&0xFFFEu16.to_le_bytes());
        h[30..32].copy_from_slice(&9u16.to_le_bytes());
        h[32..34].copy_from_slice(&6u16.to_le_bytes());
        h[44..48].copy_from_slice(&1u32.to_le_bytes());
        h[48..52].copy_from_slice(&1u32.to_le_bytes());
        h[56..60].copy_from_slice(&4096u32.to_le_bytes());
        h[60..64].copy_from_slice(&0u32.to_le_bytes());
        h[68..72].copy_from_slice(&END.to_le_bytes());
        for b in h[76..].iter_mut() {
            *b = 0xFF;
        }
        h[76..80].copy_from_slice(&0u32.to_le_bytes());
        let mut fat = vec![0xFFu8; 512];
        fat[0..4].copy_from_slice(&0xFFFF_FFFDu32.to_le_bytes());
        fat[4..8].copy_from_slice(&END.to_le_bytes());
        for k in 0..n {
            let id = 2 + k;
            let next = if k + 1 == n { END } else { id as u32 + 1 };
            fat[4 * id..4 * id + 4].copy_from_slice(&next.to_le_bytes());
        }
        let entry = |name: &str, typ: u8, child: u32, start: u32, len: u32| {
            let mut e = [0u8; 128];
            let mut k = 0;
            for c in name.encode_utf16() {
                e[2 * k..2 * k + 2].copy_from_slice(&c.to_le_bytes());
                k += 1;
            }
            e[64..66].copy_from_slice(&((k as u16 + 1) * 2).to_le_bytes());
            e[66] = typ;
            e[67] = 1;
            e[68..72].copy_from_slice(&0xFFFF_FFFFu32.to_le_bytes());
            e[72..76].copy_from_slice(&0xFFFF_FFFFu32.to_le_bytes());
            e[76..80].copy_from_slice(&child.to_le_bytes());
            e[116..120].copy_from_slice(&start.to_le_bytes());
            e[120..124].copy_from_slice(&len.to_le_bytes());
            e
        };
        let mut dir = Vec::new();
        dir.extend_from_slice(&entry("Root Entry", 5, 1, END, 0));
        dir.extend_from_slice(&entry("Workbook", 2, 0xFFFF_FFFF, 2, (n * 512) as u32));
        dir.extend_from_slice(&[0u8; 256]);
        let mut f = h;
        f.extend_from_slice(&fat);
        f.extend_from_slice(&dir);
        f.extend_from_slice(&stream);
        f
    }
    /// globals: BOF, BoundSheet8 "Own", the given SupBook records, ExternSheet with the given XTI entries, Lbl records, EOF; then the sheet
    fn workbook(supbooks: &[Vec<u8>], xtis: &[(u16, i16, i16)], lbls: &[Vec<u8>]) -> Vec<u8> {
        let mut tail = Vec::new();
        for s in supbooks {
            tail.extend(rec(0x01AE, s));
        }
        let mut x = (xtis.len() as u16).to_le_bytes().to_vec();
        for (b, f, l) in xtis {
            x.extend_from_slice(&b.to_le_bytes());
            x.extend_from_slice(&f.to_le_bytes());
            x.extend_from_slice(&l.to_le_bytes());
        }
        tail.extend(rec(0x0017, &x));
        for l in lbls {
            tail.extend(l.clone());
        }
        tail.extend(rec(0x000A, &[]));
        let mut wb = bof(0x0005);
        let pos = (wb.len() + 4 + 8 + 3 + tail.len()) as u32;
        wb.extend(boundsheet(pos, "Own"));
        wb.extend(tail);
        assert_eq!(wb.len() as u32, pos);
        wb.extend(bof(0x0010));
        wb.extend(rec(0x000A, &[]));
        wb
    }
    /// SupBook [MS-XLS] 2.4.271, self-referencing: ctab, cch = 0x0401
    fn supbook_self(ctab: u16) -> Vec<u8> {
        let mut b = ctab.to_le_bytes().to_vec();
        b.extend_from_slice(&0x0401u16.to_le_bytes());
        b
    }
    /// SupBook, external workbook: ctab, cch, virtPath (XLUnicodeStringNoCch: flag byte 0 + chars), rgst = ctab XLUnicodeStrings (cch u16, flag, chars)
    fn supbook_external(path: &str, sheets: &[&str]) -> Vec<u8> {
        let mut b = (sheets.len() as u16).to_le_bytes().to_vec();
        b.extend_from_slice(&(path.len() as u16).to_le_bytes());
        b.push(0);
        b.extend_from_slice(path.as_bytes());
        for s in sheets {
            b.extend_from_slice(&(s.len() as u16).to_le_bytes());
            b.push(0);
            b.extend_from_slice(s.as_bytes());
        }
        b
    }
    const REF_A1: [u8; 7] = [0x3A, 0, 0, 0, 0, 0, 0]; // PtgRef3d, ixti 0, $A$1
    const REF_B2_X1: [u8; 7] = [0x3A, 1, 0, 1, 0, 1, 0]; // PtgRef3d, ixti 1, $B$2

    // control: the XTI entry designates the workbook itself (SupBook 0 is self-referencing): "Own!$A$1" is right
    #[test]
    fn verif_demo_names_internal_reference_control() {
        let wb = workbook(&[supbook_self(1)], &[(0, 0, 0)], &[lbl("N", &REF_A1)]);
        let x = Xls::new(Cursor::new(image(&wb))).unwrap();
        assert_eq!(x.defined_names(), &[("N".to_string(), "Own!$A$1".to_string())]);
    }
    // XTI 1 designates SupBook 1 = the external workbook Book2.xls, whose sheet 0 is "Other": the name stands for [Book2.xls]Other!$B$2.
    // iSupBook is ignored and itabFirst = 0 is looked up in THIS workbook's sheet list: the name is listed as a reference to the own sheet
    #[test]
    fn verif_demo_names_external_reference_listed_as_own_sheet() {
        let wb = workbook(
            &[supbook_self(1), supbook_external("\u{1}Book2.xls", &["Other"])],
            &[(0, 0, 0), (1, 0, 0)],
            &[lbl("N", &REF_A1), lbl("Ext", &REF_B2_X1)],
        );
        let x = Xls::new(Cursor::new(image(&wb))).unwrap();
        assert_eq!(
            x.defined_names(),
            &[("N".to_string(), "Own!$A$1".to_string()), ("Ext".to_string(), "Own!$B$2".to_string())] // wrong: Ext is not on sheet Own
        );
    }
}
