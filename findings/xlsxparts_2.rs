#[cfg(test)]
mod verif_demo_xlsxparts_reltarget {
    use super::*;
    use std::io::{Cursor, Write};
    /// a one-sheet workbook whose worksheet part is named `xl/worksheets/<part>`; the relationship target is written as XML requires
    fn mk(part: &str, target_attr: &str) -> Result<Xlsx<Cursor<Vec<u8>>>, XlsxError> {
        let mut zw = zip::ZipWriter::new(Cursor::new(Vec::new()));
        let opt = zip::write::SimpleFileOptions::default().compression_method(zip::CompressionMethod::Stored);
        zw.start_file("xl/workbook.xml", opt).unwrap();
        zw.write_all(br#"<?xml version="1.0" encoding="UTF-8"?><workbook xmlns="http://schemas.openxmlformats.org/spreadsheetml/2006/main" xmlns:r="http://schemas.openxmlformats.org/officeDocument/2006/relationships"><sheets><sheet name="S" sheetId="1" r:id="rId1"/></sheets></workbook>"#).unwrap();
        zw.start_file("xl/_rels/workbook.xml.rels", opt).unwrap();
        zw.write_all(format!(r#"<?xml version="1.0" encoding="UTF-8"?><Relationships xmlns="http://schemas.openxmlformats.org/package/2006/relationships"><Relationship Id="rId1" Type="http://schemas.openxmlformats.org/officeDocument/2006/relationships/worksheet" Target="{}"/></Relationships>"#, target_attr).as_bytes()).unwrap();
        zw.start_file(format!("xl/worksheets/{}", part), opt).unwrap();
        zw.write_all(br#"<?xml version="1.0" encoding="UTF-8"?><worksheet xmlns="http://schemas.openxmlformats.org/spreadsheetml/2006/main"><sheetData><row r="1"><c r="A1"><v>7</v></c></row></sheetData></worksheet>"#).unwrap();
        let cur = zw.finish().unwrap();
        Xlsx::new(Cursor::new(cur.into_inner()))
    }
    #[test]
    fn verif_demo_relationship_target_is_not_unescaped() {
        // control: a part name without XML-special characters is found
        let mut ok = mk("ab.xml", "worksheets/ab.xml").unwrap();
        assert_eq!(ok.worksheet_range("S").unwrap().get_value((0, 0)), Some(&Data::Float(7.0)));
        // the part `xl/worksheets/a&b.xml` ('&' is a legal pchar of an OPC part name); in the Target attribute the '&' can only be written `&amp;`
        let mut x = mk("a&b.xml", "worksheets/a&amp;b.xml").unwrap();
        // read_relationships keeps the RAW attribute text: the sheet is recorded under a part name that does not exist
        assert_eq!(x.sheets, vec![("S".to_string(), "xl/worksheets/a&amp;b.xml".to_string())]);   // expected xl/worksheets/a&b.xml
        assert!(matches!(x.worksheet_range("S"), Err(XlsxError::WorksheetNotFound(_))));            // expected the range with A1 = 7
    }
}
