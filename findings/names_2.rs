#[cfg(test)]
mod verif_demo_names_2 {
    use super::*;

    // parse_defined_names receives the last `cce` bytes of a Lbl record (cce is a field of the record) and reads
    // rgce[1..3], rgce[3..5], rgce[5..7] (PtgRef3d) / .. rgce[9..11] (PtgArea3d) / rgce[1..3] (error tokens) after testing only `is_empty()`
    #[test]
    #[should_panic]
    fn verif_demo_names_ref3d_token_only() {
        let _ = parse_defined_names(&[0x3A]);
    }
    #[test]
    #[should_panic]
    fn verif_demo_names_ref3d_cut_in_column() {
        let _ = parse_defined_names(&[0x3A, 0, 0, 0, 0, 1]);
    }
    #[test]
    #[should_panic]
    fn verif_demo_names_area3d_with_ref3d_length() {
        let _ = parse_defined_names(&[0x3B, 0, 0, 0, 0, 1, 0]);
    }
    #[test]
    #[should_panic]
    fn verif_demo_names_area3d_cut_in_last_column() {
        let _ = parse_defined_names(&[0x3B, 0, 0, 0, 0, 1, 0, 0, 0, 0]);
    }
    #[test]
    #[should_panic]
    fn verif_demo_names_referr3d_cut_in_ixti() {
        let _ = parse_defined_names(&[0x3C, 0]);
    }
}
