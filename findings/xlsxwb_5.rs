#[cfg(test)]
mod verif_demo_xlsxwb_defined_name_cdata {
    use super::*;
    use std::io::{Cursor, Write};
    const MAIN: &str = "http://schemas.openxmlformats.org/spreadsheetml/2006/main";
    const RNS: &str = r#"xmlns:r="http://schemas.openxmlformats.org/officeDocument/2006/relationships""#;
    /// a tiny xlsx in memory: the given parts (name, content)
    fn mk(parts: &[(&str, String)]) -> Result<Xlsx<Cursor<Vec<u8>>>, XlsxError> {
        let mut zw = zip::ZipWriter::new(Cursor::new(Vec::new()));
        let opt = zip::write::SimpleFileOptions::default().compression_method(zip::CompressionMethod::Stored);
        for (name, content) in parts {
            zw.start_file(*name, opt).unwrap();
            zw.write_all(content.as_bytes()).unwrap();
        }
        let cur = zw.finish().unwrap();
        Xlsx::new(Cursor::new(cur.into_inner()))
    }
    fn rels() -> String {
        r#"<?xml version="1.0" encoding="UTF-8"?><Relationships xmlns="http://schemas.openxmlformats.org/package/2006/relationships"><Relationship Id="rId1" Type="http://schemas.openxmlformats.org/officeDocument/2006/relationships/worksheet" Target="worksheets/sheet1.xml"/></Relationships>"#.to_string()
    }
    fn sheet() -> String {
        format!(r#"<?xml version="1.0" encoding="UTF-8"?><worksheet xmlns="{MAIN}"><sheetData/></worksheet>"#)
    }
    fn open(defined_names: &str) -> Xlsx<Cursor<Vec<u8>>> {
        let wb = format!(r#"<?xml version="1.0" encoding="UTF-8"?><workbook xmlns="{MAIN}" {RNS}><sheets><sheet name="S" sheetId="1" r:id="rId1"/></sheets><definedNames>{defined_names}</definedNames></workbook>"#);
        mk(&[("xl/workbook.xml", wb), ("xl/_rels/workbook.xml.rels", rels()), ("xl/worksheets/sheet1.xml", sheet())]).unwrap()
    }

    #[test]
    fn verif_demo_defined_name_escaped_text_control() {
        let x = open(r#"<definedName name="n">S!$A$1&lt;5</definedName>"#);
        assert_eq!(x.defined_names(), &[("n".to_string(), "S!$A$1<5".to_string())]);
    }

    #[test]
    fn verif_demo_defined_name_text_in_cdata_is_dropped() {
        // the same character data written as a CDATA section (XML 1.0 2.7: equivalent to the escaped form)
        let x = open(r#"<definedName name="n"><![CDATA[S!$A$1<5]]></definedName>"#);
        assert_eq!(x.defined_names(), &[("n".to_string(), "".to_string())]); // expected ("n", "S!$A$1<5")
        // mixed: only the non-CDATA part survives
        let x = open(r#"<definedName name="m">S!$A$1<![CDATA[<]]>5</definedName>"#);
        assert_eq!(x.defined_names(), &[("m".to_string(), "S!$A$15".to_string())]); // expected ("m", "S!$A$1<5")
    }
}
