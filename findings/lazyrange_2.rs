#[cfg(test)]
mod verif_demo_c08_eager_header_row_beyond_last_row_ods {
    use super::*;
    use crate::{open_workbook, HeaderRow, Reader};
    // same defect as in xls.rs, through Ods::worksheet_range
    #[test]
    #[should_panic(expected = "invalid range bounds")]
    fn verif_demo_lazyrange_ods_header_row_beyond_last_row_panics() {
        let path = format!("{}/tests/any_sheets.ods", env!("CARGO_MANIFEST_DIR"));
        let mut wb: Ods<_> = open_workbook(path).unwrap();
        let name = wb.sheet_names()[0].clone();
        let all = wb.worksheet_range(&name).unwrap();
        assert!(all.end().unwrap().0 < 100_000);
        // WRONG (should be Ok(empty range)): panics
        let _ = wb.with_header_row(HeaderRow::Row(100_000)).worksheet_range(&name);
    }
}
