#[cfg(test)]
mod verif_demo_xlsxwb_rel_prefix {
    use super::*;
    use std::io::{Cursor, Write};
    const MAIN: &str = "http://schemas.openxmlformats.org/spreadsheetml/2006/main";
    const RNS: &str = r#"xmlns:r="http://schemas.openxmlformats.org/officeDocument/2006/relationships""#;
    /// a tiny xlsx in memory: the given parts (name, content)
    fn mk(parts: &[(&str, String)]) -> Result<Xlsx<Cursor<Vec<u8>>>, XlsxError> {
        let mut zw = zip::ZipWriter::new(Cursor::new(Vec::new()));
        let opt = zip::write::SimpleFileOptions::default().compression_method(zip::CompressionMethod::Stored);
        for (name, content) in parts {
            zw.start_file(*name, opt).unwrap();
            zw.write_all(content.as_bytes()).unwrap();
        }
        let cur = zw.finish().unwrap();
        Xlsx::new(Cursor::new(cur.into_inner()))
    }
    fn rels() -> String {
        r#"<?xml version="1.0" encoding="UTF-8"?><Relationships xmlns="http://schemas.openxmlformats.org/package/2006/relationships"><Relationship Id="rId1" Type="http://schemas.openxmlformats.org/officeDocument/2006/relationships/worksheet" Target="worksheets/sheet1.xml"/></Relationships>"#.to_string()
    }
    fn sheet() -> String {
        format!(r#"<?xml version="1.0" encoding="UTF-8"?><worksheet xmlns="{MAIN}"><sheetData/></worksheet>"#)
    }
    #[test]
    fn verif_demo_relationship_namespace_under_another_prefix_is_not_read() {
        // the relationships namespace bound to the prefix `d3p1` (as XmlSerializer-based writers do) instead of `r`
        let wb = format!(r#"<?xml version="1.0" encoding="UTF-8"?><workbook xmlns="{MAIN}"><sheets><sheet name="S" sheetId="1" d3p1:id="rId1" xmlns:d3p1="http://schemas.openxmlformats.org/officeDocument/2006/relationships"/></sheets></workbook>"#);
        let r = mk(&[("xl/workbook.xml", wb), ("xl/_rels/workbook.xml.rels", rels()), ("xl/worksheets/sheet1.xml", sheet())]);
        // the workbook cannot be opened at all: the sheet's relationship id is not seen, its path stays empty
        assert!(matches!(r, Err(XlsxError::Unrecognized { typ: "sheet:type", .. }))); // expected Ok with sheet "S"
    }
}
