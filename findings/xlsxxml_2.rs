#[cfg(test)]
mod verif_demo_xlsxxml_ns_prefix {
    use super::*;
    use std::io::{Cursor, Write};
    fn mk(sst: Option<&str>, sheet_xml: &str) -> Result<Xlsx<Cursor<Vec<u8>>>, XlsxError> {
        let mut zw = zip::ZipWriter::new(Cursor::new(Vec::new()));
        let opt = zip::write::SimpleFileOptions::default().compression_method(zip::CompressionMethod::Stored);
        zw.start_file("xl/workbook.xml", opt).unwrap();
        zw.write_all(br#"<?xml version="1.0" encoding="UTF-8"?><workbook xmlns="http://schemas.openxmlformats.org/spreadsheetml/2006/main" xmlns:r="http://schemas.openxmlformats.org/officeDocument/2006/relationships"><sheets><sheet name="S" sheetId="1" r:id="rId1"/></sheets></workbook>"#).unwrap();
        zw.start_file("xl/_rels/workbook.xml.rels", opt).unwrap();
        zw.write_all(br#"<?xml version="1.0" encoding="UTF-8"?><Relationships xmlns="http://schemas.openxmlformats.org/package/2006/relationships"><Relationship Id="rId1" Type="http://schemas.openxmlformats.org/officeDocument/2006/relationships/worksheet" Target="worksheets/sheet1.xml"/></Relationships>"#).unwrap();
        if let Some(sst) = sst {
            zw.start_file("xl/sharedStrings.xml", opt).unwrap();
            zw.write_all(sst.as_bytes()).unwrap();
        }
        zw.start_file("xl/worksheets/sheet1.xml", opt).unwrap();
        zw.write_all(sheet_xml.as_bytes()).unwrap();
        let cur = zw.finish().unwrap();
        Xlsx::new(Cursor::new(cur.into_inner()))
    }
    const NS: &str = r#"xmlns="http://schemas.openxmlformats.org/spreadsheetml/2006/main""#;
    const XNS: &str = r#"xmlns:x="http://schemas.openxmlformats.org/spreadsheetml/2006/main""#;
    fn sheet(rows: &str) -> String {
        format!(r#"<?xml version="1.0" encoding="UTF-8"?><worksheet {NS}><sheetData>{rows}</sheetData></worksheet>"#)
    }

    #[test]
    fn verif_demo_prefixed_rich_text_shared_string_makes_workbook_unreadable() {
        // the same table written with a namespace prefix (legal: xmlns:x="...main"); item 0 is rich text "ab", item 1 is "one"
        let sst = format!(r#"<?xml version="1.0" encoding="UTF-8"?><x:sst {XNS} count="2" uniqueCount="2"><x:si><x:r><x:t>a</x:t></x:r><x:r><x:t>b</x:t></x:r></x:si><x:si><x:t>one</x:t></x:si></x:sst>"#);
        // read_string compares the LOCAL name of each end tag ("si") with the QUALIFIED name of the start tag ("x:si"):
        // the end of the item is never recognised, the scan runs to the end of the part -> Err(XmlEof)
        match mk(Some(&sst), &sheet("")) {
            Err(XlsxError::XmlEof(_)) => (),
            Err(e) => panic!("other error {e}"),
            Ok(x) => panic!("read {:?}", x.strings), // expected Ok with ["ab", "one"]
        }
        // control: the same table without prefix is read correctly
        let sst = format!(r#"<?xml version="1.0" encoding="UTF-8"?><sst {NS} count="2" uniqueCount="2"><si><r><t>a</t></r><r><t>b</t></r></si><si><t>one</t></si></sst>"#);
        assert_eq!(mk(Some(&sst), &sheet("")).unwrap().strings, vec!["ab".to_string(), "one".to_string()]);
    }
    #[test]
    fn verif_demo_prefixed_empty_item_swallows_the_next_item() {
        // <x:si/> followed by <x:si><x:r>..: the first item's end tag is not recognised, the runs of the next item are appended to it
        let sst = format!(r#"<?xml version="1.0" encoding="UTF-8"?><x:sst {XNS} count="3" uniqueCount="3"><x:si><x:r><x:t>a</x:t></x:r></x:si><x:si><x:t>one</x:t></x:si><x:si><x:t>two</x:t></x:si></x:sst>"#);
        let r = mk(Some(&sst), &sheet(""));
        // expected Ok(["a", "one", "two"])
        assert!(match r { Ok(x) => x.strings != vec!["a".to_string(), "one".to_string(), "two".to_string()], Err(_) => true });
    }
    #[test]
    fn verif_demo_prefixed_inline_rich_string_fails() {
        // inline string with runs, prefixed worksheet part
        let sh = format!(r#"<?xml version="1.0" encoding="UTF-8"?><x:worksheet {XNS}><x:sheetData><x:row r="1"><x:c r="A1" t="inlineStr"><x:is><x:r><x:t>a</x:t></x:r><x:r><x:t>b</x:t></x:r></x:is></x:c><x:c r="B1"><x:v>1</x:v></x:c></x:row></x:sheetData></x:worksheet>"#);
        let mut x = mk(None, &sh).unwrap();
        assert!(x.worksheet_range("S").is_err()); // expected A1 = "ab", B1 = 1.0
        // control: unprefixed
        let mut x = mk(None, &sheet(r#"<row r="1"><c r="A1" t="inlineStr"><is><r><t>a</t></r><r><t>b</t></r></is></c><c r="B1"><v>1</v></c></row>"#)).unwrap();
        let r = x.worksheet_range("S").unwrap();
        assert_eq!(r.get_value((0, 0)), Some(&Data::String("ab".to_string())));
    }
}
