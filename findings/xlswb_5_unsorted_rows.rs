#[cfg(test)]
mod verif_demo_xlswb_5 {
    use super::verif_demo_xlswb_2::{bof, boundsheet, open, rec};
    fn one_sheet(records: Vec<u8>) -> Vec<u8> {
        let mut wb = bof(0x0005);
        let pos = (wb.len() + 4 + 8 + 1 + 4) as u32;
        wb.extend(boundsheet(pos, "A"));
        wb.extend(rec(0x000A, &[]));
        wb.extend(bof(0x0010));
        wb.extend(records);
        wb.extend(rec(0x000A, &[]));
        wb
    }
    fn number(row: u16, col: u16, v: f64) -> Vec<u8> {
        let mut b = row.to_le_bytes().to_vec();
        b.extend_from_slice(&col.to_le_bytes());
        b.extend_from_slice(&[0, 0]);
        b.extend_from_slice(&v.to_le_bytes());
        rec(0x0203, &b)
    }
    // cell records whose rows are not ascending in the stream (row 5, then row 2): the cells are handed to Range::from_sparse without
    // its documented precondition (sorted by row): `row_end - row_start + 1` underflows
    #[test]
    #[should_panic(expected = "overflow")]
    fn verif_demo_xlswb_cell_rows_descending() {
        let mut r = number(5, 0, 1.0);
        r.extend(number(2, 0, 2.0));
        let _ = open(&one_sheet(r));
    }
    // the same for the formula range: FORMULA records at row 5, then row 2 (cached value = "string follows", so no cell is pushed
    // and the cell range stays empty; the formula range is built from the two formula cells)
    #[test]
    #[should_panic(expected = "overflow")]
    fn verif_demo_xlswb_formula_rows_descending() {
        let fmla = |row: u16| {
            let mut b = row.to_le_bytes().to_vec();
            b.extend_from_slice(&[0, 0, 0, 0]);
            b.extend_from_slice(&[0, 0, 0, 0, 0, 0, 0xFF, 0xFF]);
            b.extend_from_slice(&[0, 0, 0, 0, 0, 0]); // flags, chn
            b.extend_from_slice(&[3, 0, 0x1E, 1, 0]); // cce = 3, PtgInt 1
            rec(0x0006, &b)
        };
        let mut r = fmla(5);
        r.extend(fmla(2));
        let _ = open(&one_sheet(r));
    }
}
