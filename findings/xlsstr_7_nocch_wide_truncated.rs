#[cfg(test)]
mod verif_demo_xlsstr_7 {
    use super::*;
    // read_unicode_string_no_cch hands `buf[1..=cch]` (cch BYTES) to the decoder: with 16-bit storage only cch/2 characters come back
    // (defined names in Lbl records and string literals (PtgStr) in formulas with a non-Latin-1 character)
    #[test]
    fn verif_demo_xlsstr_nocch_wide_loses_half() {
        let enc = XlsEncoding::from_codepage(1200).unwrap();
        let mut s = String::new();
        read_unicode_string_no_cch(&enc, &[1, 0x41, 0, 0x42, 0], &2, &mut s); // fHighByte = 1, "AB"
        assert_eq!(s, "A"); // expected "AB"
        let mut s = String::new();
        read_unicode_string_no_cch(&enc, &[0, 0x41, 0x42], &2, &mut s); // the same text compressed
        assert_eq!(s, "AB");
    }
}
