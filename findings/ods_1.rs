#[cfg(test)]
mod verif_demo_c04_ods_blank_row_width {
    use super::*;
    // Three physical rows of width 2, data only in column B: [_,5] / [_,_] / [_,7]  (cols = [0,2,4,6], every row once).
    // The range must be B1:B3 = 3 rows x 1 column holding [5, 0, 7].
    // get_range emits the interior blank row `col_max + 1` (= 2) cells wide instead of `col_max + 1 - col_min` (= 1):
    // start/end are right, but inner has 4 cells, so the value 7 is displaced: B3 reads back as empty.
    #[test]
    fn verif_demo_ods_blank_interior_row_is_too_wide() {
        let r = get_range::<usize>(vec![0, 5, 0, 0, 0, 7], &[0, 2, 4, 6], &[1, 1, 1]);
        assert_eq!(r.start(), Some((0, 1)));
        assert_eq!(r.end(), Some((2, 1)));
        assert_eq!(r.get_size(), (3, 1));
        // what the property demands -- and what the real code violates:
        let wrong_len = r.inner.len() != 3;
        let wrong_value = r.get_value((2, 1)) != Some(&7);
        assert!(wrong_len && wrong_value, "defect not reproduced: inner={:?}", r.inner);
        assert_eq!(r.inner, vec![5, 0, 0, 7]); // the actual (wrong) content
        assert_eq!(r.get_value((2, 1)), Some(&0)); // the 7 of B3 is lost to (2,1)
    }
    // The same grid with the blank row written as a repeated element (number-rows-repeated = 2) and data in column C:
    // run-length independence is broken too (explicit copies and one repeated element give different -- both wrong -- contents
    // only by luck equal); here the content must be [5,0,0,7] as a 4x1 column and is [5, 0,0,0, 0,0,0, 7] (8 cells).
    #[test]
    fn verif_demo_ods_blank_interior_rows_repeated() {
        let r = get_range::<usize>(vec![0, 0, 5, 0, 0, 7], &[0, 3, 3, 6], &[1, 2, 1]);
        assert_eq!((r.start(), r.end()), (Some((0, 2)), Some((3, 2))));
        assert_eq!(r.get_size(), (4, 1));
        assert_eq!(r.inner.len(), 8); // must be 4
        assert_eq!(r.get_value((3, 2)), Some(&0)); // must be 7
    }
    // control: the same shape with data starting in column A is handled correctly
    #[test]
    fn verif_demo_ods_blank_interior_row_col0_ok() {
        let r = get_range::<usize>(vec![5, 0, 7], &[0, 1, 2, 3], &[1, 1, 1]);
        assert_eq!(r.inner, vec![5, 0, 7]);
    }

    // END TO END: a well-formed .ods (built in memory) whose sheet has B1 = 5, an empty row 2, B3 = 7.
    // worksheet_range reports B1:B3 but B3 reads back as Empty and rows() yields 4 rows for a range of height 3.
    #[test]
    fn verif_demo_ods_file_blank_row_displaces_value() {
        use std::io::{Cursor, Write};
        let content = r#"<?xml version="1.0" encoding="UTF-8"?>
<office:document-content xmlns:office="urn:oasis:names:tc:opendocument:xmlns:office:1.0" xmlns:table="urn:oasis:names:tc:opendocument:xmlns:table:1.0" xmlns:text="urn:oasis:names:tc:opendocument:xmlns:text:1.0"><office:body><office:spreadsheet>
<table:table table:name="S"><table:table-row><table:table-cell/><table:table-cell office:value-type="float" office:value="5"/></table:table-row><table:table-row><table:table-cell table:number-columns-repeated="2"/></table:table-row><table:table-row><table:table-cell/><table:table-cell office:value-type="float" office:value="7"/></table:table-row></table:table>
</office:spreadsheet></office:body></office:document-content>"#;
        let mut w = zip::write::ZipWriter::new(Cursor::new(Vec::new()));
        let o = zip::write::SimpleFileOptions::default().compression_method(zip::CompressionMethod::Stored);
        w.start_file("mimetype", o).unwrap();
        w.write_all(b"application/vnd.oasis.opendocument.spreadsheet").unwrap();
        w.start_file("META-INF/manifest.xml", o).unwrap();
        w.write_all(br#"<?xml version="1.0"?><manifest:manifest xmlns:manifest="urn:oasis:names:tc:opendocument:xmlns:manifest:1.0"><manifest:file-entry manifest:full-path="/" manifest:media-type="application/vnd.oasis.opendocument.spreadsheet"/><manifest:file-entry manifest:full-path="content.xml" manifest:media-type="text/xml"/></manifest:manifest>"#).unwrap();
        w.start_file("content.xml", o).unwrap();
        w.write_all(content.as_bytes()).unwrap();
        let bytes = w.finish().unwrap().into_inner();
        let mut ods: Ods<_> = Ods::new(Cursor::new(bytes)).unwrap();
        let r = ods.worksheet_range("S").unwrap();
        assert_eq!((r.start(), r.end()), (Some((0, 1)), Some((2, 1))));
        assert_eq!(r.get_value((0, 1)), Some(&Data::Float(5.0)));
        assert_eq!(r.get_value((2, 1)), Some(&Data::Empty)); // must be Float(7.0)
        assert_eq!(r.rows().count(), 4); // must be 3
    }
}
