#[cfg(test)]
mod verif_demo_xlsrec_bof {
    use super::*;
    // BOF [MS-XLS] 2.4.21 record whose body has fewer than 2 bytes: `&r.data[..2]` is out of range (panics in every build)
    #[test]
    #[should_panic]
    fn verif_demo_bof_one_byte() {
        let mut r = Record { typ: 0x0809, data: &[0x00], cont: None };
        let _ = parse_bof(&mut r);
    }
    // the same through the record iterator: a stream holding one BOF record of declared size 0
    #[test]
    #[should_panic]
    fn verif_demo_bof_empty_record_from_stream() {
        let stream = [0x09u8, 0x08, 0x00, 0x00];
        let mut it = RecordIter { stream: &stream };
        let mut r = it.next().unwrap().unwrap();
        let _ = parse_bof(&mut r);
    }
}
