#[cfg(test)]
mod verif_demo_xlsxxml_sst_skip {
    use super::*;
    use std::io::{Cursor, Write};
    fn mk(sst: Option<&str>, sheet_xml: &str) -> Result<Xlsx<Cursor<Vec<u8>>>, XlsxError> {
        let mut zw = zip::ZipWriter::new(Cursor::new(Vec::new()));
        let opt = zip::write::SimpleFileOptions::default().compression_method(zip::CompressionMethod::Stored);
        zw.start_file("xl/workbook.xml", opt).unwrap();
        zw.write_all(br#"<?xml version="1.0" encoding="UTF-8"?><workbook xmlns="http://schemas.openxmlformats.org/spreadsheetml/2006/main" xmlns:r="http://schemas.openxmlformats.org/officeDocument/2006/relationships"><sheets><sheet name="S" sheetId="1" r:id="rId1"/></sheets></workbook>"#).unwrap();
        zw.start_file("xl/_rels/workbook.xml.rels", opt).unwrap();
        zw.write_all(br#"<?xml version="1.0" encoding="UTF-8"?><Relationships xmlns="http://schemas.openxmlformats.org/package/2006/relationships"><Relationship Id="rId1" Type="http://schemas.openxmlformats.org/officeDocument/2006/relationships/worksheet" Target="worksheets/sheet1.xml"/></Relationships>"#).unwrap();
        if let Some(sst) = sst {
            zw.start_file("xl/sharedStrings.xml", opt).unwrap();
            zw.write_all(sst.as_bytes()).unwrap();
        }
        zw.start_file("xl/worksheets/sheet1.xml", opt).unwrap();
        zw.write_all(sheet_xml.as_bytes()).unwrap();
        let cur = zw.finish().unwrap();
        Xlsx::new(Cursor::new(cur.into_inner()))
    }
    const NS: &str = r#"xmlns="http://schemas.openxmlformats.org/spreadsheetml/2006/main""#;
    const XNS: &str = r#"xmlns:x="http://schemas.openxmlformats.org/spreadsheetml/2006/main""#;
    fn sheet(rows: &str) -> String {
        format!(r#"<?xml version="1.0" encoding="UTF-8"?><worksheet {NS}><sheetData>{rows}</sheetData></worksheet>"#)
    }

    #[test]
    fn verif_demo_sst_item_without_text_shifts_all_later_indices() {
        // shared string table: item 0 has no <t> (empty item, legal CT_Rst), item 1 = "one", item 2 = "two"
        let sst = format!(r#"<?xml version="1.0" encoding="UTF-8"?><sst {NS} count="3" uniqueCount="3"><si/><si><t>one</t></si><si><t>two</t></si></sst>"#);
        // A1 refers to item 1 ("one")
        let mut x = mk(Some(&sst), &sheet(r#"<row r="1"><c r="A1" t="s"><v>1</v></c></row>"#)).unwrap();
        // the table was loaded as ["one", "two"]: index 1 now designates "two"
        assert_eq!(x.strings, vec!["one".to_string(), "two".to_string()]); // expected ["", "one", "two"]
        let r = x.worksheet_range("S").unwrap();
        assert_eq!(r.get_value((0, 0)), Some(&Data::String("two".to_string()))); // expected "one"
    }
    #[test]
    fn verif_demo_sst_item_with_only_phonetic_properties_is_skipped() {
        let sst = format!(r#"<?xml version="1.0" encoding="UTF-8"?><sst {NS} count="2" uniqueCount="2"><si><phoneticPr fontId="1"/></si><si><t>one</t></si></sst>"#);
        let x = mk(Some(&sst), &sheet("")).unwrap();
        assert_eq!(x.strings, vec!["one".to_string()]); // expected ["", "one"]
    }
    #[test]
    #[should_panic]
    fn verif_demo_sst_last_index_out_of_range_after_shift_panics() {
        // same table; the cell refers to the last item (index 2): the shifted table has only 2 entries -> index panic (C06 as well)
        let sst = format!(r#"<?xml version="1.0" encoding="UTF-8"?><sst {NS} count="3" uniqueCount="3"><si/><si><t>one</t></si><si><t>two</t></si></sst>"#);
        let mut x = mk(Some(&sst), &sheet(r#"<row r="1"><c r="A1" t="s"><v>2</v></c></row>"#)).unwrap();
        let _ = x.worksheet_range("S");
    }
}
