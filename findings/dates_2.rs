#[cfg(all(test, feature = "dates"))]
mod verif_demo_c11_non_monotone_59_61 {
    use super::*;
    // C11: "serials up to 59 precede the fictitious 1900-02-29, and serial 61 is 1900-03-01 ... Conversions are monotone".
    // The leap-bug shim `if f >= 60.0 { f } else { f + 1.0 }` maps serials in [59,60) to day offsets [60,61) and serials in
    // [60,61) onto the very same offsets, so a later serial can convert to an earlier instant.
    #[test]
    fn verif_demo_dates_as_datetime_not_monotone() {
        let dt = |v: f64| ExcelDateTime::new(v, ExcelDateTimeType::DateTime, false).as_datetime().unwrap();
        let at = |h: u32, m: u32| chrono::NaiveDate::from_ymd_opt(1900, 2, 28).unwrap().and_hms_opt(h, m, 0).unwrap();
        assert_eq!(dt(59.5), at(12, 0));
        // WRONG: 60.25 > 59.5 but converts to an instant six hours EARLIER
        assert_eq!(dt(60.25), at(6, 0));
        assert!(59.5 < 60.25 && dt(59.5) > dt(60.25));
        // the whole day [60,61) repeats [59,60)
        assert_eq!(dt(60.0), dt(59.0));
        assert_eq!(dt(60.75), dt(59.75));
        // same through the cell-level API
        assert!(Data::Float(59.75).as_datetime() > Data::Float(60.0).as_datetime());
        assert!(Data::Float(59.75).as_time() > Data::Float(60.5).as_time() && Data::Float(59.75).as_date() == Data::Float(60.5).as_date());
    }
}
