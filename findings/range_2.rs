#[cfg(test)]
mod verif_demo_range_2 {
    use super::*;
    // C05: set_value on an empty range (Range::empty(), Range::default(), from_sparse(vec![])) panics for every position,
    // although every position is "at or beyond the start corner" (0, 0) of the empty range.
    #[test]
    #[should_panic]
    fn verif_demo_set_value_on_empty_index() {
        let mut r = Range::<usize>::empty();
        r.set_value((0, 0), 1); // index out of bounds: the len is 0 but the index is 0
    }
    #[test]
    #[should_panic]
    fn verif_demo_set_value_on_empty_rows() {
        let mut r = Range::<usize>::empty();
        r.set_value((2, 0), 1); // index out of bounds
    }
    #[test]
    #[should_panic]
    fn verif_demo_set_value_on_empty_chunks() {
        let mut r = Range::<usize>::empty();
        r.set_value((0, 3), 1); // chunks(0): chunk size must be non-zero
    }
}
