#[cfg(test)]
mod verif_demo_xlswb_4 {
    use super::verif_demo_xlswb_2::{bof, boundsheet, open, rec};
    fn one_sheet(records: Vec<u8>) -> Vec<u8> {
        let mut wb = bof(0x0005);
        let pos = (wb.len() + 4 + 8 + 1 + 4) as u32;
        wb.extend(boundsheet(pos, "A"));
        wb.extend(rec(0x000A, &[]));
        wb.extend(bof(0x0010));
        wb.extend(records);
        wb.extend(rec(0x000A, &[]));
        wb
    }
    // Dimensions [MS-XLS] 2.4.90 with rwMic = 5 > rwMac - 1 = 0: parse_dimensions returns start (5, 0), end (0, 0) and
    // `end.0 - start.0 + 1` underflows (panic with overflow checks; in release builds rows wraps to ~2^32 and the result is fed to reserve)
    #[test]
    #[should_panic(expected = "overflow")]
    fn verif_demo_xlswb_dimensions_first_row_after_last() {
        let mut d = Vec::new();
        d.extend_from_slice(&5u32.to_le_bytes());
        d.extend_from_slice(&1u32.to_le_bytes());
        d.extend_from_slice(&[0, 0, 1, 0, 0, 0]);
        let _ = open(&one_sheet(rec(0x0200, &d)));
    }
    #[test]
    #[should_panic(expected = "overflow")]
    fn verif_demo_xlswb_dimensions_first_col_after_last() {
        let mut d = Vec::new();
        d.extend_from_slice(&0u32.to_le_bytes());
        d.extend_from_slice(&1u32.to_le_bytes());
        d.extend_from_slice(&[7, 0, 1, 0, 0, 0]);
        let _ = open(&one_sheet(rec(0x0200, &d)));
    }
}
