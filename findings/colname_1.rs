#[cfg(test)]
mod verif_demo_c14_push_column {
    use super::*;
    fn name(col: u32) -> String {
        let mut s = String::new();
        push_column(col, &mut s);
        s
    }
    // columns below 26 are right
    #[test]
    fn verif_demo_push_column_single_letter_ok() {
        assert_eq!(name(0), "A");
        assert_eq!(name(25), "Z");
    }
    // every column >= 26 loses its most significant letter: the asserted values are the WRONG ones the code produces
    #[test]
    fn verif_demo_push_column_drops_leading_letter() {
        assert_eq!(name(26), "A"); // spreadsheet name: AA
        assert_eq!(name(27), "B"); // AB
        assert_eq!(name(255), "V"); // IV (last column of an xls sheet)
        assert_eq!(name(701), "AZ"); // ZZ
        assert_eq!(name(702), "BA"); // AAA
        assert_eq!(name(16383), "GD"); // XFD (last column of an xlsb/xlsx sheet)
    }
}
