#[cfg(test)]
mod verif_demo_xlsstr_6 {
    use super::*;
    // read_unicode_string_no_cch: `&buf[1..=*len]` and `buf[0]` unchecked (cch comes from another field of the record)
    #[test]
    #[should_panic]
    fn verif_demo_xlsstr_nocch_short_buffer() {
        let enc = XlsEncoding::from_codepage(1200).unwrap();
        let mut s = String::new();
        read_unicode_string_no_cch(&enc, &[0, 0x41], &5, &mut s);
    }
    #[test]
    #[should_panic]
    fn verif_demo_xlsstr_nocch_empty_buffer() {
        let enc = XlsEncoding::from_codepage(1200).unwrap();
        let mut s = String::new();
        read_unicode_string_no_cch(&enc, &[], &0, &mut s);
    }
}
