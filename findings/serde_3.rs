#[cfg(test)]
mod verif_demo_c09_error_row {
    use super::*;
    fn pos_of(e: DeError) -> (u32, u32) {
        match e {
            DeError::CellError { pos, .. } => pos,
            e => panic!("not a CellError: {:?}", e),
        }
    }
    // 3 rows x 1 col at origin (3,2); the error cell is in the FIRST row (absolute (3,2)) resp. the LAST row ((5,2)):
    // both are reported in row 4 = start.0 + 1 (the cursor is a copy and is re-incremented from the start every time)
    #[test]
    fn verif_demo_error_row_is_always_start_plus_one() {
        for bad in [3u32, 5] {
            let mut r: Range<Data> = Range::new((3, 2), (5, 2));
            for i in 3..=5u32 {
                r.set_value((i, 2), if i == bad { Data::Error(CellErrorType::Div0) } else { Data::Int(1) });
            }
            let mut b = RangeDeserializerBuilder::new();
            b.has_headers(false);
            let it: RangeDeserializer<'_, Data, (i64,)> = b.from_range(&r).unwrap();
            let errs: Vec<(u32, u32)> = it.filter_map(|x| x.err()).map(pos_of).collect();
            assert_eq!(errs, vec![(4, 2)]); // expected (bad, 2)
        }
    }
    // with a header row the first data row (absolute row 4) is reported as row 5 = start.0 + 2
    #[test]
    fn verif_demo_error_row_with_headers() {
        let mut r: Range<Data> = Range::new((3, 2), (4, 2));
        r.set_value((3, 2), Data::String("a".into()));
        r.set_value((4, 2), Data::Error(CellErrorType::NA));
        let mut it: RangeDeserializer<'_, Data, (i64,)> = RangeDeserializerBuilder::new().from_range(&r).unwrap();
        assert_eq!(pos_of(it.next().unwrap().unwrap_err()), (5, 2)); // expected (4, 2)
    }
}
