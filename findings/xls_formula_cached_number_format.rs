// Demo for the repaired defect "xls: cached numeric FORMULA results ignore the cell's number format" (C10).
// Drop into tests/ and run `cargo test --offline --test <name>`.  A FORMULA record (0x0006) carries ixfe like a NUMBER
// record; its cached numeric result must be typed by the number format of that XF (DateTime / duration / plain number).
use calamine::{Data, ExcelDateTime, ExcelDateTimeType, Reader, Xls};
use std::io::Cursor;

fn rec(out: &mut Vec<u8>, typ: u16, data: &[u8]) {
    out.extend_from_slice(&typ.to_le_bytes());
    out.extend_from_slice(&(data.len() as u16).to_le_bytes());
    out.extend_from_slice(data);
}

/// FORMAT record payload: ifmt, cch, flags, characters
fn format_rec(idx: u16, s: &str, utf16: bool) -> Vec<u8> {
    let units: Vec<u16> = s.encode_utf16().collect();
    let mut d = Vec::new();
    d.extend_from_slice(&idx.to_le_bytes());
    d.extend_from_slice(&(units.len() as u16).to_le_bytes());
    if utf16 {
        d.push(1);
        for u in units {
            d.extend_from_slice(&u.to_le_bytes());
        }
    } else {
        d.push(0);
        for u in units {
            assert!(u < 0x100);
            d.push(u as u8);
        }
    }
    d
}

/// Build the Workbook stream: globals + one sheet "S" holding NUMBER cells (row, col, ixfe, value)
fn workbook_stream(
    is_1904: bool,
    formats: &[(u16, &str, bool)],
    xf_ifmt: &[u16],
    cells: &[(u16, u16, u16, f64)],
) -> Vec<u8> {
    let mut g = Vec::new();
    let mut bof = vec![0u8; 16];
    bof[0..2].copy_from_slice(&0x0600u16.to_le_bytes());
    bof[2..4].copy_from_slice(&0x0005u16.to_le_bytes());
    rec(&mut g, 0x0809, &bof);
    rec(&mut g, 0x0042, &1200u16.to_le_bytes());
    rec(&mut g, 0x0022, &(is_1904 as u16).to_le_bytes());
    for (idx, s, utf16) in formats {
        rec(&mut g, 0x041E, &format_rec(*idx, s, *utf16));
    }
    for ifmt in xf_ifmt {
        let mut xf = vec![0u8; 20];
        xf[2..4].copy_from_slice(&ifmt.to_le_bytes());
        rec(&mut g, 0x00E0, &xf);
    }
    // BoundSheet8: position is patched below
    let bs_at = g.len() + 4;
    rec(&mut g, 0x0085, &[0, 0, 0, 0, 0, 0, 1, 0, b'S']);
    rec(&mut g, 0x000A, &[]);

    let pos = g.len() as u32;
    g[bs_at..bs_at + 4].copy_from_slice(&pos.to_le_bytes());

    let mut bof = vec![0u8; 16];
    bof[0..2].copy_from_slice(&0x0600u16.to_le_bytes());
    bof[2..4].copy_from_slice(&0x0010u16.to_le_bytes());
    rec(&mut g, 0x0809, &bof);
    for (row, col, ixfe, v) in cells {
        let mut n = Vec::new();
        n.extend_from_slice(&row.to_le_bytes());
        n.extend_from_slice(&col.to_le_bytes());
        n.extend_from_slice(&ixfe.to_le_bytes());
        n.extend_from_slice(&v.to_le_bytes()); // FormulaValue: cached Xnum
        n.extend_from_slice(&0u16.to_le_bytes()); // flags
        n.extend_from_slice(&0u32.to_le_bytes()); // chn
        n.extend_from_slice(&3u16.to_le_bytes()); // cce
        n.extend_from_slice(&[0x1E, 0x07, 0x00]); // PtgInt 7
        rec(&mut g, 0x0006, &n);
    }
    rec(&mut g, 0x000A, &[]);
    g
}

/// Wrap a stream named "Workbook" into a minimal version-3 compound file (512-byte sectors,
/// no mini stream: the stream is padded to 4096 bytes so that it lives in regular sectors).
fn cfb(mut stream: Vec<u8>) -> Vec<u8> {
    while stream.len() < 4096 || stream.len() % 512 != 0 {
        stream.push(0);
    }
    let n = stream.len() / 512;
    assert!(2 + n <= 128);

    let mut h = vec![0u8; 512];
    h[0..8].copy_from_slice(&0xE11A_B1A1_E011_CFD0u64.to_le_bytes());
    h[24..26].copy_from_slice(&0x003Eu16.to_le_bytes());
    h[26..28].copy_from_slice(&0x0003u16.to_le_bytes());
    h[28..30].copy_from_slice(&0xFFFEu16.to_le_bytes());
    h[30..32].copy_from_slice(&0x0009u16.to_le_bytes());
    h[32..34].copy_from_slice(&0x0006u16.to_le_bytes());
    h[40..44].copy_from_slice(&1u32.to_le_bytes()); // directory sectors
    h[44..48].copy_from_slice(&1u32.to_le_bytes()); // fat sectors
    h[48..52].copy_from_slice(&1u32.to_le_bytes()); // first directory sector
    h[56..60].copy_from_slice(&4096u32.to_le_bytes()); // mini stream cutoff
    h[60..64].copy_from_slice(&0xFFFF_FFFEu32.to_le_bytes()); // no mini fat
    h[64..68].copy_from_slice(&0u32.to_le_bytes());
    h[68..72].copy_from_slice(&0xFFFF_FFFEu32.to_le_bytes()); // no difat sector
    for i in 0..109 {
        let v: u32 = if i == 0 { 0 } else { 0xFFFF_FFFF };
        h[76 + 4 * i..80 + 4 * i].copy_from_slice(&v.to_le_bytes());
    }

    // sector 0: FAT
    let mut fat = vec![0xFFFF_FFFFu32; 128];
    fat[0] = 0xFFFF_FFFD; // FATSECT
    fat[1] = 0xFFFF_FFFE; // directory: end of chain
    for i in 0..n {
        fat[2 + i] = if i + 1 == n { 0xFFFF_FFFE } else { (3 + i) as u32 };
    }
    // sector 1: directory
    let mut dir = vec![0u8; 512];
    let entry = |name: &str, typ: u8, start: u32, len: u32| {
        let mut e = vec![0u8; 128];
        let units: Vec<u16> = name.encode_utf16().collect();
        for (i, u) in units.iter().enumerate() {
            e[2 * i..2 * i + 2].copy_from_slice(&u.to_le_bytes());
        }
        e[64..66].copy_from_slice(&((units.len() as u16 + 1) * 2).to_le_bytes());
        e[66] = typ;
        e[67] = 1;
        e[68..72].copy_from_slice(&0xFFFF_FFFFu32.to_le_bytes());
        e[72..76].copy_from_slice(&0xFFFF_FFFFu32.to_le_bytes());
        e[76..80].copy_from_slice(&0xFFFF_FFFFu32.to_le_bytes());
        e[116..120].copy_from_slice(&start.to_le_bytes());
        e[120..124].copy_from_slice(&len.to_le_bytes());
        e
    };
    let mut root = entry("Root Entry", 5, 0xFFFF_FFFE, 0);
    root[76..80].copy_from_slice(&1u32.to_le_bytes()); // child: Workbook
    dir[0..128].copy_from_slice(&root);
    dir[128..256].copy_from_slice(&entry("Workbook", 2, 2, stream.len() as u32));

    let mut out = h;
    for v in fat {
        out.extend_from_slice(&v.to_le_bytes());
    }
    out.extend_from_slice(&dir);
    out.extend_from_slice(&stream);
    out
}

fn read(
    is_1904: bool,
    formats: &[(u16, &str, bool)],
    xf_ifmt: &[u16],
    cells: &[(u16, u16, u16, f64)],
) -> Vec<Data> {
    let bytes = cfb(workbook_stream(is_1904, formats, xf_ifmt, cells));
    let mut wb: Xls<_> = Xls::new(Cursor::new(bytes)).expect("valid xls");
    let range = wb.worksheet_range("S").expect("sheet S");
    cells
        .iter()
        .map(|(r, c, _, _)| range.get_value((*r as u32, *c as u32)).unwrap().clone())
        .collect()
}

fn dt(v: f64, is_1904: bool) -> Data {
    Data::DateTime(ExcelDateTime::new(v, ExcelDateTimeType::DateTime, is_1904))
}

fn dur(v: f64, is_1904: bool) -> Data {
    Data::DateTime(ExcelDateTime::new(v, ExcelDateTimeType::TimeDelta, is_1904))
}

#[test]
fn cached_formula_numbers_are_typed_by_their_number_format() {
    let formats: &[(u16, &str, bool)] = &[(164, "[h]:mm", false), (165, "yyyy\\-mm\\-dd", false), (166, "0.00\"d\"", false)];
    let xf_ifmt = &[0u16, 164, 165, 166, 14];
    let cells = &[(0u16, 0u16, 1u16, 1.5f64), (0, 1, 2, 45000.25), (0, 2, 3, 12.5), (0, 3, 4, 45000.0), (0, 4, 0, 7.25)];
    for is_1904 in [false, true] {
        let got = read(is_1904, formats, xf_ifmt, cells);
        let want = vec![dur(1.5, is_1904), dt(45000.25, is_1904), Data::Float(12.5), dt(45000.0, is_1904), Data::Float(7.25)];
        assert_eq!(got, want, "is_1904 = {is_1904}");
    }
}
