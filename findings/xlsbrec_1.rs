#[cfg(test)]
mod verif_demo_xlsbrec_c03 {
    use super::*;
    use crate::CellErrorType;
    use std::io::{Cursor, Write};

    /// a zip archive (stored) holding one file `s.bin` with the given BIFF12 record stream
    fn zip_with(bin: &[u8]) -> ZipArchive<Cursor<Vec<u8>>> {
        let mut w = zip::ZipWriter::new(Cursor::new(Vec::new()));
        let opt = zip::write::SimpleFileOptions::default().compression_method(zip::CompressionMethod::Stored);
        w.start_file("s.bin", opt).unwrap();
        w.write_all(bin).unwrap();
        ZipArchive::new(w.finish().unwrap()).unwrap()
    }
    /// one record: 1- or 2-byte type, 1-byte size, payload ([MS-XLSB] 2.1.4)
    fn rec(typ: u16, payload: &[u8]) -> Vec<u8> {
        let mut v = Vec::new();
        if typ < 0x80 { v.push(typ as u8); } else { v.push((typ & 0x7F) as u8 | 0x80); v.push((typ >> 7) as u8); }
        assert!(payload.len() < 0x80);
        v.push(payload.len() as u8);
        v.extend_from_slice(payload);
        v
    }
    /// worksheet part: BrtBeginSheet, BrtWsDim (wsdim bytes), BrtBeginSheetData, BrtRowHdr(row 0), the cell records, BrtEndSheetData
    fn sheet(wsdim: &[u8], rowhdr: &[u8], cells: &[Vec<u8>]) -> Vec<u8> {
        let mut s = Vec::new();
        s.extend(rec(0x0081, &[]));
        s.extend(rec(0x0094, wsdim));
        s.extend(rec(0x0091, &[]));
        s.extend(rec(0x0000, rowhdr));
        for c in cells { s.extend_from_slice(c); }
        s.extend(rec(0x0092, &[]));
        s
    }
    /// all cells `XlsbCellsReader` reports for the stream
    fn read_cells(bin: &[u8], formats: &[CellFormat], strings: &[String]) -> Vec<((u32, u32), DataRef<'static>)> {
        let mut z = zip_with(bin);
        let it = RecordIter::from_zip(&mut z, "s.bin").unwrap();
        let mut r = XlsbCellsReader::new(it, formats, strings, &[], &[], false).unwrap();
        let mut got = Vec::new();
        while let Some(c) = r.next_cell().unwrap() {
            let v = match c.get_value() { DataRef::SharedString(s) => DataRef::String(s.to_string()), DataRef::Int(i) => DataRef::Int(*i),
                DataRef::Float(f) => DataRef::Float(*f), DataRef::String(s) => DataRef::String(s.clone()), DataRef::Bool(b) => DataRef::Bool(*b),
                DataRef::DateTime(d) => DataRef::DateTime(*d), DataRef::Error(e) => DataRef::Error(e.clone()), _ => DataRef::Empty };
            got.push((c.get_position(), v));
        }
        got
    }

    // C03: "A formula cell contributes its cached value exactly like a constant cell of the same type".
    // XlsbCellsReader::next_cell (src/xlsb/cells_reader.rs) has arms for BrtFmlaString 0x0008, BrtFmlaNum 0x0009, BrtFmlaBool 0x000A
    // but none for BrtFmlaError 0x000B: the record falls into `_ => continue` and the cell is silently dropped.
    #[test]
    fn verif_demo_xlsbrec_fmla_error_dropped() {
        // A1: BrtCellError #DIV/0! ; B1: BrtFmlaError, cached value #DIV/0! (=1/0) ; C1: BrtCellBool TRUE
        let a1 = rec(0x0003, &[0, 0, 0, 0, 0, 0, 0, 0, 0x07]);
        let b1 = rec(0x000B, &[1, 0, 0, 0, 0, 0, 0, 0, 0x07, /*grbitFlags*/ 0, 0, /*cce*/ 0, 0, 0, 0, /*cb*/ 0, 0, 0, 0]);
        let c1 = rec(0x0004, &[2, 0, 0, 0, 0, 0, 0, 0, 1]);
        let got = read_cells(&sheet(&[0u8; 16], &[0u8; 17], &[a1, b1, c1]), &[], &[]);
        // the constant error cell is reported ...
        assert_eq!(got[0], ((0, 0), DataRef::Error(CellErrorType::Div0)));
        // ... the formula cell with the same cached value is not: B1 is missing, the next cell reported is C1
        assert_eq!(got.len(), 2);
        assert_eq!(got[1], ((0, 2), DataRef::Bool(true)));
    }
}
