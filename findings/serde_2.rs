#[cfg(test)]
mod verif_demo_c09_size_hint_panic {
    use super::*;
    // a sheet that holds only the header row: size_hint computes end.0 - (start.0 + 1) in u32
    // (debug builds panic, release builds report 4294967295 items)
    #[test]
    #[should_panic(expected = "attempt to subtract with overflow")]
    fn verif_demo_size_hint_header_only_sheet_panics() {
        let mut r: Range<Data> = Range::new((0, 0), (0, 0));
        r.set_value((0, 0), Data::String("a".into()));
        let it: RangeDeserializer<'_, Data, (i64,)> = RangeDeserializerBuilder::new().from_range(&r).unwrap();
        let _ = it.size_hint();
    }
}
