#[cfg(test)]
mod verif_demo_odsxml_c19_cell_text {
    use super::*;
    use std::io::{Cursor, Write};

    /// a minimal .ods in memory: mimetype + manifest + the given content.xml
    fn ods_bytes(content: &str) -> Vec<u8> {
        let mut w = zip::ZipWriter::new(Cursor::new(Vec::new()));
        let stored = zip::write::SimpleFileOptions::default().compression_method(zip::CompressionMethod::Stored);
        w.start_file("mimetype", stored).unwrap();
        w.write_all(MIMETYPE).unwrap();
        w.start_file("META-INF/manifest.xml", stored).unwrap();
        w.write_all(br#"<?xml version="1.0" encoding="UTF-8"?><manifest:manifest xmlns:manifest="urn:oasis:names:tc:opendocument:xmlns:manifest:1.0"><manifest:file-entry manifest:full-path="/" manifest:media-type="application/vnd.oasis.opendocument.spreadsheet"/></manifest:manifest>"#).unwrap();
        w.start_file("content.xml", stored).unwrap();
        w.write_all(content.as_bytes()).unwrap();
        w.finish().unwrap().into_inner()
    }
    const HEAD: &str = r#"<?xml version="1.0" encoding="UTF-8"?><office:document-content xmlns:office="urn:oasis:names:tc:opendocument:xmlns:office:1.0" xmlns:table="urn:oasis:names:tc:opendocument:xmlns:table:1.0" xmlns:text="urn:oasis:names:tc:opendocument:xmlns:text:1.0" xmlns:dc="http://purl.org/dc/elements/1.1/" office:version="1.2"><office:body><office:spreadsheet>"#;
    const TAIL: &str = "</office:spreadsheet></office:body></office:document-content>";
    fn sheet(cells: &str) -> String {
        format!("{HEAD}<table:table table:name=\"S\"><table:table-row>{cells}</table:table-row></table:table>{TAIL}")
    }
    fn open(content: &str) -> Result<Ods<Cursor<Vec<u8>>>, OdsError> {
        Ods::new(Cursor::new(ods_bytes(content)))
    }
    fn a1(content: &str) -> Data {
        let mut wb = open(content).expect("workbook opens");
        let r = wb.worksheet_range("S").expect("sheet S");
        r.get_value((0, 0)).cloned().unwrap_or(Data::Empty)
    }

    // ---- sanity: the builder produces a workbook calamine reads, and the paragraph rule holds on the plain form
    #[test]
    fn verif_demo_odsxml_builder_sanity() {
        let c = sheet(r#"<table:table-cell office:value-type="string"><text:p>a</text:p><text:p/><text:p>b<text:s text:c="2"/>c</text:p></table:table-cell>"#);
        assert_eq!(a1(&c), Data::String("a\n\nb  c".to_string()));
    }

    // ---- C19 (obligation C19.ods_cell_text_any_content), 1: a tab is stored as <text:tab/> (ODF 1.2 6.1.4; this is how LibreOffice
    // writes it) and a line break inside a paragraph as <text:line-break/> (6.1.5): both are dropped
    #[test]
    fn verif_demo_odsxml_tab_and_line_break_elements_dropped() {
        let c = sheet(r#"<table:table-cell office:value-type="string"><text:p>a<text:tab/>b<text:line-break/>c</text:p></table:table-cell>"#);
        // stored text is "a\tb\nc"
        assert_eq!(a1(&c), Data::String("abc".to_string()));
    }

    // ---- C19, 2: white space between the elements of an indented (pretty-printed) document is not part of any paragraph, but is
    // copied into the cell text
    #[test]
    fn verif_demo_odsxml_indentation_leaks_into_cell_text() {
        let c = sheet("<table:table-cell office:value-type=\"string\">\n      <text:p>abc</text:p>\n    </table:table-cell>");
        // stored text is "abc"
        assert_eq!(a1(&c), Data::String("\n      abc\n    ".to_string()));
    }

}
