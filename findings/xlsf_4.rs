#[cfg(test)]
mod verif_demo_c14_xls_3d_sheet {
    use super::*;
    // rgce of a CellParsedFormula: u16 cce, then the tokens
    fn pf(tokens: &[u8]) -> Result<String, String> {
        let mut rgce = vec![tokens.len() as u8, (tokens.len() >> 8) as u8];
        rgce.extend_from_slice(tokens);
        let sheets = vec!["S0".to_string(), "S1".to_string(), "S2".to_string()];
        // XTI table: ixti 0 -> sheet 2 (S2), ixti 1 -> sheet 0 (S0)
        let xtis = vec![Xti { _isup_book: 0, itab_first: 2, _itab_last: 2 }, Xti { _isup_book: 0, itab_first: 0, _itab_last: 0 }];
        let enc = XlsEncoding::from_codepage(1200).unwrap();
        parse_formula(&rgce, &sheets, &[], &xtis, &enc).map_err(|e| e.to_string())
    }
    // 3-D tokens name their sheet through the XTI table: ixti -> XTI[ixti].itabFirst -> sheet name ([MS-XLS] 2.5.198.28 PtgArea3d,
    // 2.5.198.86 PtgRefErr3d, 2.5.198.29 PtgAreaErr3d).  PtgRef3d does that; the other three index the sheet list by ixti directly.
    #[test]
    fn verif_demo_xls_area3d_bypasses_xti() {
        // ixti 0 -> XTI[0].itab_first = 2 -> "S2": expected "S2!$A$1:$B$2"
        assert_eq!(pf(&[0x3B, 0, 0, 0, 0, 1, 0, 0, 0, 1, 0]).unwrap(), "S0!$A$1:$B$2");
    }
    #[test]
    fn verif_demo_xls_referr3d_areaerr3d_bypass_xti() {
        assert_eq!(pf(&[0x3C, 0, 0, 0, 0, 0, 0]).unwrap(), "S0!#REF!"); // expected S2!#REF!
        assert_eq!(pf(&[0x3D, 0, 0, 0, 0, 0, 0, 0, 0, 0, 0]).unwrap(), "S0!#REF!"); // expected S2!#REF!
    }
}
