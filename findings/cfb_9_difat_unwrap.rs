#[cfg(test)]
mod verif_demo_cfb_9 {
    use super::*;
    // Cfb::new DIFAT walk: `sector_id = difat.pop().unwrap()`. Every iteration pops one entry but appends only what Sectors::get
    // returns, which is EMPTY for a sector that starts exactly at end of file. A 512-byte file (header only) whose header DIFAT
    // lists 109, 108, .., 1 and whose first DIFAT sector is 0 walks sectors 0, 1, .., 109 (each "starts at EOF" because get()
    // zero-pads `data` up to the previous request), empties the vector and unwraps None.
    #[test]
    #[should_panic(expected = "called `Option::unwrap()` on a `None` value")]
    fn verif_demo_cfb_new_difat_pop_on_empty() {
        let mut h = [0u8; 512];
        h[..8].copy_from_slice(&[0xD0, 0xCF, 0x11, 0xE0, 0xA1, 0xB1, 0x1A, 0xE1]);
        h[26] = 3;
        h[30] = 9;
        h[32] = 6;
        h[60..64].copy_from_slice(&ENDOFCHAIN.to_le_bytes());
        h[68..72].copy_from_slice(&0u32.to_le_bytes()); // first DIFAT sector: 0
        for k in 0..109usize {
            // header DIFAT entry k = 109 - k (popped from the back: 1, 2, .., 109)
            h[76 + 4 * k..80 + 4 * k].copy_from_slice(&((109 - k) as u32).to_le_bytes());
        }
        let mut r: &[u8] = &h;
        let _ = Cfb::new(&mut r, 512);
    }
}
