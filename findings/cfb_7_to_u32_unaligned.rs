#[cfg(test)]
mod verif_demo_cfb_7 {
    use super::*;
    // to_u32 (used by Cfb::new on every FAT / DIFAT sector returned by Sectors::get, which is short at end of file)
    #[test]
    #[should_panic(expected = "left == right")]
    fn verif_demo_cfb_to_u32_unaligned() {
        let _ = to_u32(&[0u8; 3]).count();
    }
    // through the public entry point: header DIFAT[0] = sector 0, but only 3 bytes follow the header
    #[test]
    #[should_panic(expected = "left == right")]
    fn verif_demo_cfb_new_truncated_fat_sector() {
        let mut f = [0u8; 515];
        f[..8].copy_from_slice(&[0xD0, 0xCF, 0x11, 0xE0, 0xA1, 0xB1, 0x1A, 0xE1]);
        f[26] = 3;
        f[30] = 9;
        f[32] = 6;
        f[60..64].copy_from_slice(&ENDOFCHAIN.to_le_bytes());
        f[68..72].copy_from_slice(&ENDOFCHAIN.to_le_bytes());
        for b in f[80..512].iter_mut() {
            *b = 0xFF;
        }
        let mut r: &[u8] = &f;
        let _ = Cfb::new(&mut r, 515);
    }
}
