#[cfg(test)]
mod verif_demo_range_1 {
    use super::*;
    // C05: set_value, arm (row beyond end, column inside): appends (pos.0 - end.0 + 1) * width cells = one row too many,
    // so the buffer no longer holds height x width cells and rows()/cells() disagree with get_size().
    #[test]
    fn verif_demo_set_value_extra_row() {
        let mut r = Range::<usize>::new((0, 0), (0, 1));
        r.set_value((2, 0), 1);
        assert_eq!(r.get_size(), (3, 2));
        // a consistent rectangle would hold 6 cells in 3 rows:
        assert_eq!(r.inner.len(), 8);
        assert_eq!(r.rows().count(), 4);
        assert_eq!(r.cells().count(), 8);
        assert_eq!(r.cells().last().map(|(row, col, _)| (row, col)), Some((3, 1))); // a cell outside the 3 x 2 rectangle
    }
}
