#[cfg(test)]
mod verif_demo_xlsrec_mul_rk {
    use super::*;
    // MulRk [MS-XLS] 2.4.175 with colLast < colFirst: `col_last - col_first` underflows u16
    // (panic with overflow checks on; wraps to a huge expected length -> Err otherwise)
    #[test]
    #[should_panic]
    fn verif_demo_mul_rk_col_last_before_col_first() {
        // rw = 0, colFirst = 5, one RkRec (6 bytes), colLast = 2
        let r = [0u8, 0, 5, 0, 0, 0, 0, 0, 0, 0, 2, 0];
        let mut cells = Vec::new();
        let _ = parse_mul_rk(&r, &mut cells, &[], false);
    }
    // colFirst = 0, colLast = 0xFFFF: `col_last - col_first + 1` overflows u16
    // (panic with overflow checks on; wraps to 0 -> a 6-byte record is accepted as an empty run otherwise)
    #[test]
    #[should_panic]
    fn verif_demo_mul_rk_span_65536() {
        let r = [0u8, 0, 0, 0, 0xFF, 0xFF];
        let mut cells = Vec::new();
        let _ = parse_mul_rk(&r, &mut cells, &[], false);
    }
}
