#[cfg(test)]
mod verif_demo_xlsbfml_refs {
    use super::*;
    fn pf(tokens: &[u8]) -> String {
        let sheets = vec!["S0".to_string(), "S1".to_string()];
        parse_formula(tokens, &sheets, &[]).unwrap()
    }
    // [MS-XLSB] RgceArea / RgceLoc: row u32, column field u16 = col (bits 0-13), fColRel (bit 14), fRwRel (bit 15)
    #[test]
    fn verif_demo_xlsbfml_area_relative_flags_ignored_and_column_not_masked() {
        // PtgArea A1:B2, all four components relative (flags 0xC000): expected "A1:B2"
        assert_eq!(pf(&[0x25, 0, 0, 0, 0, 1, 0, 0, 0, 0, 0xC0, 1, 0xC0]), "$BTRM$1:$BTRN$2");
        // PtgArea $A1:B$2 (first corner: column absolute, row relative; second: column relative, row absolute): expected "$A1:B$2"
        assert_eq!(pf(&[0x25, 0, 0, 0, 0, 1, 0, 0, 0, 0, 0x80, 1, 0x40]), "$AVLI$1:$XFF$2");
    }
    #[test]
    fn verif_demo_xlsbfml_3d_relative_flags_ignored_and_column_not_masked() {
        // PtgRef3d S1!B3 relative: expected "S1!B3"
        assert_eq!(pf(&[0x3A, 1, 0, 2, 0, 0, 0, 1, 0xC0]), "S1!$BTRN$3");
        // PtgArea3d S1!A1:B2 relative: expected "S1!A1:B2"
        assert_eq!(pf(&[0x3B, 1, 0, 0, 0, 0, 0, 1, 0, 0, 0, 0, 0xC0, 1, 0xC0]), "S1!$BTRM$1:$BTRN$2");
    }
    #[test]
    fn verif_demo_xlsbfml_absolute_references_ok() {
        assert_eq!(pf(&[0x25, 0, 0, 0, 0, 1, 0, 0, 0, 0, 0, 1, 0]), "$A$1:$B$2");
        assert_eq!(pf(&[0x3A, 1, 0, 2, 0, 0, 0, 1, 0x00]), "S1!$B$3");
        assert_eq!(pf(&[0x44, 2, 0, 0, 0, 1, 0xC0]), "B3");
    }
}
