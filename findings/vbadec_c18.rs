#[cfg(test)]
mod verif_demo_c18_vbadec {
    use super::*;
    // [MS-OVBA] 2.4.1: container = 0x01, chunk*; chunk header u16 LE = (size-3) | 0b011<<12 | compressed<<15
    // chunk 1: header 0xB008 (2+1+8-3 = 8), flag byte 0x00, 8 literal tokens 'A'..'H'  -> exactly one FULL group of 8 tokens
    // chunk 2: header 0xB001 (2+1+1-3 = 1), flag byte 0x00, 1 literal token 'I'
    // specified decompression: "ABCDEFGHI"
    const TWO_CHUNKS: [u8; 16] = [0x01, 0x08, 0xB0, 0x00, b'A', b'B', b'C', b'D', b'E', b'F', b'G', b'H', 0x01, 0xB0, 0x00, b'I'];

    #[test]
    fn verif_demo_vbadec_full_group_then_next_chunk_is_misparsed() {
        // after the 8th token the 'chunk loop reads one more "flag byte" before it looks at chunk_len > chunk_size:
        // the low header byte 0x01 of chunk 2 is eaten, the next header is read from [0xB0, 0x00] = 0x00B0 -> signature 0 -> assert_eq! panics
        let r = std::panic::catch_unwind(|| decompress_stream(&TWO_CHUNKS));
        match r {
            Ok(Ok(v)) => assert_ne!(v, b"ABCDEFGHI".to_vec(), "decompress_stream returned the specified output: defect not present"),
            Ok(Err(_)) => (),  // a valid container rejected: still a C18 violation
            Err(_) => (),      // panic on a valid container: C18 (and C06) violation
        }
    }
    #[test]
    #[should_panic]
    fn verif_demo_vbadec_full_group_then_next_chunk_panics() {
        let _ = decompress_stream(&TWO_CHUNKS);
    }
    #[test]
    fn verif_demo_vbadec_same_tokens_single_chunk_ok() {
        // control: the same 9 literals in ONE chunk (header 0xB00A: 2+1+8+1+1-3 = 10) decode as specified
        let one = [0x01, 0x0A, 0xB0, 0x00, b'A', b'B', b'C', b'D', b'E', b'F', b'G', b'H', 0x00, b'I'];
        assert_eq!(decompress_stream(&one).unwrap(), b"ABCDEFGHI".to_vec());
        // control: 7 tokens in chunk 1 (group not full), then chunk 2: decodes as specified
        let two = [0x01, 0x07, 0xB0, 0x00, b'A', b'B', b'C', b'D', b'E', b'F', b'G', 0x01, 0xB0, 0x00, b'I'];
        assert_eq!(decompress_stream(&two).unwrap(), b"ABCDEFGI".to_vec());
    }
    #[test]
    fn verif_demo_vbadec_full_group_silent_corruption() {
        // same defect, no panic: wrong bytes are returned as Ok(..).
        // chunk 1 = 8 literals 'A'..'H' (full group).  chunk 2 = header 0xB009 (2+1+9-3), flag byte 0xB0 (tokens L L L L C C L),
        // literals 0x00 'b' 'c' 'd', two copy tokens 0x0000 (offset 1, length 3), literal 'e'.
        // specified output: "ABCDEFGH" ++ [0,'b','c','d'] ++ "ddd" ++ "ddd" ++ "e"
        let mut v = vec![0x01u8, 0x08, 0xB0, 0x00];
        v.extend_from_slice(b"ABCDEFGH");
        v.extend_from_slice(&[0x09, 0xB0, 0xB0, 0x00, b'b', b'c', b'd', 0x00, 0x00, 0x00, 0x00, b'e']);
        let mut expected = b"ABCDEFGH".to_vec();
        expected.extend_from_slice(&[0x00, b'b', b'c', b'd', b'd', b'd', b'd', b'd', b'd', b'd', b'e']);
        // the real code eats 0x09 as a flag byte, reads the header from [0xB0, 0xB0] (signature bits happen to be 0b011),
        // takes the literal 0x00 as flag byte and copies the remaining 8 bytes as literals
        let got = decompress_stream(&v).unwrap();
        let mut wrong = b"ABCDEFGH".to_vec();
        wrong.extend_from_slice(&[b'b', b'c', b'd', 0x00, 0x00, 0x00, 0x00, b'e']);
        assert_eq!(got, wrong);
        assert_ne!(got, expected);
    }
}
