#[cfg(test)]
mod verif_demo_c14_xls_ptgarea {
    use super::*;
    // rgce of a CellParsedFormula: u16 cce, then the tokens
    fn pf(tokens: &[u8]) -> Result<String, String> {
        let mut rgce = vec![tokens.len() as u8, (tokens.len() >> 8) as u8];
        rgce.extend_from_slice(tokens);
        let sheets = vec!["S0".to_string(), "S1".to_string(), "S2".to_string()];
        // XTI table: ixti 0 -> sheet 2 (S2), ixti 1 -> sheet 0 (S0)
        let xtis = vec![Xti { _isup_book: 0, itab_first: 2, _itab_last: 2 }, Xti { _isup_book: 0, itab_first: 0, _itab_last: 0 }];
        let enc = XlsEncoding::from_codepage(1200).unwrap();
        parse_formula(&rgce, &sheets, &[], &xtis, &enc).map_err(|e| e.to_string())
    }
    // [MS-XLS] 2.5.198.27 PtgArea = ptg, RgceArea { rwFirst, rwLast, colFirst|flags, colLast|flags } (same flag bits as RgceLoc).
    // The code always prints `$` and feeds the whole 16-bit column field (flags included) to push_column.
    #[test]
    fn verif_demo_xls_ptgarea_absolute_ok() {
        assert_eq!(pf(&[0x25, 0, 0, 1, 0, 0, 0, 1, 0]).unwrap(), "$A$1:$B$2");
    }
    #[test]
    fn verif_demo_xls_ptgarea_relative_flags_ignored_and_not_masked() {
        // A1:B2, everything relative (what SUM(A1:B2) stores): expected "A1:B2"
        assert_eq!(pf(&[0x25, 0, 0, 1, 0, 0, 0xC0, 1, 0xC0]).unwrap(), "$BTRM$1:$BTRN$2");
        // PtgArea3d, ixti 1 -> S0: expected "S0!A1:B2"
        assert_eq!(pf(&[0x3B, 1, 0, 0, 0, 1, 0, 0, 0xC0, 1, 0xC0]).unwrap(), "S1!$BTRM$1:$BTRN$2");
    }
}
