#[cfg(test)]
mod verif_demo_xlsxparts_formatcode {
    use super::*;
    use std::io::{Cursor, Write};
    fn mk(styles: &str, sheet_data: &str) -> Xlsx<Cursor<Vec<u8>>> {
        let mut zw = zip::ZipWriter::new(Cursor::new(Vec::new()));
        let opt = zip::write::SimpleFileOptions::default().compression_method(zip::CompressionMethod::Stored);
        zw.start_file("xl/workbook.xml", opt).unwrap();
        zw.write_all(br#"<?xml version="1.0" encoding="UTF-8"?><workbook xmlns="http://schemas.openxmlformats.org/spreadsheetml/2006/main" xmlns:r="http://schemas.openxmlformats.org/officeDocument/2006/relationships"><sheets><sheet name="S" sheetId="1" r:id="rId1"/></sheets></workbook>"#).unwrap();
        zw.start_file("xl/_rels/workbook.xml.rels", opt).unwrap();
        zw.write_all(br#"<?xml version="1.0" encoding="UTF-8"?><Relationships xmlns="http://schemas.openxmlformats.org/package/2006/relationships"><Relationship Id="rId1" Type="http://schemas.openxmlformats.org/officeDocument/2006/relationships/worksheet" Target="worksheets/sheet1.xml"/></Relationships>"#).unwrap();
        zw.start_file("xl/styles.xml", opt).unwrap();
        zw.write_all(styles.as_bytes()).unwrap();
        zw.start_file("xl/worksheets/sheet1.xml", opt).unwrap();
        zw.write_all(format!(r#"<?xml version="1.0" encoding="UTF-8"?><worksheet xmlns="http://schemas.openxmlformats.org/spreadsheetml/2006/main"><sheetData>{}</sheetData></worksheet>"#, sheet_data).as_bytes()).unwrap();
        let cur = zw.finish().unwrap();
        Xlsx::new(Cursor::new(cur.into_inner())).unwrap()
    }
    #[test]
    fn verif_demo_date_format_with_quoted_prefix_is_not_unescaped() {
        // the custom format  "Date: "yyyy-mm-dd  -- in an XML attribute the quotes can only be written as &quot;
        let styles = r#"<?xml version="1.0" encoding="UTF-8"?><styleSheet xmlns="http://schemas.openxmlformats.org/spreadsheetml/2006/main"><numFmts count="1"><numFmt numFmtId="164" formatCode="&quot;Date: &quot;yyyy-mm-dd"/></numFmts><cellXfs count="1"><xf numFmtId="164"/></cellXfs></styleSheet>"#;
        let mut x = mk(styles, r#"<row r="1"><c r="A1" s="0"><v>44000</v></c></row>"#);
        // control: the format string itself is a date format
        assert_eq!(detect_custom_number_format("\"Date: \"yyyy-mm-dd"), CellFormat::DateTime);
        // read_styles hands the RAW attribute value (`&quot;Date: &quot;yyyy-mm-dd`) to the detector: the `;` of the first entity ends
        // the first section, the date tokens are never seen
        assert_eq!(x.formats, vec![CellFormat::Other]);                          // expected [DateTime]
        let r = x.worksheet_range("S").unwrap();
        assert_eq!(r.get_value((0, 0)), Some(&Data::Float(44000.0)));           // expected a DateTime
    }
}
