#[cfg(test)]
mod verif_demo_c14_xls_ptgref {
    use super::*;
    // rgce of a CellParsedFormula: u16 cce, then the tokens
    fn pf(tokens: &[u8]) -> Result<String, String> {
        let mut rgce = vec![tokens.len() as u8, (tokens.len() >> 8) as u8];
        rgce.extend_from_slice(tokens);
        let sheets = vec!["S0".to_string(), "S1".to_string(), "S2".to_string()];
        // XTI table: ixti 0 -> sheet 2 (S2), ixti 1 -> sheet 0 (S0)
        let xtis = vec![Xti { _isup_book: 0, itab_first: 2, _itab_last: 2 }, Xti { _isup_book: 0, itab_first: 0, _itab_last: 0 }];
        let enc = XlsEncoding::from_codepage(1200).unwrap();
        parse_formula(&rgce, &sheets, &[], &xtis, &enc).map_err(|e| e.to_string())
    }
    // [MS-XLS] 2.5.198.84 PtgRef = ptg, RgceLoc { rw: u16, col: bits 0-13 column, bit 14 colRelative, bit 15 rowRelative }.
    // A `$` belongs exactly on the ABSOLUTE components. The asserted values of the "swapped" test are the WRONG outputs.
    #[test]
    fn verif_demo_xls_ptgref_uniform_flags_ok() {
        assert_eq!(pf(&[0x44, 2, 0, 1, 0xC0]).unwrap(), "B3"); // both relative
        assert_eq!(pf(&[0x44, 2, 0, 1, 0x00]).unwrap(), "$B$3"); // both absolute
    }
    #[test]
    fn verif_demo_xls_ptgref_mixed_flags_swapped() {
        // rowRelative = 1, colRelative = 0 encodes $B3; the code prints the `$` on the row
        assert_eq!(pf(&[0x44, 2, 0, 1, 0x80]).unwrap(), "B$3");
        // rowRelative = 0, colRelative = 1 encodes B$3; the code prints the `$` on the column
        assert_eq!(pf(&[0x44, 2, 0, 1, 0x40]).unwrap(), "$B3");
    }
}
