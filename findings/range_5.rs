#[cfg(test)]
mod verif_demo_range_5 {
    use super::*;
    // C05: range(s, e) of an empty range must be the all-default rectangle (s, e); it panics in `chunks(0)` whenever the
    // window contains (0, 0), because the overlap is computed from the stale corners (0,0)-(0,0) of the empty source.
    #[test]
    #[should_panic]
    fn verif_demo_range_of_empty_panics() {
        let e = Range::<usize>::empty();
        let _ = e.range((0, 0), (1, 1));
    }
    #[test]
    fn verif_demo_range_of_empty_elsewhere_ok() {
        let e = Range::<usize>::empty();
        let w = e.range((1, 1), (2, 2));
        assert_eq!(w.get_size(), (2, 2));
        assert_eq!(w.get_value((1, 1)), Some(&0));
    }
}
