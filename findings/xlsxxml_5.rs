#[cfg(test)]
mod verif_demo_xlsxxml_sst_oob {
    use super::*;
    use std::io::{Cursor, Write};
    fn mk(sst: Option<&str>, sheet_xml: &str) -> Result<Xlsx<Cursor<Vec<u8>>>, XlsxError> {
        let mut zw = zip::ZipWriter::new(Cursor::new(Vec::new()));
        let opt = zip::write::SimpleFileOptions::default().compression_method(zip::CompressionMethod::Stored);
        zw.start_file("xl/workbook.xml", opt).unwrap();
        zw.write_all(br#"<?xml version="1.0" encoding="UTF-8"?><workbook xmlns="http://schemas.openxmlformats.org/spreadsheetml/2006/main" xmlns:r="http://schemas.openxmlformats.org/officeDocument/2006/relationships"><sheets><sheet name="S" sheetId="1" r:id="rId1"/></sheets></workbook>"#).unwrap();
        zw.start_file("xl/_rels/workbook.xml.rels", opt).unwrap();
        zw.write_all(br#"<?xml version="1.0" encoding="UTF-8"?><Relationships xmlns="http://schemas.openxmlformats.org/package/2006/relationships"><Relationship Id="rId1" Type="http://schemas.openxmlformats.org/officeDocument/2006/relationships/worksheet" Target="worksheets/sheet1.xml"/></Relationships>"#).unwrap();
        if let Some(sst) = sst {
            zw.start_file("xl/sharedStrings.xml", opt).unwrap();
            zw.write_all(sst.as_bytes()).unwrap();
        }
        zw.start_file("xl/worksheets/sheet1.xml", opt).unwrap();
        zw.write_all(sheet_xml.as_bytes()).unwrap();
        let cur = zw.finish().unwrap();
        Xlsx::new(Cursor::new(cur.into_inner()))
    }
    const NS: &str = r#"xmlns="http://schemas.openxmlformats.org/spreadsheetml/2006/main""#;
    const XNS: &str = r#"xmlns:x="http://schemas.openxmlformats.org/spreadsheetml/2006/main""#;
    fn sheet(rows: &str) -> String {
        format!(r#"<?xml version="1.0" encoding="UTF-8"?><worksheet {NS}><sheetData>{rows}</sheetData></worksheet>"#)
    }

    #[test]
    #[should_panic(expected = "index out of bounds")]
    fn verif_demo_shared_string_index_beyond_table_panics() {
        // a one-item table and a cell that refers to item 7: read_v does `&strings[idx]` without a bounds check
        let sst = format!(r#"<?xml version="1.0" encoding="UTF-8"?><sst {NS} count="1" uniqueCount="1"><si><t>a</t></si></sst>"#);
        let mut x = mk(Some(&sst), &sheet(r#"<row r="1"><c r="A1" t="s"><v>7</v></c></row>"#)).unwrap();
        let _ = x.worksheet_range("S"); // expected Err(..), never a panic
    }
    #[test]
    #[should_panic(expected = "index out of bounds")]
    fn verif_demo_shared_string_cell_without_table_panics() {
        // no sharedStrings part at all, a cell of type s: index 0 of an empty table
        let mut x = mk(None, &sheet(r#"<row r="1"><c r="A1" t="s"><v>0</v></c></row>"#)).unwrap();
        let _ = x.worksheet_range("S");
    }
}
