#[cfg(test)]
mod verif_demo_c06_ods_repeat_overflow {
    use super::*;
    // `table:number-rows-repeated` is parsed with str::parse::<usize>() and used unchecked.
    // Two leading empty rows repeated usize::MAX times each: `rows_repeats.iter().take(i).sum::<usize>()` overflows
    // (panic in debug builds / overflow-checks; silent wrap -> wrong row numbers in release).
    #[test]
    #[should_panic(expected = "overflow")]
    fn verif_demo_ods_leading_repeats_sum_overflow() {
        let _ = get_range::<usize>(vec![1], &[0, 0, 0, 1], &[usize::MAX, usize::MAX, 1]);
    }
    // a non-empty row repeated usize::MAX times below two other rows: `row_max + row_repeats - 1` overflows
    #[test]
    #[should_panic(expected = "overflow")]
    fn verif_demo_ods_row_max_overflow() {
        let _ = get_range::<usize>(vec![1, 1, 1], &[0, 1, 2, 3], &[1, 1, usize::MAX]);
    }
}
