#[cfg(test)]
mod verif_demo_xlsstr_1 {
    use super::*;
    // read_dbcs: character data continues into a CONTINUE record of length 0: `r.data[0]` (the flag byte) is read without a check
    #[test]
    #[should_panic(expected = "index out of bounds")]
    fn verif_demo_xlsstr_dbcs_empty_continue() {
        let enc = XlsEncoding::from_codepage(1200).unwrap();
        let d: &[u8] = &[0x41]; // 1 of 2 characters
        let mut r = Record { typ: 0x00FC, data: d, cont: Some(vec![&[][..]]) };
        let _ = read_dbcs(&enc, 2, &mut r, false);
    }
    // the same through the SST entry point: cstUnique = 1, string cch = 2, 8-bit, one character present, empty CONTINUE
    #[test]
    #[should_panic(expected = "index out of bounds")]
    fn verif_demo_xlsstr_sst_empty_continue() {
        let enc = XlsEncoding::from_codepage(1200).unwrap();
        let d: &[u8] = &[1, 0, 0, 0, 1, 0, 0, 0, 2, 0, 0, 0x41];
        let mut r = Record { typ: 0x00FC, data: d, cont: Some(vec![&[][..]]) };
        let _ = parse_sst(&mut r, &enc);
    }
}
