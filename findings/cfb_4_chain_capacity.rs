#[cfg(test)]
mod verif_demo_cfb_4 {
    use super::*;
    // Sectors::get_chain: `Vec::with_capacity(len)` with the stream size of a directory entry (u64 for 4096-byte sectors)
    #[test]
    #[should_panic(expected = "capacity overflow")]
    fn verif_demo_cfb_chain_capacity_overflow() {
        let mut s = Sectors::new(4096, Vec::new());
        let mut r: &[u8] = &[];
        let _ = s.get_chain(ENDOFCHAIN, &[], &mut r, usize::MAX);
    }
    // the size comes straight from the file: a version-4 directory entry with stream size 0xFFFF_FFFF_FFFF_FFFF
    #[test]
    #[should_panic(expected = "capacity overflow")]
    fn verif_demo_cfb_get_stream_huge_size() {
        let mut e = [0u8; 128];
        e[0] = b'A';
        e[116..120].copy_from_slice(&ENDOFCHAIN.to_le_bytes());
        e[120..128].copy_from_slice(&u64::MAX.to_le_bytes());
        let d = Directory::from_slice(&e, 4096);
        let mut cfb = Cfb {
            directories: vec![d],
            sectors: Sectors::new(4096, Vec::new()),
            fats: Vec::new(),
            mini_sectors: Sectors::new(64, Vec::new()),
            mini_fats: Vec::new(),
        };
        let mut r: &[u8] = &[];
        let _ = cfb.get_stream("A", &mut r);
    }
}
