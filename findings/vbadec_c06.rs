#[cfg(test)]
mod verif_demo_c06_vbadec {
    use super::*;
    // every input below is a hostile "compressed container" handed to the real decompress_stream; C06 demands Err, the code panics
    #[test]
    #[should_panic]
    fn verif_demo_vbadec_empty_input() {
        // `s[0]` on an empty stream (a module whose text_offset == stream length, or an empty `dir` stream)
        let _ = decompress_stream(&[]);
    }
    #[test]
    #[should_panic]
    fn verif_demo_vbadec_truncated_chunk_header() {
        // only one byte of the 2-byte chunk header: read_u16(&s[1..]) on a 1-byte slice
        let _ = decompress_stream(&[0x01, 0x08]);
    }
    #[test]
    #[should_panic]
    fn verif_demo_vbadec_raw_chunk_past_end() {
        // header 0x3FFF: signature ok, flag 0 (raw) -> &s[3..3 + 4096] on a 4-byte stream
        let _ = decompress_stream(&[0x01, 0xFF, 0x3F, 0x41]);
    }
    #[test]
    #[should_panic]
    fn verif_demo_vbadec_literal_past_end() {
        // header 0xB008 announces 9 data bytes, only the flag byte is there: literal token `s[i]` past the end
        let _ = decompress_stream(&[0x01, 0x08, 0xB0, 0x00]);
    }
    #[test]
    #[should_panic]
    fn verif_demo_vbadec_copy_token_past_end() {
        // flag byte 0x01 = copy token, only one byte left: read_u16(&s[4..]) on a 1-byte slice
        let _ = decompress_stream(&[0x01, 0x08, 0xB0, 0x01, 0x00]);
    }
    #[test]
    #[should_panic]
    fn verif_demo_vbadec_copy_offset_before_start() {
        // first token of the first chunk is a copy token (nothing decompressed yet): res.len() - offset underflows
        let _ = decompress_stream(&[0x01, 0x02, 0xB0, 0x01, 0x00, 0x00]);
    }
    #[test]
    #[should_panic]
    fn verif_demo_vbadec_copy_offset_too_large() {
        // one literal 'A', then copy token 0x1000 = offset 2, length 3 with only 1 byte of output: res.len() - offset underflows
        let _ = decompress_stream(&[0x01, 0x03, 0xB0, 0x02, 0x41, 0x00, 0x10]);
    }
}
