#[cfg(test)]
mod verif_demo_xlsxfml_cdata {
    use super::*;
    use crate::{Reader, Xlsx};
    use std::io::{Cursor, Write};
    fn mk(sheet_data: &str) -> Xlsx<Cursor<Vec<u8>>> {
        let mut zw = zip::ZipWriter::new(Cursor::new(Vec::new()));
        let opt = zip::write::SimpleFileOptions::default().compression_method(zip::CompressionMethod::Stored);
        zw.start_file("xl/workbook.xml", opt).unwrap();
        zw.write_all(br#"<?xml version="1.0" encoding="UTF-8"?><workbook xmlns="http://schemas.openxmlformats.org/spreadsheetml/2006/main" xmlns:r="http://schemas.openxmlformats.org/officeDocument/2006/relationships"><sheets><sheet name="S" sheetId="1" r:id="rId1"/></sheets></workbook>"#).unwrap();
        zw.start_file("xl/_rels/workbook.xml.rels", opt).unwrap();
        zw.write_all(br#"<?xml version="1.0" encoding="UTF-8"?><Relationships xmlns="http://schemas.openxmlformats.org/package/2006/relationships"><Relationship Id="rId1" Type="http://schemas.openxmlformats.org/officeDocument/2006/relationships/worksheet" Target="worksheets/sheet1.xml"/></Relationships>"#).unwrap();
        zw.start_file("xl/worksheets/sheet1.xml", opt).unwrap();
        zw.write_all(format!(r#"<?xml version="1.0" encoding="UTF-8"?><worksheet xmlns="http://schemas.openxmlformats.org/spreadsheetml/2006/main"><sheetData>{}</sheetData></worksheet>"#, sheet_data).as_bytes()).unwrap();
        let cur = zw.finish().unwrap();
        Xlsx::new(Cursor::new(cur.into_inner())).unwrap()
    }
    /// the formula text of A1 is IF(B1<C1,1,0), written once with the `<` escaped and once inside a CDATA section (the same XML
    /// character data): the first is reported, the second comes back without its CDATA part
    #[test]
    fn verif_demo_formula_text_in_cdata_is_dropped() {
        let mut x = mk(r#"<row r="1"><c r="A1"><f>IF(B1&lt;C1,1,0)</f></c><c r="B1"><f><![CDATA[IF(B1<C1,1,0)]]></f></c><c r="C1"><f>SUM(<![CDATA[A1:A2]]>)</f></c></row>"#);
        let f = x.worksheet_formula("S").unwrap();
        assert_eq!(f.get_value((0, 0)).unwrap(), "IF(B1<C1,1,0)");
        // expected "IF(B1<C1,1,0)" and "SUM(A1:A2)"
        assert_eq!(f.get_value((0, 1)).map(|s| s.as_str()).unwrap_or(""), "");
        assert_eq!(f.get_value((0, 2)).unwrap(), "SUM()");
    }
}
