#[cfg(test)]
mod verif_demo_range_4 {
    use super::*;
    // C05/C06: from_sparse on row-sorted cells whose columns (or rows) span the whole u32 range:
    // `col_end - col_start + 1` / `row_end - row_start + 1` overflow u32.  Debug builds panic; release builds wrap to 0
    // columns and silently return an "empty" range that drops every cell.
    #[test]
    #[should_panic]
    fn verif_demo_from_sparse_col_span_overflow() {
        let _ = Range::from_sparse(vec![Cell::new((0, 0), 1usize), Cell::new((0, u32::MAX), 2usize)]);
    }
    #[test]
    #[should_panic]
    fn verif_demo_from_sparse_row_span_overflow() {
        let _ = Range::from_sparse(vec![Cell::new((0, 0), 1usize), Cell::new((u32::MAX, 0), 2usize)]);
    }
}
