#[cfg(test)]
mod verif_demo_c06_shared_negative_offset {
    use super::*;
    use std::io::{Cursor, Write};
    fn mk(sheet_data: &str) -> Xlsx<Cursor<Vec<u8>>> {
        let mut zw = zip::ZipWriter::new(Cursor::new(Vec::new()));
        let opt = zip::write::SimpleFileOptions::default().compression_method(zip::CompressionMethod::Stored);
        zw.start_file("xl/workbook.xml", opt).unwrap();
        zw.write_all(br#"<?xml version="1.0" encoding="UTF-8"?><workbook xmlns="http://schemas.openxmlformats.org/spreadsheetml/2006/main" xmlns:r="http://schemas.openxmlformats.org/officeDocument/2006/relationships"><sheets><sheet name="S" sheetId="1" r:id="rId1"/></sheets></workbook>"#).unwrap();
        zw.start_file("xl/_rels/workbook.xml.rels", opt).unwrap();
        zw.write_all(br#"<?xml version="1.0" encoding="UTF-8"?><Relationships xmlns="http://schemas.openxmlformats.org/package/2006/relationships"><Relationship Id="rId1" Type="http://schemas.openxmlformats.org/officeDocument/2006/relationships/worksheet" Target="worksheets/sheet1.xml"/></Relationships>"#).unwrap();
        zw.start_file("xl/worksheets/sheet1.xml", opt).unwrap();
        zw.write_all(format!(r#"<?xml version="1.0" encoding="UTF-8"?><worksheet xmlns="http://schemas.openxmlformats.org/spreadsheetml/2006/main"><sheetData>{}</sheetData></worksheet>"#, sheet_data).as_bytes()).unwrap();
        let cur = zw.finish().unwrap();
        Xlsx::new(Cursor::new(cur.into_inner())).unwrap()
    }
    fn formulas(x: &mut Xlsx<Cursor<Vec<u8>>>) -> Result<Vec<((u32, u32), String)>, String> {
        let f = x.worksheet_formula("S").map_err(|e| e.to_string())?;
        Ok(f.used_cells().map(|(r, c, s)| { let st = f.start().unwrap(); ((st.0 + r as u32, st.1 + c as u32), s.clone()) }).collect())
    }
    // debug builds (overflow checks on) panic in coordinate_to_name `cell.0 + 1`; release builds wrap and print row 0 ("A0")
    #[test]
    #[should_panic(expected = "attempt to add with overflow")]
    fn verif_demo_shared_negative_row_offset_overflows() {
        let _ = replace_cell_names("A1", (-1, 0));
    }
    #[test]
    #[should_panic(expected = "attempt to add with overflow")]
    fn verif_demo_shared_rows_out_of_order_panics_worksheet_formula() {
        // file-controlled: row 2 (holding the master C2 of group C1:C2) is stored before row 1
        let mut x = mk(r#"<row r="2"><c r="C2"><f t="shared" ref="C1:C2" si="0">A1+1</f><v>0</v></c></row>
<row r="1"><c r="C1"><f t="shared" si="0"/><v>0</v></c></row>"#);
        let _ = formulas(&mut x);
    }
    // a number literal with >= 10 digits in a shared master formula reaches get_row_column's u32 accumulators (finding of unit a1)
    #[test]
    #[should_panic(expected = "attempt to multiply with overflow")]
    fn verif_demo_shared_long_number_literal_overflows() {
        let _ = replace_cell_names("A1*12345678901", (1, 0));
    }
}
