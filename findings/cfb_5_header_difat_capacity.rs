#[cfg(test)]
mod verif_demo_cfb_5 {
    use super::*;
    // Header::from_reader: `difat_len = read_usize(&buf[62..76])` reads bytes 62..66 (upper half of "first mini FAT sector"
    // and lower half of "number of mini FAT sectors"; [MS-CFB] 2.2 has the number of DIFAT sectors at 72) and is used only as
    // `Vec::with_capacity(difat_len)`: a 512-byte input reserves 4 * difat_len bytes (here 64 MiB, up to 16 GiB)
    #[test]
    fn verif_demo_cfb_header_capacity_from_wrong_offset() {
        let mut h = [0u8; 512];
        h[..8].copy_from_slice(&[0xD0, 0xCF, 0x11, 0xE0, 0xA1, 0xB1, 0x1A, 0xE1]);
        h[26] = 3;
        h[30] = 9;
        h[32] = 6;
        h[62..66].copy_from_slice(&0x0100_0000u32.to_le_bytes());
        h[72..76].copy_from_slice(&0u32.to_le_bytes()); // number of DIFAT sectors: 0
        let mut r: &[u8] = &h;
        let (_, difat) = Header::from_reader(&mut r).unwrap();
        assert_eq!(difat.len(), 109);
        assert!(difat.capacity() >= 0x0100_0000); // 16 M entries = 64 MiB reserved although the file declares no DIFAT sector
    }
}
