#[cfg(test)]
mod verif_demo_c15_non_ascii {
    use super::*;
    use std::io::{Cursor, Write};
    fn mk(sheet_data: &str) -> Xlsx<Cursor<Vec<u8>>> {
        let mut zw = zip::ZipWriter::new(Cursor::new(Vec::new()));
        let opt = zip::write::SimpleFileOptions::default().compression_method(zip::CompressionMethod::Stored);
        zw.start_file("xl/workbook.xml", opt).unwrap();
        zw.write_all(br#"<?xml version="1.0" encoding="UTF-8"?><workbook xmlns="http://schemas.openxmlformats.org/spreadsheetml/2006/main" xmlns:r="http://schemas.openxmlformats.org/officeDocument/2006/relationships"><sheets><sheet name="S" sheetId="1" r:id="rId1"/></sheets></workbook>"#).unwrap();
        zw.start_file("xl/_rels/workbook.xml.rels", opt).unwrap();
        zw.write_all(br#"<?xml version="1.0" encoding="UTF-8"?><Relationships xmlns="http://schemas.openxmlformats.org/package/2006/relationships"><Relationship Id="rId1" Type="http://schemas.openxmlformats.org/officeDocument/2006/relationships/worksheet" Target="worksheets/sheet1.xml"/></Relationships>"#).unwrap();
        zw.start_file("xl/worksheets/sheet1.xml", opt).unwrap();
        zw.write_all(format!(r#"<?xml version="1.0" encoding="UTF-8"?><worksheet xmlns="http://schemas.openxmlformats.org/spreadsheetml/2006/main"><sheetData>{}</sheetData></worksheet>"#, sheet_data).as_bytes()).unwrap();
        let cur = zw.finish().unwrap();
        Xlsx::new(Cursor::new(cur.into_inner())).unwrap()
    }
    fn formulas(x: &mut Xlsx<Cursor<Vec<u8>>>) -> Result<Vec<((u32, u32), String)>, String> {
        let f = x.worksheet_formula("S").map_err(|e| e.to_string())?;
        Ok(f.used_cells().map(|(r, c, s)| { let st = f.start().unwrap(); ((st.0 + r as u32, st.1 + c as u32), s.clone()) }).collect())
    }
    #[test]
    fn verif_demo_shared_latin1_char_in_string_literal_fails() {
        // `c as u8` truncates U+00E9 to the lone byte 0xE9 -> String::from_utf8 fails -> Err instead of "\"é\"&B2"
        assert!(replace_cell_names("\"é\"&A1", (1, 1)).is_err());
        assert!(replace_cell_names("Données!A1", (1, 1)).is_err());
    }
    #[test]
    fn verif_demo_shared_char_above_ff_silently_corrupted() {
        // U+0100 truncates to byte 0x00: the string literal "Ā" becomes "\0"
        assert_eq!(replace_cell_names("\"\u{100}\"&A1", (1, 1)).unwrap(), "\"\0\"&B2");
    }
    #[test]
    fn verif_demo_shared_non_ascii_master_makes_whole_sheet_fail() {
        // a tiny in-memory xlsx: C1 is the master of the group C1:C2, its formula contains a non-ASCII string literal
        let mut x = mk(r#"<row r="1"><c r="C1"><f t="shared" ref="C1:C2" si="0">IF(A1="é",1,0)</f><v>0</v></c></row>
<row r="2"><c r="C2"><f t="shared" si="0"/><v>0</v></c></row>"#);
        // expected: C1 = IF(A1="é",1,0), C2 = IF(A2="é",1,0); actual: worksheet_formula returns Err for the whole sheet
        assert_eq!(formulas(&mut x), Err("fail to convert cell name".to_string()));
    }
}
