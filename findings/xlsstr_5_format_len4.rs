#[cfg(test)]
mod verif_demo_xlsstr_5 {
    use super::*;
    // parse_format guards `len < 4` but reads r.data[4] (flags) and r.data[5..]
    #[test]
    #[should_panic(expected = "index out of bounds")]
    fn verif_demo_xlsstr_format_4_bytes() {
        let enc = XlsEncoding::from_codepage(1200).unwrap();
        let d: &[u8] = &[0xA4, 0, 1, 0];
        let mut r = Record { typ: 0x041E, data: d, cont: None };
        let _ = parse_format(&mut r, &enc);
    }
}
