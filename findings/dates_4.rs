#[cfg(all(test, feature = "dates"))]
mod verif_demo_c11_plain_cell_duration {
    use super::*;
    // C11: "a duration is the serial times 24h ... and plain Int/Float cells convert like 1900-system date-times".
    // DataType::as_datetime / as_date / as_time treat Int/Float cells exactly like a 1900-system DateTime cell of the same value,
    // but DataType::as_duration has no Int/Float arm: it returns None where the DateTime cell of the same value gives value * 24 h.
    // (Reading-dependent: only a defect if "convert like 1900-system date-times" is meant to cover as_duration as well.)
    #[test]
    fn verif_demo_dates_plain_cells_have_no_duration() {
        let cell = Data::DateTime(ExcelDateTime::new(1.5, ExcelDateTimeType::DateTime, false));
        assert_eq!(cell.as_duration(), Some(chrono::Duration::hours(36)));
        assert_eq!(cell.as_datetime(), Data::Float(1.5).as_datetime());
        // differs from the DateTime cell of the same value:
        assert_eq!(Data::Float(1.5).as_duration(), None);
        assert_eq!(Data::Int(2).as_duration(), None);
        assert_eq!(DataRef::Float(1.5).as_duration(), None);
        assert_eq!(DataRef::Int(2).as_duration(), None);
    }
}
