#[cfg(test)]
mod verif_demo_c15_group_range {
    use super::*;
    use std::io::{Cursor, Write};
    fn mk(sheet_data: &str) -> Xlsx<Cursor<Vec<u8>>> {
        let mut zw = zip::ZipWriter::new(Cursor::new(Vec::new()));
        let opt = zip::write::SimpleFileOptions::default().compression_method(zip::CompressionMethod::Stored);
        zw.start_file("xl/workbook.xml", opt).unwrap();
        zw.write_all(br#"<?xml version="1.0" encoding="UTF-8"?><workbook xmlns="http://schemas.openxmlformats.org/spreadsheetml/2006/main" xmlns:r="http://schemas.openxmlformats.org/officeDocument/2006/relationships"><sheets><sheet name="S" sheetId="1" r:id="rId1"/></sheets></workbook>"#).unwrap();
        zw.start_file("xl/_rels/workbook.xml.rels", opt).unwrap();
        zw.write_all(br#"<?xml version="1.0" encoding="UTF-8"?><Relationships xmlns="http://schemas.openxmlformats.org/package/2006/relationships"><Relationship Id="rId1" Type="http://schemas.openxmlformats.org/officeDocument/2006/relationships/worksheet" Target="worksheets/sheet1.xml"/></Relationships>"#).unwrap();
        zw.start_file("xl/worksheets/sheet1.xml", opt).unwrap();
        zw.write_all(format!(r#"<?xml version="1.0" encoding="UTF-8"?><worksheet xmlns="http://schemas.openxmlformats.org/spreadsheetml/2006/main"><sheetData>{}</sheetData></worksheet>"#, sheet_data).as_bytes()).unwrap();
        let cur = zw.finish().unwrap();
        Xlsx::new(Cursor::new(cur.into_inner())).unwrap()
    }
    fn formulas(x: &mut Xlsx<Cursor<Vec<u8>>>) -> Result<Vec<((u32, u32), String)>, String> {
        let f = x.worksheet_formula("S").map_err(|e| e.to_string())?;
        Ok(f.used_cells().map(|(r, c, s)| { let st = f.start().unwrap(); ((st.0 + r as u32, st.1 + c as u32), s.clone()) }).collect())
    }
    #[test]
    fn verif_demo_shared_one_dimensional_group_ok() {
        let mut x = mk(r#"<row r="1"><c r="C1"><f t="shared" ref="C1:C3" si="0">A1*2</f><v>0</v></c></row>
<row r="2"><c r="C2"><f t="shared" si="0"/><v>0</v></c></row><row r="3"><c r="C3"><f t="shared" si="0"/><v>0</v></c></row>"#);
        assert_eq!(formulas(&mut x).unwrap(), vec![((0, 2), "A1*2".to_string()), ((1, 2), "A2*2".to_string()), ((2, 2), "A3*2".to_string())]);
    }
    #[test]
    fn verif_demo_shared_two_dimensional_group_only_first_column() {
        // master C1 = A1*2 shared over the block C1:D3: D1, D2, D3 must be B1*2, B2*2, B3*2
        let mut x = mk(r#"<row r="1"><c r="C1"><f t="shared" ref="C1:D3" si="0">A1*2</f><v>0</v></c><c r="D1"><f t="shared" si="0"/><v>0</v></c></row>
<row r="2"><c r="C2"><f t="shared" si="0"/><v>0</v></c><c r="D2"><f t="shared" si="0"/><v>0</v></c></row>
<row r="3"><c r="C3"><f t="shared" si="0"/><v>0</v></c><c r="D3"><f t="shared" si="0"/><v>0</v></c></row>"#);
        // actual: only column C gets formulas, column D is reported empty (not even inside the returned range)
        assert_eq!(formulas(&mut x).unwrap(), vec![((0, 2), "A1*2".to_string()), ((1, 2), "A2*2".to_string()), ((2, 2), "A3*2".to_string())]);
    }
    #[test]
    fn verif_demo_shared_groups_declared_out_of_si_order_lost() {
        // group si=1 (C1:C2) is declared before group si=0 (D1:D2): D2 must be B2+2
        let mut x = mk(r#"<row r="1"><c r="C1"><f t="shared" ref="C1:C2" si="1">A1+1</f><v>0</v></c><c r="D1"><f t="shared" ref="D1:D2" si="0">B1+2</f><v>0</v></c></row>
<row r="2"><c r="C2"><f t="shared" si="1"/><v>0</v></c><c r="D2"><f t="shared" si="0"/><v>0</v></c></row>"#);
        // actual: the si=0 master is pushed at index 2 of `formulas`, so member D2 finds nothing and is reported empty
        assert_eq!(formulas(&mut x).unwrap(), vec![((0, 2), "A1+1".to_string()), ((0, 3), "B1+2".to_string()), ((1, 2), "A2+1".to_string())]);
    }
}
