#[cfg(test)]
mod verif_demo_c09_error_col {
    use super::*;
    // 2 rows x 2 cols at origin (3,2); error cell at absolute (4,3) (second row, second column):
    // reported at (4,2) -- the column is the start column for every cell of the row
    #[test]
    fn verif_demo_error_col_is_always_start_col() {
        let mut r: Range<Data> = Range::new((3, 2), (4, 3));
        for i in 3..=4u32 {
            for j in 2..=3u32 {
                r.set_value((i, j), Data::Int(1));
            }
        }
        r.set_value((4, 3), Data::Error(CellErrorType::Div0));
        let mut b = RangeDeserializerBuilder::new();
        b.has_headers(false);
        let mut it: RangeDeserializer<'_, Data, (i64, i64)> = b.from_range(&r).unwrap();
        assert!(it.next().unwrap().is_ok());
        match it.next().unwrap() {
            Err(DeError::CellError { pos, err }) => {
                assert_eq!(err, CellErrorType::Div0);
                assert_eq!(pos, (4, 2)); // expected (4, 3)
            }
            other => panic!("unexpected {:?}", other.map(|_| ())),
        }
    }
}
