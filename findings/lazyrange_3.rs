#[cfg(test)]
mod verif_demo_c06_lazy_rows_out_of_order {
    use super::*;
    use crate::{Data, Reader};
    use std::io::{Cursor, Write};

    fn xlsx_with_sheet(sheet_xml: &str) -> Vec<u8> {
        let mut zw = zip::ZipWriter::new(Cursor::new(Vec::new()));
        let opt = zip::write::SimpleFileOptions::default().compression_method(zip::CompressionMethod::Stored);
        zw.start_file("xl/workbook.xml", opt).unwrap();
        zw.write_all(br#"<?xml version="1.0" encoding="UTF-8"?><workbook xmlns="http://schemas.openxmlformats.org/spreadsheetml/2006/main" xmlns:r="http://schemas.openxmlformats.org/officeDocument/2006/relationships"><sheets><sheet name="S" sheetId="1" r:id="rId1"/></sheets></workbook>"#).unwrap();
        zw.start_file("xl/_rels/workbook.xml.rels", opt).unwrap();
        zw.write_all(br#"<?xml version="1.0" encoding="UTF-8"?><Relationships xmlns="http://schemas.openxmlformats.org/package/2006/relationships"><Relationship Id="rId1" Type="http://schemas.openxmlformats.org/officeDocument/2006/relationships/worksheet" Target="worksheets/sheet1.xml"/></Relationships>"#).unwrap();
        zw.start_file("xl/worksheets/sheet1.xml", opt).unwrap();
        zw.write_all(sheet_xml.as_bytes()).unwrap();
        zw.finish().unwrap().into_inner()
    }

    // control: the same two cells with rows in file order are read fine
    #[test]
    fn verif_demo_lazyrange_xlsx_rows_in_order_ok() {
        let bytes = xlsx_with_sheet(r#"<worksheet xmlns="http://schemas.openxmlformats.org/spreadsheetml/2006/main"><sheetData><row r="2"><c r="A2"><v>2</v></c></row><row r="5"><c r="A5"><v>1</v></c></row></sheetData></worksheet>"#);
        let mut wb: Xlsx<_> = Xlsx::new(Cursor::new(bytes)).unwrap();
        let r = wb.worksheet_range("S").unwrap();
        assert_eq!((r.start(), r.end()), (Some((1, 0)), Some((4, 0))));
        assert_eq!(r.get_value((4, 0)), Some(&Data::Float(1.0)));
    }
    // C06: a hostile sheet part whose rows are not in ascending order (nothing in next_cell or worksheet_range_ref checks it) reaches
    // Range::from_sparse, whose documented precondition is "cells sorted by row": `row_end - row_start` underflows -- panic in debug
    // builds; in release builds the wrapped difference asks `vec![default; ~2^32 * cols]` (a >100 GB allocation for a 300-byte file).
    #[test]
    #[should_panic(expected = "attempt to subtract with overflow")]
    fn verif_demo_lazyrange_xlsx_rows_out_of_order_panics() {
        let bytes = xlsx_with_sheet(r#"<worksheet xmlns="http://schemas.openxmlformats.org/spreadsheetml/2006/main"><sheetData><row r="5"><c r="A5"><v>1</v></c></row><row r="2"><c r="A2"><v>2</v></c></row></sheetData></worksheet>"#);
        let mut wb: Xlsx<_> = Xlsx::new(Cursor::new(bytes)).unwrap();
        let _ = wb.worksheet_range("S");
    }
    // with a header row at or above every cell the padding cell hides the panic: [(5) , (2)] becomes [(0), (5), (2)], first/last rows
    // are 0 and 2, and the cell of row 5 falls outside the allocated rectangle and is silently dropped
    #[test]
    fn verif_demo_lazyrange_xlsx_rows_out_of_order_header_row_drops_cell() {
        use crate::{DataRef, HeaderRow, ReaderRef};
        let bytes = xlsx_with_sheet(r#"<worksheet xmlns="http://schemas.openxmlformats.org/spreadsheetml/2006/main"><sheetData><row r="5"><c r="A5"><v>1</v></c></row><row r="2"><c r="A2"><v>2</v></c></row></sheetData></worksheet>"#);
        let mut wb: Xlsx<_> = Xlsx::new(Cursor::new(bytes)).unwrap();
        let r = wb.with_header_row(HeaderRow::Row(0)).worksheet_range_ref("S").unwrap();
        assert_eq!(r.get_value((1, 0)), Some(&DataRef::Float(2.0)));
        // WRONG (should be Some(Float(1.0)) with the range ending at row 4): the range ends at row 1, cell A5 is gone
        assert_eq!(r.end(), Some((1, 0)));
        assert_eq!(r.get_value((4, 0)), None);
    }
}
