#[cfg(test)]
mod verif_demo_c06_xls_formula_unchecked_reads {
    use super::*;
    fn pf(tokens: &[u8]) -> Result<String, String> {
        let mut rgce = vec![tokens.len() as u8, (tokens.len() >> 8) as u8];
        rgce.extend_from_slice(tokens);
        let sheets = vec!["S0".to_string()];
        let xtis = vec![Xti { _isup_book: 0, itab_first: 0, _itab_last: 0 }];
        let enc = XlsEncoding::from_codepage(1200).unwrap();
        parse_formula(&rgce, &sheets, &[], &xtis, &enc).map_err(|e| e.to_string())
    }
    // none of the token arms checks that the bytes of its token are there (obligations xlsfml/parse_formula/pre-implicit:* and pre-call:read_*)
    #[test]
    #[should_panic]
    fn verif_demo_xls_ptgint_truncated() {
        let _ = pf(&[0x1E, 1]); // PtgInt with one of its two bytes
    }
    #[test]
    #[should_panic]
    fn verif_demo_xls_ptgnum_truncated() {
        let _ = pf(&[0x1F, 0, 0, 0, 0]); // PtgNum with 4 of its 8 bytes
    }
    #[test]
    #[should_panic]
    fn verif_demo_xls_ptgstr_cch_beyond_the_data() {
        let _ = pf(&[0x17, 200, 0, 0x41]); // PtgStr announcing 200 characters
    }
    #[test]
    #[should_panic]
    fn verif_demo_xls_ptgattrchoose_table_beyond_the_data() {
        let _ = pf(&[0x19, 0x04, 0xFF, 0xFF]); // PtgAttrChoose with 65536 offsets announced
    }
    #[test]
    #[should_panic]
    fn verif_demo_xls_ptgarea3d_truncated() {
        let _ = pf(&[0x3B, 0, 0, 0, 0]); // PtgArea3d with 4 of its 10 bytes
    }
    #[test]
    #[should_panic]
    fn verif_demo_xls_ptgfuncvar_truncated() {
        let _ = pf(&[0x22, 1]); // PtgFuncVar without its function index
    }
}
