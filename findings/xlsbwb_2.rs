#[cfg(test)]
mod verif_demo_xlsbwb_macrosheet {
    use super::*;
    use super::verif_demo_xlsbwb_framing::{bundle, open, rec};

    // C16: "each sheet with its kind (worksheet, chart, dialog, macro, VBA) as far as the format can express them".  xlsb stores an Excel 4.0
    // macro sheet as a Macro Sheet part (xl/macrosheets/sheetN.bin); read_workbook maps the folders worksheets / chartsheets / dialogsheets
    // and rejects every other folder, so a workbook that contains a macro sheet cannot be opened at all.
    #[test]
    fn verif_demo_xlsbwb_macro_sheet_makes_workbook_unreadable() {
        let mut w = Vec::new();
        w.extend(rec(0x0083, &[]));
        w.extend(rec(0x008F, &[]));
        w.extend(bundle(0, 1, "rId1", "Macro1"));
        w.extend(rec(0x0090, &[]));
        w.extend(rec(0x0084, &[]));
        match open(&w, "macrosheets/sheet1.bin", None, None) {
            Err(XlsbError::Unrecognized { typ: "BoundSheet8:dt", .. }) => (),   // expected Ok: [Sheet { name: "Macro1", typ: MacroSheet, .. }]
            Err(e) => panic!("other error {e}"),
            Ok(x) => panic!("opened: {:?}", x.sheets_metadata()),
        }
        // control: the same sheet declared in the worksheets folder
        let x = open(&w, "worksheets/sheet1.bin", None, None).unwrap();
        assert_eq!(x.sheets_metadata()[0].typ, SheetType::WorkSheet);
    }
}
