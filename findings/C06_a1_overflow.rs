#[cfg(test)]
mod verif_demo_c06_a1 {
    use super::*;
    // debug builds (overflow checks on) panic; release builds silently wrap: either way C06 is violated
    #[test]
    #[should_panic]
    fn verif_demo_a1_row_overflow() {
        let _ = get_dimension(b"A99999999999");
    }
    #[test]
    #[should_panic]
    fn verif_demo_a1_col_overflow() {
        let _ = get_row_column(b"ZZZZZZZZ1");
    }
}
