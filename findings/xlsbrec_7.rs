#[cfg(test)]
mod verif_demo_xlsbrec_c19_bom {
    use super::*;
    use crate::CellErrorType;
    use std::io::{Cursor, Write};

    /// a zip archive (stored) holding one file `s.bin` with the given BIFF12 record stream
    fn zip_with(bin: &[u8]) -> ZipArchive<Cursor<Vec<u8>>> {
        let mut w = zip::ZipWriter::new(Cursor::new(Vec::new()));
        let opt = zip::write::SimpleFileOptions::default().compression_method(zip::CompressionMethod::Stored);
        w.start_file("s.bin", opt).unwrap();
        w.write_all(bin).unwrap();
        ZipArchive::new(w.finish().unwrap()).unwrap()
    }
    /// one record: 1- or 2-byte type, 1-byte size, payload ([MS-XLSB] 2.1.4)
    fn rec(typ: u16, payload: &[u8]) -> Vec<u8> {
        let mut v = Vec::new();
        if typ < 0x80 { v.push(typ as u8); } else { v.push((typ & 0x7F) as u8 | 0x80); v.push((typ >> 7) as u8); }
        assert!(payload.len() < 0x80);
        v.push(payload.len() as u8);
        v.extend_from_slice(payload);
        v
    }
    /// worksheet part: BrtBeginSheet, BrtWsDim (wsdim bytes), BrtBeginSheetData, BrtRowHdr(row 0), the cell records, BrtEndSheetData
    fn sheet(wsdim: &[u8], rowhdr: &[u8], cells: &[Vec<u8>]) -> Vec<u8> {
        let mut s = Vec::new();
        s.extend(rec(0x0081, &[]));
        s.extend(rec(0x0094, wsdim));
        s.extend(rec(0x0091, &[]));
        s.extend(rec(0x0000, rowhdr));
        for c in cells { s.extend_from_slice(c); }
        s.extend(rec(0x0092, &[]));
        s
    }
    /// all cells `XlsbCellsReader` reports for the stream
    fn read_cells(bin: &[u8], formats: &[CellFormat], strings: &[String]) -> Vec<((u32, u32), DataRef<'static>)> {
        let mut z = zip_with(bin);
        let it = RecordIter::from_zip(&mut z, "s.bin").unwrap();
        let mut r = XlsbCellsReader::new(it, formats, strings, &[], &[], false).unwrap();
        let mut got = Vec::new();
        while let Some(c) = r.next_cell().unwrap() {
            let v = match c.get_value() { DataRef::SharedString(s) => DataRef::String(s.to_string()), DataRef::Int(i) => DataRef::Int(*i),
                DataRef::Float(f) => DataRef::Float(*f), DataRef::String(s) => DataRef::String(s.clone()), DataRef::Bool(b) => DataRef::Bool(*b),
                DataRef::DateTime(d) => DataRef::DateTime(*d), DataRef::Error(e) => DataRef::Error(e.clone()), _ => DataRef::Empty };
            got.push((c.get_position(), v));
        }
        got
    }

    // C19: "cell text survives storage forms". wide_str decodes the UTF-16LE code units of an XLWideString with
    // `encoding_rs::UTF_16LE.decode`, which performs BOM sniffing: a text whose first characters look like a byte order mark is
    // not decoded as the UTF-16LE text it is. (`decode_without_bom_handling` is the variant without sniffing.)
    fn wide(s: &str) -> Vec<u8> {
        let u: Vec<u16> = s.encode_utf16().collect();
        let mut v = (u.len() as u32).to_le_bytes().to_vec();
        for c in u { v.extend_from_slice(&c.to_le_bytes()); }
        v
    }
    #[test]
    fn verif_demo_xlsbrec_wide_str_leading_bom() {
        // U+FEFF (ZERO WIDTH NO-BREAK SPACE) at the start of the text is dropped
        assert_eq!(wide_str(&wide("\u{FEFF}abc"), &mut 0).unwrap(), "abc");
        // a text starting with U+BBEF U+00BF (bytes EF BB BF 00) is decoded as UTF-8
        assert_eq!(wide_str(&wide("\u{BBEF}\u{00BF}abc"), &mut 0).unwrap(), "\0a\0b\0c\0");
        // a text starting with U+FFFE is decoded as UTF-16BE
        assert_eq!(wide_str(&wide("\u{FFFE}abc"), &mut 0).unwrap(), "\u{6100}\u{6200}\u{6300}");
    }
    #[test]
    fn verif_demo_xlsbrec_cell_text_leading_bom() {
        // the same through a worksheet: BrtCellSt A1 = "\u{BBEF}\u{00BF}total"
        let text = "\u{BBEF}\u{00BF}total";
        let mut a1 = vec![0u8; 8];
        a1.extend_from_slice(&wide(text));
        let got = read_cells(&sheet(&[0u8; 16], &[0u8; 17], &[rec(0x0006, &a1)]), &[], &[]);
        assert_eq!(got.len(), 1);
        assert_ne!(got[0].1, DataRef::String(text.to_string()));
    }
}
