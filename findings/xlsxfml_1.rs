#[cfg(test)]
mod verif_demo_xlsxfml_alloc {
    use super::*;
    use crate::{Reader, Xlsx};
    use std::io::{Cursor, Write};
    fn mk(sheet_data: &str) -> Xlsx<Cursor<Vec<u8>>> {
        let mut zw = zip::ZipWriter::new(Cursor::new(Vec::new()));
        let opt = zip::write::SimpleFileOptions::default().compression_method(zip::CompressionMethod::Stored);
        zw.start_file("xl/workbook.xml", opt).unwrap();
        zw.write_all(br#"<?xml version="1.0" encoding="UTF-8"?><workbook xmlns="http://schemas.openxmlformats.org/spreadsheetml/2006/main" xmlns:r="http://schemas.openxmlformats.org/officeDocument/2006/relationships"><sheets><sheet name="S" sheetId="1" r:id="rId1"/></sheets></workbook>"#).unwrap();
        zw.start_file("xl/_rels/workbook.xml.rels", opt).unwrap();
        zw.write_all(br#"<?xml version="1.0" encoding="UTF-8"?><Relationships xmlns="http://schemas.openxmlformats.org/package/2006/relationships"><Relationship Id="rId1" Type="http://schemas.openxmlformats.org/officeDocument/2006/relationships/worksheet" Target="worksheets/sheet1.xml"/></Relationships>"#).unwrap();
        zw.start_file("xl/worksheets/sheet1.xml", opt).unwrap();
        zw.write_all(format!(r#"<?xml version="1.0" encoding="UTF-8"?><worksheet xmlns="http://schemas.openxmlformats.org/spreadsheetml/2006/main"><sheetData>{}</sheetData></worksheet>"#, sheet_data).as_bytes()).unwrap();
        let cur = zw.finish().unwrap();
        Xlsx::new(Cursor::new(cur.into_inner())).unwrap()
    }
    /// a sheet part of about 300 bytes holding ONE formula cell: the reader allocates one group slot per unit of the declared shared
    /// index and one hash-map entry per cell of the declared range (here 100_001 slots of 72 bytes and 500_000 map entries; with
    /// si="4294967295" / ref="A1:XFD1048576" the same 300 bytes ask for hundreds of gigabytes)
    #[test]
    fn verif_demo_shared_formula_allocation_follows_declared_si_and_ref() {
        let mut x = mk(r#"<row r="1"><c r="C1"><f t="shared" ref="C1:C500000" si="100000">A1+1</f></c></row>"#);
        let mut r = x.worksheet_cells_reader("S").unwrap();
        let c = r.next_formula().unwrap().unwrap();
        assert_eq!(c.get_value(), "A1+1");
        assert_eq!(r.formulas.len(), 100_001);
        assert_eq!(r.formulas[100_000].as_ref().unwrap().1.len(), 500_000);
    }
}
