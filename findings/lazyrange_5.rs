#[cfg(test)]
mod verif_demo_c08_eager_window_cell_count {
    use super::*;
    // C08 ("with an explicit header row n ... the call never panics"): Xls / Ods worksheet_range build the window
    // `sheet.range((n, start.1), end)`; Range::new computes its cell count `(end.0 - n + 1) * width` in u32 (known finding of unit
    // range on Range::new). A header row far above a wide sheet -- e.g. an ods sheet whose only used row is row 3_000_000 with 2000
    // columns, read with HeaderRow::Row(0) -- needs 6_000_002_000 cells: the product overflows (panic in debug builds; in release
    // builds the wrapped count allocates a buffer that does not match the bounds of the range).
    #[test]
    #[should_panic(expected = "attempt to multiply with overflow")]
    fn verif_demo_lazyrange_window_cell_count_overflows_u32() {
        let sheet: Range<Data> = Range::new((3_000_000, 0), (3_000_000, 1999));
        // what Ods/Xls::worksheet_range evaluate for HeaderRow::Row(0) on this stored range
        let (start, end) = (sheet.start().unwrap(), sheet.end().unwrap());
        let _ = sheet.range((0, start.1), end);
    }
    // control: a window that fits
    #[test]
    fn verif_demo_lazyrange_window_cell_count_ok() {
        let sheet: Range<Data> = Range::new((300, 0), (300, 1999));
        let w = sheet.range((0, 0), (300, 1999));
        assert_eq!(w.get_size(), (301, 2000));
    }
}
