#[cfg(test)]
mod verif_demo_xlsrec_boundsheet_short {
    use super::*;
    // BoundSheet8 [MS-XLS] 2.4.28 record body shorter than its 6-byte fixed part (panics in every build)
    #[test]
    #[should_panic]
    fn verif_demo_boundsheet_three_bytes() {
        let enc = XlsEncoding::from_codepage(1252).unwrap();
        let mut r = Record { typ: 0x0085, data: &[0, 0, 0], cont: None };
        let _ = parse_sheet_metadata(&mut r, &enc, Biff::Biff8);
    }
    #[test]
    #[should_panic]
    fn verif_demo_boundsheet_five_bytes() {
        let enc = XlsEncoding::from_codepage(1252).unwrap();
        let mut r = Record { typ: 0x0085, data: &[0, 0, 0, 0, 0], cont: None };
        let _ = parse_sheet_metadata(&mut r, &enc, Biff::Biff8);
    }
}
