#[cfg(test)]
mod verif_demo_c10_quoted_escape {
    use super::*;
    // C10: quoted text does not count as a date token and a quoted literal ends at the next `"`.
    // The `_`/`\` arm of detect_custom_number_format precedes the quote arms, so an underscore or backslash that is the
    // last character of a quoted literal swallows the closing quote: the rest of the section is read as quoted text.
    #[test]
    fn verif_demo_formats_quoted_underscore_hides_date() {
        // control: literal without escape character
        assert_eq!(detect_custom_number_format("\"x\"dd"), CellFormat::DateTime);
        // WRONG (should be DateTime): "x_" followed by dd
        assert_eq!(detect_custom_number_format("\"x_\"dd"), CellFormat::Other);
        // WRONG (should be DateTime): literal backslash inside quotes, e.g. a Windows path prefix
        assert_eq!(detect_custom_number_format("\"C:\\\"yyyy"), CellFormat::Other);
        // WRONG (should be TimeDelta)
        assert_eq!(detect_custom_number_format("\"t_\"[h]:mm"), CellFormat::Other);
    }
    #[test]
    fn verif_demo_formats_quoted_underscore_invents_date() {
        // WRONG the other way (should be Other: everything after 0 is quoted text or the second literal):
        // "a_" swallows its closing quote, the next literal's opening quote closes it, and the quoted d becomes a date token
        assert_eq!(detect_custom_number_format("0\"a_\"\"d\""), CellFormat::DateTime);
        assert_eq!(detect_custom_number_format("0\"a\"\"d\""), CellFormat::Other);
    }
}
