#[cfg(test)]
mod verif_demo_xlsstr_10 {
    use super::*;
    // decode_to uses encoding_rs `Encoding::decode`, which sniffs a byte order mark at the start of EVERY piece it is given
    #[test]
    fn verif_demo_xlsstr_bom_at_fragment_start() {
        let enc = XlsEncoding::from_codepage(1200).unwrap();
        // "A\u{FEFF}B" in one fragment / split in front of U+FEFF
        let whole: &[u8] = &[0x41, 0x00, 0xFF, 0xFE, 0x42, 0x00];
        let mut r = Record { typ: 0x00FC, data: whole, cont: None };
        assert_eq!(read_dbcs(&enc, 3, &mut r, true).unwrap(), "A\u{FEFF}B");
        let a: &[u8] = &[0x41, 0x00];
        let b: &[u8] = &[0x01, 0xFF, 0xFE, 0x42, 0x00];
        let mut r = Record { typ: 0x00FC, data: a, cont: Some(vec![b]) };
        assert_eq!(read_dbcs(&enc, 3, &mut r, true).unwrap(), "AB"); // layout dependent: U+FEFF lost
        // a string that begins with U+FEFF loses it
        let d: &[u8] = &[0xFF, 0xFE, 0x42, 0x00];
        let mut r = Record { typ: 0x00FC, data: d, cont: None };
        assert_eq!(read_dbcs(&enc, 2, &mut r, true).unwrap(), "B"); // expected "\u{FEFF}B"
    }
    #[test]
    fn verif_demo_xlsstr_utf8_bom_switches_decoder() {
        let enc = XlsEncoding::from_codepage(1200).unwrap();
        // well-formed UTF-16LE text U+BBEF U+00BF U+0041 = bytes EF BB BF 00 41 00: taken for UTF-8 with BOM
        let d: &[u8] = &[0xEF, 0xBB, 0xBF, 0x00, 0x41, 0x00];
        let mut r = Record { typ: 0x00FC, data: d, cont: None };
        assert_eq!(read_dbcs(&enc, 3, &mut r, true).unwrap(), "\0A\0"); // expected "\u{BBEF}\u{BF}A"
    }
}
