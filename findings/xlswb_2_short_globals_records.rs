#[cfg(test)]
mod verif_demo_xlswb_2 {
    use super::verif_demo_xlswb_1::{bof, open, rec};
    fn globals_with(r: Vec<u8>) -> Vec<u8> {
        let mut wb = bof(0x0005);
        wb.extend(r);
        wb.extend(rec(0x000A, &[]));
        wb
    }
    // `read_u16(r.data)` on a record body shorter than 2 bytes: FILEPASS / CodePage / Date1904 / ExternSheet
    #[test]
    #[should_panic]
    fn verif_demo_xlswb_filepass_empty_body() {
        let _ = open(&globals_with(rec(0x002F, &[])));
    }
    #[test]
    #[should_panic]
    fn verif_demo_xlswb_codepage_one_byte() {
        let _ = open(&globals_with(rec(0x0042, &[0xB0])));
    }
    #[test]
    #[should_panic]
    fn verif_demo_xlswb_date1904_empty_body() {
        let _ = open(&globals_with(rec(0x0022, &[])));
    }
    #[test]
    #[should_panic]
    fn verif_demo_xlswb_externsheet_one_byte() {
        let _ = open(&globals_with(rec(0x0017, &[1])));
    }
    // ExternSheet [MS-XLS] 2.4.105: cXTI = 1 but only 3 of the 6 XTI bytes present: `&xti[2..4]` on the short last chunk
    #[test]
    #[should_panic]
    fn verif_demo_xlswb_externsheet_truncated_xti() {
        let _ = open(&globals_with(rec(0x0017, &[1, 0, 0xAA, 0xBB, 0xCC])));
    }
    // Lbl [MS-XLS] 2.4.150 (defined name): fixed part is 14 bytes; `r.data[3]`, `&r.data[4..]`, `&r.data[14..]` unchecked
    #[test]
    #[should_panic]
    fn verif_demo_xlswb_lbl_two_bytes() {
        let _ = open(&globals_with(rec(0x0018, &[0, 0])));
    }
    // Lbl with cce (formula size) larger than the record: `r.data.len() - cce` underflows
    #[test]
    #[should_panic]
    fn verif_demo_xlswb_lbl_cce_beyond_record() {
        let mut b = vec![0u8; 16];
        b[3] = 1; // cch = 1
        b[4] = 0xFF; // cce = 255
        let _ = open(&globals_with(rec(0x0018, &b)));
    }
    // Lbl with cch (name length) larger than what follows the fixed part: `&buf[1..=cch]` in read_unicode_string_no_cch
    #[test]
    #[should_panic]
    fn verif_demo_xlswb_lbl_cch_beyond_record() {
        let mut b = vec![0u8; 16];
        b[3] = 200;
        let _ = open(&globals_with(rec(0x0018, &b)));
    }
}
