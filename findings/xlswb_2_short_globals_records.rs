#[cfg(test)]
mod verif_demo_xlswb_2 {
    use super::*;
    use std::io::Cursor;

    /// one BIFF record: type, size, body
    pub(super) fn rec(typ: u16, body: &[u8]) -> Vec<u8> {
        let mut v = typ.to_le_bytes().to_vec();
        v.extend_from_slice(&(body.len() as u16).to_le_bytes());
        v.extend_from_slice(body);
        v
    }
    /// BOF [MS-XLS] 2.4.21: vers 0x0600 (BIFF8), dt (0x0005 globals / 0x0010 worksheet), build ids, flags
    pub(super) fn bof(dt: u16) -> Vec<u8> {
        let mut b = vec![0x00, 0x06];
        b.extend_from_slice(&dt.to_le_bytes());
        b.extend_from_slice(&[0xDB, 0x0F, 0xCC, 0x07, 0, 0, 0, 0, 6, 0, 0, 0]);
        rec(0x0809, &b)
    }
    /// BoundSheet8 [MS-XLS] 2.4.28: lbPlyPos, hsState 0 (visible), dt 0 (worksheet), name (cch, flags 0 = compressed, bytes)
    pub(super) fn boundsheet(pos: u32, name: &str) -> Vec<u8> {
        let mut b = pos.to_le_bytes().to_vec();
        b.extend_from_slice(&[0, 0, name.len() as u8, 0]);
        b.extend_from_slice(name.as_bytes());
        rec(0x0085, &b)
    }
    /// a minimal version-3 compound file (512-byte sectors: FAT = sector 0, directory = sector 1, stream = sectors 2..)
    /// holding one stream "Workbook" with the given bytes (zero padded to 4096 bytes so that it lives in regular sectors)
    pub(super) fn image(workbook: &[u8]) -> Vec<u8> {
        const END: u32 = 0xFFFF_FFFE;
        let mut stream = workbook.to_vec();
        let n = std::cmp::max(8, (stream.len() + 511) / 512);
        stream.resize(n * 512, 0);
        assert!(n + 2 <= 128, "one FAT sector");
        let mut h = vec![0u8; 512];
        h[..8].copy_from_slice(&[0xD0, 0xCF, 0x11, 0xE0, 0xA1, 0xB1, 0x1A, 0xE1]);
        h[24..26].copy_from_slice(&0x003Eu16.to_le_bytes());
        h[26..28].copy_from_slice(&3u16.to_le_bytes()); // major version 3
        h[28..30].copy_from_slice(&0xFFFEu16.to_le_bytes());
        h[30..32].copy_from_slice(&9u16.to_le_bytes()); // sector shift: 512
        h[32..34].copy_from_slice(&6u16.to_le_bytes()); // mini sector shift
        h[44..48].copy_from_slice(&1u32.to_le_bytes()); // one FAT sector
        h[48..52].copy_from_slice(&1u32.to_le_bytes()); // first directory sector
        h[56..60].copy_from_slice(&4096u32.to_le_bytes()); // mini stream cutoff
        h[60..64].copy_from_slice(&0u32.to_le_bytes()); // first mini FAT sector (none: count 0)
        h[68..72].copy_from_slice(&END.to_le_bytes()); // no DIFAT sector
        for b in h[76..].iter_mut() {
            *b = 0xFF;
        }
        h[76..80].copy_from_slice(&0u32.to_le_bytes()); // DIFAT[0]: FAT is sector 0
        let mut fat = vec![0xFFu8; 512];
        fat[0..4].copy_from_slice(&0xFFFF_FFFDu32.to_le_bytes());
        fat[4..8].copy_from_slice(&END.to_le_bytes());
        for k in 0..n {
            let id = 2 + k;
            let next = if k + 1 == n { END } else { id as u32 + 1 };
            fat[4 * id..4 * id + 4].copy_from_slice(&next.to_le_bytes());
        }
        let entry = |name: &str, typ: u8, child: u32, start: u32, len: u32| {
            let mut e = [0u8; 128];
            let mut k = 0;
            for c in name.encode_utf16() {
                e[2 * k..2 * k + 2].copy_from_slice(&c.to_le_bytes());
                k += 1;
            }
            e[64..66].copy_from_slice(&((k as u16 + 1) * 2).to_le_bytes());
            e[66] = typ;
            e[67] = 1;
            e[68..72].copy_from_slice(&0xFFFF_FFFFu32.to_le_bytes());
            e[72..76].copy_from_slice(&0xFFFF_FFFFu32.to_le_bytes());
            e[76..80].copy_from_slice(&child.to_le_bytes());
            e[116..120].copy_from_slice(&start.to_le_bytes());
            e[120..124].copy_from_slice(&len.to_le_bytes());
            e
        };
        let mut dir = Vec::new();
        dir.extend_from_slice(&entry("Root Entry", 5, 1, END, 0));
        dir.extend_from_slice(&entry("Workbook", 2, 0xFFFF_FFFF, 2, (n * 512) as u32));
        dir.extend_from_slice(&[0u8; 256]);
        let mut f = h;
        f.extend_from_slice(&fat);
        f.extend_from_slice(&dir);
        f.extend_from_slice(&stream);
        f
    }
    pub(super) fn open(workbook: &[u8]) -> Result<Xls<Cursor<Vec<u8>>>, XlsError> {
        Xls::new(Cursor::new(image(workbook)))
    }

    // control: the builder makes files the reader accepts (one sheet "A" with a NUMBER cell 1.5 at B3), and a BIFF8 FILEPASS with
    // wEncryptionType = 1 (RC4) is reported
    #[test]
    fn verif_demo_xlswb_control() {
        let mut sheet = bof(0x0010);
        let mut num = vec![2, 0, 1, 0, 0, 0];
        num.extend_from_slice(&1.5f64.to_le_bytes());
        sheet.extend(rec(0x0203, &num));
        sheet.extend(rec(0x000A, &[]));
        let mut wb = bof(0x0005);
        let pos = (wb.len() + 4 + 8 + 1 + 4) as u32;
        wb.extend(boundsheet(pos, "A"));
        wb.extend(rec(0x000A, &[]));
        assert_eq!(wb.len() as u32, pos);
        wb.extend(sheet);
        let mut x = open(&wb).unwrap();
        assert_eq!(x.sheet_names(), vec!["A".to_string()]);
        let r = x.worksheet_range("A").unwrap();
        assert_eq!(r.get_value((2, 1)), Some(&Data::Float(1.5)));

        let mut enc = bof(0x0005);
        enc.extend(rec(0x002F, &[1, 0, 1, 0, 1, 0, 0, 0, 0, 0]));
        enc.extend(rec(0x000A, &[]));
        assert!(matches!(open(&enc), Err(XlsError::Password)));
    }

    fn globals_with(r: Vec<u8>) -> Vec<u8> {
        let mut wb = bof(0x0005);
        wb.extend(r);
        wb.extend(rec(0x000A, &[]));
        wb
    }
    // `read_u16(r.data)` on a record body shorter than 2 bytes: CodePage / Date1904 / ExternSheet
    #[test]
    #[should_panic]
    fn verif_demo_xlswb_codepage_one_byte() {
        let _ = open(&globals_with(rec(0x0042, &[0xB0])));
    }
    #[test]
    #[should_panic]
    fn verif_demo_xlswb_date1904_empty_body() {
        let _ = open(&globals_with(rec(0x0022, &[])));
    }
    #[test]
    #[should_panic]
    fn verif_demo_xlswb_externsheet_one_byte() {
        let _ = open(&globals_with(rec(0x0017, &[1])));
    }
    // ExternSheet [MS-XLS] 2.4.105: cXTI = 1 but only 3 of the 6 XTI bytes present: `&xti[2..4]` on the short last chunk
    #[test]
    #[should_panic]
    fn verif_demo_xlswb_externsheet_truncated_xti() {
        let _ = open(&globals_with(rec(0x0017, &[1, 0, 0xAA, 0xBB, 0xCC])));
    }
    // Lbl [MS-XLS] 2.4.150 (defined name): fixed part is 14 bytes; `r.data[3]`, `&r.data[4..]`, `&r.data[14..]` unchecked
    #[test]
    #[should_panic]
    fn verif_demo_xlswb_lbl_two_bytes() {
        let _ = open(&globals_with(rec(0x0018, &[0, 0])));
    }
    // Lbl with cce (formula size) larger than the record: `r.data.len() - cce` underflows
    #[test]
    #[should_panic]
    fn verif_demo_xlswb_lbl_cce_beyond_record() {
        let mut b = vec![0u8; 16];
        b[3] = 1; // cch = 1
        b[4] = 0xFF; // cce = 255
        let _ = open(&globals_with(rec(0x0018, &b)));
    }
}
