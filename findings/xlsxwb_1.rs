#[cfg(test)]
mod verif_demo_xlsxwb_date1904_prefix {
    use super::*;
    use std::io::{Cursor, Write};
    use crate::datatype::{ExcelDateTime, ExcelDateTimeType};
    const MAIN: &str = "http://schemas.openxmlformats.org/spreadsheetml/2006/main";
    const RNS: &str = r#"xmlns:r="http://schemas.openxmlformats.org/officeDocument/2006/relationships""#;
    /// a tiny xlsx in memory: the given parts (name, content)
    fn mk(parts: &[(&str, String)]) -> Result<Xlsx<Cursor<Vec<u8>>>, XlsxError> {
        let mut zw = zip::ZipWriter::new(Cursor::new(Vec::new()));
        let opt = zip::write::SimpleFileOptions::default().compression_method(zip::CompressionMethod::Stored);
        for (name, content) in parts {
            zw.start_file(*name, opt).unwrap();
            zw.write_all(content.as_bytes()).unwrap();
        }
        let cur = zw.finish().unwrap();
        Xlsx::new(Cursor::new(cur.into_inner()))
    }
    fn rels() -> String {
        r#"<?xml version="1.0" encoding="UTF-8"?><Relationships xmlns="http://schemas.openxmlformats.org/package/2006/relationships"><Relationship Id="rId1" Type="http://schemas.openxmlformats.org/officeDocument/2006/relationships/worksheet" Target="worksheets/sheet1.xml"/></Relationships>"#.to_string()
    }
    /// styles: cell style 0 = built-in date format 14; sheet: A1 = serial 1 with style 0
    fn styles() -> String {
        format!(r#"<?xml version="1.0" encoding="UTF-8"?><styleSheet xmlns="{MAIN}"><cellXfs count="1"><xf numFmtId="14"/></cellXfs></styleSheet>"#)
    }
    fn sheet() -> String {
        format!(r#"<?xml version="1.0" encoding="UTF-8"?><worksheet xmlns="{MAIN}"><sheetData><row r="1"><c r="A1" s="0"><v>1</v></c></row></sheetData></worksheet>"#)
    }
    fn open(workbook: String) -> Xlsx<Cursor<Vec<u8>>> {
        mk(&[("xl/workbook.xml", workbook), ("xl/_rels/workbook.xml.rels", rels()), ("xl/styles.xml", styles()), ("xl/worksheets/sheet1.xml", sheet())]).unwrap()
    }

    #[test]
    fn verif_demo_date1904_default_namespace_is_seen() {
        // control: the same workbook with the main namespace as default namespace
        let wb = format!(r#"<?xml version="1.0" encoding="UTF-8"?><workbook xmlns="{MAIN}" {RNS}><workbookPr date1904="1"/><sheets><sheet name="S" sheetId="1" r:id="rId1"/></sheets></workbook>"#);
        let mut x = open(wb);
        assert!(x.is_1904);
        let r = x.worksheet_range("S").unwrap();
        assert_eq!(r.get_value((0, 0)), Some(&Data::DateTime(ExcelDateTime::new(1.0, ExcelDateTimeType::DateTime, true))));
    }

    #[test]
    fn verif_demo_date1904_lost_when_main_namespace_is_prefixed() {
        // the same logical workbook, main namespace bound to the prefix `x` (XML Namespaces: identical infoset)
        let wb = format!(r#"<?xml version="1.0" encoding="UTF-8"?><x:workbook xmlns:x="{MAIN}" {RNS}><x:workbookPr date1904="1"/><x:sheets><x:sheet name="S" sheetId="1" r:id="rId1"/></x:sheets></x:workbook>"#);
        let mut x = open(wb);
        // the sheet list is read (matched by local name) ...
        assert_eq!(x.sheet_names(), vec!["S".to_string()]);
        // ... but the date-system flag is not (workbookPr is matched by its QUALIFIED name `workbookPr`)
        assert!(!x.is_1904); // expected true
        let r = x.worksheet_range("S").unwrap();
        // the date cell is reported in the 1900 system: 4 years and 1 day off
        assert_eq!(r.get_value((0, 0)), Some(&Data::DateTime(ExcelDateTime::new(1.0, ExcelDateTimeType::DateTime, false)))); // expected is_1904 = true
    }

    #[test]
    fn verif_demo_x15_workbookpr_lookalike_is_ignored() {
        // control for the reason of the qualified-name test: the extension element x15:workbookPr must not reset the flag
        let wb = format!(r#"<?xml version="1.0" encoding="UTF-8"?><workbook xmlns="{MAIN}" {RNS}><workbookPr date1904="1"/><sheets><sheet name="S" sheetId="1" r:id="rId1"/></sheets><extLst><ext uri="{{140A7094-0E35-4892-8432-C8D2B5A1F59F}}" xmlns:x15="http://schemas.microsoft.com/office/spreadsheetml/2010/11/main"><x15:workbookPr chartTrackingRefBase="1"/></ext></extLst></workbook>"#);
        let x = open(wb);
        assert!(x.is_1904);
    }
}
