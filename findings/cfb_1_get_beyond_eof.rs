#[cfg(test)]
mod verif_demo_cfb_1 {
    use super::*;
    // Sectors::get: a sector that starts beyond the end of the file -> `&self.data[start..len]` with start > len
    #[test]
    #[should_panic(expected = "slice index starts at")]
    fn verif_demo_cfb_get_sector_beyond_eof() {
        let mut s = Sectors::new(512, Vec::new());
        let mut r: &[u8] = &[0u8; 10];
        let _ = s.get(1, &mut r);
    }
    // the same through the public entry point: a valid 512-byte header whose first directory sector is 5, no sector follows
    #[test]
    #[should_panic(expected = "slice index starts at")]
    fn verif_demo_cfb_new_dir_sector_beyond_eof() {
        let mut h = [0u8; 512];
        h[..8].copy_from_slice(&[0xD0, 0xCF, 0x11, 0xE0, 0xA1, 0xB1, 0x1A, 0xE1]);
        h[26] = 3;
        h[30] = 9;
        h[32] = 6;
        h[48] = 5; // first directory sector
        h[60..64].copy_from_slice(&ENDOFCHAIN.to_le_bytes());
        h[68..72].copy_from_slice(&ENDOFCHAIN.to_le_bytes());
        for b in h[76..].iter_mut() {
            *b = 0xFF; // DIFAT: all FREESECT
        }
        let mut r: &[u8] = &h;
        let _ = Cfb::new(&mut r, 512);
    }
}
