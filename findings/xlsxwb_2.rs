#[cfg(test)]
mod verif_demo_xlsxwb_table_totals {
    use super::*;
    use std::io::{Cursor, Write};
    const MAIN: &str = "http://schemas.openxmlformats.org/spreadsheetml/2006/main";
    const RNS: &str = r#"xmlns:r="http://schemas.openxmlformats.org/officeDocument/2006/relationships""#;
    /// a tiny xlsx in memory: the given parts (name, content)
    fn mk(parts: &[(&str, String)]) -> Result<Xlsx<Cursor<Vec<u8>>>, XlsxError> {
        let mut zw = zip::ZipWriter::new(Cursor::new(Vec::new()));
        let opt = zip::write::SimpleFileOptions::default().compression_method(zip::CompressionMethod::Stored);
        for (name, content) in parts {
            zw.start_file(*name, opt).unwrap();
            zw.write_all(content.as_bytes()).unwrap();
        }
        let cur = zw.finish().unwrap();
        Xlsx::new(Cursor::new(cur.into_inner()))
    }
    fn rels() -> String {
        r#"<?xml version="1.0" encoding="UTF-8"?><Relationships xmlns="http://schemas.openxmlformats.org/package/2006/relationships"><Relationship Id="rId1" Type="http://schemas.openxmlformats.org/officeDocument/2006/relationships/worksheet" Target="worksheets/sheet1.xml"/></Relationships>"#.to_string()
    }
    fn workbook() -> String {
        format!(r#"<?xml version="1.0" encoding="UTF-8"?><workbook xmlns="{MAIN}" {RNS}><sheets><sheet name="S" sheetId="1" r:id="rId1"/></sheets></workbook>"#)
    }
    /// sheet S: numbers 11,12 / 21,22 / 31,32 / 41,42 in A1:B4
    fn sheet() -> String {
        let mut rows = String::new();
        for r in 1..=4 {
            rows += &format!(r#"<row r="{r}"><c r="A{r}"><v>{r}1</v></c><c r="B{r}"><v>{r}2</v></c></row>"#);
        }
        format!(r#"<?xml version="1.0" encoding="UTF-8"?><worksheet xmlns="{MAIN}" {RNS}><sheetData>{rows}</sheetData><tableParts count="1"><tablePart r:id="rId1"/></tableParts></worksheet>"#)
    }
    fn sheet_rels() -> String {
        r#"<?xml version="1.0" encoding="UTF-8"?><Relationships xmlns="http://schemas.openxmlformats.org/package/2006/relationships"><Relationship Id="rId1" Type="http://schemas.openxmlformats.org/officeDocument/2006/relationships/table" Target="../tables/table1.xml"/></Relationships>"#.to_string()
    }
    /// table part with the given attributes on <table>
    fn table(attrs: &str) -> String {
        format!(r#"<?xml version="1.0" encoding="UTF-8"?><table xmlns="{MAIN}" id="1" name="T" displayName="T" {attrs}><tableColumns count="2"><tableColumn id="1" name="a"/><tableColumn id="2" name="b"/></tableColumns></table>"#)
    }
    fn open(table_attrs: &str) -> Xlsx<Cursor<Vec<u8>>> {
        mk(&[("xl/workbook.xml", workbook()), ("xl/_rels/workbook.xml.rels", rels()), ("xl/worksheets/sheet1.xml", sheet()),
             ("xl/worksheets/_rels/sheet1.xml.rels", sheet_rels()), ("xl/tables/table1.xml", table(table_attrs))]).unwrap()
    }

    #[test]
    fn verif_demo_table_header_and_totals_control() {
        // header row + totals row: the end row is moved up by header_row_count (1) -- right by coincidence
        let mut x = open(r#"ref="A1:B4" totalsRowCount="1""#);
        x.load_tables().unwrap();
        let t = x.table_by_name("T").unwrap();
        assert_eq!((t.data().start(), t.data().end()), (Some((1, 0)), Some((2, 1))));
    }

    #[test]
    fn verif_demo_table_totals_row_kept_when_there_is_no_header_row() {
        // no header row, one totals row: declared data range = rows 1..3 (0-based 0..=2), row 4 is the totals row
        let mut x = open(r#"ref="A1:B4" headerRowCount="0" totalsRowCount="1""#);
        x.load_tables().unwrap();
        let t = x.table_by_name("T").unwrap();
        // the end row is moved up by header_row_count (0) instead of totals_row_count (1): the totals row is reported as data
        assert_eq!((t.data().start(), t.data().end()), (Some((0, 0)), Some((3, 1)))); // expected end (2, 1)
        assert_eq!(t.data().get_value((3, 0)), Some(&Data::Float(41.0))); // the totals row
    }

    #[test]
    fn verif_demo_table_insert_row_false_drops_last_data_row() {
        // insertRow is an xsd:boolean: "false" is a legal spelling of 0, but everything except "0" is taken as true
        let mut x = open(r#"ref="A1:B4" insertRow="false""#);
        x.load_tables().unwrap();
        let t = x.table_by_name("T").unwrap();
        assert_eq!((t.data().start(), t.data().end()), (Some((1, 0)), Some((2, 1)))); // expected end (3, 1)
    }
}
