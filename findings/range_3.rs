#[cfg(test)]
mod verif_demo_range_3 {
    use super::*;
    // C05: Range::new under its documented precondition (start <= end component-wise) computes the cell count in u32:
    // (h) * (w) overflows for h * w >= 2^32 and `end - start + 1` overflows for a span of 2^32.
    // Debug builds panic (before allocating anything); release builds wrap and build a Range whose buffer is
    // shorter than height x width (e.g. 131073 cells for a 65537 x 65537 rectangle).
    #[test]
    #[should_panic]
    fn verif_demo_new_cell_count_overflow() {
        let _ = Range::<usize>::new((0, 0), (65536, 65536));
    }
    #[test]
    #[should_panic]
    fn verif_demo_new_span_overflow() {
        let _ = Range::<usize>::new((0, 0), (0, u32::MAX));
    }
}
