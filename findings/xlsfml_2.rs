#[cfg(test)]
mod verif_demo_c14_xls_ptgstr_highbyte {
    use super::*;
    fn pf(tokens: &[u8]) -> Result<String, String> {
        let mut rgce = vec![tokens.len() as u8, (tokens.len() >> 8) as u8];
        rgce.extend_from_slice(tokens);
        let enc = XlsEncoding::from_codepage(1200).unwrap();
        parse_formula(&rgce, &[], &[], &[], &enc).map_err(|e| e.to_string())
    }
    // [MS-XLS] 2.5.198.89 PtgStr = ptg 0x17, ShortXLUnicodeString { cch: u8, fHighByte: bit 0 of the flag byte, rgb: cch characters of
    // 1 byte (fHighByte = 0) or 2 bytes (fHighByte = 1) }.  The code decodes the text with the flag but always advances by 2 + cch bytes,
    // so after a 16-bit string the second half of its characters is read as tokens.
    #[test]
    fn verif_demo_xls_ptgstr_compressed_ok() {
        assert_eq!(pf(&[0x17, 2, 0, 0x41, 0x42]).unwrap(), "\"AB\"");
    }
    #[test]
    fn verif_demo_xls_ptgstr_16bit_desynchronises_the_token_stream() {
        // ="日本" (U+65E5 U+672C): expected "\"日本\""; the bytes 2C 67 of the second character are taken for a token
        assert_eq!(pf(&[0x17, 2, 1, 0xE5, 0x65, 0x2C, 0x67]).unwrap_err(), "Unrecognized ptg: 0x2C");
    }
    // ="€"&"x" : PtgStr(1 char, 16 bit: AC 20), PtgStr("x"), PtgConcat -- expected "\"€\"&\"x\"".  The byte 0x20 of the euro sign is taken
    // for a PtgArray token and its 7 bytes are skipped without a length check
    #[test]
    #[should_panic(expected = "out of range")]
    fn verif_demo_xls_ptgstr_16bit_then_panics() {
        let _ = pf(&[0x17, 1, 1, 0xAC, 0x20, 0x17, 1, 0, 0x78, 0x08]);
    }
}
