#[cfg(test)]
mod verif_demo_cfb_6 {
    use super::*;
    // Directory::from_slice on the short last chunk of `dirs.chunks(128)`
    #[test]
    #[should_panic(expected = "out of range for slice of length 100")]
    fn verif_demo_cfb_from_slice_short_chunk() {
        let _ = Directory::from_slice(&[0u8; 100], 512);
    }
}
