#[cfg(test)]
mod verif_demo_c08_eager_header_row_beyond_last_row {
    use super::*;
    use crate::{open_workbook, Data, HeaderRow, Range, Reader};
    // C08: "With an explicit header row n, in all four formats, the call never panics; if the sheet has a non-empty cell in a
    // row >= n the range starts exactly at row n, otherwise it is empty".
    // Xls / Ods worksheet_range computes `sheet.range((n, start.1), end)`; for n > end.0 that violates the documented
    // precondition of Range::new ("Panics if start.0 > end.0 ...") -- the call panics instead of returning an empty range.
    #[test]
    #[should_panic(expected = "invalid range bounds")]
    fn verif_demo_lazyrange_range_window_below_last_row_panics() {
        // the callee alone: a 3x3 range asked for the window starting at row 5
        let r: Range<Data> = Range::new((0, 0), (2, 2));
        let _ = r.range((5, 0), (2, 2));
    }
    #[test]
    #[should_panic(expected = "invalid range bounds")]
    fn verif_demo_lazyrange_xls_header_row_beyond_last_row_panics() {
        let path = format!("{}/tests/any_sheets.xls", env!("CARGO_MANIFEST_DIR"));
        let mut wb: Xls<_> = open_workbook(path).unwrap();
        let name = wb.sheet_names()[0].clone();
        // control: the default read works and the sheet ends well before row 100000
        let all = wb.worksheet_range(&name).unwrap();
        assert!(all.end().unwrap().0 < 100_000);
        // control: a header row inside the sheet works
        let last = all.end().unwrap().0;
        let w = wb.with_header_row(HeaderRow::Row(last)).worksheet_range(&name).unwrap();
        assert_eq!(w.start().unwrap().0, last);
        // WRONG (should be Ok(empty range)): panics
        let _ = wb.with_header_row(HeaderRow::Row(100_000)).worksheet_range(&name);
    }
}
