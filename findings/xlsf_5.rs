#[cfg(test)]
mod verif_demo_c06_xls_formula_panics {
    use super::*;
    // rgce of a CellParsedFormula: u16 cce, then the tokens
    fn pf(tokens: &[u8]) -> Result<String, String> {
        let mut rgce = vec![tokens.len() as u8, (tokens.len() >> 8) as u8];
        rgce.extend_from_slice(tokens);
        let sheets = vec!["S0".to_string(), "S1".to_string(), "S2".to_string()];
        // XTI table: ixti 0 -> sheet 2 (S2), ixti 1 -> sheet 0 (S0)
        let xtis = vec![Xti { _isup_book: 0, itab_first: 2, _itab_last: 2 }, Xti { _isup_book: 0, itab_first: 0, _itab_last: 0 }];
        let enc = XlsEncoding::from_codepage(1200).unwrap();
        parse_formula(&rgce, &sheets, &[], &xtis, &enc).map_err(|e| e.to_string())
    }
    // PtgFuncVar with argc == 0 indexes FTAB[iftab] without any check
    #[test]
    #[should_panic(expected = "index out of bounds")]
    fn verif_demo_xls_ptgfuncvar_argc0_unknown_iftab() {
        let _ = pf(&[0x22, 0, 0xE5, 0x01]);
    }
    // PtgRef / PtgRef3d to the last row of a BIFF8 sheet (rw = 0xFFFF, row 65536): `read_u16(..) + 1` is evaluated in u16
    #[test]
    #[should_panic(expected = "attempt to add with overflow")]
    fn verif_demo_xls_ptgref_row_65536() {
        let _ = pf(&[0x44, 0xFF, 0xFF, 0, 0xC0]);
    }
    #[test]
    #[should_panic(expected = "attempt to add with overflow")]
    fn verif_demo_xls_ptgref3d_row_65536() {
        let _ = pf(&[0x3A, 0, 0, 0xFF, 0xFF, 0, 0xC0]);
    }
    // PtgName with iname == 0: `read_u32(rgce) as usize - 1`
    #[test]
    #[should_panic(expected = "attempt to subtract with overflow")]
    fn verif_demo_xls_ptgname_zero() {
        let _ = pf(&[0x23, 0, 0, 0, 0]);
    }
    // no length check at all: empty rgce, cce larger than the data, token shorter than its fixed size
    #[test]
    #[should_panic]
    fn verif_demo_xls_formula_empty_rgce() {
        let enc = XlsEncoding::from_codepage(1200).unwrap();
        let _ = parse_formula(&[], &[], &[], &[], &enc);
    }
    #[test]
    #[should_panic]
    fn verif_demo_xls_formula_cce_beyond_data() {
        let enc = XlsEncoding::from_codepage(1200).unwrap();
        let _ = parse_formula(&[5, 0, 0x1E], &[], &[], &[], &enc);
    }
    #[test]
    #[should_panic]
    fn verif_demo_xls_formula_truncated_token() {
        let _ = pf(&[0x44, 0, 0]);
    }
}
