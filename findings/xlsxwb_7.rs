#[cfg(test)]
mod verif_demo_xlsxwb_formula_rows_unsorted {
    use super::*;
    use std::io::{Cursor, Write};
    const MAIN: &str = "http://schemas.openxmlformats.org/spreadsheetml/2006/main";
    const RNS: &str = r#"xmlns:r="http://schemas.openxmlformats.org/officeDocument/2006/relationships""#;
    /// a tiny xlsx in memory: the given parts (name, content)
    fn mk(parts: &[(&str, String)]) -> Result<Xlsx<Cursor<Vec<u8>>>, XlsxError> {
        let mut zw = zip::ZipWriter::new(Cursor::new(Vec::new()));
        let opt = zip::write::SimpleFileOptions::default().compression_method(zip::CompressionMethod::Stored);
        for (name, content) in parts {
            zw.start_file(*name, opt).unwrap();
            zw.write_all(content.as_bytes()).unwrap();
        }
        let cur = zw.finish().unwrap();
        Xlsx::new(Cursor::new(cur.into_inner()))
    }
    fn rels() -> String {
        r#"<?xml version="1.0" encoding="UTF-8"?><Relationships xmlns="http://schemas.openxmlformats.org/package/2006/relationships"><Relationship Id="rId1" Type="http://schemas.openxmlformats.org/officeDocument/2006/relationships/worksheet" Target="worksheets/sheet1.xml"/></Relationships>"#.to_string()
    }
    fn open(rows: &str) -> Xlsx<Cursor<Vec<u8>>> {
        let wb = format!(r#"<?xml version="1.0" encoding="UTF-8"?><workbook xmlns="{MAIN}" {RNS}><sheets><sheet name="S" sheetId="1" r:id="rId1"/></sheets></workbook>"#);
        let sheet = format!(r#"<?xml version="1.0" encoding="UTF-8"?><worksheet xmlns="{MAIN}"><sheetData>{rows}</sheetData></worksheet>"#);
        mk(&[("xl/workbook.xml", wb), ("xl/_rels/workbook.xml.rels", rels()), ("xl/worksheets/sheet1.xml", sheet)]).unwrap()
    }
    #[test]
    fn verif_demo_worksheet_formula_ascending_rows_control() {
        let mut x = open(r#"<row r="1"><c r="A1"><f>2+2</f><v>4</v></c></row><row r="3"><c r="A3"><f>1+1</f><v>2</v></c></row>"#);
        let r = x.worksheet_formula("S").unwrap();
        assert_eq!((r.start(), r.end()), (Some((0, 0)), Some((2, 0))));
        assert_eq!(r.get_value((2, 0)), Some(&"1+1".to_string()));
        assert_eq!(r.get_value((1, 0)), Some(&String::new()));
    }
    #[test]
    fn verif_demo_worksheet_formula_descending_rows_panics() {
        // rows of the sheet part not in ascending order (the `r` attributes say where the cells are): from_sparse computes
        // `row_end - row_start + 1` with row_end < row_start (debug build: "attempt to subtract with overflow")
        let mut x = open(r#"<row r="3"><c r="A3"><f>1+1</f><v>2</v></c></row><row r="1"><c r="A1"><f>2+2</f><v>4</v></c></row>"#);
        let r = std::panic::catch_unwind(std::panic::AssertUnwindSafe(|| x.worksheet_formula("S").map(|_| ())));
        assert!(r.is_err()); // expected: Ok (formulas at A1 and A3) or Err, not a panic
    }
}
