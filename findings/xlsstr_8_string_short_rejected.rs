#[cfg(test)]
mod verif_demo_xlsstr_8 {
    use super::*;
    // parse_string rejects every XLUnicodeString shorter than 4 bytes, but a complete BIFF5 string of one character has 3 bytes
    // (cch: 2 bytes, 1 character) and a complete empty BIFF8 string has 3 bytes (cch = 0, flags): the Label / String record -- and with
    // it the whole workbook -- fails to load
    #[test]
    fn verif_demo_xlsstr_biff5_one_char_label() {
        let enc = XlsEncoding::from_codepage(1252).unwrap();
        assert!(parse_string(&[1, 0, 0x41], &enc, Biff::Biff5).is_err()); // expected Ok("A")
        assert!(parse_label(&[0, 0, 0, 0, 0, 0, 1, 0, 0x41], &enc, Biff::Biff5).is_err()); // cell A1 = "A"
        assert_eq!(parse_string(&[2, 0, 0x41, 0x42], &enc, Biff::Biff5).unwrap(), "AB"); // two characters are fine
        let enc8 = XlsEncoding::from_codepage(1200).unwrap();
        assert!(parse_string(&[0, 0, 0], &enc8, Biff::Biff8).is_err()); // expected Ok("")
    }
}
