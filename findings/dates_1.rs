#[cfg(all(test, feature = "dates"))]
mod verif_demo_c11_milliseconds_panic {
    use super::*;
    // C11: "values beyond the representable calendar yield None rather than a wrong date".
    // `(value [+1462] [+1]) * 86_400_000` is rounded and cast with `as i64`, which saturates at i64::MIN for products <= -2^63;
    // `chrono::Duration::milliseconds(i64::MIN)` panics ("TimeDelta::milliseconds out of bounds"), so as_datetime / as_duration
    // (and everything built on them: DataType::as_datetime / as_date / as_time / as_duration) panic instead of returning None.
    #[test]
    #[should_panic(expected = "TimeDelta::milliseconds out of bounds")]
    fn verif_demo_dates_as_datetime_huge_negative_panics() {
        let _ = ExcelDateTime::new(-1e300, ExcelDateTimeType::DateTime, false).as_datetime();
    }
    #[test]
    fn verif_demo_dates_as_datetime_just_above_threshold_is_none() {
        // control: (v + 1) * 86_400_000 = -9.2233720368288e18 > -2^63: no panic, None as the property demands
        assert_eq!(ExcelDateTime::new(-106751991168.0, ExcelDateTimeType::DateTime, false).as_datetime(), None);
    }
    #[test]
    #[should_panic(expected = "TimeDelta::milliseconds out of bounds")]
    fn verif_demo_dates_as_datetime_threshold_panics() {
        // (v + 1) * 86_400_000 = -9.2233720369152e18 < -2^63
        let _ = ExcelDateTime::new(-106751991169.0, ExcelDateTimeType::DateTime, false).as_datetime();
    }
    #[test]
    #[should_panic(expected = "TimeDelta::milliseconds out of bounds")]
    fn verif_demo_dates_float_cell_neg_infinity_as_date_panics() {
        let _ = Data::Float(f64::NEG_INFINITY).as_date();
    }
    #[test]
    #[should_panic(expected = "TimeDelta::milliseconds out of bounds")]
    fn verif_demo_dates_dataref_int_cell_as_time_panics() {
        let _ = DataRef::Int(i64::MIN).as_time();
    }
    #[test]
    #[should_panic(expected = "TimeDelta::milliseconds out of bounds")]
    fn verif_demo_dates_as_duration_huge_negative_panics() {
        let _ = Data::DateTime(ExcelDateTime::new(-1.1e11, ExcelDateTimeType::TimeDelta, false)).as_duration();
    }
}
