#[cfg(test)]
mod verif_demo_xlsbrec_c06_wide_str {
    use super::*;
    use crate::CellErrorType;
    use std::io::{Cursor, Write};

    /// a zip archive (stored) holding one file `s.bin` with the given BIFF12 record stream
    fn zip_with(bin: &[u8]) -> ZipArchive<Cursor<Vec<u8>>> {
        let mut w = zip::ZipWriter::new(Cursor::new(Vec::new()));
        let opt = zip::write::SimpleFileOptions::default().compression_method(zip::CompressionMethod::Stored);
        w.start_file("s.bin", opt).unwrap();
        w.write_all(bin).unwrap();
        ZipArchive::new(w.finish().unwrap()).unwrap()
    }
    /// one record: 1- or 2-byte type, 1-byte size, payload ([MS-XLSB] 2.1.4)
    fn rec(typ: u16, payload: &[u8]) -> Vec<u8> {
        let mut v = Vec::new();
        if typ < 0x80 { v.push(typ as u8); } else { v.push((typ & 0x7F) as u8 | 0x80); v.push((typ >> 7) as u8); }
        assert!(payload.len() < 0x80);
        v.push(payload.len() as u8);
        v.extend_from_slice(payload);
        v
    }
    /// worksheet part: BrtBeginSheet, BrtWsDim (wsdim bytes), BrtBeginSheetData, BrtRowHdr(row 0), the cell records, BrtEndSheetData
    fn sheet(wsdim: &[u8], rowhdr: &[u8], cells: &[Vec<u8>]) -> Vec<u8> {
        let mut s = Vec::new();
        s.extend(rec(0x0081, &[]));
        s.extend(rec(0x0094, wsdim));
        s.extend(rec(0x0091, &[]));
        s.extend(rec(0x0000, rowhdr));
        for c in cells { s.extend_from_slice(c); }
        s.extend(rec(0x0092, &[]));
        s
    }
    /// all cells `XlsbCellsReader` reports for the stream
    fn read_cells(bin: &[u8], formats: &[CellFormat], strings: &[String]) -> Vec<((u32, u32), DataRef<'static>)> {
        let mut z = zip_with(bin);
        let it = RecordIter::from_zip(&mut z, "s.bin").unwrap();
        let mut r = XlsbCellsReader::new(it, formats, strings, &[], &[], false).unwrap();
        let mut got = Vec::new();
        while let Some(c) = r.next_cell().unwrap() {
            let v = match c.get_value() { DataRef::SharedString(s) => DataRef::String(s.to_string()), DataRef::Int(i) => DataRef::Int(*i),
                DataRef::Float(f) => DataRef::Float(*f), DataRef::String(s) => DataRef::String(s.clone()), DataRef::Bool(b) => DataRef::Bool(*b),
                DataRef::DateTime(d) => DataRef::DateTime(*d), DataRef::Error(e) => DataRef::Error(e.clone()), _ => DataRef::Empty };
            got.push((c.get_position(), v));
        }
        got
    }

    // C06: wide_str reads the 4-byte character count of an XLWideString without checking that 4 bytes are there.
    #[test]
    #[should_panic]
    fn verif_demo_xlsbrec_wide_str_empty() {
        let _ = wide_str(&[], &mut 0);
    }
    #[test]
    #[should_panic]
    fn verif_demo_xlsbrec_st_record_without_count() {
        // BrtCellSt with 9 bytes: wide_str(&buf[8..]) gets 1 byte, `read_u32(buf)` panics
        let _ = read_cells(&sheet(&[0u8; 16], &[0u8; 17], &[rec(0x0006, &[0u8; 9])]), &[], &[]);
    }
}
