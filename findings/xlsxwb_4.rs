#[cfg(test)]
mod verif_demo_xlsxwb_table_meta_overflow {
    use super::*;
    use std::io::{Cursor, Write};
    const MAIN: &str = "http://schemas.openxmlformats.org/spreadsheetml/2006/main";
    const RNS: &str = r#"xmlns:r="http://schemas.openxmlformats.org/officeDocument/2006/relationships""#;
    /// a tiny xlsx in memory: the given parts (name, content)
    fn mk(parts: &[(&str, String)]) -> Result<Xlsx<Cursor<Vec<u8>>>, XlsxError> {
        let mut zw = zip::ZipWriter::new(Cursor::new(Vec::new()));
        let opt = zip::write::SimpleFileOptions::default().compression_method(zip::CompressionMethod::Stored);
        for (name, content) in parts {
            zw.start_file(*name, opt).unwrap();
            zw.write_all(content.as_bytes()).unwrap();
        }
        let cur = zw.finish().unwrap();
        Xlsx::new(Cursor::new(cur.into_inner()))
    }
    fn rels() -> String {
        r#"<?xml version="1.0" encoding="UTF-8"?><Relationships xmlns="http://schemas.openxmlformats.org/package/2006/relationships"><Relationship Id="rId1" Type="http://schemas.openxmlformats.org/officeDocument/2006/relationships/worksheet" Target="worksheets/sheet1.xml"/></Relationships>"#.to_string()
    }
    fn workbook() -> String {
        format!(r#"<?xml version="1.0" encoding="UTF-8"?><workbook xmlns="{MAIN}" {RNS}><sheets><sheet name="S" sheetId="1" r:id="rId1"/></sheets></workbook>"#)
    }
    /// sheet S: numbers 11,12 / 21,22 / 31,32 / 41,42 in A1:B4
    fn sheet() -> String {
        let mut rows = String::new();
        for r in 1..=4 {
            rows += &format!(r#"<row r="{r}"><c r="A{r}"><v>{r}1</v></c><c r="B{r}"><v>{r}2</v></c></row>"#);
        }
        format!(r#"<?xml version="1.0" encoding="UTF-8"?><worksheet xmlns="{MAIN}" {RNS}><sheetData>{rows}</sheetData><tableParts count="1"><tablePart r:id="rId1"/></tableParts></worksheet>"#)
    }
    fn sheet_rels() -> String {
        r#"<?xml version="1.0" encoding="UTF-8"?><Relationships xmlns="http://schemas.openxmlformats.org/package/2006/relationships"><Relationship Id="rId1" Type="http://schemas.openxmlformats.org/officeDocument/2006/relationships/table" Target="../tables/table1.xml"/></Relationships>"#.to_string()
    }
    /// table part with the given attributes on <table>
    fn table(attrs: &str) -> String {
        format!(r#"<?xml version="1.0" encoding="UTF-8"?><table xmlns="{MAIN}" id="1" name="T" displayName="T" {attrs}><tableColumns count="2"><tableColumn id="1" name="a"/><tableColumn id="2" name="b"/></tableColumns></table>"#)
    }
    fn open(table_attrs: &str) -> Xlsx<Cursor<Vec<u8>>> {
        mk(&[("xl/workbook.xml", workbook()), ("xl/_rels/workbook.xml.rels", rels()), ("xl/worksheets/sheet1.xml", sheet()),
             ("xl/worksheets/_rels/sheet1.xml.rels", sheet_rels()), ("xl/tables/table1.xml", table(table_attrs))]).unwrap()
    }

    fn panics(attrs: &str) -> bool {
        let mut x = open(attrs);
        std::panic::catch_unwind(std::panic::AssertUnwindSafe(|| { let _ = x.load_tables(); })).is_err()
    }
    #[test]
    fn verif_demo_load_tables_arithmetic_panics_on_declared_counts() {
        // (debug build: "attempt to subtract / add with overflow"; release build: silent wrap-around of the stored dimensions)
        // ref A1:B1 with insertRow: `dims.end.0 -= 1` on row 0
        assert!(panics(r#"ref="A1:B1" headerRowCount="0" insertRow="1""#));
        // `dims.start.0 += header_row_count` with a declared count of u32::MAX
        assert!(panics(r#"ref="A2:B3" headerRowCount="4294967295""#));
        // `dims.end.0 -= totals_row_count` with a declared count larger than the end row
        assert!(panics(r#"ref="A1:B2" headerRowCount="5" totalsRowCount="5""#));
        // control
        assert!(!panics(r#"ref="A1:B4" totalsRowCount="1""#));
    }
}
