#[cfg(test)]
mod verif_demo_xlsbwb_c06 {
    use super::*;
    use std::io::{Cursor, Write};

    /// one record: 1- or 2-byte type, 1-byte size, payload ([MS-XLSB] 2.1.4)
    fn rec(typ: u16, payload: &[u8]) -> Vec<u8> {
        let mut v = Vec::new();
        if typ < 0x80 { v.push(typ as u8); } else { v.push((typ & 0x7F) as u8 | 0x80); v.push((typ >> 7) as u8); }
        assert!(payload.len() < 0x80);
        v.push(payload.len() as u8);
        v.extend_from_slice(payload);
        v
    }
    fn wstr(s: &str) -> Vec<u8> {
        let u: Vec<u16> = s.encode_utf16().collect();
        let mut v = (u.len() as u32).to_le_bytes().to_vec();
        for c in u { v.extend_from_slice(&c.to_le_bytes()); }
        v
    }
    /// BrtBundleSh: hsState, iTabID, strRelID, strName
    fn bundle(hs: u32, tab: u32, rid: &str, name: &str) -> Vec<u8> {
        let mut p = hs.to_le_bytes().to_vec();
        p.extend_from_slice(&tab.to_le_bytes());
        p.extend(wstr(rid));
        p.extend(wstr(name));
        rec(0x009C, &p)
    }
    /// an in-memory xlsb package: workbook.bin, its relationship part (rId1 -> target), optional styles / shared strings parts
    fn open(workbook: &[u8], target: &str, styles: Option<&[u8]>, sst: Option<&[u8]>) -> Result<Xlsb<Cursor<Vec<u8>>>, XlsbError> {
        let mut zw = zip::ZipWriter::new(Cursor::new(Vec::new()));
        let opt = zip::write::SimpleFileOptions::default().compression_method(zip::CompressionMethod::Stored);
        zw.start_file("xl/workbook.bin", opt).unwrap();
        zw.write_all(workbook).unwrap();
        zw.start_file("xl/_rels/workbook.bin.rels", opt).unwrap();
        zw.write_all(format!(r#"<?xml version="1.0" encoding="UTF-8"?><Relationships xmlns="http://schemas.openxmlformats.org/package/2006/relationships"><Relationship Id="rId1" Type="http://schemas.openxmlformats.org/officeDocument/2006/relationships/worksheet" Target="{target}"/></Relationships>"#).as_bytes()).unwrap();
        if let Some(s) = styles { zw.start_file("xl/styles.bin", opt).unwrap(); zw.write_all(s).unwrap(); }
        if let Some(s) = sst { zw.start_file("xl/sharedStrings.bin", opt).unwrap(); zw.write_all(s).unwrap(); }
        let cur = zw.finish().unwrap();
        Xlsb::new(Cursor::new(cur.into_inner()))
    }

    fn wb(records: &[Vec<u8>]) -> Vec<u8> {
        let mut w = rec(0x0083, &[]);
        for r in records { w.extend_from_slice(r); }
        w.extend(rec(0x0084, &[]));
        w
    }
    // C06: read_workbook indexes / slices record payloads with offsets taken from the file and never checks the record length.
    #[test]
    #[should_panic]
    fn verif_demo_xlsbwb_empty_wbprop_panics() {
        // BrtWbProp with an empty payload: `&buf[0]`
        let _ = open(&wb(&[rec(0x0099, &[]), rec(0x0090, &[])]), "worksheets/sheet1.bin", None, None);
    }
    #[test]
    #[should_panic]
    fn verif_demo_xlsbwb_short_bundlesh_panics() {
        // BrtBundleSh with a 4-byte payload: `&buf[8..len]`
        let _ = open(&wb(&[rec(0x009C, &[0, 0, 0, 0]), rec(0x0090, &[])]), "worksheets/sheet1.bin", None, None);
    }
    #[test]
    #[should_panic]
    fn verif_demo_xlsbwb_relid_longer_than_record_panics() {
        // BrtBundleSh whose relationship id declares 100 characters: `&buf[12..12 + rel_len]`
        let mut p = vec![0u8; 8];
        p.extend_from_slice(&100u32.to_le_bytes());
        let _ = open(&wb(&[rec(0x009C, &p), rec(0x0090, &[])]), "worksheets/sheet1.bin", None, None);
    }
    #[test]
    #[should_panic]
    fn verif_demo_xlsbwb_dangling_relationship_panics() {
        // BrtBundleSh naming a relationship id the .rels part does not define: `relationships[relid.as_bytes()]` (BTreeMap Index)
        let _ = open(&wb(&[bundle(0, 1, "rId7", "Sheet1"), rec(0x0090, &[])]), "worksheets/sheet1.bin", None, None);
    }
    #[test]
    #[should_panic]
    fn verif_demo_xlsbwb_short_externsheet_panics() {
        // BrtExternSheet with an empty payload: `&buf[..4]`
        let _ = open(&wb(&[rec(0x0090, &[]), rec(0x016A, &[])]), "worksheets/sheet1.bin", None, None);
    }
    #[test]
    #[should_panic]
    fn verif_demo_xlsbwb_truncated_xti_panics() {
        // BrtExternSheet declaring one XTI but holding only 4 of its 12 bytes: `&xti[4..8]` on the short last chunk
        let _ = open(&wb(&[rec(0x0090, &[]), rec(0x016A, &[1, 0, 0, 0, 0, 0, 0, 0])]), "worksheets/sheet1.bin", None, None);
    }
    #[test]
    #[should_panic]
    fn verif_demo_xlsbwb_short_name_record_panics() {
        // BrtName with a 4-byte payload: `&buf[9..len]`
        let _ = open(&wb(&[rec(0x0090, &[]), rec(0x0027, &[0, 0, 0, 0])]), "worksheets/sheet1.bin", None, None);
    }
    #[test]
    #[should_panic]
    fn verif_demo_xlsbwb_name_formula_longer_than_record_panics() {
        // BrtName whose formula declares 200 bytes: `&buf[13 + str_len..13 + str_len + rgce_len]`
        let mut p = vec![0u8; 9];
        p.extend(wstr("N"));
        p.extend_from_slice(&200u32.to_le_bytes());
        let _ = open(&wb(&[rec(0x0090, &[]), rec(0x0027, &p)]), "worksheets/sheet1.bin", None, None);
    }
    // C06: read_styles
    #[test]
    #[should_panic]
    fn verif_demo_xlsbwb_empty_beginfmts_panics() {
        // BrtBeginFmts with an empty payload: `read_usize(&buf)`
        let w = wb(&[bundle(0, 1, "rId1", "Sheet1"), rec(0x0090, &[])]);
        let _ = open(&w, "worksheets/sheet1.bin", Some(&rec(0x0267, &[])), None);
    }
    // C06: read_shared_strings
    #[test]
    #[should_panic]
    fn verif_demo_xlsbwb_short_beginsst_panics() {
        // BrtBeginSst with a 4-byte payload: `&buf[4..8]`
        let w = wb(&[bundle(0, 1, "rId1", "Sheet1"), rec(0x0090, &[])]);
        let _ = open(&w, "worksheets/sheet1.bin", None, Some(&rec(0x009F, &[1, 0, 0, 0])));
    }
    // ... while a declared count that the stream does not honour is an error, not a hang (this one holds)
    #[test]
    fn verif_demo_xlsbwb_hostile_sst_count_is_error() {
        let w = wb(&[bundle(0, 1, "rId1", "Sheet1"), rec(0x0090, &[])]);
        let mut s = rec(0x009F, &[0xFF, 0xFF, 0xFF, 0xFF, 0xFF, 0xFF, 0xFF, 0xFF]);
        s.extend(rec(0x0013, &[0, 1, 0, 0, 0, b'a', 0]));
        assert!(matches!(open(&w, "worksheets/sheet1.bin", None, Some(&s)), Err(XlsbError::Io(_))));
    }
}
