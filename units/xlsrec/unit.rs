//@@ unit props=C02,C06,C10,C16,C17
// Unit xlsrec: BIFF8 record walkers of src/xls.rs (verbatim text).
#![allow(unused_imports, dead_code, unused_variables, unused_mut, unused_assignments, unexpected_cfgs)]
use vstd::prelude::*;
use std::cmp::min;

verus! {

// ---- stand-ins for foreign error payload types (opaque; never inspected by the verified code)
pub mod cfb { pub struct CfbError; }
pub mod vba { pub struct VbaError; }
#[verifier::external_type_specification] #[verifier::external_body] pub struct ExIoError(std::io::Error);
/// stand-in for cfb::XlsEncoding (wraps an encoding_rs table; only handed through to the string decoders)
pub struct XlsEncoding { _opaque: u8 }

//@@ item src/xls.rs enum XlsError cfg_off=picture
//@@ item src/lib.rs enum CellErrorType keep_attrs
//@@ item src/lib.rs struct Dimensions
//@@ item src/lib.rs enum SheetType
//@@ item src/lib.rs enum SheetVisible
//@@ item src/lib.rs struct Sheet
//@@ item src/lib.rs trait "trait CellType"
//@@ item src/lib.rs struct Cell
//@@ item src/datatype.rs enum ExcelDateTimeType keep_attrs
//@@ item src/datatype.rs struct ExcelDateTime keep_attrs
//@@ item src/datatype.rs enum Data keep_attrs
//@@ item src/datatype.rs enum DataRef keep_attrs
//@@ item src/formats.rs enum CellFormat keep_attrs
impl CellType for Data {}

// spec-level access to private fields (these structs have private fields, so `pub` contracts go through closed accessors)
impl<T: CellType> Cell<T> {
    pub closed spec fn p(&self) -> (u32, u32) { self.pos }
    pub closed spec fn v(&self) -> T { self.val }
}
impl ExcelDateTime {
    pub closed spec fn mk(value: f64, datetime_type: ExcelDateTimeType, is_1904: bool) -> ExcelDateTime { ExcelDateTime { value, datetime_type, is_1904 } }
}

//@@ include common/bytes.rs

// =====================================================================================================
// Specification, written from [MS-XLS] (not from the code)
// =====================================================================================================
/// little-endian unsigned fields at byte offset `o` of a record body
pub open spec fn u16_at(r: Seq<u8>, o: int) -> int { r[o] as int + 256 * (r[o + 1] as int) }
pub open spec fn u32_at(r: Seq<u8>, o: int) -> int {
    r[o] as int + 256 * (r[o + 1] as int) + 65536 * (r[o + 2] as int) + 16777216 * (r[o + 3] as int)
}
pub open spec fn u64_at(r: Seq<u8>, o: int) -> int { u32_at(r, o) + 4294967296 * u32_at(r, o + 4) }

/// [MS-XLS] 2.5.198.? Cell structure: rw (2 bytes), col (2 bytes), ixfe (2 bytes) open every cell record
pub open spec fn cell_row(r: Seq<u8>) -> int { u16_at(r, 0) }
pub open spec fn cell_col(r: Seq<u8>) -> int { u16_at(r, 2) }
pub open spec fn cell_ixfe(r: Seq<u8>) -> int { u16_at(r, 4) }
pub open spec fn cell_pos(r: Seq<u8>) -> (u32, u32) { (cell_row(r) as u32, cell_col(r) as u32) }

/// the number format a cell's ixfe selects in the workbook's XF-derived table (None when out of the table)
pub open spec fn fmt_at(formats: Seq<CellFormat>, ixfe: int) -> Option<CellFormat> {
    if 0 <= ixfe < formats.len() { Some(formats[ixfe]) } else { None }
}

/// C10: a stored double is reported as DateTime exactly when its format is a date/time format (date system flag copied),
/// as a plain Float otherwise
pub open spec fn wrap_f64(v: f64, f: Option<CellFormat>, is_1904: bool) -> Data {
    match f {
        Some(CellFormat::DateTime) => Data::DateTime(ExcelDateTime::mk(v, ExcelDateTimeType::DateTime, is_1904)),
        Some(CellFormat::TimeDelta) => Data::DateTime(ExcelDateTime::mk(v, ExcelDateTimeType::TimeDelta, is_1904)),
        _ => Data::Float(v),
    }
}

pub open spec fn wrap_i64(v: i64, f: Option<CellFormat>, is_1904: bool) -> Data {
    match f {
        Some(CellFormat::DateTime) => Data::DateTime(ExcelDateTime::mk(v as f64, ExcelDateTimeType::DateTime, is_1904)),
        Some(CellFormat::TimeDelta) => Data::DateTime(ExcelDateTime::mk(v as f64, ExcelDateTimeType::TimeDelta, is_1904)),
        _ => Data::Int(v),
    }
}
pub open spec fn opt_fmt(format: Option<&CellFormat>) -> Option<CellFormat> { match format { Some(f) => Some(*f), None => None } }

/// [MS-XLS] 2.5.217 RkNumber (4 bytes) decoded under a cell format.
// TRUSTED: uninterpreted in Verus (floats are uninterpreted there); its defining equations are the Kani harnesses
// rk_num_int / rk_num_int_x100 / rk_num_float / rk_num_float_x100 / rk_num_int_x100_divisible (kani/xls.rs), which prove on the
// real `rk_num`, for all 2^48 inputs, that the result is the 2.5.217 decoding of bytes 2..6 wrapped by the format selected by bytes 0..2.
pub uninterp spec fn rk_value(rk: Seq<u8>, fmt: Option<CellFormat>, is_1904: bool) -> Data;

/// [MS-XLS] 2.5.10 BErr: the eight error codes
pub open spec fn berr(e: u8) -> Option<CellErrorType> {
    if e == 0x00 { Some(CellErrorType::Null) }
    else if e == 0x07 { Some(CellErrorType::Div0) }
    else if e == 0x0F { Some(CellErrorType::Value) }
    else if e == 0x17 { Some(CellErrorType::Ref) }
    else if e == 0x1D { Some(CellErrorType::Name) }
    else if e == 0x24 { Some(CellErrorType::Num) }
    else if e == 0x2A { Some(CellErrorType::NA) }
    else if e == 0x2B { Some(CellErrorType::GettingData) }
    else { None }
}

/// [MS-XLS] 2.4.24 BoolErr + 2.5.10 Bes: bBoolErr at 6, fError at 7
pub open spec fn bes_value(r: Seq<u8>) -> Option<Data> {
    if r[7] == 0 { Some(Data::Bool(r[6] != 0)) }
    else if r[7] == 1 { match berr(r[6]) { Some(e) => Some(Data::Error(e)), None => None } }
    else { None }
}

pub open spec fn is_len_err<T>(r: Result<T, XlsError>, exp: int, fnd: int) -> bool {
    r matches Err(XlsError::Len { expected, found, typ }) && expected == exp && found == fnd
}

proof fn lemma_le_at(r: Seq<u8>, o: int)
    requires 0 <= o,
    ensures
        o + 2 <= r.len() ==> le16(r.subrange(o, r.len() as int)) == u16_at(r, o),
        o + 4 <= r.len() ==> le32(r.subrange(o, r.len() as int)) == u32_at(r, o),
        o + 8 <= r.len() ==> le64(r.subrange(o, r.len() as int)) == u64_at(r, o),
        0 <= u16_at(r, o) < 65536,
        0 <= u32_at(r, o) < 4294967296,
{
    let t = r.subrange(o, r.len() as int);
    if o + 8 <= r.len() {
        let t4 = t.subrange(4, 8);
        assert(t4[0] == r[o + 4] && t4[1] == r[o + 5] && t4[2] == r[o + 6] && t4[3] == r[o + 7]);
    }
}

// ---- assumed contracts of callees
// TRUSTED: Cell::new is verified here (two field moves), see below.

//@@ impl src/lib.rs Cell
//@@ fn src/lib.rs Cell::new props=C02 ret=c
//@@ sig
    ensures
        //# C02.cell_new
        c.p() == position && c.v() == value,
//@@ end
//@@ endimpl

//@@ impl src/datatype.rs ExcelDateTime
//@@ fn src/datatype.rs ExcelDateTime::new props=C10 ret=d
//@@ sig
    ensures
        //# C10.edt_new
        d == ExcelDateTime::mk(value, datetime_type, is_1904),
//@@ end
//@@ endimpl

//@@ impl src/datatype.rs "From<DataRef<'a>> for Data"
//@@ fn src/datatype.rs "From<DataRef<'a>> for Data::from" props=C10 ret=d
//@@ sig
    ensures
        //# C10.dataref_into_float
        value matches DataRef::Float(v) ==> d == Data::Float(v),
        //# C10.dataref_into_datetime
        value matches DataRef::DateTime(v) ==> d == Data::DateTime(v),
//@@ end
//@@ endimpl

//@@ fn src/formats.rs format_excel_f64_ref props=C10 ret=d
//@@ sig
    ensures
        //# C10.format_f64_ref
        match format {
            Some(CellFormat::DateTime) => d == DataRef::DateTime(ExcelDateTime::mk(value, ExcelDateTimeType::DateTime, is_1904)),
            Some(CellFormat::TimeDelta) => d == DataRef::DateTime(ExcelDateTime::mk(value, ExcelDateTimeType::TimeDelta, is_1904)),
            _ => d == DataRef::Float(value),
        },
//@@ end

//@@ fn src/formats.rs format_excel_f64 props=C10 ret=d
//@@ sig
    ensures
        //# C10.format_f64
        d == wrap_f64(value, opt_fmt(format), is_1904),
//@@ end

//@@ fn src/formats.rs format_excel_i64 props=C10 ret=d
//@@ sig
    ensures
        //# C10.format_i64
        d == wrap_i64(value, opt_fmt(format), is_1904),
//@@ end

//@@ fn src/xls.rs rk_num props=C02,C10 ret=d external_body by=rk_num_int,rk_num_int_x100,rk_num_float,rk_num_float_x100
//@@ sig
    requires
        rk@.len() == 6,
    ensures
        //# C02.rk_decode
        d == rk_value(rk@.subrange(2, 6), fmt_at(formats@, u16_at(rk@, 0)), is_1904),
//@@ end

// =====================================================================================================
// Cell records
// =====================================================================================================

//@@ fn src/xls.rs parse_number props=C02,C10 entry ret=res
//@@ sig
    ensures
        //# C02.number_len_guard
        r@.len() < 14 <==> res is Err,
        //# C02.number_len_err
        r@.len() < 14 ==> is_len_err(res, 14, r@.len() as int),
        //# C02.number_pos
        r@.len() >= 14 ==> res is Ok && res->Ok_0.p() == cell_pos(r@),
        //# C02,C10.number_value
        r@.len() >= 14 ==> res is Ok && res->Ok_0.v() == wrap_f64(f64_of_bits(u64_at(r@, 6)), fmt_at(formats@, cell_ixfe(r@)), is_1904),
//@@ before /let row = /
    proof { lemma_le_at(r@, 0); lemma_le_at(r@, 2); lemma_le_at(r@, 4); lemma_le_at(r@, 6); assert(r@.subrange(0, r@.len() as int) =~= r@); }
//@@ end

//@@ fn src/xls.rs parse_err props=C02 entry ret=res
//@@ sig
    ensures
        //# C02.berr_table
        match berr(e) { Some(c) => res is Ok && res->Ok_0 == Data::Error(c), None => res is Err },
//@@ end

//@@ fn src/xls.rs parse_bool_err props=C02 entry ret=res
//@@ sig
    ensures
        //# C02.boolerr_len_guard
        r@.len() < 8 ==> is_len_err(res, 8, r@.len() as int),
        //# C02.boolerr_pos
        r@.len() >= 8 && res is Ok ==> res->Ok_0.p() == cell_pos(r@),
        //# C02.boolerr_value
        r@.len() >= 8 ==> match bes_value(r@) { Some(d) => res is Ok && res->Ok_0.v() == d, None => res is Err },
//@@ before /let row = /
    proof { lemma_le_at(r@, 0); lemma_le_at(r@, 2); assert(r@.subrange(0, r@.len() as int) =~= r@); }
//@@ end

//@@ fn src/xls.rs parse_rk props=C02,C10 entry ret=res
//@@ sig
    ensures
        //# C02.rk_len_guard
        r@.len() < 10 <==> res is Err,
        //# C02.rk_len_err
        r@.len() < 10 ==> is_len_err(res, 10, r@.len() as int),
        //# C02.rk_pos
        r@.len() >= 10 ==> res is Ok && res->Ok_0.p() == cell_pos(r@),
        //# C02,C10.rk_value
        r@.len() >= 10 ==> res is Ok && res->Ok_0.v() == rk_value(r@.subrange(6, 10), fmt_at(formats@, cell_ixfe(r@)), is_1904),
//@@ before /let row = /
    proof {
        lemma_le_at(r@, 0); lemma_le_at(r@, 2); assert(r@.subrange(0, r@.len() as int) =~= r@);
        assert(r@.subrange(4, 10).subrange(2, 6) =~= r@.subrange(6, 10));
    }
//@@ end

} // verus!
fn main() {}
