//@@ unit props=C02,C06,C10,C16,C17,C12,C19,C11
// Unit xlsrec: BIFF8 record walkers of src/xls.rs (verbatim text).
#![allow(unused_imports, dead_code, unused_variables, unused_mut, unused_assignments, unexpected_cfgs)]
use vstd::prelude::*;
use std::cmp::min;
use std::slice::Chunks;

verus! {

// ---- stand-ins for foreign error payload types (opaque; never inspected by the verified code)
pub mod cfb { pub struct CfbError; }
pub mod vba { pub struct VbaError; }
#[verifier::external_type_specification] #[verifier::external_body] pub struct ExIoError(std::io::Error);
/// stand-in for cfb::XlsEncoding (wraps an encoding_rs table; only handed through to the string decoders)
pub struct XlsEncoding { _opaque: u8 }
/// what `XlsEncoding::decode_to` appends: the first `len` characters of `stream` decoded under the code page
/// (`high_byte`: Some(true) = UTF-16LE code units, Some(false)/None = one byte per character)
// TRUSTED: uninterpreted -- the decoders (cfb.rs XlsEncoding::decode_to on top of encoding_rs) are the subject of C12/C19, not of this unit.
pub uninterp spec fn decoded_chars(enc: XlsEncoding, stream: Seq<u8>, len: int, high_byte: Option<bool>) -> Seq<char>;
impl XlsEncoding {
    // TRUSTED: stand-in for cfb.rs `XlsEncoding::decode_to` (signature copied; body is encoding_rs glue guarded by `min(stream.len(), len)`,
    // it never panics and only appends to `s`).
    #[verifier::external_body]
    pub fn decode_to(&self, stream: &[u8], len: usize, s: &mut String, high_byte: Option<bool>) -> (usize, usize)
        ensures final(s)@ == old(s)@ + decoded_chars(*self, stream@, len as int, high_byte),
    { unimplemented!() }
}

//@@ item src/xls.rs enum XlsError cfg_off=picture
//@@ item src/lib.rs enum CellErrorType keep_attrs
//@@ item src/lib.rs struct Dimensions
//@@ item src/lib.rs enum SheetType
//@@ item src/lib.rs enum SheetVisible
//@@ item src/lib.rs struct Sheet
//@@ item src/lib.rs trait "trait CellType"
//@@ item src/lib.rs struct Cell
//@@ item src/datatype.rs enum ExcelDateTimeType keep_attrs
//@@ item src/datatype.rs struct ExcelDateTime keep_attrs
//@@ item src/datatype.rs enum Data keep_attrs
//@@ item src/datatype.rs enum DataRef keep_attrs
//@@ item src/formats.rs enum CellFormat keep_attrs
//@@ item src/xls.rs struct Record
//@@ item src/xls.rs struct RecordIter
//@@ item src/xls.rs struct Bof
//@@ item src/xls.rs enum Biff keep_attrs
impl CellType for Data {}

// spec-level access to private fields (these structs have private fields, so `pub` contracts go through closed accessors)
impl<T: CellType> Cell<T> {
    pub closed spec fn p(&self) -> (u32, u32) { self.pos }
    pub closed spec fn v(&self) -> T { self.val }
}
impl ExcelDateTime {
    pub closed spec fn ty(&self) -> ExcelDateTimeType { self.datetime_type }
    pub closed spec fn f1904(&self) -> bool { self.is_1904 }
    pub closed spec fn mk(value: f64, datetime_type: ExcelDateTimeType, is_1904: bool) -> ExcelDateTime { ExcelDateTime { value, datetime_type, is_1904 } }
}

//@@ include common/bytes.rs

// =====================================================================================================
// Specification, written from [MS-XLS] (not from the code)
// =====================================================================================================
/// little-endian unsigned fields at byte offset `o` of a record body
pub open spec fn u16_at(r: Seq<u8>, o: int) -> int { r[o] as int + 256 * (r[o + 1] as int) }
pub open spec fn u32_at(r: Seq<u8>, o: int) -> int {
    r[o] as int + 256 * (r[o + 1] as int) + 65536 * (r[o + 2] as int) + 16777216 * (r[o + 3] as int)
}
pub open spec fn u64_at(r: Seq<u8>, o: int) -> int { u32_at(r, o) + 4294967296 * u32_at(r, o + 4) }

/// [MS-XLS] Cell structure: rw (2 bytes), col (2 bytes), ixfe (2 bytes) open every cell record (Number, RK, BoolErr, LabelSst, Label, Formula)
pub open spec fn cell_row(r: Seq<u8>) -> int { u16_at(r, 0) }
pub open spec fn cell_col(r: Seq<u8>) -> int { u16_at(r, 2) }
pub open spec fn cell_ixfe(r: Seq<u8>) -> int { u16_at(r, 4) }
pub open spec fn cell_pos(r: Seq<u8>) -> (u32, u32) { (cell_row(r) as u32, cell_col(r) as u32) }

/// the number format a cell's ixfe selects in the workbook's XF-derived table (None when out of the table)
pub open spec fn fmt_at(formats: Seq<CellFormat>, ixfe: int) -> Option<CellFormat> {
    if 0 <= ixfe < formats.len() { Some(formats[ixfe]) } else { None }
}

/// C10: a stored double is reported as DateTime exactly when its format is a date/time format (date system flag copied),
/// as a plain Float otherwise
pub open spec fn wrap_f64(v: f64, f: Option<CellFormat>, is_1904: bool) -> Data {
    match f {
        Some(CellFormat::DateTime) => Data::DateTime(ExcelDateTime::mk(v, ExcelDateTimeType::DateTime, is_1904)),
        Some(CellFormat::TimeDelta) => Data::DateTime(ExcelDateTime::mk(v, ExcelDateTimeType::TimeDelta, is_1904)),
        _ => Data::Float(v),
    }
}

/// same for a stored integer (the integer-to-double conversion itself is a float operation: uninterpreted in Verus, see Kani rk_num_int)
pub open spec fn wrap_i64(v: i64, f: Option<CellFormat>, is_1904: bool, d: Data) -> bool {
    match f {
        Some(CellFormat::DateTime) => d is DateTime && d->DateTime_0.ty() == ExcelDateTimeType::DateTime && d->DateTime_0.f1904() == is_1904,
        Some(CellFormat::TimeDelta) => d is DateTime && d->DateTime_0.ty() == ExcelDateTimeType::TimeDelta && d->DateTime_0.f1904() == is_1904,
        _ => d == Data::Int(v),
    }
}
pub open spec fn opt_fmt(format: Option<&CellFormat>) -> Option<CellFormat> { match format { Some(f) => Some(*f), None => None } }

/// [MS-XLS] 2.5.217 RkNumber (4 bytes) decoded under a cell format.
// TRUSTED: uninterpreted in Verus (floats are uninterpreted there); its defining equations are the Kani harnesses
// rk_num_int / rk_num_int_x100 / rk_num_float / rk_num_float_x100 / rk_num_int_x100_divisible (kani/xls.rs), which prove on the
// real `rk_num`, for all 2^48 inputs, that the result is the 2.5.217 decoding of bytes 2..6 wrapped by the format selected by bytes 0..2.
pub uninterp spec fn rk_value(rk: Seq<u8>, fmt: Option<CellFormat>, is_1904: bool) -> Data;

/// [MS-XLS] 2.5.10 BErr: the eight error codes
pub open spec fn berr(e: u8) -> Option<CellErrorType> {
    if e == 0x00 { Some(CellErrorType::Null) }
    else if e == 0x07 { Some(CellErrorType::Div0) }
    else if e == 0x0F { Some(CellErrorType::Value) }
    else if e == 0x17 { Some(CellErrorType::Ref) }
    else if e == 0x1D { Some(CellErrorType::Name) }
    else if e == 0x24 { Some(CellErrorType::Num) }
    else if e == 0x2A { Some(CellErrorType::NA) }
    else if e == 0x2B { Some(CellErrorType::GettingData) }
    else { None }
}

/// [MS-XLS] 2.4.24 BoolErr + 2.5.10 Bes: bBoolErr at 6, fError at 7
pub open spec fn bes_value(r: Seq<u8>) -> Option<Data> {
    if r[7] == 0 { Some(Data::Bool(r[6] != 0)) }
    else if r[7] == 1 { match berr(r[6]) { Some(e) => Some(Data::Error(e)), None => None } }
    else { None }
}

pub open spec fn is_len_err<T>(r: Result<T, XlsError>, exp: int, fnd: int) -> bool {
    r matches Err(XlsError::Len { expected, found, typ }) && expected == exp && found == fnd
}

proof fn lemma_le_at(r: Seq<u8>, o: int)
    requires 0 <= o,
    ensures
        o + 2 <= r.len() ==> le16(r.subrange(o, r.len() as int)) == u16_at(r, o),
        o + 4 <= r.len() ==> le32(r.subrange(o, r.len() as int)) == u32_at(r, o),
        o + 8 <= r.len() ==> le64(r.subrange(o, r.len() as int)) == u64_at(r, o),
        0 <= u16_at(r, o) < 65536,
        0 <= u32_at(r, o) < 4294967296,
{
    let t = r.subrange(o, r.len() as int);
    if o + 8 <= r.len() {
        let t4 = t.subrange(4, 8);
        assert(t4[0] == r[o + 4] && t4[1] == r[o + 5] && t4[2] == r[o + 6] && t4[3] == r[o + 7]);
    }
}

// ---- callees: Cell::new, ExcelDateTime::new, format_excel_f64_ref, format_excel_f64, format_excel_i64 are verified here (verbatim);
// rk_num and From<DataRef>::from are assumed in Verus and discharged by Kani on the real code.

//@@ impl src/lib.rs Cell
//@@ fn src/lib.rs Cell::new props=C02 ret=c
//@@ sig
    ensures
        //# C02.cell_new
        c.p() == position && c.v() == value,
//@@ end
//@@ endimpl

//@@ impl src/datatype.rs ExcelDateTime
//@@ fn src/datatype.rs ExcelDateTime::new props=C10,C16,C11 ret=d
//@@ sig
    ensures
        //# C10,C16,C11.edt_new
        d == ExcelDateTime::mk(value, datetime_type, is_1904),
//@@ end
//@@ endimpl

// the From trait carries vstd's FromSpec: the conversion DataRef -> Data is the identity on every shared variant
impl<'a> vstd::std_specs::convert::FromSpecImpl<DataRef<'a>> for Data {
    open spec fn obeys_from_spec() -> bool { true }
    open spec fn from_spec(value: DataRef<'a>) -> Data {
        match value {
            DataRef::Int(v) => Data::Int(v),
            DataRef::Float(v) => Data::Float(v),
            DataRef::String(v) => Data::String(v),
            DataRef::SharedString(v) => Data::String(<String as vstd::std_specs::convert::FromSpec<&str>>::from_spec(v)),
            DataRef::Bool(v) => Data::Bool(v),
            DataRef::DateTime(v) => Data::DateTime(v),
            DataRef::DateTimeIso(v) => Data::DateTimeIso(v),
            DataRef::DurationIso(v) => Data::DurationIso(v),
            DataRef::Error(v) => Data::Error(v),
            DataRef::Empty => Data::Empty,
        }
    }
}
//@@ impl src/datatype.rs "From<DataRef<'a>> for Data"
// TRUSTED: `from` is external_body: its `SharedString(v) => Data::String(v.into())` arm needs a vstd spec of <&str as Into<String>> that does
// not exist; the FromSpecImpl above states what the ten-arm match does. The two arms used here (Float, DateTime) are covered on the real
// code by the Kani harness format_excel_f64_spec (all doubles x all formats x both date systems).
//@@ fn src/datatype.rs "From<DataRef<'a>> for Data::from" props=C10 ret=d external_body by=format_excel_f64_spec
//@@ end
//@@ endimpl

//@@ fn src/formats.rs format_excel_f64_ref props=C10,C02,C16,C11 ret=d
//@@ sig
    ensures
        //# C10,C02,C16,C11.format_f64_ref
        match format {
            Some(CellFormat::DateTime) => d == DataRef::DateTime(ExcelDateTime::mk(value, ExcelDateTimeType::DateTime, is_1904)),
            Some(CellFormat::TimeDelta) => d == DataRef::DateTime(ExcelDateTime::mk(value, ExcelDateTimeType::TimeDelta, is_1904)),
            _ => d == DataRef::Float(value),
        },
//@@ end

//@@ fn src/formats.rs format_excel_f64 props=C10,C02,C16,C11 ret=d
//@@ sig
    ensures
        //# C10,C02,C16,C11.format_f64
        d == wrap_f64(value, opt_fmt(format), is_1904),
//@@ end

//@@ fn src/formats.rs format_excel_i64 props=C10,C02,C16,C11 ret=d
//@@ sig
    ensures
        //# C10,C02,C16,C11.format_i64
        wrap_i64(value, opt_fmt(format), is_1904, d),
//@@ end

//@@ fn src/xls.rs rk_num props=C02,C10 ret=d external_body by=rk_num_int,rk_num_int_x100,rk_num_float,rk_num_float_x100
//@@ sig
    requires
        rk@.len() == 6,
    ensures
        //# C02.rk_decode
        d == rk_value(rk@.subrange(2, 6), fmt_at(formats@, u16_at(rk@, 0)), is_1904),
//@@ end

// =====================================================================================================
// Cell records
// =====================================================================================================

//@@ fn src/xls.rs parse_number props=C02,C10,C16,C11 entry ret=res
//@@ sig
    ensures
        //# C02.number_len_guard
        r@.len() < 14 <==> res is Err,
        //# C02.number_len_err
        r@.len() < 14 ==> is_len_err(res, 14, r@.len() as int),
        //# C02.number_pos
        r@.len() >= 14 ==> res is Ok && res->Ok_0.p() == cell_pos(r@),
        //# C02,C10,C16,C11.number_value
        r@.len() >= 14 ==> res is Ok && res->Ok_0.v() == wrap_f64(f64_of_bits(u64_at(r@, 6)), fmt_at(formats@, cell_ixfe(r@)), is_1904),
//@@ body
    proof { lemma_le_at(r@, 0); lemma_le_at(r@, 2); lemma_le_at(r@, 4); lemma_le_at(r@, 6); assert(r@.subrange(0, r@.len() as int) =~= r@); }
//@@ end

//@@ fn src/xls.rs parse_err props=C02 entry ret=res
//@@ sig
    ensures
        //# C02.berr_table
        match berr(e) { Some(c) => res is Ok && res->Ok_0 == Data::Error(c), None => res is Err },
//@@ end

//@@ fn src/xls.rs parse_bool_err props=C02 entry ret=res
//@@ sig
    ensures
        //# C02.boolerr_len_guard
        r@.len() < 8 ==> is_len_err(res, 8, r@.len() as int),
        //# C02.boolerr_pos
        r@.len() >= 8 && res is Ok ==> res->Ok_0.p() == cell_pos(r@),
        //# C02.boolerr_value
        r@.len() >= 8 ==> match bes_value(r@) { Some(d) => res is Ok && res->Ok_0.v() == d, None => res is Err },
//@@ body
    proof { lemma_le_at(r@, 0); lemma_le_at(r@, 2); assert(r@.subrange(0, r@.len() as int) =~= r@); }
//@@ end

//@@ fn src/xls.rs parse_rk props=C02,C10,C16,C11 entry ret=res
//@@ sig
    ensures
        //# C02.rk_len_guard
        r@.len() < 10 <==> res is Err,
        //# C02.rk_len_err
        r@.len() < 10 ==> is_len_err(res, 10, r@.len() as int),
        //# C02.rk_pos
        r@.len() >= 10 ==> res is Ok && res->Ok_0.p() == cell_pos(r@),
        //# C02,C10,C16,C11.rk_value
        r@.len() >= 10 ==> res is Ok && res->Ok_0.v() == rk_value(r@.subrange(6, 10), fmt_at(formats@, cell_ixfe(r@)), is_1904),
//@@ body
    proof {
        lemma_le_at(r@, 0); lemma_le_at(r@, 2); assert(r@.subrange(0, r@.len() as int) =~= r@);
        if r@.len() >= 10 { assert(r@.subrange(4, 10).subrange(2, 6) =~= r@.subrange(6, 10)); }
    }
//@@ end

/// [MS-XLS] 2.4.149 LabelSst: cell (6 bytes), isst (4 bytes): index into the shared string table
pub open spec fn labelsst_isst(r: Seq<u8>) -> int { u32_at(r, 6) }

//@@ fn src/xls.rs parse_label_sst props=C02,C19,C12 entry ret=res
//@@ sig
    ensures
        //# C02.labelsst_len_guard
        r@.len() < 10 <==> res is Err,
        //# C02.labelsst_len_err
        r@.len() < 10 ==> is_len_err(res, 10, r@.len() as int),
        //# C02,C19,C12.labelsst_resolved
        r@.len() >= 10 && labelsst_isst(r@) < strings@.len() && strings@[labelsst_isst(r@)]@.len() > 0 ==>
            res is Ok && res->Ok_0 is Some && res->Ok_0->Some_0.p() == cell_pos(r@)
            && res->Ok_0->Some_0.v() == Data::String(strings@[labelsst_isst(r@)]),
        //# C02.labelsst_empty_is_no_cell
        r@.len() >= 10 && !(labelsst_isst(r@) < strings@.len() && strings@[labelsst_isst(r@)]@.len() > 0) ==> res is Ok && res->Ok_0 is None,
//@@ body
    proof { lemma_le_at(r@, 0); lemma_le_at(r@, 2); lemma_le_at(r@, 6); assert(r@.subrange(0, r@.len() as int) =~= r@); }
//@@ end

/// [MS-XLS] 2.4.353 XF: ifnt (2 bytes), ifmt (2 bytes) -- the number format identifier
//@@ fn src/xls.rs parse_xf props=C10 entry ret=res
//@@ sig
    ensures
        //# C10.xf_len_guard
        r.data@.len() < 4 <==> res is Err,
        //# C10.xf_len_err
        r.data@.len() < 4 ==> is_len_err(res, 4, r.data@.len() as int),
        //# C10.xf_ifmt
        r.data@.len() >= 4 ==> res is Ok && res->Ok_0 as int == u16_at(r.data@, 2),
//@@ body
    proof { lemma_le_at(r.data@, 2); }
//@@ end

/// [MS-XLS] 2.4.90 Dimensions (BIFF8, 14 bytes): rwMic u32, rwMac u32 (last row + 1), colMic u16, colMac u16 (last column + 1), reserved u16.
/// BIFF5 (10 bytes): the same with 16-bit rows.
pub open spec fn dim_fields(r: Seq<u8>) -> (int, int, int, int) {
    if r.len() == 14 { (u32_at(r, 0), u32_at(r, 4), u16_at(r, 8), u16_at(r, 10)) }
    else { (u16_at(r, 0), u16_at(r, 2), u16_at(r, 4), u16_at(r, 6)) }
}

//@@ fn src/xls.rs parse_dimensions props=C02 entry ret=res
//@@ sig
    ensures
        //# C02.dimensions_len_guard
        (r@.len() != 10 && r@.len() != 14) <==> res is Err,
        //# C02.dimensions_len_err
        (r@.len() != 10 && r@.len() != 14) ==> is_len_err(res, 14, r@.len() as int),
        //# C02.dimensions_used_range
        (r@.len() == 10 || r@.len() == 14) && dim_fields(r@).1 >= 1 && dim_fields(r@).3 >= 1 ==> res is Ok
            && res->Ok_0.start == (dim_fields(r@).0 as u32, dim_fields(r@).2 as u32)
            && res->Ok_0.end == ((dim_fields(r@).1 - 1) as u32, (dim_fields(r@).3 - 1) as u32),
        //# C02.dimensions_empty_sheet
        (r@.len() == 10 || r@.len() == 14) && !(dim_fields(r@).1 >= 1 && dim_fields(r@).3 >= 1) ==> res is Ok
            && res->Ok_0.start == (dim_fields(r@).0 as u32, dim_fields(r@).2 as u32)
            && res->Ok_0.end == res->Ok_0.start,
//@@ body
    proof {
        let n = r@.len() as int;
        if n == 10 || n == 14 {
            assert forall|a: int, b: int| 0 <= a && a + 2 == b && b <= n implies le16(#[trigger] r@.subrange(a, b)) == u16_at(r@, a) by {}
            assert forall|a: int, b: int| 0 <= a && a + 4 == b && b <= n implies le32(#[trigger] r@.subrange(a, b)) == u32_at(r@, a) by {}
            lemma_le_at(r@, 0); lemma_le_at(r@, 2); lemma_le_at(r@, 4); lemma_le_at(r@, 6); lemma_le_at(r@, 8); lemma_le_at(r@, 10);
        }
    }
//@@ end

// =====================================================================================================
// C17: MergeCells
// =====================================================================================================
/// [MS-XLS] 2.4.168 MergeCells: cmcs (2 bytes), then cmcs Ref8 structures;
/// 2.5.209 Ref8: rwFirst, rwLast, colFirst, colLast (2 bytes each)
pub open spec fn ref8_at(r: Seq<u8>, o: int) -> Dimensions {
    Dimensions { start: (u16_at(r, o) as u32, u16_at(r, o + 4) as u32), end: (u16_at(r, o + 2) as u32, u16_at(r, o + 6) as u32) }
}
pub open spec fn merge_cmcs(r: Seq<u8>) -> int { u16_at(r, 0) }
/// the record body holds the cmcs field and the cmcs Ref8 structures it declares
pub open spec fn merge_wf(r: Seq<u8>) -> bool { r.len() >= 2 && r.len() >= 2 + 8 * merge_cmcs(r) }
pub open spec fn merge_regions(r: Seq<u8>) -> Seq<Dimensions> { Seq::new(merge_cmcs(r) as nat, |k: int| ref8_at(r, 2 + 8 * k)) }

//@@ fn src/xls.rs parse_merge_cells props=C17 entry ret=res
//@@ sig
    ensures
        //# C17.merge_len_guard
        res is Err <==> !merge_wf(r@),
        //# C17.merge_len_err
        r@.len() < 2 ==> is_len_err(res, 2, r@.len() as int),
        //# C17.merge_len_err_regions
        r@.len() >= 2 && !merge_wf(r@) ==> is_len_err(res, 2 + 8 * merge_cmcs(r@), r@.len() as int),
        //# C17.merge_err_frame
        res is Err ==> final(merge_cells)@ == old(merge_cells)@,
        //# C17.merge_count
        res is Ok ==> final(merge_cells)@.len() == old(merge_cells)@.len() + merge_cmcs(r@),
        //# C17.merge_frame
        res is Ok ==> final(merge_cells)@.subrange(0, old(merge_cells)@.len() as int) == old(merge_cells)@,
        //# C17.merge_regions
        res is Ok ==> final(merge_cells)@ == old(merge_cells)@ + merge_regions(r@),
//@@ body
    let ghost m0 = merge_cells@;
    proof { lemma_le_at(r@, 0); assert(r@.subrange(0, r@.len() as int) =~= r@); }
//@@ loop 0 it
        invariant
            it.seq().len() == count,
            forall|k: int| 0 <= k < count ==> it.seq()[k] == k,
            count == merge_cmcs(r@), merge_wf(r@),
            //# C17.merge_regions
            merge_cells@ =~= m0 + Seq::new(it.index@ as nat, |k: int| ref8_at(r@, 2 + 8 * k)),
//@@ before /let rf = /
        proof {
            lemma_le_at(r@, offset as int); lemma_le_at(r@, offset + 2); lemma_le_at(r@, offset + 4); lemma_le_at(r@, offset + 6);
        }
//@@ before /Ok\(\(\)\)/
    proof { assert(merge_cells@ =~= m0 + merge_regions(r@)); }
//@@ end

// =====================================================================================================
// MulRk
// =====================================================================================================
// ---- <[T]>::chunks (rule R6): documented behaviour of core::slice::Chunks
// TRUSTED: `s.chunks(n)` panics iff n == 0; the iterator yields consecutive, non-overlapping sub-slices of n elements taken from the
// front of what remains, the last one possibly shorter; `None` once nothing remains (core::slice::chunks documentation).
#[verifier::external_type_specification] #[verifier::external_body] #[verifier::reject_recursive_types(T)]
pub struct ExChunks<'a, T: 'a>(Chunks<'a, T>);
/// elements not yet handed out
pub uninterp spec fn chunks_rem<T>(c: Chunks<'_, T>) -> Seq<T>;
/// chunk size
pub uninterp spec fn chunks_size<T>(c: Chunks<'_, T>) -> int;
pub open spec fn chunk_take<T>(c: Chunks<'_, T>) -> int {
    if chunks_size(c) <= chunks_rem(c).len() { chunks_size(c) } else { chunks_rem(c).len() as int }
}
pub assume_specification<'a, T>[ <[T]>::chunks ](s: &'a [T], n: usize) -> (r: Chunks<'a, T>)
    requires n != 0,
    ensures chunks_rem(r) == s@, chunks_size(r) == n;
pub assume_specification<'a, T>[ <Chunks<'a, T> as Iterator>::next ](c: &mut Chunks<'a, T>) -> (r: Option<&'a [T]>)
    ensures
        chunks_size(*final(c)) == chunks_size(*old(c)),
        chunks_rem(*old(c)).len() == 0 ==> r is None && chunks_rem(*final(c)) == chunks_rem(*old(c)),
        chunks_rem(*old(c)).len() > 0 ==> r is Some
            && r->Some_0@ == chunks_rem(*old(c)).take(chunk_take(*old(c)))
            && chunks_rem(*final(c)) == chunks_rem(*old(c)).skip(chunk_take(*old(c)));

/// [MS-XLS] 2.4.175 MulRk: rw (2), colFirst (2), rgrkrec: (colLast - colFirst + 1) RkRec of 6 bytes (ixfe 2, RK 4), colLast (2)
pub open spec fn mulrk_row(r: Seq<u8>) -> int { u16_at(r, 0) }
pub open spec fn mulrk_col_first(r: Seq<u8>) -> int { u16_at(r, 2) }
pub open spec fn mulrk_col_last(r: Seq<u8>) -> int { u16_at(r, r.len() - 2) }
pub open spec fn mulrk_n(r: Seq<u8>) -> int { mulrk_col_last(r) - mulrk_col_first(r) + 1 }
/// well-formed: colFirst <= colLast and the column span matches the number of RkRec present
pub open spec fn mulrk_wf(r: Seq<u8>) -> bool {
    r.len() >= 6 && mulrk_col_first(r) <= mulrk_col_last(r) && r.len() == 6 + 6 * mulrk_n(r)
}
/// the k-th cell of the run: position (rw, colFirst + k), value = RkRec k (at 4 + 6k: ixfe, then the RK number)
pub open spec fn mulrk_cell_ok(r: Seq<u8>, formats: Seq<CellFormat>, is_1904: bool, k: int, c: Cell<Data>) -> bool {
    c.p() == (mulrk_row(r) as u32, (mulrk_col_first(r) + k) as u32)
    && c.v() == rk_value(r.subrange(6 + 6 * k, 10 + 6 * k), fmt_at(formats, u16_at(r, 4 + 6 * k)), is_1904)
}

//@@ fn src/xls.rs parse_mul_rk props=C02,C10,C16,C11 entry ret=res
//@@ r6 0
//@@ sig
    ensures
        //# C02.mulrk_len_guard
        r@.len() < 6 ==> is_len_err(res, 6, r@.len() as int),
        //# C02.mulrk_err_frame
        res is Err ==> final(cells)@ == old(cells)@,
        //# C02.mulrk_err_iff_malformed
        res is Err <==> !mulrk_wf(r@),
        //# C02.mulrk_reversed_span_rejected
        r@.len() >= 6 && mulrk_col_last(r@) < mulrk_col_first(r@) ==> is_len_err(res, 12, r@.len() as int),
        //# C02.mulrk_span_mismatch_rejected
        r@.len() >= 6 && mulrk_col_first(r@) <= mulrk_col_last(r@) && r@.len() != 6 + 6 * mulrk_n(r@) ==>
            is_len_err(res, 6 + 6 * mulrk_n(r@), r@.len() as int),
        //# C02.mulrk_count
        mulrk_wf(r@) ==> final(cells)@.len() == old(cells)@.len() + mulrk_n(r@),
        //# C02.mulrk_frame
        mulrk_wf(r@) ==> final(cells)@.subrange(0, old(cells)@.len() as int) == old(cells)@,
        //# C02,C10,C16,C11.mulrk_cells
        mulrk_wf(r@) ==> forall|k: int| 0 <= k < mulrk_n(r@) ==>
            mulrk_cell_ok(r@, formats@, is_1904, k, #[trigger] final(cells)@[old(cells)@.len() + k]),
//@@ body
    let ghost c0 = cells@;
    let ghost mut k: int = 0;
    proof { if r@.len() >= 6 { lemma_le_at(r@, 0); lemma_le_at(r@, 2); lemma_le_at(r@, r@.len() - 2); assert(r@.subrange(0, r@.len() as int) =~= r@); } }
//@@ loop 0
        invariant
            r@.len() >= 6,
            chunks_size(__it0) == 6,
            row == mulrk_row(r@), col_first == mulrk_col_first(r@), col_last == mulrk_col_last(r@),
            col_first <= col_last, r@.len() == 6 + 6 * mulrk_n(r@), mulrk_n(r@) <= 65536,
            0 <= k <= mulrk_n(r@),
            col == col_first + k,
            chunks_rem(__it0) =~= r@.subrange(4 + 6 * k, r@.len() - 2),
            cells@.len() == c0.len() + k,
            cells@.subrange(0, c0.len() as int) =~= c0,
            //# C02,C10,C16,C11.mulrk_cells
            forall|j: int| 0 <= j < k ==> mulrk_cell_ok(r@, formats@, is_1904, j, #[trigger] cells@[c0.len() + j]),
        ensures
            k == mulrk_n(r@),
        decreases chunks_rem(__it0).len(),
//@@ before /cells\.push\(/
        proof {
            assert(k < mulrk_n(r@));
            assert(chunks_rem(__it0) =~= r@.subrange(4 + 6 * k + 6, r@.len() - 2));
            assert(rk@ =~= r@.subrange(4 + 6 * k, 10 + 6 * k));
            assert(rk@.subrange(2, 6) =~= r@.subrange(6 + 6 * k, 10 + 6 * k));
            assert(u16_at(rk@, 0) == u16_at(r@, 4 + 6 * k));
        }
//@@ after /cells\.push\([^;]*;/
        proof {
            assert(cells@.subrange(0, c0.len() as int) =~= c0);
            k = k + 1;
        }
//@@ end

// =====================================================================================================
// Record framing ([MS-XLS] 2.1.4): record = type (2 bytes), size (2 bytes), data (size bytes); 0x003C Continue records extend a record
// =====================================================================================================
/// the bytes of one record on the stream
pub open spec fn frame(typ: int, d: Seq<u8>) -> Seq<u8> {
    seq![(typ % 256) as u8, (typ / 256) as u8, (d.len() % 256) as u8, (d.len() / 256) as u8] + d
}
/// the bytes of a run of Continue records carrying the chunks `c` in order
pub open spec fn cont_frames(c: Seq<&[u8]>) -> Seq<u8>
    decreases c.len()
{
    if c.len() == 0 { Seq::<u8>::empty() } else { cont_frames(c.drop_last()) + frame(0x3C, c.last()@) }
}
impl<'a> RecordIter<'a> {
    pub closed spec fn s(&self) -> Seq<u8> { self.stream@ }
}
impl<'a> Record<'a> {
    pub closed spec fn t(&self) -> int { self.typ as int }
    pub closed spec fn d(&self) -> Seq<u8> { self.data@ }
    pub closed spec fn c(&self) -> Seq<&[u8]> { conts(*self) }
    pub closed spec fn has_cont(&self) -> bool { self.cont is Some }
}
spec fn conts(rec: Record) -> Seq<&[u8]> { match rec.cont { Some(v) => v@, None => Seq::<&[u8]>::empty() } }
/// stream position is at a Continue record header with at least one byte behind it.
/// (A stream that *ends* in a bare 4-byte zero-length Continue header is not attached by the code; a BIFF substream is closed by an EOF record
/// (type 0x000A, 2.4.103), so this cannot occur in a well-formed workbook and makes no observable difference to any cell.)
pub open spec fn at_continue(s: Seq<u8>) -> bool { s.len() > 4 && u16_at(s, 0) == 0x3C }

/// payload still ahead in a record: the current chunk followed by the pending Continue chunks
pub open spec fn flat(c: Seq<&[u8]>) -> Seq<u8>
    decreases c.len()
{
    if c.len() == 0 { Seq::<u8>::empty() } else { c[0]@ + flat(c.skip(1)) }
}
spec fn rest(rec: Record) -> Seq<u8> { rec.data@ + flat(conts(rec)) }
spec fn rest_len(rec: Record) -> int { rest(rec).len() as int }
proof fn lemma_rest(rec: Record)
    ensures
        conts(rec).len() > 0 ==> flat(conts(rec)) == conts(rec)[0]@ + flat(conts(rec).skip(1)),
        conts(rec).len() == 0 ==> flat(conts(rec)) =~= Seq::<u8>::empty(),
{
}

proof fn lemma_rest_continue(s1: Record, s2: Record)
    requires s1.data@.len() == 0, conts(s1).len() > 0, s2.data == conts(s1)[0], conts(s2) == conts(s1).skip(1),
    ensures rest(s2) == rest(s1),
{
    assert(flat(conts(s1)) == conts(s1)[0]@ + flat(conts(s1).skip(1)));
    assert(rest(s1) =~= flat(conts(s1)));
}
proof fn lemma_rest_split(s2: Record, s3: Record, l: int, base: Seq<u8>, a: int)
    requires 0 <= l <= s2.data@.len(), s3.data@ == s2.data@.skip(l), conts(s3) == conts(s2), 0 <= a, a + l <= base.len(), rest(s2) == base.skip(a),
    ensures rest(s3) == base.skip(a + l),
{
    assert(rest(s3) =~= rest(s2).skip(l));
    assert(base.skip(a).skip(l) =~= base.skip(a + l));
}

// TRUSTED: std::cmp::min on usize returns the smaller argument (core::cmp documentation)
pub uninterp spec fn min_spec<T>(a: T, b: T) -> T;
pub assume_specification<T: Ord>[ std::cmp::min::<T> ](a: T, b: T) -> (r: T)
    ensures r == min_spec(a, b);
// TRUSTED: ... instantiated at usize
#[verifier::external_body]
pub proof fn axiom_min_usize(a: usize, b: usize)
    ensures min_spec::<usize>(a, b) == (if a <= b { a } else { b }),
{}

proof fn lemma_frame_split(s: Seq<u8>)
    requires s.len() >= 4, s.len() >= 4 + u16_at(s, 2),
    ensures s =~= frame(u16_at(s, 0), s.subrange(4, 4 + u16_at(s, 2))) + s.subrange(4 + u16_at(s, 2), s.len() as int),
{
    let t = u16_at(s, 0); let l = u16_at(s, 2);
    assert(t % 256 == s[0] as int && t / 256 == s[1] as int);
    assert(l % 256 == s[2] as int && l / 256 == s[3] as int);
}

//@@ impl src/xls.rs Record
//@@ fn src/xls.rs Record::continue_record props=C02,C12,C19 ret=b
//@@ sig
    ensures
        //# C02.continue_next_chunk
        conts(*old(self)).len() > 0 ==> b && final(self).data == conts(*old(self))[0] && conts(*final(self)) == conts(*old(self)).skip(1)
            && final(self).cont is Some,
        //# C02.continue_exhausted
        conts(*old(self)).len() == 0 ==> !b && *final(self) == *old(self),
        //# C02.continue_typ_frame
        final(self).typ == old(self).typ,
//@@ end
//@@ fn src/xls.rs Record::skip props=C02 entry ret=res
//@@ sig
    ensures
        //# C02.skip_ok_iff_enough
        res is Ok <==> len <= rest_len(*old(self)),
        //# C02.skip_err_kind
        res is Err ==> res matches Err(XlsError::ContinueRecordTooShort),
        //# C02.skip_advances
        res is Ok ==> rest(*final(self)) == rest(*old(self)).skip(len as int),
        //# C02.skip_typ_frame
        final(self).typ == old(self).typ,
//@@ body
    let ghost len0 = len as int;
    let ghost me0 = *self;
    let ghost base = rest(me0);
    proof { assert(base.skip(0) =~= base); }
//@@ before /while len/
    #[verifier::loop_isolation(false)]
//@@ loop 0
        invariant
            self.typ == me0.typ,
            0 <= len <= len0,
            len0 - len <= base.len(),
            rest(*self) == base.skip(len0 - len),
        decreases len, conts(*self).len(),
//@@ before /if self\.data\./
            let ghost s1 = *self;
//@@ before /let l = /
            let ghost s2 = *self;
            proof {
                if s1.data@.len() == 0 { lemma_rest_continue(s1, s2); } else { assert(s2 == s1); }
            }
//@@ after /let l = [^;]*;/
            proof { axiom_min_usize(len, self.data@.len() as usize); }
//@@ after /len -= l;/
            proof {
                assert(self.data@ =~= s2.data@.skip(l as int));
                assert(conts(*self) == conts(s2));
                assert(rest(s2).len() == base.len() - (len0 - (len + l)));
                lemma_rest_split(s2, *self, l as int, base, len0 - (len + l));
            }
//@@ end
//@@ endimpl

pub open spec fn is_eostream<T>(r: Option<Result<T, XlsError>>) -> bool { r matches Some(Err(XlsError::EoStream(_))) }

proof fn lemma_cont_frames_push(c: Seq<&[u8]>, d: &[u8])
    ensures cont_frames(c.push(d)) == cont_frames(c) + frame(0x3C, d@),
{
    assert(c.push(d).drop_last() =~= c);
    assert(c.push(d).last() == d);
}

// RecordIter makes no claim to vstd's prophetic-iterator laws (obeys = false, the other members are then irrelevant);
// what it does is stated by the ensures of `next` below.
impl<'a> vstd::std_specs::iter::IteratorSpecImpl for RecordIter<'a> {
    open spec fn obeys_prophetic_iter_laws(&self) -> bool { false }
    open spec fn remaining(&self) -> Seq<Result<Record<'a>, XlsError>> { Seq::empty() }
    open spec fn will_return_none(&self) -> bool { false }
    open spec fn decrease(&self) -> Option<nat> { None }
    open spec fn peek(&self, i: int) -> Option<Result<Record<'a>, XlsError>> { None }
}
proof fn lemma_next_step(s0: Seq<u8>, pre: Seq<u8>, c0: Seq<&[u8]>, st: Seq<u8>, chunk: &[u8], tail: Seq<u8>)
    requires
        s0 == pre + cont_frames(c0) + st,
        st.len() >= 4, u16_at(st, 0) == 0x3C, st.len() >= 4 + u16_at(st, 2),
        chunk@ == st.subrange(4, 4 + u16_at(st, 2)),
        tail == st.subrange(4 + u16_at(st, 2), st.len() as int),
    ensures
        s0 == pre + cont_frames(c0.push(chunk)) + tail,
{
    lemma_frame_split(st);
    lemma_cont_frames_push(c0, chunk);
    assert(pre + cont_frames(c0) + (frame(0x3C, chunk@) + tail) =~= pre + (cont_frames(c0) + frame(0x3C, chunk@)) + tail);
}

//@@ impl src/xls.rs "Iterator for RecordIter<'a>"
//@@ item src/xls.rs impl_type "Iterator for RecordIter<'a>::type Item"
//@@ fn src/xls.rs "Iterator for RecordIter<'a>::next" props=C02,C12 entry ret=res
//@@ sig
    ensures
        //# C02.next_none_iff_empty
        res is None <==> old(self).s().len() == 0,
        //# C02.next_none_frame
        res is None ==> final(self).s() == old(self).s(),
        //# C02.next_truncated_header
        0 < old(self).s().len() < 4 ==> is_eostream(res),
        //# C02.next_truncated_body
        old(self).s().len() >= 4 && old(self).s().len() < 4 + u16_at(old(self).s(), 2) ==> is_eostream(res),
        //# C02.next_err_is_eostream
        res matches Some(Err(_)) ==> is_eostream(res),
        //# C02.next_err_only_if_truncated
        res matches Some(Err(_)) ==> old(self).s().len() < 4 || old(self).s().len() < 4 + u16_at(old(self).s(), 2)
            || (at_continue(final(self).s()) && final(self).s().len() < 4 + u16_at(final(self).s(), 2)),
        //# C02.next_typ
        res matches Some(Ok(rec)) ==> rec.t() == u16_at(old(self).s(), 0),
        //# C02.next_data
        res matches Some(Ok(rec)) ==> rec.d() == old(self).s().subrange(4, 4 + u16_at(old(self).s(), 2)),
        //# C02,C12.next_framing
        res matches Some(Ok(rec)) ==> old(self).s() == frame(rec.t(), rec.d()) + cont_frames(rec.c()) + final(self).s(),
        //# C02,C12.next_cont_maximal
        res matches Some(Ok(rec)) ==> !at_continue(final(self).s()),
        //# C02,C12.next_cont_none_iff_no_continue
        res matches Some(Ok(rec)) ==> (!rec.has_cont() <==> rec.c().len() == 0),
        //# C02.next_progress
        res is Some ==> final(self).s().len() <= old(self).s().len()
            && (res matches Some(Ok(_)) ==> final(self).s().len() + 4 <= old(self).s().len()),
//@@ body
    let ghost s0 = self.stream@;
    proof { lemma_le_at(s0, 0); lemma_le_at(s0, 2); assert(s0.subrange(0, s0.len() as int) =~= s0); }
//@@ after /let d = [^;]*;/
    proof {
        lemma_frame_split(s0);
        assert(d@ =~= s0.subrange(4, 4 + u16_at(s0, 2)));
        assert(next@ =~= s0.subrange(4 + u16_at(s0, 2), s0.len() as int));
        assert(cont_frames(Seq::<&[u8]>::empty()) =~= Seq::<u8>::empty());
        assert(s0 =~= frame(t as int, d@) + cont_frames(Seq::<&[u8]>::empty()) + next@);
    }
//@@ before /while self\.stream/
            #[verifier::loop_isolation(false)]
//@@ loop 0
                invariant
                    s0 == frame(t as int, d@) + cont_frames(cont@) + self.stream@,
                    self.stream@.len() <= next@.len(),
                    cont@.len() == 0 ==> self.stream@ == next@,
                decreases self.stream@.len(),
//@@ before /len = read_u16/#1of2
                let ghost st = self.stream@;
                let ghost c0 = cont@;
                proof { lemma_le_at(st, 0); lemma_le_at(st, 2); }
//@@ after /cont\.push\([^;]*;/
                proof {
                    let chunk = cont@.last();
                    assert(cont@ == c0.push(chunk));
                    assert(chunk@ =~= st.subrange(4, 4 + u16_at(st, 2)));
                    assert(sp.1@ =~= st.subrange(4 + u16_at(st, 2), st.len() as int));
                    lemma_next_step(s0, frame(t as int, d@), c0, st, chunk, sp.1@);
                }
//@@ end
//@@ endimpl

// =====================================================================================================
// C16: BOF and BoundSheet8
// =====================================================================================================
/// [MS-XLS] 2.4.21 BOF: vers (2 bytes) -- 0x0600 for BIFF8; 0x0500 BIFF5; older writers: 0x0400 / 0x0300 / 0x0200 (also 0x0002, 0x0007);
/// dt (2 bytes). vers == 0 is settled by dt (0x1000 = BIFF5 workspace file), anything else is read as BIFF8.
spec fn bof_biff(d: Seq<u8>) -> Biff {
    let vers = u16_at(d, 0);
    let dt = if d.len() >= 4 { u16_at(d, 2) } else { 0 };
    if vers == 0x0600 { Biff::Biff8 }
    else if vers == 0x0500 { Biff::Biff5 }
    else if vers == 0x0400 { Biff::Biff4 }
    else if vers == 0x0300 { Biff::Biff3 }
    else if vers == 0x0200 || vers == 0x0002 || vers == 0x0007 { Biff::Biff2 }
    else if vers == 0 && dt == 0x1000 { Biff::Biff5 }
    else { Biff::Biff8 }
}

//@@ fn src/xls.rs parse_bof props=C16 entry ret=res
//@@ sig
    ensures
        //# C16.bof_len_guard
        old(r).data@.len() < 2 <==> res is Err,
        //# C16.bof_len_err
        old(r).data@.len() < 2 ==> is_len_err(res, 2, old(r).data@.len() as int),
        //# C16.bof_version
        old(r).data@.len() >= 2 ==> res is Ok && res->Ok_0.biff == bof_biff(old(r).data@),
        //# C16.bof_record_frame
        *final(r) == *old(r),
//@@ body
    proof {
        let d = old(r).data@;
        if d.len() >= 2 { assert(d.subrange(0, 2)[0] == d[0] && d.subrange(0, 2)[1] == d[1]); }
        if d.len() >= 4 { lemma_le_at(d, 2); }
    }
//@@ end

/// [MS-XLS] 2.4.28 BoundSheet8: lbPlyPos (4 bytes): stream position of the sheet's BOF; hsState (2 bits) + unused (6 bits, MUST be ignored);
/// dt (1 byte); stName (ShortXLUnicodeString)
pub open spec fn bs8_pos(d: Seq<u8>) -> int { u32_at(d, 0) }
pub open spec fn bs8_hs_state(d: Seq<u8>) -> u8 { d[4] & 0x03 }
pub open spec fn bs8_dt(d: Seq<u8>) -> u8 { d[5] }
/// hsState: 0 visible, 1 hidden, 2 very hidden (3 is undefined)
pub open spec fn vis_of(hs: u8) -> Option<SheetVisible> {
    if hs == 0 { Some(SheetVisible::Visible) } else if hs == 1 { Some(SheetVisible::Hidden) } else if hs == 2 { Some(SheetVisible::VeryHidden) } else { None }
}
/// dt: 0 worksheet or dialog sheet, 1 macro sheet, 2 chart sheet, 6 VBA module
pub open spec fn kind_of(dt: u8) -> Option<SheetType> {
    if dt == 0 { Some(SheetType::WorkSheet) } else if dt == 1 { Some(SheetType::MacroSheet) } else if dt == 2 { Some(SheetType::ChartSheet) }
    else if dt == 6 { Some(SheetType::Vba) } else { None }
}

/// [MS-XLS] 2.5.240 ShortXLUnicodeString: cch (1 byte), then in BIFF8 a flags byte whose bit 0 is fHighByte, then the characters;
/// BIFF5 and older have no flags byte
pub open spec fn short_string_chars(d: Seq<u8>, encoding: XlsEncoding, biff: Biff) -> Seq<char> {
    if biff is Biff8 { decoded_chars(encoding, d.skip(2), d[0] as int, Some(d[1] & 1 != 0)) }
    else { decoded_chars(encoding, d.skip(1), d[0] as int, None) }
}

//@@ fn src/xls.rs parse_short_string props=C16 entry ret=res
//@@ sig
    ensures
        //# C16.short_string_len_guard
        old(r).data@.len() < 2 <==> res is Err,
        //# C16.short_string_len_err
        old(r).data@.len() < 2 ==> is_len_err(res, 2, old(r).data@.len() as int),
        //# C16.short_string_value
        res is Ok ==> res->Ok_0@ == short_string_chars(old(r).data@, *encoding, biff),
        //# C16.short_string_record_frame
        final(r).typ == old(r).typ && final(r).cont == old(r).cont,
//@@ body
    let ghost d0 = r.data@;
//@@ before /let mut s = /
    proof {
        if biff is Biff8 { assert(r.data@ =~= d0.skip(2)); } else { assert(r.data@ =~= d0.skip(1)); }
    }
//@@ end

// TRUSTED: String::with_capacity returns an empty string (alloc::string documentation; capacity is not observable)
pub assume_specification[ String::with_capacity ](n: usize) -> (r: String)
    ensures r@ == Seq::<char>::empty();
// TRUSTED: String::retain keeps exactly the chars for which the predicate returns true, in order (alloc::string documentation)
pub assume_specification<F: FnMut(char) -> bool>[ String::retain::<F> ](s: &mut String, f: F)
    requires forall|c: char| call_requires(f, (c,)),
    ensures forall|p: spec_fn(char) -> bool| (forall|c: char, k: bool| call_ensures(f, (c,), k) ==> k == p(c)) ==> final(s)@ == #[trigger] old(s)@.filter(p);

pub open spec fn not_nul(c: char) -> bool { c != '\0' }

//@@ fn src/xls.rs parse_sheet_metadata props=C16 entry ret=res
//@@ sig
    ensures
        //# C16.sheet_position
        res is Ok ==> res->Ok_0.0 as int == bs8_pos(old(r).data@),
        //# C16.sheet_visibility
        res is Ok ==> vis_of(bs8_hs_state(old(r).data@)) == Some(res->Ok_0.1.visible),
        //# C16.sheet_kind
        res is Ok ==> kind_of(bs8_dt(old(r).data@)) == Some(res->Ok_0.1.typ),
        //# C16.sheet_name
        res is Ok ==> res->Ok_0.1.name@ == short_string_chars(old(r).data@.skip(6), *encoding, biff).filter(|c: char| not_nul(c)),
        //# C16.sheet_len_guard
        old(r).data@.len() < 6 ==> is_len_err(res, 6, old(r).data@.len() as int),
        //# C16.sheet_undefined_state_or_kind_rejected
        old(r).data@.len() >= 6 && (vis_of(bs8_hs_state(old(r).data@)) is None || kind_of(bs8_dt(old(r).data@)) is None) ==> res is Err,
        //# C16.sheet_hsstate_unused_bits_ignored
        res is Ok <==> old(r).data@.len() >= 8 && vis_of(bs8_hs_state(old(r).data@)) is Some && kind_of(bs8_dt(old(r).data@)) is Some,
//@@ body
    let ghost d0 = r.data@;
    proof { if d0.len() >= 4 { lemma_le_at(d0, 0); assert(d0.subrange(0, d0.len() as int) =~= d0); } }
//@@ before /name\.retain/
    let ghost name0 = name@;
//@@ replace /name\.retain\(\|c\|([^;]*)\);/ closure annotated with its own (Verus-checked) ensures so that the retain contract can see which chars are kept; the predicate text is re-inserted verbatim
name.retain(|c: char| -> (keep: bool) ensures keep == not_nul(c) {\g<1> });
//@@ before /Ok\(\(pos, /
    proof { assert(name@ == name0.filter(|c: char| not_nul(c))); }
//@@ end

// =====================================================================================================
// Label (BIFF5-style inline string cell)
// =====================================================================================================
/// [MS-XLS] 2.5.294 XLUnicodeString: cch (2 bytes), then in BIFF8 a flags byte whose bit 0 is fHighByte, then the characters
/// bytes in front of the characters: cch (2), plus the flags byte in BIFF8
pub open spec fn xl_string_header_len(biff: Biff) -> int { if biff is Biff8 { 3 } else { 2 } }
pub open spec fn xl_string_chars(d: Seq<u8>, encoding: XlsEncoding, biff: Biff) -> Seq<char> {
    if biff is Biff8 { decoded_chars(encoding, d.skip(3), u16_at(d, 0), Some(d[2] & 1 != 0)) }
    else { decoded_chars(encoding, d.skip(2), u16_at(d, 0), None) }
}

//@@ fn src/xls.rs parse_string props=C02 entry ret=res
//@@ sig
    ensures
        //# C02.string_len_guard
        r@.len() < xl_string_header_len(biff) <==> res is Err,
        //# C02.string_len_err
        r@.len() < xl_string_header_len(biff) ==> is_len_err(res, xl_string_header_len(biff), r@.len() as int),
        //# C02.string_value
        res is Ok ==> res->Ok_0@ == xl_string_chars(r@, *encoding, biff),
//@@ body
    proof { lemma_le_at(r@, 0); assert(r@.subrange(0, r@.len() as int) =~= r@); }
//@@ before /let mut s = /
    proof { assert(r@.subrange(start as int, r@.len() as int) =~= r@.skip(start as int)); }
//@@ end

//@@ fn src/xls.rs parse_label props=C02 entry ret=res
//@@ sig
    ensures
        //# C02.label_len_guard
        r@.len() < 6 + xl_string_header_len(biff) <==> res is Err,
        //# C02.label_len_err
        r@.len() < 6 ==> is_len_err(res, 6, r@.len() as int),
        //# C02.label_pos
        res is Ok ==> res->Ok_0 is Some && res->Ok_0->Some_0.p() == cell_pos(r@),
        //# C02.label_value
        res is Ok ==> res->Ok_0 is Some && res->Ok_0->Some_0.v() is String
            && res->Ok_0->Some_0.v()->String_0@ == xl_string_chars(r@.skip(6), *encoding, biff),
//@@ body
    proof {
        lemma_le_at(r@, 0); lemma_le_at(r@, 2); lemma_le_at(r@, 4); assert(r@.subrange(0, r@.len() as int) =~= r@);
        assert(r@.subrange(6, r@.len() as int) =~= r@.skip(6));
    }
//@@ end

// ---- witnesses: every `requires` of this unit is satisfiable
proof fn witness_rk_num() {
    let rk = seq![0u8, 0u8, 0u8, 0u8, 0xF0u8, 0x3Fu8];
    assert(rk.len() == 6);
}

} // verus!
fn main() {}
