//@@ unit props=C12,C19,C06,C10,C14,C16,C02
// Unit xlsstr: BIFF string readers of src/xls.rs across CONTINUE records (verbatim text).
#![allow(unused_imports, dead_code, unused_variables, unused_mut, unused_assignments, unexpected_cfgs)]
use vstd::prelude::*;
use std::cmp::min;
use std::borrow::Cow;

// TRUSTED: A-enc. ---- stand-in for the foreign crate encoding_rs (outside verus!: never verified, never given a body; only so that the verbatim
// text of XlsEncoding::{high_byte, decode_to} type-checks). Everything about it is assumed (A-enc), see `decode` below.
pub struct Encoding { _opaque: u8 }
impl PartialEq for Encoding { fn eq(&self, _o: &Encoding) -> bool { unimplemented!() } }
static UTF_8_INIT: Encoding = Encoding { _opaque: 0 };
pub static UTF_8: &'static Encoding = &UTF_8_INIT;
impl Encoding {
    pub fn decode<'a>(&'static self, _bytes: &'a [u8]) -> (Cow<'a, str>, &'static Encoding, bool) { unimplemented!() }
    pub fn decode_without_bom_handling<'a>(&'static self, _bytes: &'a [u8]) -> (Cow<'a, str>, bool) { unimplemented!() }
    pub fn is_single_byte(&'static self) -> bool { unimplemented!() }
}

verus! {

// TRUSTED: the verified configuration is a 64-bit target (rustc checks this declaration against the real layout when the file is compiled)
global size_of usize == 8;

// ---- stand-ins for foreign error payload types (opaque; never inspected by the verified code)
pub mod cfb { pub struct CfbError; }
pub mod vba { pub struct VbaError; }
#[verifier::external_type_specification] #[verifier::external_body] pub struct ExIoError(std::io::Error);

// TRUSTED: opaque foreign types (error payload, encoding table): never inspected by the verified code
#[verifier::external_type_specification] #[verifier::external_body] pub struct ExEncoding(Encoding);

//@@ item src/xls.rs enum XlsError cfg_off=picture
//@@ item src/cfb.rs struct XlsEncoding
//@@ item src/xls.rs struct Record
//@@ item src/xls.rs enum Biff keep_attrs
//@@ item src/lib.rs enum CellErrorType keep_attrs
//@@ item src/lib.rs trait "trait CellType"
//@@ item src/lib.rs struct Cell
//@@ item src/datatype.rs enum ExcelDateTimeType keep_attrs
//@@ item src/datatype.rs struct ExcelDateTime keep_attrs
//@@ item src/datatype.rs enum Data keep_attrs
//@@ item src/formats.rs enum CellFormat keep_attrs
impl CellType for Data {}
// spec-level access to the private fields of Cell
impl<T: CellType> Cell<T> {
    pub closed spec fn p(&self) -> (u32, u32) { self.pos }
    pub closed spec fn v(&self) -> T { self.val }
}

//@@ include common/bytes.rs

// TRUSTED: documented behaviour of std::cmp::min (generic over Ord; the only instantiation used is usize, whose order is the integer order)
pub mod stdax {
    use vstd::prelude::*;
    pub uninterp spec fn min_spec<T>(a: T, b: T) -> T;
    #[verifier::external_body]
    pub broadcast proof fn axiom_min_usize(a: usize, b: usize)
        ensures #[trigger] min_spec(a, b) == (if a <= b { a } else { b }),
    {}
}
pub assume_specification<T: Ord>[ std::cmp::min::<T> ](a: T, b: T) -> (r: T)
    ensures r == stdax::min_spec(a, b);
broadcast use stdax::axiom_min_usize;

// TRUSTED: documented behaviour of String::with_capacity (an empty string; the capacity is only a reservation)
pub assume_specification[ String::with_capacity ](n: usize) -> (r: String)
    ensures r@ == Seq::<char>::empty();

// =====================================================================================================
// Ghost model of a record with its CONTINUE records ([MS-XLS] 2.4.58)
// =====================================================================================================
/// the continuation fragments still unread
pub open spec fn cont_seq(c: Option<Vec<&[u8]>>) -> Seq<Seq<u8>> {
    match c { Some(v) => Seq::new(v@.len(), |i: int| v@[i]@), None => Seq::<Seq<u8>>::empty() }
}
/// cursor = unread rest of the current fragment, followed by the fragments not yet entered
spec fn frags(r: Record) -> Seq<Seq<u8>> { seq![r.data@] + cont_seq(r.cont) }

/// number of bytes left from the cursor to the end of the last fragment
pub open spec fn total(f: Seq<Seq<u8>>) -> nat
    decreases f.len()
{
    if f.len() == 0 { 0 } else { f[0].len() + total(f.drop_first()) }
}
/// the bytes left, fragment structure forgotten
pub open spec fn flat(f: Seq<Seq<u8>>) -> Seq<u8>
    decreases f.len()
{
    if f.len() == 0 { Seq::<u8>::empty() } else { f[0] + flat(f.drop_first()) }
}

/// cursor after entering the next fragment (the unread rest of the current one is abandoned)
pub open spec fn next_frag(f: Seq<Seq<u8>>) -> Seq<Seq<u8>> { f.drop_first() }
/// cursor after consuming k bytes of the current fragment
pub open spec fn adv(f: Seq<Seq<u8>>, k: int) -> Seq<Seq<u8>> { f.update(0, f[0].subrange(k, f[0].len() as int)) }

/// [MS-XLS] 2.4.58: uninterpreted data (rgRun, ExtRst) crosses into the following CONTINUE records *without* any marker byte.
/// `skip_spec(f, n)` = the cursor resting right after the n-th next byte, inside the fragment that holds that byte; None when fewer
/// than n bytes are left.
pub open spec fn skip_spec(f: Seq<Seq<u8>>, n: nat) -> Option<Seq<Seq<u8>>>
    decreases f.len(), n
{
    if n == 0 { Some(f) }
    else if f.len() == 0 { None }
    else if f[0].len() == 0 { if f.len() == 1 { None } else { skip_spec(next_frag(f), n) } }
    else if n <= f[0].len() { Some(adv(f, n as int)) }
    else { skip_spec(adv(f, f[0].len() as int), (n - f[0].len()) as nat) }
}

//@@ props C12
/// skip_spec is defined iff n bytes are left; afterwards n bytes fewer are left
proof fn lemma_skip_spec_total(f: Seq<Seq<u8>>, n: nat)
    requires f.len() >= 1,
    ensures
        skip_spec(f, n) is Some <==> n <= total(f),
        skip_spec(f, n) is Some ==> total(skip_spec(f, n)->Some_0) == total(f) - n && skip_spec(f, n)->Some_0.len() >= 1,
    decreases f.len(), n
{
    lemma_total_unfold(f);
    if n == 0 {
    } else if f[0].len() == 0 {
        if f.len() > 1 { lemma_skip_spec_total(next_frag(f), n); }
    } else if n <= f[0].len() {
        let g = adv(f, n as int);
        assert(g.drop_first() =~= f.drop_first());
        lemma_total_unfold(g);
    } else {
        let g = adv(f, f[0].len() as int);
        assert(g.drop_first() =~= f.drop_first());
        assert(g[0].len() == 0);
        lemma_total_unfold(g);
        lemma_skip_spec_total(g, (n - f[0].len()) as nat);
    }
}
proof fn lemma_flat_unfold(f: Seq<Seq<u8>>)
    requires f.len() >= 1,
    ensures flat(f) == f[0] + flat(f.drop_first()),
{
}
/// what skip_spec means without reference to the fragments: exactly the next n bytes are gone (none is looked at)
proof fn lemma_skip_spec_flat(f: Seq<Seq<u8>>, n: nat)
    requires f.len() >= 1,
    ensures
        skip_spec(f, n) is Some ==> flat(skip_spec(f, n)->Some_0) == flat(f).skip(n as int),
        flat(f).len() == total(f),
    decreases f.len(), n
{
    lemma_flat_len(f);
    lemma_flat_unfold(f);
    lemma_skip_spec_total(f, n);
    if n == 0 {
        assert(flat(f).skip(0) =~= flat(f));
    } else if f[0].len() == 0 {
        if f.len() > 1 {
            lemma_skip_spec_flat(next_frag(f), n);
            assert(f[0] + flat(f.drop_first()) =~= flat(f.drop_first()));
        }
    } else if n <= f[0].len() {
        let g = adv(f, n as int);
        assert(g.drop_first() =~= f.drop_first());
        lemma_flat_unfold(g);
        assert(g[0] + flat(f.drop_first()) =~= (f[0] + flat(f.drop_first())).skip(n as int));
    } else {
        let k = f[0].len() as int;
        let g = adv(f, k);
        assert(g.drop_first() =~= f.drop_first());
        lemma_flat_unfold(g);
        assert(g[0] =~= Seq::<u8>::empty());
        assert(flat(g) =~= flat(f.drop_first()));
        assert(flat(g) =~= (f[0] + flat(f.drop_first())).skip(k));
        lemma_skip_spec_flat(g, (n - k) as nat);
        lemma_skip_spec_total(g, (n - k) as nat);
        lemma_flat_len(g);
        if skip_spec(f, n) is Some {
            assert(flat(f).skip(k).skip(n - k) =~= flat(f).skip(n as int));
        }
    }
}
proof fn lemma_total_unfold(f: Seq<Seq<u8>>)
    requires f.len() >= 1,
    ensures total(f) == f[0].len() + total(f.drop_first()), f.len() == 1 ==> total(f) == f[0].len(),
{
    if f.len() == 1 { assert(total(f.drop_first()) == 0); }
}
proof fn lemma_flat_len(f: Seq<Seq<u8>>)
    ensures flat(f).len() == total(f),
    decreases f.len()
{
    if f.len() > 0 { lemma_flat_len(f.drop_first()); }
}


// =====================================================================================================
// A-enc: the character decoder (encoding_rs, outside the verifier)
// =====================================================================================================
// TRUSTED: A-enc. `decode(e, bytes)` is the text `encoding_rs::Encoding::decode_without_bom_handling(bytes).0` of the workbook's
// code page `e` (malformed sequences replaced by U+FFFD; no byte order mark sniffing)
pub uninterp spec fn decode(e: XlsEncoding, bytes: Seq<u8>) -> Seq<char>;
// TRUSTED: A-enc. `decode_bom(e, bytes)` is the text `encoding_rs::Encoding::decode(bytes).0` (with BOM sniffing), used by decode_all only
pub uninterp spec fn decode_bom(e: XlsEncoding, bytes: Seq<u8>) -> Seq<char>;
// TRUSTED: A-enc. true when the code page is neither UTF-8 nor single-byte (then strings without flag byte are treated as compressed 16-bit)
pub uninterp spec fn enc_default_wide(e: XlsEncoding) -> bool;

/// storage form actually used: an explicit fHighByte flag wins; without flag (BIFF5-) the code page decides
pub open spec fn eff_hb(e: XlsEncoding, hb: Option<bool>) -> Option<bool> {
    match hb { Some(b) => Some(b), None => if enc_default_wide(e) { Some(false) } else { None } }
}
/// [MS-XLS] 2.5.293 fHighByte == 0: "all the characters in the string have a high byte of 0x00 and only the low bytes are in rgb":
/// the 16-bit little-endian form of compressed character data
pub open spec fn zext(b: Seq<u8>) -> Seq<u8> { Seq::new(2 * b.len(), |i: int| if i % 2 == 0 { b[i / 2] } else { 0u8 }) }
pub open spec fn imin(a: int, b: int) -> int { if a <= b { a } else { b } }
/// number of characters that `n` bytes of storage hold, capped by the `len` characters wanted
pub open spec fn dt_l(eff: Option<bool>, n: int, len: int) -> int { if eff == Some(true) { imin(n / 2, len) } else { imin(n, len) } }
/// number of bytes these characters occupy
pub open spec fn dt_ub(eff: Option<bool>, n: int, len: int) -> int { if eff == Some(true) { 2 * dt_l(eff, n, len) } else { dt_l(eff, n, len) } }
/// the bytes given to the decoder
pub open spec fn dt_bytes(eff: Option<bool>, stream: Seq<u8>, len: int) -> Seq<u8> {
    let ub = dt_ub(eff, stream.len() as int, len);
    if eff == Some(false) { zext(stream.subrange(0, ub)) } else { stream.subrange(0, ub) }
}

//@@ impl src/cfb.rs XlsEncoding
// TRUSTED: A-enc (compares the code page with encoding_rs statics); discharged on the real function by Kani harness high_byte_spec for
// four representative code pages
//@@ fn src/cfb.rs XlsEncoding::high_byte props=C12,C19 ret=r external_body by=high_byte_spec
//@@ sig
    ensures
        //# C12.high_byte
        r == eff_hb(*self, high_byte),
//@@ end
// TRUSTED: A-enc. The arithmetic half of this contract -- (l, ub) and the byte string handed to the decoder -- is discharged on the real
// function by the Kani harnesses decode_to_{wide,compressed,default_raw,default_wide} (kani/xlsenc.rs, decoder call stubbed by a recorder);
// that the decoder's output is `decode(e, those bytes)` is the definition of `decode`.
//@@ fn src/cfb.rs XlsEncoding::decode_to props=C12,C19 ret=r external_body by=decode_to_wide,decode_to_compressed,decode_to_default_raw,decode_to_default_wide
//@@ sig
    ensures
        //# C12.decode_to_payload
        r.0 == dt_l(eff_hb(*self, high_byte), stream@.len() as int, len as int),
        r.1 == dt_ub(eff_hb(*self, high_byte), stream@.len() as int, len as int),
        final(s)@ == old(s)@ + decode(*self, dt_bytes(eff_hb(*self, high_byte), stream@, len as int)),
//@@ end
// TRUSTED: A-enc: `decode_all` is the foreign BOM-sniffing decoder applied to the whole slice (this is the definition of `decode_bom`)
//@@ fn src/cfb.rs XlsEncoding::decode_all props=C19 ret=r external_body
//@@ sig
    ensures
        //# C19.decode_all
        r@ == decode_bom(*self, stream@),
//@@ end
//@@ endimpl

// =====================================================================================================
// Character data of a string across CONTINUE records ([MS-XLS] 2.5.293 rgb, 2.4.58 Continue, 2.4.265 SST)
// =====================================================================================================
/// one run of character data inside one fragment, with the storage form announced for it
pub struct Seg { pub wide: bool, pub bytes: Seq<u8> }
/// 16-bit little-endian form of a run
pub open spec fn seg_wide_bytes(g: Seg) -> Seq<u8> { if g.wide { g.bytes } else { zext(g.bytes) } }
/// number of characters (UTF-16 code units) of a run
pub open spec fn seg_units(g: Seg) -> int { if g.wide { g.bytes.len() as int / 2 } else { g.bytes.len() as int } }
pub open spec fn segs_units(ss: Seq<Seg>) -> int decreases ss.len() { if ss.len() == 0 { 0 } else { seg_units(ss[0]) + segs_units(ss.drop_first()) } }
/// text of a sequence of runs: each run is decoded on its own and the pieces are concatenated
pub open spec fn segs_text(e: XlsEncoding, ss: Seq<Seg>) -> Seq<char>
    decreases ss.len()
{
    if ss.len() == 0 { Seq::<char>::empty() } else { decode(e, seg_wide_bytes(ss[0])) + segs_text(e, ss.drop_first()) }
}

/// Layout of the character data (`cch` characters still to read, current storage form `hb`) at cursor `f`:
/// as many whole characters as the current fragment holds (at most cch) form one run; if characters remain, the data continues in the
/// next fragment, whose first byte is a fresh flag byte (bit 0 = fHighByte) for the remaining characters ([MS-XLS] 2.4.58 / 2.5.293).
/// None: the fragments end before cch characters were found, or a continuation fragment has no flag byte.
/// (A dangling odd byte in front of a fragment boundary in 16-bit storage -- never produced by a writer, since a character never
/// straddles records -- is ignored.)
pub open spec fn dbcs_segs(f: Seq<Seq<u8>>, cch: nat, hb: bool) -> Option<(Seq<Seg>, Seq<Seq<u8>>)>
    decreases f.len(), cch
{
    if cch == 0 { Some((Seq::<Seg>::empty(), f)) }
    else if f.len() == 0 { None }
    else {
        let w: int = if hb { 2 } else { 1 };
        let l = imin(f[0].len() as int / w, cch as int);
        let seg = Seg { wide: hb, bytes: f[0].subrange(0, l * w) };
        if l == cch { Some((seq![seg], adv(f, l * w))) }
        else if f.len() == 1 { None }
        else if f[1].len() == 0 { None }
        else {
            match dbcs_segs(adv(next_frag(f), 1), (cch - l) as nat, f[1][0] & 1 != 0) {
                Some((ss, g)) => Some((seq![seg] + ss, g)),
                None => None,
            }
        }
    }
}
/// the decoded text and the cursor after the character data
pub open spec fn dbcs_spec(e: XlsEncoding, f: Seq<Seq<u8>>, cch: nat, hb: bool) -> Option<(Seq<char>, Seq<Seq<u8>>)> {
    match dbcs_segs(f, cch, hb) { Some((ss, g)) => Some((segs_text(e, ss), g)), None => None }
}

//@@ props C12,C19
proof fn lemma_segs_text_cons(e: XlsEncoding, g: Seg, ss: Seq<Seg>)
    ensures
        segs_text(e, seq![g] + ss) == decode(e, seg_wide_bytes(g)) + segs_text(e, ss),
        segs_text(e, seq![g]) == decode(e, seg_wide_bytes(g)),
        segs_text(e, Seq::<Seg>::empty()) == Seq::<char>::empty(),
{
    assert((seq![g] + ss).drop_first() =~= ss);
    assert(seq![g].drop_first() =~= Seq::<Seg>::empty());
    assert(segs_text(e, Seq::<Seg>::empty()) =~= Seq::<char>::empty());
    assert(seq![g][0] == g);
    assert(segs_text(e, seq![g]) =~= decode(e, seg_wide_bytes(g)) + Seq::<char>::empty());
    assert(decode(e, seg_wide_bytes(g)) + Seq::<char>::empty() =~= decode(e, seg_wide_bytes(g)));
}
/// the runs together hold exactly cch characters, and the cursor is the old one advanced (fragments are only ever consumed from the front)
proof fn lemma_dbcs_units(f: Seq<Seq<u8>>, cch: nat, hb: bool)
    ensures dbcs_segs(f, cch, hb) is Some ==> segs_units(dbcs_segs(f, cch, hb)->Some_0.0) == cch && (f.len() >= 1 ==> dbcs_segs(f, cch, hb)->Some_0.1.len() >= 1)
            && total(dbcs_segs(f, cch, hb)->Some_0.1) <= total(f),
    decreases f.len(), cch
{
    if cch > 0 && f.len() > 0 {
        let w: int = if hb { 2 } else { 1 };
        let l = imin(f[0].len() as int / w, cch as int);
        let seg = Seg { wide: hb, bytes: f[0].subrange(0, l * w) };
        assert(seg_units(seg) == l);
        lemma_total_unfold(f);
        if l == cch {
            assert(seq![seg].drop_first() =~= Seq::<Seg>::empty());
            assert(segs_units(seq![seg].drop_first()) == 0);
            let g = adv(f, l * w);
            assert(g.drop_first() =~= f.drop_first());
            lemma_total_unfold(g);
        } else if f.len() > 1 && f[1].len() > 0 {
            let f2 = adv(next_frag(f), 1);
            assert(f2.drop_first() =~= next_frag(f).drop_first());
            lemma_total_unfold(next_frag(f));
            lemma_total_unfold(f2);
            assert(total(f2) <= total(f));
            lemma_dbcs_units(f2, (cch - l) as nat, f[1][0] & 1 != 0);
            match dbcs_segs(f2, (cch - l) as nat, f[1][0] & 1 != 0) {
                Some((ss, g)) => { assert((seq![seg] + ss).drop_first() =~= ss); }
                None => {}
            }
        }
    }
}

proof fn lemma_frags_head(r: Record)
    ensures frags(r).len() >= 1, frags(r)[0] == r.data@, frags(r).drop_first() == cont_seq(r.cont),
{
    assert(frags(r).drop_first() =~= cont_seq(r.cont));
}
/// consuming k bytes of the current fragment
proof fn lemma_frags_adv(a: Record, b: Record, k: int)
    requires 0 <= k <= a.data@.len(), b.data@ == a.data@.subrange(k, a.data@.len() as int), b.cont == a.cont, b.typ == a.typ,
    ensures frags(b) == adv(frags(a), k), same_record(a, b),
{
    assert(frags(b) =~= adv(frags(a), k));
}

/// frame of every cursor operation: the record type is never touched, and a record read without continuation list stays so
spec fn same_record(a: Record, b: Record) -> bool { a.typ == b.typ && (a.cont is None <==> b.cont is None) }

//@@ impl src/xls.rs Record
//@@ fn src/xls.rs Record::continue_record props=C12,C19,C02 entry ret=res
//@@ sig
    ensures
        //# C12,C19,C02.continue_none
        !res <==> cont_seq(old(self).cont).len() == 0,
        //# C12,C19,C02.continue_frame_on_false
        !res ==> *final(self) == *old(self),
        //# C12,C19,C02.continue_pops_head
        res ==> frags(*final(self)) == next_frag(frags(*old(self))),
        //# C12,C19,C02.continue_frame
        same_record(*old(self), *final(self)),
//@@ end

#[verifier::loop_isolation(false)] // the initial value of the `mut len` parameter (n0) must stay known inside the loop
//@@ fn src/xls.rs Record::skip props=C12,C19 entry ret=res
//@@ sig
    ensures
        //# C12,C19.skip_exact
        res is Ok ==> skip_spec(frags(*old(self)), len as nat) == Some(frags(*final(self))),
        //# C12.skip_err_iff_short
        res is Err <==> total(frags(*old(self))) < len,
        //# C12.skip_err_kind
        res is Err ==> res matches Err(XlsError::ContinueRecordTooShort),
        //# C12.skip_frame
        same_record(*old(self), *final(self)),
//@@ body
        let ghost r0 = *self;
        let ghost n0 = len;
        proof { lemma_skip_spec_total(frags(r0), n0 as nat); }
//@@ loop 0
            invariant
                r0 == *old(self),
                same_record(r0, *self),
                skip_spec(frags(r0), n0 as nat) == skip_spec(frags(*self), len as nat),
                total(frags(r0)) - n0 == total(frags(*self)) - len,
            decreases frags(*self).len(), len
//@@ before /if self\.data\./
            let ghost f1 = frags(*self);
            proof { lemma_total_unfold(f1); }
//@@ before /return Err\(XlsError::ContinueRecordTooShort/
                proof { assert(frags(*self) == f1); assert(f1.len() == 1); }
//@@ before /let l = /
            let ghost f2 = frags(*self);
            let ghost len2 = len;
            proof {
                lemma_total_unfold(f2);
                if f1[0].len() == 0 { assert(f2 == next_frag(f1)); assert(skip_spec(f1, len as nat) == skip_spec(f2, len as nat)); } else { assert(f2 == f1); }
            }
//@@ after /len -= [^;]*;/
            proof {
                let f3 = frags(*self);
                //# C12,C19.skip_keeps_rest
                // the l skipped bytes are dropped from the front of the current fragment, the rest stays
                assert(f3 =~= adv(f2, l as int));
                assert(f3.drop_first() =~= f2.drop_first());
                lemma_total_unfold(f3);
                if f2[0].len() == 0 { assert(l == 0); assert(f2[0].subrange(0, 0) =~= f2[0]); assert(f3 =~= f2); }
                else if len2 <= f2[0].len() { assert(len == 0); assert(skip_spec(f2, len2 as nat) == Some(f3)); assert(skip_spec(f3, 0) == Some(f3)); }
                else { assert(skip_spec(f2, len2 as nat) == skip_spec(f3, len as nat)); }
            }
//@@ end
//@@ endimpl

#[verifier::loop_isolation(false)] // initial values of the `mut len`, `mut high_byte` parameters must stay known inside the loop
//@@ fn src/xls.rs read_dbcs props=C12,C19,C02 entry ret=res
//@@ sig
    ensures
        //# C12,C19,C02.dbcs_concat
        res is Ok ==> dbcs_spec(*encoding, frags(*old(r)), len as nat, high_byte) is Some
            && res->Ok_0@ == dbcs_spec(*encoding, frags(*old(r)), len as nat, high_byte)->Some_0.0,
        //# C12,C19.dbcs_cursor
        res is Ok ==> dbcs_spec(*encoding, frags(*old(r)), len as nat, high_byte) is Some
            && frags(*final(r)) == dbcs_spec(*encoding, frags(*old(r)), len as nat, high_byte)->Some_0.1,
        //# C12,C19.dbcs_units
        // the runs that were decoded hold exactly `len` characters (UTF-16 code units) in total
        res is Ok ==> dbcs_segs(frags(*old(r)), len as nat, high_byte) is Some
            && segs_units(dbcs_segs(frags(*old(r)), len as nat, high_byte)->Some_0.0) == len,
        //# C12,C19.dbcs_err_iff_eos
        res is Err <==> dbcs_segs(frags(*old(r)), len as nat, high_byte) is None,
        //# C12.dbcs_err_kind
        res is Err ==> res matches Err(XlsError::EoStream(_)),
        //# C12.dbcs_frame
        same_record(*old(r), *final(r)),
//@@ body
    let ghost r0 = *r;
    let ghost f0 = frags(*r);
    let ghost n0 = len as nat;
    let ghost hb0 = high_byte;
    let ghost e = *encoding;
//@@ loop 0
        invariant
            same_record(r0, *r),
            dbcs_segs(frags(*r), len as nat, high_byte) is Some ==> dbcs_segs(f0, n0, hb0) is Some
                && dbcs_spec(e, f0, n0, hb0)->Some_0.0 == s@ + dbcs_spec(e, frags(*r), len as nat, high_byte)->Some_0.0
                && dbcs_spec(e, f0, n0, hb0)->Some_0.1 == dbcs_spec(e, frags(*r), len as nat, high_byte)->Some_0.1,
            dbcs_segs(frags(*r), len as nat, high_byte) is None ==> dbcs_segs(f0, n0, hb0) is None,
        decreases cont_seq(r.cont).len(), len
//@@ before /let \(l, at\) = /
        let ghost f1 = frags(*r);
        let ghost len1 = len as nat;
        let ghost hb1 = high_byte;
        let ghost s1 = s@;
//@@ before /r\.data = &r\.data\[at/
        let ghost w: int = if hb1 { 2 } else { 1 };
        let ghost seg = Seg { wide: hb1, bytes: f1[0].subrange(0, l * w) };
        proof {
            assert(l == imin(f1[0].len() as int / w, len1 as int));
            assert(at == l * w);
            assert(seg_wide_bytes(seg) == dt_bytes(Some(hb1), f1[0], len1 as int));
            assert(s@ == s1 + decode(e, seg_wide_bytes(seg)));
            lemma_segs_text_cons(e, seg, Seq::<Seg>::empty());
        }
//@@ before /if len > 0 \{/
        proof {
            assert(frags(*r) =~= adv(f1, at as int));
            assert(next_frag(frags(*r)) =~= next_frag(f1));
            if len == 0 {
                assert(dbcs_segs(f1, len1, hb1) == Some((seq![seg], adv(f1, l * w))));
                assert(segs_text(e, Seq::<Seg>::empty()) =~= Seq::<char>::empty());
                assert(s@ + Seq::<char>::empty() =~= s@);
            }
        }
//@@ before /r\.data = &r\.data\[1\.\.\];/
                proof { assert(r.data@ == f1[1]); }
//@@ before /\} else \{/
                proof {
                    let f2 = frags(*r);
                    //# C12,C19,C02.dbcs_continue_flag_byte
                    // the continuation's first byte is the flag byte: exactly one byte is consumed before the characters resume
                    assert(f2 =~= adv(next_frag(f1), 1));
                    assert(high_byte == (f1[1][0] & 1 != 0));
                    match dbcs_segs(f2, len as nat, high_byte) {
                        Some((ss, g)) => {
                            assert(dbcs_segs(f1, len1, hb1) == Some((seq![seg] + ss, g)));
                            lemma_segs_text_cons(e, seg, ss);
                            assert(s1 + (decode(e, seg_wide_bytes(seg)) + segs_text(e, ss)) =~= s@ + segs_text(e, ss));
                        }
                        None => { assert(dbcs_segs(f1, len1, hb1) is None); }
                    }
                }
//@@ before /Ok\(s\)/
    proof { lemma_dbcs_units(f0, n0, hb0); }
//@@ before /return Err\(XlsError::EoStream/
                proof {
                    //# C06.dbcs_empty_continue_rejected
                    // no further fragment, or a continuation without flag byte
                    assert(f1.len() == 1 || f1[1].len() == 0);
                    assert(dbcs_segs(f1, len1, hb1) is None);
                }
//@@ end

// =====================================================================================================
// XLUnicodeRichExtendedString ([MS-XLS] 2.5.293) and the shared string table ([MS-XLS] 2.4.265 SST)
// =====================================================================================================
/// header of an XLUnicodeRichExtendedString: cch (2 bytes), flags (1 byte: bit0 fHighByte, bit2 fExtSt, bit3 fRichSt),
/// cRun (2 bytes, only if fRichSt), cbExtRst (4 bytes signed, only if fExtSt)
pub struct StrHdr { pub cch: nat, pub hb: bool, pub crun: nat, pub cbext: int, pub hlen: int }
pub open spec fn i32_of(v: int) -> int { if v >= 2147483648 { v - 4294967296 } else { v } }
pub open spec fn str_hdr(d: Seq<u8>) -> Option<StrHdr> {
    if d.len() < 3 { None }
    else {
        let flags = d[2];
        let rich = flags & 0x8 != 0;
        let ext = flags & 0x4 != 0;
        let o_ext: int = if rich { 5 } else { 3 };
        let hlen: int = if ext { o_ext + 4 } else { o_ext };
        if d.len() < hlen { None }
        else {
            Some(StrHdr {
                cch: le16(d) as nat,
                hb: flags & 0x1 != 0,
                crun: if rich { le16(d.subrange(3, d.len() as int)) as nat } else { 0 },
                cbext: if ext { i32_of(le32(d.subrange(o_ext, d.len() as int))) } else { 0 },
                hlen: hlen,
            })
        }
    }
}
/// One string of the table at cursor `f`: text and cursor after the string.
/// "a string header never straddles a record boundary": when the current fragment is exhausted the header opens the next fragment;
/// then the character data (dbcs_spec: a flag byte after every boundary), then 4*cRun bytes of formatting runs and cbExtRst bytes of
/// phonetic data, both crossing boundaries without flag byte (skip_spec).  None = malformed / truncated.
pub open spec fn sst_item(e: XlsEncoding, f: Seq<Seq<u8>>) -> Option<(Seq<char>, Seq<Seq<u8>>)> {
    if f.len() == 0 { None }
    else {
        let f1 = if f[0].len() == 0 && f.len() > 1 { next_frag(f) } else { f };
        match str_hdr(f1[0]) {
            None => None,
            Some(h) =>
                if h.cbext < 0 { None }
                else {
                    match dbcs_spec(e, adv(f1, h.hlen), h.cch, h.hb) {
                        None => None,
                        Some((t, g)) => match skip_spec(g, 4 * h.crun) {
                            None => None,
                            Some(g2) => match skip_spec(g2, h.cbext as nat) {
                                None => None,
                                Some(g3) => Some((t, g3)),
                            }
                        }
                    }
                }
        }
    }
}
/// all fragments of one workbook stream lie in one allocation, so together they hold fewer than 2^63 bytes (Rust allocation limit)
pub open spec fn mem_bounded(f: Seq<Seq<u8>>) -> bool { total(f) <= 0x7fff_ffff_ffff_ffff }

proof fn lemma_neg_i32_as_usize(x: i32)
    requires x < 0,
    ensures (x as usize) >= 0xffff_ffff_8000_0000usize,
{
    assert((x as usize) >= 0xffff_ffff_8000_0000usize) by (bit_vector) requires x < 0;
}

// own module: smaller proof context
mod m_rich {
use super::*;
//@@ fn src/xls.rs read_rich_extended_string props=C12,C19 entry ret=res
//@@ sig
    ensures
        //# C12,C19.sst_item
        sst_item(*encoding, frags(*old(r))) is Some ==> res is Ok && res->Ok_0@ == sst_item(*encoding, frags(*old(r)))->Some_0.0,
        //# C12,C19.sst_item_cursor
        sst_item(*encoding, frags(*old(r))) is Some ==> res is Ok && frags(*final(r)) == sst_item(*encoding, frags(*old(r)))->Some_0.1,
        //# C12.sst_item_err_iff_malformed
        mem_bounded(frags(*old(r))) ==> (res is Err <==> sst_item(*encoding, frags(*old(r))) is None),
        //# C12.sst_item_frame
        same_record(*old(r), *final(r)),
//@@ body
    hide(skip_spec); hide(dbcs_segs); hide(total); hide(segs_text); hide(segs_units); hide(frags);
    let ghost r0 = *r;
    let ghost f0 = frags(*r);
    let ghost e = *encoding;
    proof { lemma_frags_head(r0); }
//@@ before /return Err\(XlsError::Len/#0of3
        proof { lemma_frags_head(*r); }
//@@ before /return Err\(XlsError::Len/#1of3
            //# C06.rich_header_crun_truncated
            // the fragment ends inside the header: cRun is announced (fRichSt) but not there
            proof { assert(d.len() < 5 && d[2] & 0x8 != 0); assert(str_hdr(d) is None); }
//@@ before /return Err\(XlsError::Len/#2of3
            //# C06.rich_header_cbextrst_truncated
            // the fragment ends inside the header: cbExtRst is announced (fExtSt) but not (completely) there
            proof { assert(d[2] & 0x4 != 0 && d.len() < (if d[2] & 0x8 != 0 { 9int } else { 7int })); assert(str_hdr(d) is None); }
//@@ before /let cch = /
    let ghost r1 = *r;
    let ghost f1 = frags(*r);
    let ghost d = r.data@;
    proof {
        lemma_frags_head(r1);
        assert(f1 == if f0[0].len() == 0 && f0.len() > 1 { next_frag(f0) } else { f0 });
        assert(d == f1[0]);
        lemma_total_unfold(f0); lemma_total_unfold(f1);
        assert(total(f1) <= total(f0));
    }
//@@ before /let s = read_dbcs/
    let ghost h = str_hdr(d)->Some_0;
    let ghost r2 = *r;
    let ghost f2 = frags(*r);
    proof {
        if str_hdr(d) is Some {
            //# C12,C19.sst_item_header_consumed
            // exactly the header (3 bytes + cRun if fRichSt + cbExtRst if fExtSt) has been consumed
            assert(r.data@ =~= d.subrange(h.hlen, d.len() as int));
            lemma_frags_adv(r1, r2, h.hlen);
            //# C12,C19.sst_item_header_fields
            // cch, fHighByte and cRun are the header's fields (cRun only under fRichSt = bit 3)
            assert(cch == h.cch && high_byte == h.hb && c_run == h.crun);
            //# C12,C19.sst_item_header_cbextrst
            // cbExtRst is the header's field (only under fExtSt = bit 2); a negative value becomes a count no record can hold
            assert(if h.cbext >= 0 { cb_ext_rst == h.cbext } else { cb_ext_rst >= 0xffff_ffff_8000_0000usize }) by {
                if h.cbext < 0 { lemma_neg_i32_as_usize(h.cbext as i32); }
            }
            assert(f2.drop_first() =~= f1.drop_first());
            lemma_total_unfold(f2);
            assert(total(f2) <= total(f1));
            lemma_dbcs_units(f2, h.cch, h.hb);
            // what the two skips will meet (stated up front on the specification's cursors, so that no annotation hangs on the skip statements)
            if dbcs_segs(f2, h.cch, h.hb) is Some {
                let g = dbcs_segs(f2, h.cch, h.hb)->Some_0.1;
                lemma_skip_spec_total(g, (4 * h.crun) as nat);
                if skip_spec(g, (4 * h.crun) as nat) is Some {
                    lemma_skip_spec_total(skip_spec(g, (4 * h.crun) as nat)->Some_0, cb_ext_rst as nat);
                }
            }
        }
    }
//@@ end

/// the texts of `n` consecutive strings starting at cursor `f`, and the cursor after them
pub open spec fn sst_items(e: XlsEncoding, f: Seq<Seq<u8>>, n: nat) -> Option<(Seq<Seq<char>>, Seq<Seq<u8>>)>
    decreases n
{
    if n == 0 { Some((Seq::<Seq<char>>::empty(), f)) }
    else {
        match sst_item(e, f) {
            None => None,
            Some((t, g)) => match sst_items(e, g, (n - 1) as nat) {
                None => None,
                Some((ts, g2)) => Some((seq![t] + ts, g2)),
            }
        }
    }
}
/// [MS-XLS] 2.4.265 SST: cstTotal (4 bytes, signed), cstUnique (4 bytes, signed, "MUST be >= 0"), then cstUnique strings
pub open spec fn sst_count(d: Seq<u8>) -> int { i32_of(le32(d.subrange(4, 8))) }
pub open spec fn sst_spec(e: XlsEncoding, f: Seq<Seq<u8>>) -> Option<Seq<Seq<char>>> {
    if f.len() == 0 || f[0].len() < 8 || sst_count(f[0]) < 0 { None }
    else {
        match sst_items(e, adv(f, 8), sst_count(f[0]) as nat) { Some((ts, g)) => Some(ts), None => None }
    }
}
pub open spec fn str_view(s: String) -> Seq<char> { s@ }
pub open spec fn texts(v: Seq<String>) -> Seq<Seq<char>> { Seq::new(v.len(), |i: int| v[i]@) }

//@@ props C12,C19
proof fn lemma_sst_items_step(e: XlsEncoding, f: Seq<Seq<u8>>, n: nat)
    requires n > 0,
    ensures
        sst_items(e, f, n) is Some ==> sst_item(e, f) is Some && sst_items(e, sst_item(e, f)->Some_0.1, (n - 1) as nat) is Some
            && sst_items(e, f, n)->Some_0.0 == seq![sst_item(e, f)->Some_0.0] + sst_items(e, sst_item(e, f)->Some_0.1, (n - 1) as nat)->Some_0.0
            && sst_items(e, f, n)->Some_0.1 == sst_items(e, sst_item(e, f)->Some_0.1, (n - 1) as nat)->Some_0.1,
{
}
proof fn lemma_sst_items_len(e: XlsEncoding, f: Seq<Seq<u8>>, n: nat)
    ensures sst_items(e, f, n) is Some ==> sst_items(e, f, n)->Some_0.0.len() == n,
    decreases n
{
    if n > 0 && sst_item(e, f) is Some { lemma_sst_items_len(e, sst_item(e, f)->Some_0.1, (n - 1) as nat); }
}

/// a string never gives bytes back: the cursor after it has no more bytes left than the cursor before it
proof fn lemma_sst_item_total(e: XlsEncoding, f: Seq<Seq<u8>>)
    requires f.len() >= 1,
    ensures sst_item(e, f) is Some ==> total(sst_item(e, f)->Some_0.1) <= total(f) && sst_item(e, f)->Some_0.1.len() >= 1,
{
    if sst_item(e, f) is Some {
        let f1 = if f[0].len() == 0 && f.len() > 1 { next_frag(f) } else { f };
        lemma_total_unfold(f); lemma_total_unfold(f1);
        let h = str_hdr(f1[0])->Some_0;
        let f2 = adv(f1, h.hlen);
        assert(f2.drop_first() =~= f1.drop_first());
        lemma_total_unfold(f2);
        lemma_dbcs_units(f2, h.cch, h.hb);
        let g = dbcs_spec(e, f2, h.cch, h.hb)->Some_0.1;
        assert(g == dbcs_segs(f2, h.cch, h.hb)->Some_0.1);
        lemma_skip_spec_total(g, 4 * h.crun);
        let g2 = skip_spec(g, 4 * h.crun)->Some_0;
        lemma_skip_spec_total(g2, h.cbext as nat);
    }
}
proof fn lemma_sst_items_back(e: XlsEncoding, f: Seq<Seq<u8>>, n: nat)
    requires n > 0, sst_item(e, f) is Some, sst_items(e, sst_item(e, f)->Some_0.1, (n - 1) as nat) is Some,
    ensures sst_items(e, f, n) is Some,
{
}

// own module: keeps the std specifications this function needs (ranges, Vec<String>, TryInto) out of the proof context of the others
mod m_parse_sst {
use super::*;
use super::super::*;
//@@ fn src/xls.rs parse_sst props=C12,C19,C02 entry ret=res
//@@ sig
    ensures
        //# C12.sst_len_guard
        old(r).data@.len() < 8 ==> res is Err,
        //# C12,C19,C02.sst_table
        sst_spec(*encoding, frags(*old(r))) is Some ==> res is Ok && texts(res->Ok_0@) == sst_spec(*encoding, frags(*old(r)))->Some_0,
        //# C19.sst_index
        sst_spec(*encoding, frags(*old(r))) is Some ==> res is Ok && res->Ok_0@.len() == sst_count(old(r).data@)
            && forall|i: int| 0 <= i < res->Ok_0@.len() ==> (#[trigger] res->Ok_0@[i])@ == sst_spec(*encoding, frags(*old(r)))->Some_0[i],
        //# C06.sst_negative_count_rejected
        old(r).data@.len() >= 8 && sst_count(old(r).data@) < 0 ==> res is Err,
        //# C12.sst_err_iff_malformed
        // a table is rejected iff it is malformed
        mem_bounded(frags(*old(r))) ==> (res is Err <==> sst_spec(*encoding, frags(*old(r))) is None),
        //# C12.sst_frame
        same_record(*old(r), *final(r)),
//@@ body
    hide(sst_item); hide(total); hide(frags);
    let ghost r0 = *r;
    let ghost f0 = frags(*r);
    let ghost e = *encoding;
    proof { lemma_frags_head(r0); }
//@@ before /let len = read_u32/
    proof {
        assert(r.data@.subrange(4, 8) =~= r0.data@.subrange(4, 8));
        assert(0 <= le32(r0.data@.subrange(4, 8)) < 0x1_0000_0000);
    }
//@@ before /let mut sst = /
    //# C12,C19.sst_count_field
    // the number of strings is cstUnique (bytes 4..8, a non-negative signed integer), not cstTotal
    assert(len == sst_count(r0.data@) && sst_count(r0.data@) >= 0);
//@@ replace /let mut sst = Vec::with_capacity\((.*?)\);/ names the argument of the reservation (`let`-binding of an argument expression: same evaluation order, same value) so that the allocation bound is asserted on the value actually passed
let __cap: usize = \g<1>;
    let mut sst = Vec::with_capacity(__cap);
//@@ after /let mut sst = [^;]*;/
    //# C06.sst_alloc_bound
    // allocation: every string of the table occupies at least 3 bytes; no more entries are reserved than the record can hold, whatever count it declares
    assert(3 * __cap <= total(f0)) by { broadcast use stdax::axiom_min_usize; lemma_total_unfold(f0); };
//@@ before /for _ in /
    let ghost cnt = sst_count(r0.data@);
    let ghost f8 = frags(*r);
    let ghost mut ts: Seq<Seq<char>> = Seq::empty();
    proof {
        //# C12,C19.sst_header_8_bytes
        // the strings start right after cstTotal and cstUnique
        assert(r.data@ =~= r0.data@.subrange(8, r0.data@.len() as int));
        lemma_frags_adv(r0, *r, 8);
        assert(cnt >= 0 && len == cnt);
        lemma_total_unfold(f0); lemma_total_unfold(f8);
        assert(f8.drop_first() =~= f0.drop_first());
        assert(total(f8) <= total(f0));
    }
//@@ loop 0 it
        invariant
            e == *encoding, r0 == *old(r), f0 == frags(r0),
            same_record(r0, *r),
            cnt >= 0 && len == cnt,
            sst@.len() == it.index@,
            it.index@ <= len,
            f0.len() >= 1 && f0[0].len() >= 8 && f8 == adv(f0, 8) && cnt == sst_count(f0[0]),
            ts.len() == sst@.len(),
            mem_bounded(f0) ==>
                total(frags(*r)) <= total(f0)
                && (sst_items(e, frags(*r), (cnt - it.index@) as nat) is Some ==> sst_items(e, f8, cnt as nat) is Some),
            sst_items(e, f8, cnt as nat) is Some ==> sst_items(e, frags(*r), (cnt - it.index@) as nat) is Some
                && sst_items(e, f8, cnt as nat)->Some_0.0 == ts + sst_items(e, frags(*r), (cnt - it.index@) as nat)->Some_0.0
                && (forall|i: int| 0 <= i < ts.len() ==> str_view(#[trigger] sst@[i]) == ts[i]),
//@@ before /sst\.push\(/
        let ghost fi = frags(*r);
        let ghost si = sst@;
        let ghost ni = (cnt - it.index@) as nat;
        proof {
            {
                lemma_frags_head(*r);
                lemma_sst_items_step(e, fi, ni);
                lemma_sst_item_total(e, fi);
            }
        }
//@@ after /sst\.push\([^;]*;/
        proof {
            let ts0 = ts;
            if sst_items(e, f8, cnt as nat) is Some {
                let t = sst_item(e, fi)->Some_0.0;
                assert(sst@ == si.push(sst@[si.len() as int]));
                //# C19.sst_index
                // the string just read is stored at the next index of the table
                assert(sst@[si.len() as int]@ == t);
                let rest = sst_items(e, frags(*r), (cnt - it.index@ - 1) as nat)->Some_0.0;
                ts = ts0.push(t);
                assert(ts0 + (seq![t] + rest) =~= ts + rest);
            } else {
                ts = ts0.push(Seq::empty());
            }
            if mem_bounded(f0) {
                // the callee returned Ok on a cursor that is not oversized: the string was well-formed
                assert(sst_item(e, fi) is Some);
                if sst_items(e, frags(*r), (ni - 1) as nat) is Some { lemma_sst_items_back(e, fi, ni); }
            }
        }
//@@ before /Ok\(sst\)/
    proof {
        if sst_items(e, f8, cnt as nat) is Some {
            lemma_sst_items_len(e, f8, cnt as nat);
            assert(sst_items(e, frags(*r), 0)->Some_0.0 =~= Seq::<Seq<char>>::empty());
            assert(ts + Seq::<Seq<char>>::empty() =~= ts);
            assert(texts(sst@) =~= ts);
        }
    }
//@@ end
} // mod m_parse_sst
} // mod m_rich

// =====================================================================================================
// Strings held in a single record: ShortXLUnicodeString (2.5.240), XLUnicodeString (2.5.294), XLUnicodeStringNoCch (2.5.296),
// Label (2.4.148), Format (2.4.126)
// =====================================================================================================
/// text of `cch` characters stored at the start of `rgb` in the storage form `eff` (Some(true): 2 bytes per character; otherwise 1)
pub open spec fn str_width(eff: Option<bool>) -> int { if eff == Some(true) { 2 } else { 1 } }
pub open spec fn str_fits(eff: Option<bool>, rgb: Seq<u8>, cch: int) -> bool { rgb.len() >= cch * str_width(eff) }
pub open spec fn str_text(e: XlsEncoding, eff: Option<bool>, rgb: Seq<u8>, cch: int) -> Seq<char> {
    let b = rgb.subrange(0, cch * str_width(eff));
    decode(e, if eff == Some(false) { zext(b) } else { b })
}
//@@ props C12,C19
/// when the characters are all there, what decode_to appends is the text of exactly cch characters
proof fn lemma_dt_full(e: XlsEncoding, eff: Option<bool>, rgb: Seq<u8>, cch: int)
    requires 0 <= cch, str_fits(eff, rgb, cch),
    ensures decode(e, dt_bytes(eff, rgb, cch)) == str_text(e, eff, rgb, cch), dt_l(eff, rgb.len() as int, cch) == cch,
{
    if eff == Some(true) {
        assert(rgb.len() as int / 2 >= cch);
    }
}

/// has this BIFF version a flag byte in front of character data (BIFF8) or not
spec fn biff_has_flags(b: Biff) -> bool { b is Biff8 }

mod m_strings {
use super::*;

//@@ impl src/lib.rs Cell
//@@ fn src/lib.rs Cell::new props=C19 ret=c
//@@ sig
    ensures
        //# C19.cell_new
        c.p() == position && c.v() == value,
//@@ end
//@@ endimpl

/// [MS-XLS] 2.5.240 ShortXLUnicodeString: cch (1 byte), BIFF8: flags (1 byte, bit 0 fHighByte), rgb
spec fn short_hdr(b: Biff) -> int { if biff_has_flags(b) { 2 } else { 1 } }
spec fn short_hb(d: Seq<u8>, b: Biff) -> Option<bool> { if biff_has_flags(b) { Some(d[1] & 0x1 != 0) } else { None } }

//@@ fn src/xls.rs parse_short_string props=C12,C19 entry ret=res
//@@ sig
    ensures
        //# C19.short_string_len_guard
        old(r).data@.len() < 2 <==> res is Err,
        //# C19,C12.short_string_text
        old(r).data@.len() >= 2 && str_fits(eff_hb(*encoding, short_hb(old(r).data@, biff)), old(r).data@.skip(short_hdr(biff)), old(r).data@[0] as int)
            ==> res is Ok && res->Ok_0@ == str_text(*encoding, eff_hb(*encoding, short_hb(old(r).data@, biff)), old(r).data@.skip(short_hdr(biff)), old(r).data@[0] as int),
        //# C19.short_string_cursor
        res is Ok ==> final(r).data@ == old(r).data@.skip(short_hdr(biff)) && final(r).cont == old(r).cont && final(r).typ == old(r).typ,
//@@ before /let _ = encoding\.decode_to/
    proof {
        let d = old(r).data@;
        assert(r.data@ =~= d.skip(short_hdr(biff)));
        if str_fits(eff_hb(*encoding, high_byte), r.data@, cch as int) { lemma_dt_full(*encoding, eff_hb(*encoding, high_byte), r.data@, cch as int); }
    }
//@@ end

/// [MS-XLS] 2.5.294 XLUnicodeString: cch (2 bytes), BIFF8: flags (1 byte), rgb.  (BIFF5: cch (2 bytes), rgb in the code page.)
spec fn xl_hdr(b: Biff) -> int { if biff_has_flags(b) { 3 } else { 2 } }
spec fn xl_hb(r: Seq<u8>, b: Biff) -> Option<bool> { if biff_has_flags(b) { Some(r[2] & 0x1 != 0) } else { None } }
/// a complete XLUnicodeString: header and all cch characters present
spec fn xl_wf(e: XlsEncoding, r: Seq<u8>, b: Biff) -> bool {
    r.len() >= xl_hdr(b) && str_fits(eff_hb(e, xl_hb(r, b)), r.skip(xl_hdr(b)), le16(r))
}
spec fn xl_text(e: XlsEncoding, r: Seq<u8>, b: Biff) -> Seq<char> {
    str_text(e, eff_hb(e, xl_hb(r, b)), r.skip(xl_hdr(b)), le16(r))
}

//@@ fn src/xls.rs parse_string props=C19,C12 entry ret=res
//@@ sig
    ensures
        //# C19,C12.xl_string_text
        xl_wf(*encoding, r@, biff) ==> res is Ok && res->Ok_0@ == xl_text(*encoding, r@, biff),
        //# C19.xl_string_header_guard
        r@.len() < xl_hdr(biff) <==> res is Err,
//@@ before /let _ = encoding\.decode_to/
    proof {
        //# C19,C12.xl_string_offset
        // the characters start right after the header (2 bytes, 3 with the BIFF8 flag byte)
        assert(r@.subrange(start as int, r@.len() as int) =~= r@.skip(xl_hdr(biff)));
        if xl_wf(*encoding, r@, biff) { lemma_dt_full(*encoding, eff_hb(*encoding, high_byte), r@.skip(xl_hdr(biff)), cch as int); }
    }
//@@ end

//@@ fn src/xls.rs parse_label props=C19,C12 entry ret=res
//@@ sig
    ensures
        //# C19.label_len_guard
        r@.len() < 6 ==> res is Err,
        //# C19,C12.label_cell
        r@.len() >= 6 && xl_wf(*encoding, r@.skip(6), biff) ==> res is Ok && res->Ok_0 is Some
            && res->Ok_0->Some_0.p() == (le16(r@) as u32, le16(r@.skip(2)) as u32)
            && res->Ok_0->Some_0.v() is String && res->Ok_0->Some_0.v()->String_0@ == xl_text(*encoding, r@.skip(6), biff),
//@@ before /let row = /
    proof {
        assert(r@.subrange(2, r@.len() as int) =~= r@.skip(2));
        assert(r@.subrange(6, r@.len() as int) =~= r@.skip(6));
    }
//@@ end

/// [MS-XLS] 2.5.296 XLUnicodeStringNoCch: flags (1 byte, bit 0 fHighByte), rgb of cch characters (cch is stored elsewhere)
//@@ fn src/xls.rs read_unicode_string_no_cch props=C19,C16,C14 entry
//@@ sig
    ensures
        //# C19,C16,C14.nocch_text
        buf@.len() >= 1 && str_fits(Some(buf@[0] & 0x1 != 0), buf@.skip(1), *len as int)
            ==> final(s)@ == old(s)@ + str_text(*encoding, Some(buf@[0] & 0x1 != 0), buf@.skip(1), *len as int),
        //# C19.nocch_no_flag_byte
        buf@.len() == 0 ==> final(s)@ == old(s)@,
//@@ body
    proof {
        if buf@.len() >= 1 {
            assert(buf@.subrange(1, buf@.len() as int) =~= buf@.skip(1));
            let hb = Some(buf@[0] & 0x1 != 0);
            if str_fits(hb, buf@.skip(1), *len as int) { lemma_dt_full(*encoding, hb, buf@.skip(1), *len as int); }
        }
    }
//@@ end

/// [MS-XLS] 2.4.126 Format: ifmt (2 bytes), stFormat = XLUnicodeString (cch 2 bytes, flags 1 byte, rgb)
// TRUSTED: the classification of a number-format string is owned by unit `formats` (detect_custom_number_format is verified there);
// here it is an uninterpreted function of the decoded text
pub uninterp spec fn fmt_of(s: Seq<char>) -> CellFormat;
//@@ fn src/formats.rs detect_custom_number_format props=C19 ret=r external_body
//@@ sig
    ensures r == fmt_of(format@),
//@@ end

//@@ fn src/xls.rs parse_format props=C19,C10 entry ret=res
//@@ sig
    ensures
        //# C19.format_len_guard
        old(r).data@.len() < 5 <==> res is Err,
        //# C19,C10.format_string
        old(r).data@.len() >= 5 && str_fits(Some(old(r).data@[4] & 0x1 != 0), old(r).data@.skip(5), le16(old(r).data@.skip(2)))
            ==> res is Ok && res->Ok_0.0 as int == le16(old(r).data@)
            && res->Ok_0.1 == fmt_of(str_text(*encoding, Some(old(r).data@[4] & 0x1 != 0), old(r).data@.skip(5), le16(old(r).data@.skip(2)))),
        //# C19.format_cursor
        res is Ok ==> final(r).cont == old(r).cont && final(r).typ == old(r).typ,
//@@ before /let cch = /
    proof { assert(r.data@.subrange(2, r.data@.len() as int) =~= r.data@.skip(2)); }
//@@ before /encoding\.decode_to/
    proof {
        let d = old(r).data@;
        if d.len() >= 5 {
            //# C19,C10.format_string_offset
            // stFormat's characters start after ifmt (2), cch (2) and the flag byte (1)
            assert(r.data@ =~= d.skip(5));
            if str_fits(Some(high_byte), r.data@, cch as int) { lemma_dt_full(*encoding, Some(high_byte), r.data@, cch as int); }
        }
    }
//@@ end

} // mod m_strings

// =====================================================================================================
// C12 proper: the text of a string does not depend on how its character data is split into fragments and packed
// =====================================================================================================
// TRUSTED: A-enc. the workbook's code page is UTF-16LE (code page 1200, which [MS-XLS] 2.4.52 prescribes for BIFF8)
pub uninterp spec fn enc_is_utf16le(e: XlsEncoding) -> bool;
/// the cut a|b of a 16-bit little-endian text falls between a high and a low surrogate
pub open spec fn straddle(a: Seq<u8>, b: Seq<u8>) -> bool {
    a.len() >= 2 && b.len() >= 2 && 0xD8 <= a[a.len() - 1] <= 0xDB && 0xDC <= b[1] <= 0xDF
}
// TRUSTED: A-enc, the single assumed property of the decoder: UTF-16LE decoding (with replacement of unpaired surrogates) of a
// concatenation is the concatenation of the decodings when the cut is at a code unit boundary and not inside a surrogate pair.
// The exclusion is real (native demonstration findings/xlsstr_9).
#[verifier::external_body]
pub proof fn axiom_decode_utf16_concat(e: XlsEncoding, a: Seq<u8>, b: Seq<u8>)
    requires enc_is_utf16le(e), a.len() % 2 == 0, !straddle(a, b),
    ensures decode(e, a + b) == decode(e, a) + decode(e, b),
{}
proof fn witness_axiom_decode_utf16_concat(e: XlsEncoding)
    requires enc_is_utf16le(e),
    ensures decode(e, seq![0x41u8, 0u8] + seq![0x42u8, 0u8]) == decode(e, seq![0x41u8, 0u8]) + decode(e, seq![0x42u8, 0u8]),
{
    let a = seq![0x41u8, 0u8]; let b = seq![0x42u8, 0u8];
    axiom_decode_utf16_concat(e, a, b);
}

//@@ props C12,C19
/// a run in 16-bit storage holds whole characters
pub open spec fn seg_ok(g: Seg) -> bool { g.wide ==> g.bytes.len() % 2 == 0 }
pub open spec fn segs_ok(ss: Seq<Seg>) -> bool { forall|i: int| 0 <= i < ss.len() ==> seg_ok(#[trigger] ss[i]) }
/// the character sequence of a run list: all runs widened to 16-bit little-endian and concatenated
pub open spec fn segs_wide(ss: Seq<Seg>) -> Seq<u8>
    decreases ss.len()
{
    if ss.len() == 0 { Seq::<u8>::empty() } else { seg_wide_bytes(ss[0]) + segs_wide(ss.drop_first()) }
}
/// EXPLICIT HYPOTHESIS of layout independence: no fragment boundary inside a surrogate pair
pub open spec fn layout_safe(ss: Seq<Seg>) -> bool
    decreases ss.len()
{
    ss.len() == 0 || {
        let a = seg_wide_bytes(ss[0]);
        let b = segs_wide(ss.drop_first());
        !straddle(a, b) && layout_safe(ss.drop_first())
    }
}
proof fn lemma_zext_len(b: Seq<u8>)
    ensures zext(b).len() == 2 * b.len(), zext(b).len() % 2 == 0,
{
}
proof fn lemma_seg_wide_even(g: Seg)
    requires seg_ok(g),
    ensures seg_wide_bytes(g).len() % 2 == 0,
{
    if !g.wide { lemma_zext_len(g.bytes); }
}
/// however the runs are cut and packed, their text is the decoding of the whole character sequence in one piece
proof fn lemma_segs_text_canonical(e: XlsEncoding, ss: Seq<Seg>)
    requires enc_is_utf16le(e), segs_ok(ss), layout_safe(ss),
    ensures segs_text(e, ss) == decode(e, segs_wide(ss)),
    decreases ss.len()
{
    if ss.len() == 0 {
        // decode of the empty text is empty: from the axiom with a = b = empty
        let z = Seq::<u8>::empty();
        assert(z + z =~= z);
        axiom_decode_utf16_concat(e, z, z);
        assert(decode(e, z).len() == decode(e, z).len() + decode(e, z).len());
        assert(decode(e, z) =~= Seq::<char>::empty());
    } else {
        let a = seg_wide_bytes(ss[0]);
        let rest = ss.drop_first();
        assert(seg_ok(ss[0]));
        lemma_seg_wide_even(ss[0]);
        assert forall|i: int| 0 <= i < rest.len() implies seg_ok(#[trigger] rest[i]) by { assert(rest[i] == ss[i + 1]); }
        lemma_segs_text_canonical(e, rest);
        axiom_decode_utf16_concat(e, a, segs_wide(rest));
    }
}
/// the runs dbcs_segs cuts hold whole characters
proof fn lemma_dbcs_segs_ok(f: Seq<Seq<u8>>, cch: nat, hb: bool)
    ensures dbcs_segs(f, cch, hb) is Some ==> segs_ok(dbcs_segs(f, cch, hb)->Some_0.0),
    decreases f.len(), cch
{
    if cch > 0 && f.len() > 0 {
        let w: int = if hb { 2 } else { 1 };
        let l = imin(f[0].len() as int / w, cch as int);
        let seg = Seg { wide: hb, bytes: f[0].subrange(0, l * w) };
        assert(seg_ok(seg));
        if l == cch {
        } else if f.len() > 1 && f[1].len() > 0 {
            let f2 = adv(next_frag(f), 1);
            lemma_dbcs_segs_ok(f2, (cch - l) as nat, f[1][0] & 1 != 0);
            match dbcs_segs(f2, (cch - l) as nat, f[1][0] & 1 != 0) {
                Some((ss, g)) => {
                    let all = seq![seg] + ss;
                    assert forall|i: int| 0 <= i < all.len() implies seg_ok(#[trigger] all[i]) by { if i > 0 { assert(all[i] == ss[i - 1]); } }
                }
                None => {}
            }
        }
    }
}

//# C12.layout_independent
/// C12: two layouts (f1 starting in storage form hb1, f2 in hb2) of the same cch characters -- the same 16-bit character sequence
/// `segs_wide`, cut into fragments at different places (between characters, each continuation with its own flag byte) and packed
/// 8-bit or 16-bit per fragment -- read back as the same text, namely the text of the character sequence decoded in one piece.
proof fn lemma_sst_layout_independent(e: XlsEncoding, f1: Seq<Seq<u8>>, hb1: bool, f2: Seq<Seq<u8>>, hb2: bool, cch: nat)
    requires
        enc_is_utf16le(e),
        dbcs_segs(f1, cch, hb1) is Some,
        dbcs_segs(f2, cch, hb2) is Some,
        segs_wide(dbcs_segs(f1, cch, hb1)->Some_0.0) == segs_wide(dbcs_segs(f2, cch, hb2)->Some_0.0),
        layout_safe(dbcs_segs(f1, cch, hb1)->Some_0.0),
        layout_safe(dbcs_segs(f2, cch, hb2)->Some_0.0),
    ensures
        dbcs_spec(e, f1, cch, hb1)->Some_0.0 == dbcs_spec(e, f2, cch, hb2)->Some_0.0,
        dbcs_spec(e, f1, cch, hb1)->Some_0.0 == decode(e, segs_wide(dbcs_segs(f1, cch, hb1)->Some_0.0)),
{
    lemma_dbcs_segs_ok(f1, cch, hb1);
    lemma_dbcs_segs_ok(f2, cch, hb2);
    lemma_segs_text_canonical(e, dbcs_segs(f1, cch, hb1)->Some_0.0);
    lemma_segs_text_canonical(e, dbcs_segs(f2, cch, hb2)->Some_0.0);
}

/// 8-bit compressed runs can never trigger the exclusion: a zero high byte is not a surrogate
proof fn lemma_compressed_is_safe(a: Seq<u8>, b: Seq<u8>)
    ensures
        !straddle(zext(a), b),
        !straddle(b, zext(a)),
{
    if a.len() > 0 {
        assert(zext(a)[1] == 0u8);
        assert(zext(a)[zext(a).len() - 1] == 0u8);
    }
}

// ---- writer side: what a legal layout looks like, and that the reader gets its runs back
pub open spec fn flag_byte(wide: bool) -> u8 { if wide { 1u8 } else { 0u8 } }
/// The fragments a writer produces for the run list `ss` (at least one run) followed by `tail` (whatever comes after the character
/// data in the last fragment: formatting runs, phonetic data, the next strings): run 0 ends the current fragment; every further run
/// is a CONTINUE record = flag byte + the run's bytes; the tail follows the last run.
pub open spec fn layout_frags(ss: Seq<Seg>, tail: Seq<u8>) -> Seq<Seq<u8>>
    decreases ss.len()
{
    if ss.len() <= 1 { seq![(if ss.len() == 1 { ss[0].bytes } else { Seq::<u8>::empty() }) + tail] }
    else {
        let rest = layout_frags(ss.drop_first(), tail);
        seq![ss[0].bytes] + rest.update(0, seq![flag_byte(ss[1].wide)] + rest[0])
    }
}
proof fn lemma_layout_frags_len(ss: Seq<Seg>, tail: Seq<u8>)
    ensures layout_frags(ss, tail).len() >= 1,
    decreases ss.len()
{
    if ss.len() > 1 { lemma_layout_frags_len(ss.drop_first(), tail); }
}
proof fn lemma_flag_byte(w: bool)
    ensures (flag_byte(w) & 1 != 0) == w,
{
    assert(1u8 & 1 != 0) by (bit_vector);
    assert(0u8 & 1 == 0) by (bit_vector);
}
/// the reader cuts a legal layout into exactly the writer's runs and stops in front of the tail
proof fn lemma_dbcs_reads_layout(ss: Seq<Seg>, tail: Seq<u8>)
    requires ss.len() >= 1, segs_ok(ss), seg_units(ss.last()) >= 1,
    ensures dbcs_segs(layout_frags(ss, tail), segs_units(ss) as nat, ss[0].wide) == Some((ss, seq![tail])),
    decreases ss.len()
{
    let f = layout_frags(ss, tail);
    let hb = ss[0].wide;
    let w: int = if hb { 2 } else { 1 };
    let u0 = seg_units(ss[0]);
    assert(seg_ok(ss[0]));
    assert(ss[0].bytes.len() == u0 * w);
    lemma_segs_units_nonneg(ss.drop_first());
    if ss.len() == 1 {
        assert(ss.drop_first() =~= Seq::<Seg>::empty());
        assert(segs_units(ss) == u0);
        assert(f[0] == ss[0].bytes + tail);
        assert(f[0].len() as int / w >= u0) by (nonlinear_arith) requires f[0].len() >= u0 * w, w == 1 || w == 2, u0 >= 0;
        let l = imin(f[0].len() as int / w, u0);
        assert(l == u0);
        assert(f[0].subrange(0, l * w) =~= ss[0].bytes);
        assert(l * w == ss[0].bytes.len());
        assert(f[0].subrange(l * w, f[0].len() as int) =~= tail);
        assert(adv(f, l * w) =~= seq![tail]);
        assert(seq![Seg { wide: hb, bytes: ss[0].bytes }] =~= ss);
    } else {
        let rest_ss = ss.drop_first();
        let rest = layout_frags(rest_ss, tail);
        lemma_layout_frags_len(rest_ss, tail);
        assert(rest_ss.last() == ss.last());
        assert forall|i: int| 0 <= i < rest_ss.len() implies seg_ok(#[trigger] rest_ss[i]) by { assert(rest_ss[i] == ss[i + 1]); }
        lemma_dbcs_reads_layout(rest_ss, tail);
        lemma_segs_units_last(rest_ss);
        let cch = segs_units(ss);
        assert(cch == u0 + segs_units(rest_ss));
        assert(segs_units(rest_ss) >= 1);
        assert(f[0] == ss[0].bytes);
        assert(f[0].len() as int / w == u0) by (nonlinear_arith) requires f[0].len() == u0 * w, w == 1 || w == 2, u0 >= 0;
        let l = imin(f[0].len() as int / w, cch);
        assert(l == u0 && l != cch);
        assert(f[0].subrange(0, l * w) =~= ss[0].bytes);
        assert(f[1] == seq![flag_byte(ss[1].wide)] + rest[0]);
        assert(f[1][0] == flag_byte(ss[1].wide));
        lemma_flag_byte(ss[1].wide);
        assert(rest_ss[0] == ss[1]);
        let nf = next_frag(f);
        assert(nf =~= rest.update(0, seq![flag_byte(ss[1].wide)] + rest[0]));
        assert(nf[0].subrange(1, nf[0].len() as int) =~= rest[0]);
        assert(adv(nf, 1) =~= rest);
        assert(seq![Seg { wide: hb, bytes: ss[0].bytes }] + rest_ss =~= ss);
    }
}
proof fn lemma_segs_units_nonneg(ss: Seq<Seg>)
    ensures segs_units(ss) >= 0,
    decreases ss.len()
{
    if ss.len() > 0 { lemma_segs_units_nonneg(ss.drop_first()); }
}
proof fn lemma_segs_units_last(ss: Seq<Seg>)
    requires ss.len() >= 1,
    ensures segs_units(ss) >= seg_units(ss.last()),
    decreases ss.len()
{
    lemma_segs_units_nonneg(ss.drop_first());
    if ss.len() > 1 { assert(ss.drop_first().last() == ss.last()); lemma_segs_units_last(ss.drop_first()); }
}
/// the number of characters is determined by the character sequence
proof fn lemma_segs_wide_len(ss: Seq<Seg>)
    requires segs_ok(ss),
    ensures segs_wide(ss).len() == 2 * segs_units(ss),
    decreases ss.len()
{
    if ss.len() > 0 {
        let rest = ss.drop_first();
        assert forall|i: int| 0 <= i < rest.len() implies seg_ok(#[trigger] rest[i]) by { assert(rest[i] == ss[i + 1]); }
        lemma_segs_wide_len(rest);
        assert(seg_ok(ss[0]));
        if !ss[0].wide { lemma_zext_len(ss[0].bytes); }
    }
}

//# C12.layouts_read_back_identically
/// C12, writer to reader: the same character sequence laid out in two legal ways (different cuts, different packing per fragment,
/// different data after the string) is read back as the same text, and each reader stops exactly in front of its tail
/// (so whatever follows -- formatting runs, phonetic block, later strings -- is untouched).
proof fn lemma_layouts_read_back_identically(e: XlsEncoding, s1: Seq<Seg>, t1: Seq<u8>, s2: Seq<Seg>, t2: Seq<u8>)
    requires
        enc_is_utf16le(e),
        s1.len() >= 1, segs_ok(s1), seg_units(s1.last()) >= 1,
        s2.len() >= 1, segs_ok(s2), seg_units(s2.last()) >= 1,
        segs_wide(s1) == segs_wide(s2),
        layout_safe(s1), layout_safe(s2),
    ensures
        segs_units(s1) == segs_units(s2),
        dbcs_spec(e, layout_frags(s1, t1), segs_units(s1) as nat, s1[0].wide) == Some((decode(e, segs_wide(s1)), seq![t1])),
        dbcs_spec(e, layout_frags(s2, t2), segs_units(s1) as nat, s2[0].wide) == Some((decode(e, segs_wide(s1)), seq![t2])),
{
    lemma_segs_wide_len(s1);
    lemma_segs_wide_len(s2);
    lemma_dbcs_reads_layout(s1, t1);
    lemma_dbcs_reads_layout(s2, t2);
    lemma_segs_text_canonical(e, s1);
    lemma_segs_text_canonical(e, s2);
}

/// non-vacuity of the hypotheses of lemma_layouts_read_back_identically: "AB" once as an 8-bit run continued by a 16-bit run,
/// once as a single 16-bit run
proof fn witness_layouts_read_back_identically(e: XlsEncoding)
    requires enc_is_utf16le(e),
{
    let ga = Seg { wide: false, bytes: seq![0x41u8] };
    let gb = Seg { wide: true, bytes: seq![0x42u8, 0u8] };
    let gab = Seg { wide: true, bytes: seq![0x41u8, 0u8, 0x42u8, 0u8] };
    let s1 = seq![ga, gb];
    let s2 = seq![gab];
    let z = Seq::<u8>::empty();
    let e0 = Seq::<Seg>::empty();
    assert(segs_wide(e0) =~= z);
    assert(layout_safe(e0));
    // s2
    assert(s2.drop_first() =~= e0);
    assert(seg_wide_bytes(gab) == gab.bytes);
    assert(segs_wide(s2) =~= gab.bytes + z);
    assert(segs_wide(s2) =~= seq![0x41u8, 0u8, 0x42u8, 0u8]);
    assert(!straddle(gab.bytes, z));
    assert(layout_safe(s2));
    // s1
    let t1 = seq![gb];
    assert(s1.drop_first() =~= t1);
    assert(t1.drop_first() =~= e0);
    assert(segs_wide(t1) =~= gb.bytes + z);
    assert(segs_wide(t1) =~= seq![0x42u8, 0u8]);
    assert(!straddle(gb.bytes, z));
    assert(layout_safe(t1));
    assert(zext(ga.bytes) =~= seq![0x41u8, 0u8]);
    assert(seg_wide_bytes(ga) =~= seq![0x41u8, 0u8]);
    assert(segs_wide(s1) =~= seq![0x41u8, 0u8] + segs_wide(t1));
    assert(segs_wide(s1) =~= seq![0x41u8, 0u8, 0x42u8, 0u8]);
    let a = seg_wide_bytes(ga); let b = segs_wide(t1);
    assert((a + b) =~= seq![0x41u8, 0u8, 0x42u8, 0u8]);
    assert(!straddle(a, b));
    assert(layout_safe(s1));
    assert(segs_ok(s1) && segs_ok(s2));
    assert(s1.last() == gb && s2.last() == gab);
    lemma_layouts_read_back_identically(e, s1, seq![0xEEu8], s2, Seq::<u8>::empty());
}

} // verus!
fn main() {}
