//@@ unit props=C12,C19,C06
// Unit xlsstr: BIFF string readers of src/xls.rs across CONTINUE records (verbatim text).
#![allow(unused_imports, dead_code, unused_variables, unused_mut, unused_assignments, unexpected_cfgs)]
use vstd::prelude::*;
use std::cmp::min;

verus! {

// ---- stand-ins for foreign error payload types (opaque; never inspected by the verified code)
pub mod cfb { pub struct CfbError; }
pub mod vba { pub struct VbaError; }
#[verifier::external_type_specification] #[verifier::external_body] pub struct ExIoError(std::io::Error);

//@@ item src/xls.rs enum XlsError cfg_off=picture
//@@ item src/xls.rs struct Record

//@@ include common/bytes.rs

// TRUSTED: documented behaviour of std::cmp::min (generic over Ord; the only instantiation used is usize, whose order is the integer order)
pub mod stdax {
    use vstd::prelude::*;
    pub uninterp spec fn min_spec<T>(a: T, b: T) -> T;
    #[verifier::external_body]
    pub broadcast proof fn axiom_min_usize(a: usize, b: usize)
        ensures #[trigger] min_spec(a, b) == (if a <= b { a } else { b }),
    {}
}
pub assume_specification<T: Ord>[ std::cmp::min::<T> ](a: T, b: T) -> (r: T)
    ensures r == stdax::min_spec(a, b);
broadcast use stdax::axiom_min_usize;

// =====================================================================================================
// Ghost model of a record with its CONTINUE records ([MS-XLS] 2.4.58)
// =====================================================================================================
/// the continuation fragments still unread
pub open spec fn cont_seq(c: Option<Vec<&[u8]>>) -> Seq<Seq<u8>> {
    match c { Some(v) => Seq::new(v@.len(), |i: int| v@[i]@), None => Seq::<Seq<u8>>::empty() }
}
/// cursor = unread rest of the current fragment, followed by the fragments not yet entered
spec fn frags(r: Record) -> Seq<Seq<u8>> { seq![r.data@] + cont_seq(r.cont) }

/// number of bytes left from the cursor to the end of the last fragment
pub open spec fn total(f: Seq<Seq<u8>>) -> nat
    decreases f.len()
{
    if f.len() == 0 { 0 } else { f[0].len() + total(f.drop_first()) }
}
/// the bytes left, fragment structure forgotten
pub open spec fn flat(f: Seq<Seq<u8>>) -> Seq<u8>
    decreases f.len()
{
    if f.len() == 0 { Seq::<u8>::empty() } else { f[0] + flat(f.drop_first()) }
}

/// cursor after entering the next fragment (the unread rest of the current one is abandoned)
pub open spec fn next_frag(f: Seq<Seq<u8>>) -> Seq<Seq<u8>> { f.drop_first() }
/// cursor after consuming k bytes of the current fragment
pub open spec fn adv(f: Seq<Seq<u8>>, k: int) -> Seq<Seq<u8>> { f.update(0, f[0].subrange(k, f[0].len() as int)) }

/// [MS-XLS] 2.4.58: uninterpreted data (rgRun, ExtRst) crosses into the following CONTINUE records *without* any marker byte.
/// `skip_spec(f, n)` = the cursor resting right after the n-th next byte, inside the fragment that holds that byte; None when fewer
/// than n bytes are left.
pub open spec fn skip_spec(f: Seq<Seq<u8>>, n: nat) -> Option<Seq<Seq<u8>>>
    decreases f.len(), n
{
    if n == 0 { Some(f) }
    else if f.len() == 0 { None }
    else if f[0].len() == 0 { if f.len() == 1 { None } else { skip_spec(next_frag(f), n) } }
    else if n <= f[0].len() { Some(adv(f, n as int)) }
    else { skip_spec(adv(f, f[0].len() as int), (n - f[0].len()) as nat) }
}

//@@ props C12
/// what skip_spec means without reference to the fragments: exactly n bytes are gone, none is looked at, and it is defined iff n bytes exist
proof fn lemma_skip_spec_flat(f: Seq<Seq<u8>>, n: nat)
    requires f.len() >= 1,
    ensures
        skip_spec(f, n) is Some <==> n <= total(f),
        skip_spec(f, n) is Some ==> flat(skip_spec(f, n)->Some_0) == flat(f).skip(n as int) && total(skip_spec(f, n)->Some_0) == total(f) - n
            && skip_spec(f, n)->Some_0.len() >= 1,
        flat(f).len() == total(f),
    decreases f.len(), n
{
    lemma_flat_len(f);
    if n == 0 {
        assert(flat(f).skip(0) =~= flat(f));
    } else if f[0].len() == 0 {
        if f.len() > 1 {
            lemma_skip_spec_flat(next_frag(f), n);
            assert(flat(f) =~= flat(f.drop_first()));
        } else {
            assert(total(f.drop_first()) == 0);
        }
    } else if n <= f[0].len() {
        let g = adv(f, n as int);
        assert(g.drop_first() =~= f.drop_first());
        lemma_flat_len(f.drop_first());
        assert(flat(g) =~= flat(f).skip(n as int));
    } else {
        let g = adv(f, f[0].len() as int);
        assert(g.drop_first() =~= f.drop_first());
        assert(g[0].len() == 0);
        lemma_skip_spec_flat(g, (n - f[0].len()) as nat);
        assert(flat(g) =~= flat(f).skip(f[0].len() as int));
        assert(total(g) == total(f) - f[0].len());
        lemma_flat_len(g);
        if skip_spec(f, n) is Some {
            assert(flat(g).skip(n - f[0].len()) =~= flat(f).skip(n as int));
        }
    }
}
proof fn lemma_total_unfold(f: Seq<Seq<u8>>)
    requires f.len() >= 1,
    ensures total(f) == f[0].len() + total(f.drop_first()), f.len() == 1 ==> total(f) == f[0].len(),
{
    if f.len() == 1 { assert(total(f.drop_first()) == 0); }
}
proof fn lemma_flat_len(f: Seq<Seq<u8>>)
    ensures flat(f).len() == total(f),
    decreases f.len()
{
    if f.len() > 0 { lemma_flat_len(f.drop_first()); }
}

/// frame of every cursor operation: the record type is never touched, and a record read without continuation list stays so
spec fn same_record(a: Record, b: Record) -> bool { a.typ == b.typ && (a.cont is None <==> b.cont is None) }

//@@ impl src/xls.rs Record
//@@ fn src/xls.rs Record::continue_record props=C12 entry ret=res
//@@ sig
    ensures
        //# C12.continue_none
        !res <==> cont_seq(old(self).cont).len() == 0,
        //# C12.continue_frame_on_false
        !res ==> *final(self) == *old(self),
        //# C12.continue_pops_head
        res ==> frags(*final(self)) == next_frag(frags(*old(self))),
        //# C12.continue_frame
        same_record(*old(self), *final(self)),
//@@ end

#[verifier::loop_isolation(false)] // the initial value of the `mut len` parameter (n0) must stay known inside the loop
//@@ fn src/xls.rs Record::skip props=C12 entry ret=res
//@@ sig
    ensures
        //# C12.skip_exact
        res is Ok ==> skip_spec(frags(*old(self)), len as nat) == Some(frags(*final(self))),
        //# C12.skip_err_iff_short
        res is Err <==> total(frags(*old(self))) < len,
        //# C12.skip_err_kind
        res is Err ==> res matches Err(XlsError::ContinueRecordTooShort),
        //# C12.skip_frame
        same_record(*old(self), *final(self)),
//@@ body
        let ghost r0 = *self;
        let ghost n0 = len;
        proof { lemma_skip_spec_flat(frags(r0), n0 as nat); }
//@@ loop 0
            invariant
                r0 == *old(self),
                same_record(r0, *self),
                skip_spec(frags(r0), n0 as nat) == skip_spec(frags(*self), len as nat),
                total(frags(r0)) - n0 == total(frags(*self)) - len,
            decreases frags(*self).len(), len
//@@ before /if self\.data\.is_empty\(\)/
            let ghost f1 = frags(*self);
            proof { lemma_total_unfold(f1); }
//@@ before /return Err\(XlsError::ContinueRecordTooShort/
                proof { assert(frags(*self) == f1); assert(f1.len() == 1); }
//@@ before /let l = /
            let ghost f2 = frags(*self);
            let ghost len2 = len;
            proof {
                lemma_total_unfold(f2);
                if f1[0].len() == 0 { assert(f2 == next_frag(f1)); assert(skip_spec(f1, len as nat) == skip_spec(f2, len as nat)); } else { assert(f2 == f1); }
            }
//@@ after /len -= [^;]*;/
            proof {
                let f3 = frags(*self);
                assert(f3 =~= adv(f2, l as int));
                assert(f3.drop_first() =~= f2.drop_first());
                lemma_total_unfold(f3);
                if f2[0].len() == 0 { assert(l == 0); assert(f2[0].subrange(0, 0) =~= f2[0]); assert(f3 =~= f2); }
                else if len2 <= f2[0].len() { assert(len == 0); assert(skip_spec(f2, len2 as nat) == Some(f3)); assert(skip_spec(f3, 0) == Some(f3)); }
                else { assert(skip_spec(f2, len2 as nat) == skip_spec(f3, len as nat)); }
            }
//@@ end
//@@ endimpl

} // verus!
fn main() {}
