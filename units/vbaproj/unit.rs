//@@ unit props=C18,C06
// Unit vbaproj: the wiring of a VBA project -- src/vba.rs VbaProject::from_cfb, verbatim text (C18: "the module list contains exactly the
// project's modules by name, each module's raw content is exactly the decompression of its source container from the recorded offset").
//
// Under contract (verified on the real text):
//   VbaProject::from_cfb   (entry; C06: every implicit obligation of its text, incl. the slice `&s[m.text_offset..]` inside the closure)
//   read_dir_information   (entry; C18.dir_codepage as in unit vbadec, plus the NEW clause C18.dir_info_consumed: where the cursor stands
//                           afterwards -- vbadec's contract does not say, from_cfb needs it to tie the reference array to the dir stream)
//   VbaProject::get_references / get_module_names / get_module_raw / get_module   (entry; C18 observe_at): the stored references; the names
//                          are exactly the keys of the module map, one per key; get_module_raw(name) = Ok(bytes bound to exactly that
//                          name) / Err(ModuleNotFound(name)) iff absent (C18.module_raw_is_bound_content); get_module(name) = Ok(text)
//                          with text == decoded(code page of the project, those raw bytes) (C18.module_text_is_code_page_decoding) /
//                          Err iff absent.  `decoded` is the uninterpreted function of the XlsEncoding stand-in (A-enc, as in vbadec).
//                          Trusted for them: axiom_string_keyed_lookup / axiom_map_deep_dom (String keys compared by content; tie vstd's
//                          lookup predicates and key set to `map_deep`), axiom_string_from_str, and WEAK specs without ensures for
//                          core::str::from_utf8, str::to_lowercase / to_uppercase / trim (only so that edited texts are decided).
//                          Rewrite in get_module_names: the keys() iterator and the tail expression are bound to locals (2 replaces).
//   VbaProject::new(r, len)   (entry) C18.project_new_is_container_then_from_cfb: `project_of_container(bytes of r, len, res)` -- bytes without
//                          a valid compound-file header are an error; for a well-formed compound file (`cfb_parse` of unit cfb is Some,
//                          len covers the input) a returned project satisfies everything from_cfb guarantees (`project_ok`) relative to
//                          the logical content of exactly THESE bytes (the container handed to from_cfb is the one Cfb::new returned,
//                          over the same reader, nothing read in between).
//   Reader for Xlsx / Xlsb ::vba_project   (entry) over an A-zip model (entries found by exact name; bytes; declared size; may fail to open):
//                          C18.vba_project_none_iff_no_readable_part (None iff there is no entry named exactly "xl/vbaProject.bin" that
//                          can be opened), C18.vba_project_part_is_xl_vbaProject_bin (Some(Ok(Cow::Owned(vp))) with
//                          project_of_container(bytes of THAT entry, its declared size, Ok(vp))), C18.vba_project_error_is_vba_variant
//                          (Some(Err(Vba(e))) with project_of_container(.., Err(e))), archive unchanged.
//                          Rewrites: `.map(Cow::Owned)` eta-expanded (replace?), `.map_err(X::Vba)` by rule R12.
// Composed from contracts PROVED IN OTHER UNITS on the real text (here `external_body` on the extracted functions, clause text copied):
//   unit cfb     Cfb::get_stream            requires wf; C13.get_stream_frame, stream_not_found, get_stream_reads_logical_stream
//   unit cfb     Cfb::new                   C13,C20.new_rejects_invalid_header, C13,C20,C02,C18.new_parses_container -- PLUS the clause
//                                           `Ok(c) ==> c.wf()`, which is NOT YET in unit cfb (checked: provable there as is; see the stub)
//   unit vbadec  cfb::decompress_stream     C18.decode, bad_container_signature_rejected, C06.empty_container_rejected
//   unit vbadec  skip, check_variable_record  C18.skip_ok, skip_err_iff_short, check_var_record_ok, check_var_record_wrong_id_rejected
//   unit vbadec  read_modules               C18.module_count, module_name_stream_offset, modules_consumed
//   unit names   Reference::from_stream     C18.reference_array_wellformed_if_ok, reference_names_in_order,
//                                           reference_descriptions_from_their_libids, reference_array_consumed
// (Sectors::get / get_chain, read_variable_record, check_record, Reference::set_libid are extracted without contract, only so that the
// unverified bodies compile.)
// Specification text copied from those units (same definitions): [MS-OVBA] 2.4.1 `decode` / `valid_container` (vbadec), [MS-OVBA] 2.3.4.2
// dir stream (`dir_codepage`, `nth_mod`, `mod_*`: vbadec; `ref_walk`, `ev_names`, `refs_fold`: names), [MS-CFB] logical content of a
// container (`Parsed`, `reads_as`, `logical_stream`, `has_name`: cfb).
//
// What from_cfb's contract says (C18).  A successful run is described by a ghost `Run` (`the_run`): the dir stream is what the container
// holds under the name "dir", decompressed (run_dir); code page and start of the reference array are what read_dir_information finds in
// it (run_info); `references` is what Reference::from_stream returns there and the array ends where PROJECTMODULES starts (run_refs); the
// MODULE records are what read_modules returns there (run_mods); for every MODULE record k the bytes looked up are those the container
// -- in the state it has at that moment: same directory, FAT, mini FAT and sector size as at entry -- holds under mods[k].STREAM_NAME
// (not the module name), they are cut at mods[k].text_offset and decompressed (run_streams); the result map is the fold, in record order,
// of the bindings mods[k].NAME -> data k (run_map: a later module of the same name replaces an earlier one, as BTreeMap's FromIterator
// does).  Proved consequences: the keys are exactly the module names (run_keys), a name is bound to the data of its last record
// (run_last_binding).  Err clauses: no "dir" entry; a module whose stream name is not a directory entry (run_streams_exist, contrapositive
// on Ok); a text offset beyond the module's stream (closure clause + run_offsets_in_streams).  The container's directory / FATs are unchanged.
// All `run_*` predicates are opaque: a wrong result fails the labelled clause cheaply instead of exhausting the resource limit.
//
// Declared rewrites of real code (two `replace` directives, logged in the evidence): `mods.into_iter().map(|m| { BODY })
// .collect::<Result<_, _>>()?` is unfolded into `for m in mods { let __item = { BODY }; let __pair = __item?; __pairs.push(__pair); }`
// followed by the trusted `verif_collect_btreemap(__pairs)`.  BODY -- `cfb.get_stream(&m.stream_name, r).and_then(|s| { guard;
// decompress_stream(&s[m.text_offset..]).map(move |s| (m.name, s)) })` -- is NOT touched and NOT captured: it stays where it is in the
// source text (the two inner closures only receive a Verus signature through `//@@ closure 1` / `closure 2`), so any edit of it reaches
// the verifier and log statements in it are dropped by R1 as everywhere else.
// Trusted in this unit: `Result::and_then` (assume_specification), `verif_collect_btreemap` (BTreeMap's FromIterator = fold of inserts;
// `map_deep` is uninterpreted), the stand-ins copied from vbadec / names / cfb (A-io reader, byteorder, XlsEncoding, log_enabled).
// Not pinned down: `Reference::path`; that the container state stays the same between two lookups (unit cfb's frame clause guarantees
// directory, FAT, mini FAT, sector size; the loaded sector space may grow) -- module k is tied to the state at ITS lookup.
#![feature(allocator_api)]
#![feature(pattern)]
#![allow(unused_imports, dead_code, unused_variables, unused_mut, unused_assignments, unexpected_cfgs, deprecated, unused_braces)]
use vstd::prelude::*;
use vstd::std_specs::iter::IteratorSpec;
use std::collections::BTreeMap;
use std::cmp::min;
use std::borrow::Cow;
use std::path::PathBuf;

verus! {

// TRUSTED: 64-bit target (usize == u64; checked by rustc against the target): `f.size() as usize` keeps the declared size of a zip entry
global size_of usize == 8;

#[verifier::external_type_specification] #[verifier::external_body] pub struct ExIoError(std::io::Error);
#[verifier::external_type_specification] #[verifier::external_body] pub struct ExParseFloatError(std::num::ParseFloatError);
#[verifier::external_type_specification] #[verifier::external_body] pub struct ExParseIntError(std::num::ParseIntError);
// ---- stand-ins for foreign error payload types of XlsxError / XlsbError (opaque; never inspected by the verified code)
pub mod quick_xml {
    pub struct Error;
    pub mod events { pub mod attributes { pub struct AttrError; } }
    pub mod encoding { pub struct EncodingError; }
}
// TRUSTED: A-zip -- zip::result::ZipError (zip 2.4): the payloads of Io / InvalidArchive / UnsupportedArchive are dropped (never inspected)
pub mod zip { pub mod result { pub enum ZipError { Io, InvalidArchive, UnsupportedArchive, FileNotFound, InvalidPassword } } }
/// `crate::vba::VbaError` as the xlsx / xlsb modules name it
pub mod vba { pub use super::VbaError; }
// TRUSTED: std::io::ErrorKind is a plain enum; `io::Error::from(kind)` builds an error value and never panics
#[verifier::external_type_specification] pub struct ExErrorKind(std::io::ErrorKind);
pub assume_specification [<std::io::Error as From<std::io::ErrorKind>>::from] (k: std::io::ErrorKind) -> std::io::Error;
#[verifier::external_type_specification] #[verifier::external_body] pub struct ExPathBuf(std::path::PathBuf);

//@@ item src/cfb.rs const RESERVED_SECTORS
//@@ item src/cfb.rs const DIFSECT
//@@ item src/cfb.rs const ENDOFCHAIN
//@@ item src/cfb.rs enum CfbError
/// `crate::cfb::{..}` as src/vba.rs names them
pub mod cfb { pub use super::{Cfb, CfbError, XlsEncoding, decompress_stream}; }

//@@ include common/bytes.rs

// =====================================================================================================================
// [MS-OVBA] 2.4.1 decompression as mathematics over Seq<u8> -- text of unit vbadec (where decompress_stream is PROVED against it)
// =====================================================================================================================
pub open spec fn p2(k: nat) -> nat decreases k { if k == 0 { 1 } else { 2 * p2((k - 1) as nat) } }
/// [MS-OVBA] 2.4.1.3.19.1 CopyToken: Length = (Token & LengthMask) + 3 with LengthMask = 0xFFFF >> BitCount, i.e. the low 16-BitCount bits
pub open spec fn tok_len(tok: int, bc: nat) -> int { tok % (p2((16 - bc) as nat) as int) + 3 }
/// Offset = ((Token & OffsetMask) >> (16 - BitCount)) + 1, i.e. the high BitCount bits
pub open spec fn tok_off(tok: int, bc: nat) -> int { tok / (p2((16 - bc) as nat) as int) + 1 }
// =====================================================================================================================
// [MS-OVBA] 2.4.1 as mathematics over Seq<u8> (written from the format text, not from the code)
// =====================================================================================================================

/// u16 little endian at position p
pub open spec fn u16_at(s: Seq<u8>, p: int) -> int { s[p] as int + 256 * (s[p + 1] as int) }
/// CompressedChunkHeader (2.4.1.1.5): bits 0..11 CompressedChunkSize = chunk bytes - 3, bits 12..14 signature 0b011, bit 15 CompressedChunkFlag
pub open spec fn hdr_size(h: int) -> int { h % 4096 }
pub open spec fn hdr_sig(h: int) -> int { (h / 4096) % 8 }
pub open spec fn hdr_compressed(h: int) -> bool { h / 32768 == 1 }
/// FlagByte bit k, least significant first: true = CopyToken, false = LiteralToken (2.4.1.1.7)
pub open spec fn flag_bit(flags: u8, k: int) -> bool { (flags as int / (p2(k as nat) as int)) % 2 == 1 }

/// CopyToken help (2.4.1.3.19.1): BitCount = max(ceil(log2(difference)), 4) = the least b >= 4 with 2^b >= difference
pub open spec fn bit_count_from(d: int, b: nat) -> nat
    decreases 16 - b
{
    if b >= 16 || p2(b) >= d { b } else { bit_count_from(d, b + 1) }
}
pub open spec fn copy_bit_count(d: int) -> nat { bit_count_from(d, 4) }

/// byte-by-byte copy of n bytes from `off` bytes back (2.4.1.3.11 Byte Copy): overlapping copies repeat
#[verifier::opaque]
pub open spec fn copy_bytes(out: Seq<u8>, off: int, n: int) -> Seq<u8>
    decreases n
{
    if n <= 0 { out } else { copy_bytes(out.push(out[out.len() - off]), off, n - 1) }
}

/// TokenSequences of one compressed chunk: data bytes [p, e); `flags`/`k` = current FlagByte and the index of its next bit
/// (k == 8: a new FlagByte is due); `out` = whole decompressed buffer, `start` = DecompressedChunkStart.
/// None = malformed (token crosses the chunk end, copy offset reaches before the chunk's start).
#[verifier::opaque]
pub open spec fn dec_toks(s: Seq<u8>, p: int, e: int, flags: u8, k: int, out: Seq<u8>, start: int) -> Option<Seq<u8>>
    decreases e - p
{
    if p >= e {
        if p == e { Some(out) } else { None }
    } else if k >= 8 {
        dec_toks(s, p + 1, e, s[p], 0, out, start)
    } else if !flag_bit(flags, k) {
        dec_toks(s, p + 1, e, flags, k + 1, out.push(s[p]), start)
    } else if p + 2 > e {
        None
    } else {
        let tok = u16_at(s, p);
        let d = out.len() - start;
        let bc = copy_bit_count(d);
        if tok_off(tok, bc) > d { None } else { dec_toks(s, p + 2, e, flags, k + 1, copy_bytes(out, tok_off(tok, bc), tok_len(tok, bc)), start) }
    }
}

/// CompressedChunk* from position i (a chunk boundary) to the end of the container
#[verifier::opaque]
pub open spec fn dec_chunks(s: Seq<u8>, i: int, out: Seq<u8>) -> Option<Seq<u8>>
    decreases s.len() - i
{
    if i >= s.len() {
        if i == s.len() { Some(out) } else { None }
    } else if i + 2 > s.len() {
        None
    } else {
        let h = u16_at(s, i);
        let e = i + hdr_size(h) + 3;
        if hdr_sig(h) != 3 || e > s.len() {
            None
        } else if !hdr_compressed(h) {
            // raw chunk: exactly 4096 data bytes
            if hdr_size(h) != 4095 { None } else { dec_chunks(s, e, out + s.subrange(i + 2, e)) }
        } else {
            match dec_toks(s, i + 2, e, 0, 8, out, out.len() as int) {
                Some(o2) => if o2.len() - out.len() > 4096 { None } else { dec_chunks(s, e, o2) },
                None => None,
            }
        }
    }
}

/// CompressedContainer = SignatureByte 0x01 ++ CompressedChunk*
pub open spec fn decode_opt(s: Seq<u8>) -> Option<Seq<u8>> {
    if s.len() >= 1 && s[0] == 1 { dec_chunks(s, 1, Seq::<u8>::empty()) } else { None }
}
pub open spec fn valid_container(s: Seq<u8>) -> bool { decode_opt(s) is Some }
pub open spec fn decode(s: Seq<u8>) -> Seq<u8> { decode_opt(s).unwrap() }

// TRUSTED: contract proved in unit vbadec on the real text (clauses C18.decode, C18.bad_container_signature_rejected,
// C06.empty_container_rejected: identical text)
//@@ fn src/cfb.rs decompress_stream external_body ret=r
//@@ sig
    ensures
        valid_container(s@) ==> (r matches Ok(v) && v@ == decode(s@)),
        s@.len() >= 1 && s@[0] != 1 ==> r is Err,
        s@.len() == 0 ==> r is Err,
//@@ end

// =====================================================================================================================
// [MS-CFB]: reader model (A-io) and logical content of a compound file -- text of unit cfb
// =====================================================================================================================
// ---------------------------------------------------------------- A-io: ghost model of std::io::Read
// TRUSTED: (A-io) documented behaviour of std::io::Read: a reader owns the sequence `rem()` of bytes not yet delivered;
// `read` copies the next n bytes (0 <= n <= buf.len()) to the front of buf and drops them; n == 0 only when buf is
// empty or the stream is at its end; `read_exact` fills buf completely or fails.
pub trait Read {
    spec fn rem(&self) -> Seq<u8>;
    /// ghost flag: some read/seek on this reader has returned an I/O error
    spec fn io_failed(&self) -> bool;
    fn read(&mut self, buf: &mut [u8]) -> (r: Result<usize, std::io::Error>)
        ensures
            final(buf)@.len() == old(buf)@.len(),
            match r {
                Ok(n) => n <= old(buf)@.len() && n <= old(self).rem().len()
                    && (n == 0 ==> old(buf)@.len() == 0 || old(self).rem().len() == 0)
                    && final(self).rem() == old(self).rem().skip(n as int)
                    && final(buf)@ == old(self).rem().take(n as int) + old(buf)@.skip(n as int)
                    && final(self).io_failed() == old(self).io_failed(),
                Err(_) => final(self).io_failed(),
            };
    fn read_exact(&mut self, buf: &mut [u8]) -> (r: Result<(), std::io::Error>)
        ensures
            final(buf)@.len() == old(buf)@.len(),
            match r {
                Ok(_) => old(buf)@.len() <= old(self).rem().len()
                    && final(self).rem() == old(self).rem().skip(old(buf)@.len() as int)
                    && final(buf)@ == old(self).rem().take(old(buf)@.len() as int)
                    && final(self).io_failed() == old(self).io_failed(),
                // nothing else is assumed about Err: any read may fail with an I/O error (UnexpectedEof when the stream is too short)
                Err(_) => final(self).io_failed(),
            };
}
// ---------------------------------------------------------------- [MS-CFB] specification (independent of the code)
/// sector `id` of the sector space `data` (the bytes after the header) with sectors of `size` bytes
pub open spec fn sector(data: Seq<u8>, size: int, id: int) -> Seq<u8> {
    data.subrange(id * size, (id + 1) * size)
}
/// sector `id` lies completely inside `data`
pub open spec fn sector_in(data: Seq<u8>, size: int, id: int) -> bool {
    0 <= id && (id + 1) * size <= data.len()
}

/// C06 allocation bound `n <= bound` (bound = bytes of input available). Opaque so that a *failed* bound (a finding) is not
/// assumed by the verifier in the rest of the function, where it would mask other obligations.
#[verifier::opaque]
pub open spec fn alloc_le(n: int, bound: int) -> bool { n <= bound }

/// [MS-CFB] 2.3: sector chain starting at `start`: follow the FAT until ENDOFCHAIN (0xFFFFFFFE).
/// `None` when the chain is not well formed within `fuel` steps: an id outside the FAT / above MAXREGSECT, or a cycle.
pub open spec fn fat_chain(fat: Seq<u32>, start: u32, fuel: nat) -> Option<Seq<u32>>
    decreases fuel
{
    if start == 0xFFFF_FFFEu32 { Some(Seq::<u32>::empty()) }
    else if fuel == 0 || start as int >= fat.len() || start > 0xFFFF_FFFAu32 { None }
    else {
        match fat_chain(fat, fat[start as int], (fuel - 1) as nat) {
            Some(t) => Some(seq![start] + t),
            None => None,
        }
    }
}
/// concatenation of the sectors `ids` of the sector space `data`
pub open spec fn chain_bytes(data: Seq<u8>, size: int, ids: Seq<u32>) -> Seq<u8>
    decreases ids.len()
{
    if ids.len() == 0 { Seq::<u8>::empty() } else { chain_bytes(data, size, ids.drop_last()) + sector(data, size, ids.last() as int) }
}
pub open spec fn all_in(data: Seq<u8>, size: int, ids: Seq<u32>) -> bool {
    forall|i: int| 0 <= i < ids.len() ==> sector_in(data, size, #[trigger] ids[i] as int)
}
/// the chain from `start` is well formed and all its sectors lie inside `data`
pub open spec fn chain_ok(data: Seq<u8>, size: int, fat: Seq<u32>, start: u32, fuel: nat) -> bool {
    fat_chain(fat, start, fuel) is Some && all_in(data, size, fat_chain(fat, start, fuel).unwrap())
}
/// [MS-CFB] 2.6.3: a stream object = the sectors of its chain, cut to the stream size recorded in the directory entry
/// (`len == 0`: size unknown, the whole chain)
pub open spec fn stream_bytes(data: Seq<u8>, size: int, fat: Seq<u32>, start: u32, len: int, fuel: nat) -> Seq<u8> {
    let raw = chain_bytes(data, size, fat_chain(fat, start, fuel).unwrap());
    if 0 < len < raw.len() { raw.take(len) } else { raw }
}

//@@ item src/cfb.rs struct Sectors
impl Sectors {
    /// representation invariant (not file controlled): sector sizes are 512/4096 ([MS-CFB] 2.2 sector shift 9/12) or 64 (mini sector)
    pub closed spec fn wf(&self) -> bool { self.size == 64 || self.size == 512 || self.size == 4096 }
    pub closed spec fn sz(&self) -> int { self.size as int }
    pub closed spec fn loaded(&self) -> Seq<u8> { self.data@ }
    /// the whole sector space: what is already loaded followed by what the reader still holds
    pub open spec fn total<R: Read>(&self, r: &R) -> Seq<u8> { self.loaded() + (*r).rem() }
}
//@@ item src/cfb.rs struct Directory
//@@ item src/cfb.rs struct Cfb
/// abstract directory entry ([MS-CFB] 2.6.1): name, starting sector, stream size
pub struct DirEnt { pub name: Seq<char>, pub start: u32, pub len: nat }

pub open spec fn has_name(ds: Seq<DirEnt>, n: Seq<char>) -> bool { exists|i: int| 0 <= i < ds.len() && (#[trigger] ds[i]).name == n }
/// entry `i` is the only entry called `n`
pub open spec fn only_name(ds: Seq<DirEnt>, n: Seq<char>, i: int) -> bool {
    0 <= i < ds.len() && ds[i].name == n && forall|j: int| 0 <= j < ds.len() && (#[trigger] ds[j]).name == n ==> j == i
}
pub struct Parsed { pub size: int, pub data: Seq<u8>, pub fat: Seq<u32>, pub dirs: Seq<DirEnt>, pub mini_fat: Seq<u32>, pub mini_stream: Seq<u8> }
/// [MS-CFB] 2.6.3 / 2.4: a stream shorter than the mini stream cutoff (4096) lives in the mini stream (64-byte mini sectors,
/// mini FAT), any other stream in regular sectors (FAT)
pub open spec fn logical_ok(p: Parsed, i: int, fuel: nat) -> bool {
    if p.dirs[i].len < 4096 { chain_ok(p.mini_stream, 64, p.mini_fat, p.dirs[i].start, fuel) }
    else { chain_ok(p.data, p.size, p.fat, p.dirs[i].start, fuel) }
}
pub open spec fn logical_stream(p: Parsed, i: int, fuel: nat) -> Seq<u8> {
    if p.dirs[i].len < 4096 { stream_bytes(p.mini_stream, 64, p.mini_fat, p.dirs[i].start, p.dirs[i].len as int, fuel) }
    else { stream_bytes(p.data, p.size, p.fat, p.dirs[i].start, p.dirs[i].len as int, fuel) }
}
/// `v` is what a container with logical content `p` holds under `name`
pub open spec fn reads_as(p: Parsed, name: Seq<char>, v: Seq<u8>) -> bool {
    forall|i: int, fuel: nat| only_name(p.dirs, name, i) && #[trigger] logical_ok(p, i, fuel) ==> v == logical_stream(p, i, fuel)
}

impl Directory {
    pub closed spec fn ent(&self) -> DirEnt { DirEnt { name: self.name@, start: self.start, len: self.len as nat } }
}
impl Cfb {
    /// directory entries in directory-stream order
    pub closed spec fn dirs(&self) -> Seq<DirEnt> { Seq::new(self.directories@.len(), |i: int| self.directories@[i].ent()) }
    pub closed spec fn fat(&self) -> Seq<u32> { self.fats@ }
    pub closed spec fn mini_fat(&self) -> Seq<u32> { self.mini_fats@ }
    /// sector size of the regular sector space
    pub closed spec fn ssz(&self) -> int { self.sectors.sz() }
    /// regular sector space: loaded bytes followed by what the reader still holds
    pub closed spec fn space<R: Read>(&self, r: &R) -> Seq<u8> { self.sectors.total(r) }
    /// the mini stream ([MS-CFB] 2.4): 64-byte mini sectors
    pub closed spec fn mini_stream(&self) -> Seq<u8> { self.mini_sectors.loaded() }
    /// logical content held by this `Cfb` together with its reader
    pub open spec fn parsed<R: Read>(&self, r: &R) -> Parsed {
        Parsed { size: self.ssz(), data: self.space(r), fat: self.fat(), dirs: self.dirs(), mini_fat: self.mini_fat(), mini_stream: self.mini_stream() }
    }
    pub closed spec fn wf(&self) -> bool { self.sectors.wf() && self.mini_sectors.wf() && self.mini_sectors.sz() == 64 && (self.sectors.sz() == 512 || self.sectors.sz() == 4096) }
}


// ---- [MS-CFB] logical content of a compound file as a function of its bytes (`cfb_parse`) -- text of unit cfb, kept in a module of its
// own because its header helpers `u16_at` / `u32_at` bear the names of vbadec's (different) helpers
pub mod cfbspec {
use super::*;
/// little-endian u32 words of a byte string (complete words only; up to 3 trailing bytes are not a word)
#[verifier::opaque]
pub open spec fn le32_words(s: Seq<u8>) -> Seq<u32> { Seq::new(s.len() / 4, |i: int| le32(s.subrange(4 * i, 4 * i + 4)) as u32) }
// [MS-CFB] 2.2 compound file header (first 512 bytes), field offsets from the specification
#[verifier::opaque]
pub open spec fn u16_at(h: Seq<u8>, off: int) -> int { le16(h.subrange(off, off + 2)) }
#[verifier::opaque]
pub open spec fn u32_at(h: Seq<u8>, off: int) -> int { le32(h.subrange(off, off + 4)) }
/// header signature D0 CF 11 E0 A1 B1 1A E1 at offset 0
pub open spec fn ole_signature() -> Seq<u8> { seq![0xD0u8, 0xCFu8, 0x11u8, 0xE0u8, 0xA1u8, 0xB1u8, 0x1Au8, 0xE1u8] }
pub open spec fn hdr_signature_ok(h: Seq<u8>) -> bool { h.len() >= 8 && h.subrange(0, 8) == ole_signature() }
pub open spec fn hdr_sector_shift(h: Seq<u8>) -> int { u16_at(h, 30) }
pub open spec fn hdr_mini_sector_shift(h: Seq<u8>) -> int { u16_at(h, 32) }
pub open spec fn hdr_num_dir_sectors(h: Seq<u8>) -> int { u32_at(h, 40) }
pub open spec fn hdr_num_fat_sectors(h: Seq<u8>) -> int { u32_at(h, 44) }
pub open spec fn hdr_first_dir_sector(h: Seq<u8>) -> int { u32_at(h, 48) }
pub open spec fn hdr_first_mini_fat_sector(h: Seq<u8>) -> int { u32_at(h, 60) }
pub open spec fn hdr_num_mini_fat_sectors(h: Seq<u8>) -> int { u32_at(h, 64) }
pub open spec fn hdr_first_difat_sector(h: Seq<u8>) -> int { u32_at(h, 68) }
pub open spec fn hdr_num_difat_sectors(h: Seq<u8>) -> int { u32_at(h, 72) }
/// the 109 DIFAT entries stored in the header
pub open spec fn hdr_difat(h: Seq<u8>) -> Seq<u32> { le32_words(h.subrange(76, 512)) }
/// sector size selected by the sector shift: 9 -> 512 (version 3), 12 -> 4096 (version 4)
pub open spec fn hdr_sector_size(h: Seq<u8>) -> int { if hdr_sector_shift(h) == 9 { 512 } else { 4096 } }
/// header accepted: signature, sector shift 9 or 12, mini sector shift 6
pub open spec fn hdr_valid(h: Seq<u8>) -> bool {
    h.len() >= 512 && hdr_signature_ok(h) && (hdr_sector_shift(h) == 9 || hdr_sector_shift(h) == 12) && hdr_mini_sector_shift(h) == 6
}

// TRUSTED: (A-enc) UTF-16LE decoding of encoding_rs is an uninterpreted function of the bytes
pub uninterp spec fn dec16(b: Seq<u8>) -> Seq<char>;
/// index of the first NUL character, or the length
pub open spec fn first_nul(s: Seq<char>) -> int
    decreases s.len()
{
    if s.len() == 0 || s[0] == '\0' { 0 } else { 1 + first_nul(s.skip(1)) }
}
/// [MS-CFB] 2.6.1 directory entry name: UTF-16 text of the 64-byte name field up to its terminating NUL
pub open spec fn dir_name(b: Seq<u8>) -> Seq<char> { dec16(b).take(first_nul(dec16(b))) }
/// [MS-CFB] 2.6.1 directory entry (128 bytes): name @0..64, starting sector @116, stream size @120 (32 bits meaningful for 512-byte sectors)
#[verifier::opaque]
pub open spec fn dir_ent(e: Seq<u8>, size: int) -> DirEnt {
    DirEnt {
        name: dir_name(e.subrange(0, 64)),
        start: le32(e.subrange(116, 120)) as u32,
        len: (if size == 512 { le32(e.subrange(120, 124)) } else { le64(e.subrange(120, 128)) }) as nat,
    }
}
#[verifier::opaque]
pub open spec fn dir_entries(stream: Seq<u8>, size: int) -> Seq<DirEnt> {
    Seq::new((stream.len() / 128) as nat, |i: int| dir_ent(stream.subrange(128 * i, 128 * i + 128), size))
}
/// [MS-CFB] 2.5 DIFAT sectors: (size/4 - 1) FAT sector ids followed by the id of the next DIFAT sector
pub open spec fn difat_walk(data: Seq<u8>, size: int, next: u32, fuel: nat) -> Option<Seq<u32>>
    decreases fuel
{
    if next >= 0xFFFF_FFFAu32 { Some(Seq::<u32>::empty()) }
    else if fuel == 0 || !sector_in(data, size, next as int) { None }
    else {
        let w = le32_words(sector(data, size, next as int));
        match difat_walk(data, size, w.last(), (fuel - 1) as nat) {
            Some(t) => Some(w.drop_last() + t),
            None => None,
        }
    }
}
/// DIFAT entries that name a FAT sector (FREESECT and the other special values do not)
pub open spec fn fat_sector_ids(d: Seq<u32>) -> Seq<u32>
    decreases d.len()
{
    if d.len() == 0 { Seq::<u32>::empty() }
    else if d.last() < 0xFFFF_FFFCu32 { fat_sector_ids(d.drop_last()).push(d.last()) }
    else { fat_sector_ids(d.drop_last()) }
}
/// the FAT: concatenation of the FAT sectors read as little-endian u32 words
pub open spec fn fat_of(data: Seq<u8>, size: int, ids: Seq<u32>) -> Seq<u32>
    decreases ids.len()
{
    if ids.len() == 0 { Seq::<u32>::empty() } else { fat_of(data, size, ids.drop_last()) + le32_words(sector(data, size, ids.last() as int)) }
}
/// logical content of the compound file `inp` (None: not a well-formed compound file within `fuel` chain steps)
#[verifier::opaque]
pub open spec fn cfb_parse(inp: Seq<u8>, fuel: nat) -> Option<Parsed> {
    if !hdr_valid(inp) { None } else {
        let size = hdr_sector_size(inp);
        let data = inp.skip(size);
        let walk = difat_walk(data, size, hdr_first_difat_sector(inp) as u32, fuel);
        if inp.len() < size || walk is None { None } else {
            let ids = fat_sector_ids(hdr_difat(inp) + walk.unwrap());
            let fat = fat_of(data, size, ids);
            let dir_start = hdr_first_dir_sector(inp) as u32;
            if !all_in(data, size, ids) || !chain_ok(data, size, fat, dir_start, fuel) { None } else {
                let dirs = dir_entries(stream_bytes(data, size, fat, dir_start, hdr_num_dir_sectors(inp) * size, fuel), size);
                // [MS-CFB] 2.6.3: the root entry's start sector is ENDOFCHAIN exactly when the file has no mini stream -- legal in either version
                if dirs.len() == 0 { None }
                else if hdr_num_mini_fat_sectors(inp) == 0 {
                    Some(Parsed { size, data, fat, dirs, mini_fat: Seq::<u32>::empty(), mini_stream: Seq::<u8>::empty() })
                } else {
                    let mf_start = hdr_first_mini_fat_sector(inp) as u32;
                    if !chain_ok(data, size, fat, dirs[0].start, fuel) || !chain_ok(data, size, fat, mf_start, fuel) { None } else {
                        Some(Parsed { size, data, fat, dirs,
                            mini_fat: le32_words(stream_bytes(data, size, fat, mf_start, hdr_num_mini_fat_sectors(inp) * size, fuel)),
                            mini_stream: stream_bytes(data, size, fat, dirs[0].start, dirs[0].len as int, fuel) })
                    }
                }
            }
        }
    }
}


} // mod cfbspec
use cfbspec::{cfb_parse, hdr_valid};

//@@ item src/cfb.rs struct Header
//@@ impl src/cfb.rs Header
// present only so that the (unverified) text of Cfb::new compiles
//@@ fn src/cfb.rs Header::from_reader external_body
//@@ end
//@@ endimpl
//@@ impl src/cfb.rs Directory
//@@ fn src/cfb.rs Directory::from_slice external_body
//@@ end
//@@ endimpl
//@@ fn src/utils.rs to_u32 external_body
//@@ end
//@@ impl src/cfb.rs Sectors
// present only so that the (unverified) text of Cfb::get_stream compiles
//@@ fn src/cfb.rs Sectors::new external_body
//@@ end
//@@ fn src/cfb.rs Sectors::get external_body
//@@ end
//@@ fn src/cfb.rs Sectors::get_chain external_body
//@@ end
//@@ endimpl
//@@ impl src/cfb.rs Cfb
// TRUSTED: contract proved in unit cfb on the real text (clauses C13,C20.new_rejects_invalid_header and C13,C20,C02,C18.new_parses_container:
// identical text).
// TRUSTED: clause C13,C18.new_establishes_representation_invariant of unit cfb, `res matches Ok(c) ==> c.wf()` (the representation invariant that Cfb::get_stream requires holds
// for EVERY container Cfb::new returns, not only for well-formed input: sector size 512 / 4096 is checked by Header::from_reader, the mini
// sectors are built with size 64).
//@@ fn src/cfb.rs Cfb::new external_body ret=res
//@@ replace /Header::from_reader\(&mut reader\)/ (only so that the unverified body compiles against the A-io stand-in of `Read`, which has no `impl Read for &mut R`; same rewrite as in unit cfb)
Header::from_reader(reader)
//@@ sig
    ensures
        !hdr_valid((*old(reader)).rem()) ==> res is Err,
        forall|fuel: nat| #[trigger] cfb_parse((*old(reader)).rem(), fuel) is Some && len as int >= (*old(reader)).rem().len() ==> (match res {
            Ok(c) => {
                let p = cfb_parse((*old(reader)).rem(), fuel).unwrap();
                &&& c.wf()
                &&& c.ssz() == p.size
                &&& c.fat() == p.fat
                &&& c.dirs() == p.dirs
                &&& c.mini_fat() == p.mini_fat
                &&& c.mini_stream() == p.mini_stream
                &&& c.space(final(reader)) == p.data
                &&& (*final(reader)).io_failed() == (*old(reader)).io_failed()
            },
            Err(e) => e is Io && (*final(reader)).io_failed(),
        }),
        res matches Ok(c) ==> c.wf(),
//@@ end
// TRUSTED: contract proved in unit cfb on the real text (requires and clauses C13.get_stream_frame, C13.stream_not_found,
// C13.get_stream_reads_logical_stream: identical text; the other clauses of unit cfb are not needed here)
//@@ fn src/cfb.rs Cfb::get_stream external_body ret=res
//@@ sig
    requires
        old(self).wf(),
    ensures
        final(self).dirs() == old(self).dirs() && final(self).fat() == old(self).fat() && final(self).mini_fat() == old(self).mini_fat()
            && final(self).ssz() == old(self).ssz() && final(self).wf(),
        !has_name(old(self).dirs(), name@) ==> (match res { Err(CfbError::StreamNotFound(s)) => s@ == name@, _ => false }),
        res matches Ok(v) ==> reads_as(old(self).parsed(old(r)), name@, v@),
//@@ end
//@@ endimpl

// =====================================================================================================================
// src/vba.rs: stand-ins and the dir-stream parsers -- text of units vbadec / names
// =====================================================================================================================
// TRUSTED: (A-io) `byteorder::ReadBytesExt::read_u16/read_u32::<LittleEndian>` on the reader `&[u8]` (std `impl Read for &[u8]`):
// with >= N bytes left it returns their little-endian value and advances the slice by N; otherwise it returns Err(UnexpectedEof)
// (the slice position after an Err is unspecified). It never panics.
pub mod byteorder {
    use vstd::prelude::*;
    use super::{le16, le32};
    pub struct LittleEndian;
    pub trait ReadBytesExt {
        spec fn rem(&self) -> Seq<u8>;
        fn read_u16<T>(&mut self) -> (r: Result<u16, std::io::Error>)
            ensures match r {
                Ok(v) => old(self).rem().len() >= 2 && v as int == le16(old(self).rem()) && final(self).rem() == old(self).rem().skip(2),
                Err(_) => old(self).rem().len() < 2,
            };
        fn read_u32<T>(&mut self) -> (r: Result<u32, std::io::Error>)
            ensures match r {
                Ok(v) => old(self).rem().len() >= 4 && v as int == le32(old(self).rem()) && final(self).rem() == old(self).rem().skip(4),
                Err(_) => old(self).rem().len() < 4,
            };
    }
    impl<'a> ReadBytesExt for &'a [u8] {
        open spec fn rem(&self) -> Seq<u8> { (*self)@ }
        #[verifier::external_body]
        fn read_u16<T>(&mut self) -> (r: Result<u16, std::io::Error>) { unimplemented!() }
        #[verifier::external_body]
        fn read_u32<T>(&mut self) -> (r: Result<u32, std::io::Error>) { unimplemented!() }
    }
}
use byteorder::{LittleEndian, ReadBytesExt};

// TRUSTED: (A-enc) stand-in for cfb::XlsEncoding (wraps an encoding_rs `&'static Encoding`): `from_codepage` finds the encoding of a
// code page or fails with CodePageNotFound; `decode_all` decodes a byte string with it (total, never panics). The decoded text is an
// uninterpreted function of (code page, bytes).
pub struct XlsEncoding { pub cp: u16 }
pub uninterp spec fn codepage_known(cp: u16) -> bool;
pub uninterp spec fn decoded(cp: u16, bytes: Seq<u8>) -> Seq<char>;
impl XlsEncoding {
    #[verifier::external_body]
    pub fn from_codepage(codepage: u16) -> (r: Result<XlsEncoding, CfbError>)
        ensures match r { Ok(e) => codepage_known(codepage) && e.cp == codepage, Err(_) => !codepage_known(codepage) },
    { unimplemented!() }
    #[verifier::external_body]
    pub fn decode_all(&self, stream: &[u8]) -> (r: String)
        ensures r@ == decoded(self.cp, stream@),
    { unimplemented!() }
}

//@@ item src/vba.rs enum VbaError
// expansion of `from_err!(crate::cfb::CfbError, VbaError, Cfb)` / `from_err!(std::io::Error, VbaError, Io)` (macro in src/utils.rs)
impl vstd::std_specs::convert::FromSpecImpl<std::io::Error> for VbaError {
    open spec fn obeys_from_spec() -> bool { true }
    open spec fn from_spec(e: std::io::Error) -> Self { VbaError::Io(e) }
}
impl From<std::io::Error> for VbaError {
    fn from(e: std::io::Error) -> (r: VbaError) { VbaError::Io(e) }
}
impl vstd::std_specs::convert::FromSpecImpl<CfbError> for VbaError {
    open spec fn obeys_from_spec() -> bool { true }
    open spec fn from_spec(e: CfbError) -> Self { VbaError::Cfb(e) }
}
impl From<CfbError> for VbaError {
    fn from(e: CfbError) -> (r: VbaError) { VbaError::Cfb(e) }
}
// TRUSTED: `log_enabled!(Level::Warn)` is an opaque boolean (state of the global logger); only guards a `warn!` statement
#[verifier::external_body]
fn verif_log_enabled() -> bool { false }


//@@ item src/vba.rs struct Module

// ---- [MS-OVBA] 2.3.4.2 dir stream (text of unit vbadec)
// ---- [MS-OVBA] 2.3.4.2 dir stream, written over the *suffix* t of the stream that starts at the record in question
/// 2.3.4.2.1: PROJECTSYSKIND (10 bytes) [PROJECTCOMPATVERSION, id 0x004A, 10 bytes] PROJECTLCID (10) PROJECTLCIDINVOKE (10)
/// PROJECTCODEPAGE (id u16, size u32, CodePage u16): the stream suffix that starts at PROJECTCODEPAGE
pub open spec fn dir_codepage_rec(s: Seq<u8>) -> Seq<u8> {
    if le16(s.skip(10)) == 0x004A { s.skip(10).skip(10).skip(20) } else { s.skip(10).skip(20) }
}
pub open spec fn dir_codepage(s: Seq<u8>) -> int { le16(dir_codepage_rec(s).skip(6)) }

/// variable record at the head of t: id u16, size u32, payload[size]
pub open spec fn vr_size(t: Seq<u8>) -> int { le32(t.skip(2)) }
pub open spec fn vr_payload(t: Seq<u8>) -> Seq<u8> { t.subrange(6, 6 + vr_size(t)) }
pub open spec fn vr_rest(t: Seq<u8>) -> Seq<u8> { t.skip(6 + vr_size(t)) }

/// 2.3.4.2.3.2 MODULE record at the head of t: MODULENAME 0x19, MODULENAMEUNICODE 0x47, MODULESTREAMNAME 0x1A (+ unicode 0x32),
/// MODULEDOCSTRING 0x1C (+ unicode 0x48) are variable records; then MODULEOFFSET: id 0x31, size u32, TextOffset u32
pub open spec fn mod_name(t: Seq<u8>) -> Seq<u8> { vr_payload(t) }
pub open spec fn mod_stream_name(t: Seq<u8>) -> Seq<u8> { vr_payload(vr_rest(vr_rest(t))) }
pub open spec fn mod_offset_rec(t: Seq<u8>) -> Seq<u8> { vr_rest(vr_rest(vr_rest(vr_rest(vr_rest(vr_rest(t)))))) }
pub open spec fn mod_text_offset(t: Seq<u8>) -> int { le32(mod_offset_rec(t).skip(2).skip(4)) }
/// after TextOffset: MODULEHELPCONTEXT (id, 8 bytes), MODULECOOKIE (id, 6 bytes), MODULETYPE id (0x21 / 0x22)
pub open spec fn mod_flags(t: Seq<u8>) -> Seq<u8> { mod_offset_rec(t).skip(2).skip(4).skip(4).skip(2).skip(8).skip(2).skip(6).skip(2) }
/// each of MODULETYPE / MODULEREADONLY 0x25 / MODULEPRIVATE 0x28 is followed by a reserved u32, then the next id; the Terminator 0x2B
/// and its reserved u32 end the MODULE record
pub open spec fn mod_flags_rest(u: Seq<u8>) -> Seq<u8>
    decreases u.len()
{
    if u.len() < 6 { u } else if le16(u.skip(4)) == 0x002B { u.skip(4).skip(2).skip(4) } else { mod_flags_rest(u.skip(4).skip(2)) }
}
pub open spec fn mod_rest(t: Seq<u8>) -> Seq<u8> { mod_flags_rest(mod_flags(t)) }
/// suffix at which the j-th MODULE record starts
pub open spec fn nth_mod(t0: Seq<u8>, j: int) -> Seq<u8>
    decreases j
{
    if j <= 0 { t0 } else { mod_rest(nth_mod(t0, j - 1)) }
}
/// 2.3.4.2.3: (id 0x000F consumed by the caller) size u32, Count u16, PROJECTCOOKIE (8 bytes), MODULE records
pub open spec fn modules_count(s: Seq<u8>) -> int { le16(s.skip(4)) }
pub open spec fn modules_first(s: Seq<u8>) -> Seq<u8> { s.skip(4).skip(2).skip(8) }

spec fn module_ok(t: Seq<u8>, m: Module, cp: u16) -> bool {
    m.text_offset as int == mod_text_offset(t) && m.name@ == decoded(cp, mod_name(t)) && m.stream_name@ == decoded(cp, mod_stream_name(t))
}

// TRUSTED: contracts proved in unit vbadec on the real text (clauses C18.skip_ok, C18.skip_err_iff_short: identical text)
//@@ fn src/vba.rs skip external_body ret=res
//@@ sig
    ensures
        res is Ok ==> old(stream)@.len() >= n && final(stream)@ == old(stream)@.skip(n as int),
        res is Err <==> old(stream)@.len() < n,
//@@ end
// present only so that the (unverified) text of the parsers compiles (proved in units vbadec / names)
//@@ fn src/vba.rs read_variable_record external_body
//@@ end
//@@ fn src/vba.rs check_record external_body
//@@ end
// TRUSTED: contract proved in unit vbadec on the real text (clauses C18.check_var_record_ok, C18.check_var_record_wrong_id_rejected:
// identical text)
//@@ fn src/vba.rs check_variable_record external_body ret=res
//@@ replace /log_enabled!\(Level::Warn\)/ opaque boolean, guards only a dropped warn! statement
verif_log_enabled()
//@@ sig
    ensures
        res matches Ok(rec) ==> (old(r)@.len() >= 6 && le16(old(r)@) == id
            && old(r)@.len() >= 6 + le32(old(r)@.skip(2))
            && rec@ == old(r)@.subrange(6, 6 + le32(old(r)@.skip(2)))
            && final(r)@ == old(r)@.skip(6 + le32(old(r)@.skip(2)))),
        old(r)@.len() >= 2 && le16(old(r)@) != id ==> res is Err,
//@@ end

/// [MS-OVBA] 2.3.4.2.1 behind PROJECTCODEPAGE: PROJECTNAME 0x0004, PROJECTDOCSTRING 0x0005 + 0x0040, PROJECTHELPFILEPATH 0x0006 + 0x003D
/// (variable records), PROJECTHELPCONTEXT (10 bytes) PROJECTLIBFLAGS (10) PROJECTVERSION (12), PROJECTCONSTANTS 0x000C + 0x003C:
/// the suffix of the dir stream at which PROJECTREFERENCES (2.3.4.2.2) starts
pub open spec fn dir_info_rest(s: Seq<u8>) -> Seq<u8> {
    vr_rest(vr_rest(vr_rest(vr_rest(vr_rest(vr_rest(vr_rest(dir_codepage_rec(s).skip(6).skip(2)))))).skip(32)))
}

// VERIFIED here a second time (unit vbadec proves C18.dir_codepage on the same text with the same proof): from_cfb needs to know where the
// cursor stands afterwards, which vbadec's contract does not say -- clause C18.dir_info_consumed is new.
//@@ fn src/vba.rs read_dir_information props=C18 entry ret=res
//@@ sig
    ensures
        //# C18.dir_codepage
        res matches Ok(enc) ==> enc.cp as int == dir_codepage(old(stream)@),
        //# C18.dir_info_consumed
        res is Ok ==> final(stream)@ == dir_info_rest(old(stream)@),
//@@ body
    let ghost s0 = stream@;
//@@ before /if stream\.len\(\) >= /
    proof {
        assert(stream@ == s0.skip(10));
        if stream@.len() >= 2 { assert(le16(stream@.subrange(0, 2)) == le16(s0.skip(10))); }
    }
//@@ before /let encoding = /
    proof {
        assert(stream@ == dir_codepage_rec(s0).skip(6));
    }
//@@ end

// TRUSTED: contract proved in unit vbadec on the real text (clauses C18.module_count, C18.module_name_stream_offset,
// C18.modules_consumed: identical text)
//@@ fn src/vba.rs read_modules external_body ret=res
//@@ sig
    ensures
        res matches Ok(mods) ==> mods@.len() == modules_count(old(stream)@),
        res matches Ok(mods) ==> (forall|j: int| 0 <= j < mods@.len() ==>
            module_ok(nth_mod(modules_first(old(stream)@), j), #[trigger] mods@[j], encoding.cp)),
        res matches Ok(mods) ==> final(stream)@ == nth_mod(modules_first(old(stream)@), mods@.len() as int),
//@@ end

// ---- [MS-OVBA] 2.3.4.2.2 PROJECTREFERENCES: the record grammar of the reference array (text of unit names)
// ---- the record grammar, written over the suffix of the dir stream that starts at the item in question (None: malformed / truncated)
/// n bytes of fixed-size fields
pub open spec fn skip_n(t: Seq<u8>, n: int) -> Option<Seq<u8>> { if t.len() >= n { Some(t.skip(n)) } else { None } }
/// a size-prefixed field: u32 size, then `size` bytes: (payload, rest)
pub open spec fn var_fld(t: Seq<u8>) -> Option<(Seq<u8>, Seq<u8>)> {
    if t.len() >= 4 && t.len() >= 4 + le32(t) { Some((t.subrange(4, 4 + le32(t)), t.skip(4 + le32(t)))) } else { None }
}
/// a 2-byte id / reserved field with a fixed value
pub open spec fn expect_id(t: Seq<u8>, id: int) -> Option<Seq<u8>> { if t.len() >= 2 && le16(t) == id { Some(t.skip(2)) } else { None } }
/// 2.3.4.2.2.2 REFERENCENAME after its Id 0x0016: SizeOfName, Name, Reserved 0x003E, SizeOfNameUnicode, NameUnicode: (Name, rest)
#[verifier::opaque]
pub open spec fn name_rec(b: Seq<u8>) -> Option<(Seq<u8>, Seq<u8>)> {
    match var_fld(b) {
        Some((n, r1)) => match expect_id(r1, 0x003E) {
            Some(r2) => match var_fld(r2) { Some((_, r3)) => Some((n, r3)), None => None },
            None => None,
        },
        None => None,
    }
}
/// 2.3.4.2.2.4 REFERENCEORIGINAL after its Id 0x0033: SizeOfLibidOriginal, LibidOriginal: (LibidOriginal, rest)
#[verifier::opaque]
pub open spec fn original_rec(b: Seq<u8>) -> Option<(Seq<u8>, Seq<u8>)> { var_fld(b) }
/// 2.3.4.2.2.5 REFERENCEREGISTERED after its Id 0x000D: Size (4), SizeOfLibid, Libid, Reserved1 (4), Reserved2 (2): (Libid, rest)
#[verifier::opaque]
pub open spec fn registered_rec(b: Seq<u8>) -> Option<(Seq<u8>, Seq<u8>)> {
    match skip_n(b, 4) { Some(r1) => match var_fld(r1) { Some((l, r2)) => match skip_n(r2, 6) { Some(r3) => Some((l, r3)), None => None }, None => None }, None => None }
}
/// 2.3.4.2.2.6 REFERENCEPROJECT after its Id 0x000E: Size (4), SizeOfLibidAbsolute, LibidAbsolute, SizeOfLibidRelative, LibidRelative,
/// MajorVersion (4), MinorVersion (2)
#[verifier::opaque]
pub open spec fn project_rest(b: Seq<u8>) -> Option<Seq<u8>> {
    match skip_n(b, 4) {
        Some(r1) => match var_fld(r1) { Some((_, r2)) => match var_fld(r2) { Some((_, r3)) => skip_n(r3, 6), None => None }, None => None },
        None => None,
    }
}
/// 2.3.4.2.2.3 REFERENCECONTROL after its Id 0x002F: SizeTwiddled (4), SizeOfLibidTwiddled, LibidTwiddled, Reserved1 (4), Reserved2 (2),
/// [NameRecordExtended = REFERENCENAME], Reserved3 0x0030: (LibidTwiddled, rest)
#[verifier::opaque]
pub open spec fn control_head(b: Seq<u8>) -> Option<(Seq<u8>, Seq<u8>)> {
    match skip_n(b, 4) {
        Some(r1) => match var_fld(r1) {
            Some((l, r2)) => match skip_n(r2, 6) {
                Some(r3) => if r3.len() < 2 { None } else if le16(r3) == 0x0016 {
                    match name_rec(r3.skip(2)) { Some((_, r4)) => match expect_id(r4, 0x0030) { Some(r5) => Some((l, r5)), None => None }, None => None }
                } else if le16(r3) == 0x0030 { Some((l, r3.skip(2))) } else { None },
                None => None,
            },
            None => None,
        },
        None => None,
    }
}
/// .. SizeExtended (4), SizeOfLibidExtended, LibidExtended, Reserved4 (4), Reserved5 (2), OriginalTypeLib (16), Cookie (4):
/// (LibidTwiddled, LibidExtended, rest)
#[verifier::opaque]
pub open spec fn control_rec(b: Seq<u8>) -> Option<(Seq<u8>, Seq<u8>, Seq<u8>)> {
    match control_head(b) {
        Some((l1, r5)) => match skip_n(r5, 4) {
            Some(r6) => match var_fld(r6) { Some((l2, r7)) => match skip_n(r7, 26) { Some(r8) => Some((l1, l2, r8)), None => None }, None => None },
            None => None,
        },
        None => None,
    }
}
/// what a reference array says, in stream order: a REFERENCENAME record starts a reference; a libid of a REFERENCEORIGINAL /
/// REFERENCECONTROL (twiddled, extended) / REFERENCEREGISTERED record describes the reference under way
pub enum Ev { Name(Seq<u8>), Libid(Seq<u8>) }
/// what the item at the head of t is: None = malformed; Some((events, rest)); rest = None for the PROJECTMODULES record (Id 0x000F) that
/// ends the array
#[verifier::opaque]
pub open spec fn ref_item(t: Seq<u8>) -> Option<(Seq<Ev>, Option<Seq<u8>>)> {
    if t.len() < 2 { None } else {
        let id = le16(t);
        let b = t.skip(2);
        if id == 0x000F { Some((Seq::empty(), None)) }
        else if id == 0x0016 { match name_rec(b) { Some((n, r)) => Some((seq![Ev::Name(n)], Some(r))), None => None } }
        else if id == 0x0033 { match original_rec(b) { Some((l, r)) => Some((seq![Ev::Libid(l)], Some(r))), None => None } }
        else if id == 0x002F { match control_rec(b) { Some((l1, l2, r)) => Some((seq![Ev::Libid(l1), Ev::Libid(l2)], Some(r))), None => None } }
        else if id == 0x000D { match registered_rec(b) { Some((l, r)) => Some((seq![Ev::Libid(l)], Some(r))), None => None } }
        else if id == 0x000E { match project_rest(b) { Some(r) => Some((Seq::empty(), Some(r))), None => None } }
        else { None }
    }
}
pub open spec fn prepend(done: Seq<Ev>, w: Option<(Seq<Ev>, Seq<u8>)>) -> Option<(Seq<Ev>, Seq<u8>)> {
    match w { Some(x) => Some((done + x.0, x.1)), None => None }
}
/// the reference array that starts at t: (its events in stream order, the stream suffix behind the Id 0x000F of the PROJECTMODULES record
/// that ends it); None: the array is malformed or truncated
#[verifier::opaque]
pub open spec fn ref_walk(t: Seq<u8>) -> Option<(Seq<Ev>, Seq<u8>)>
    decreases t.len()
{
    match ref_item(t) {
        None => None,
        Some((e, None)) => Some((Seq::empty(), t.skip(2))),
        Some((e, Some(r))) => if r.len() < t.len() { prepend(e, ref_walk(r)) } else { None },
    }
}
/// the Name payloads of the REFERENCENAME records, in order
pub open spec fn ev_names(evs: Seq<Ev>) -> Seq<Seq<u8>>
    decreases evs.len()
{
    if evs.len() == 0 { Seq::empty() } else { match evs.last() { Ev::Name(n) => ev_names(evs.drop_last()).push(n), Ev::Libid(_) => ev_names(evs.drop_last()) } }
}
/// [MS-OVBA] 2.3.4.2.2.2: Name "MUST conform to VBA identifier naming rules" -- in particular it is not empty
pub open spec fn names_nonempty(ns: Seq<Seq<u8>>, cp: u16) -> bool { forall|j: int| 0 <= j < ns.len() ==> decoded(cp, #[trigger] ns[j]).len() > 0 }

// ---- libids ([MS-OVBA] 2.1.1.8 LibidReference: "*\" kind guid "#" version "#" lcid "#" LibidPath "#" LibidRegName): fields separated by
// '#'; the last one (LibidRegName) is the description of the library
pub open spec fn last_hash(s: Seq<char>) -> int
    decreases s.len()
{
    if s.len() == 0 { -1 } else if s.last() == '#' { s.len() - 1 } else { last_hash(s.drop_last()) }
}
/// the libid says nothing: empty, or its last two fields are empty (ends with "##")
pub open spec fn libid_silent(l: Seq<u8>) -> bool { l.len() == 0 || (l.len() >= 2 && l[l.len() - 2] == 0x23 && l[l.len() - 1] == 0x23) }
/// None: not a libid (no '#'); Some(None): silent; Some(Some(d)): d = its last field
pub open spec fn libid_desc(cp: u16, l: Seq<u8>) -> Option<Option<Seq<char>>> {
    if libid_silent(l) { Some(None) } else {
        let s = decoded(cp, l);
        if last_hash(s) < 0 { None } else { Some(Some(s.subrange(last_hash(s) + 1, s.len() as int))) }
    }
}
/// a reference as far as this unit pins it down: name and description (the path is not: PathBuf is outside the verifier)
pub struct RefV { pub name: Seq<char>, pub desc: Seq<char> }
/// the references an event sequence describes: a Name starts one (its description is the name until a libid says otherwise), a libid
/// with a description re-describes the reference under way (libids in front of the first Name describe nothing)
pub open spec fn refs_fold(evs: Seq<Ev>, cp: u16) -> Seq<RefV>
    decreases evs.len()
{
    if evs.len() == 0 { Seq::empty() } else {
        let p = refs_fold(evs.drop_last(), cp);
        match evs.last() {
            Ev::Name(n) => p.push(RefV { name: decoded(cp, n), desc: decoded(cp, n) }),
            Ev::Libid(l) => if p.len() == 0 { p } else {
                match libid_desc(cp, l) { Some(Some(d)) => p.update(p.len() - 1, RefV { name: p.last().name, desc: d }), _ => p }
            },
        }
    }
}
pub open spec fn refv(r: Reference) -> RefV { RefV { name: r.name@, desc: r.description@ } }
pub open spec fn names_match(refs: Seq<Reference>, ns: Seq<Seq<u8>>, cp: u16) -> bool {
    refs.len() == ns.len() && forall|j: int| 0 <= j < refs.len() ==> (#[trigger] refs[j]).name@ == decoded(cp, ns[j])
}
pub open spec fn refs_match(refs: Seq<Reference>, f: Seq<RefV>) -> bool {
    refs.len() == f.len() && forall|j: int| 0 <= j < refs.len() ==> refv(#[trigger] refs[j]) == f[j]
}

// TRUSTED: str::strip_prefix never panics (only inside the unverified text of Reference::from_stream)
pub assume_specification<P: std::str::pattern::Pattern> [str::strip_prefix::<P>] (_0: &str, _1: P) -> std::option::Option<&str>;
//@@ item src/vba.rs struct Reference
//@@ impl src/vba.rs "Reference"
// present only so that the (unverified) text of Reference::from_stream compiles
//@@ fn src/vba.rs Reference::set_libid external_body
//@@ end
// TRUSTED: contract proved in unit names on the real text (clauses C18.reference_array_wellformed_if_ok, C18.reference_names_in_order,
// C18.reference_descriptions_from_their_libids, C18.reference_array_consumed: identical text)
//@@ fn src/vba.rs Reference::from_stream external_body ret=res
//@@ sig
    ensures
        res is Ok ==> ref_walk(old(stream)@) is Some,
        res matches Ok(refs) ==> (names_nonempty(ev_names(ref_walk(old(stream)@)->Some_0.0), encoding.cp)
            ==> names_match(refs@, ev_names(ref_walk(old(stream)@)->Some_0.0), encoding.cp)),
        res matches Ok(refs) ==> (names_nonempty(ev_names(ref_walk(old(stream)@)->Some_0.0), encoding.cp)
            ==> refs_match(refs@, refs_fold(ref_walk(old(stream)@)->Some_0.0, encoding.cp))),
        res is Ok ==> final(stream)@ == ref_walk(old(stream)@)->Some_0.1,
//@@ end
//@@ endimpl

// =====================================================================================================================
// VbaProject::from_cfb
// =====================================================================================================================
//@@ item src/vba.rs struct VbaProject

// TRUSTED: (A-std) `Result::and_then` (std documentation: "Calls op if the result is Ok, otherwise returns the Err value of self")
pub assume_specification<T, E, U, F: FnOnce(T) -> Result<U, E>> [Result::<T, E>::and_then] (x: Result<T, E>, f: F) -> (res: Result<U, E>)
    requires x matches Ok(v) ==> call_requires(f, (v,)),
    ensures match x { Ok(v) => call_ensures(f, (v,), res), Err(e) => res == Err::<U, E>(e) };

/// deep view of the module map: module name -> raw (decompressed, still MBCS encoded) module source
pub uninterp spec fn map_deep(m: BTreeMap<String, Vec<u8>>) -> Map<Seq<char>, Seq<u8>>;
impl VbaProject {
    pub closed spec fn refs(&self) -> Seq<Reference> { self.references@ }
    pub closed spec fn cp(&self) -> u16 { self.encoding.cp }
    pub closed spec fn mods(&self) -> Map<Seq<char>, Seq<u8>> { map_deep(self.modules) }
    /// number of keys of the module map
    pub closed spec fn key_count(&self) -> nat { self.modules@.dom().len() }
}
/// bindings made in order: a later binding of the same name replaces the earlier one
pub open spec fn fold_bind(names: Seq<Seq<char>>, datas: Seq<Seq<u8>>) -> Map<Seq<char>, Seq<u8>>
    decreases names.len()
{
    if names.len() == 0 { Map::empty() } else { fold_bind(names.drop_last(), datas.drop_last()).insert(names.last(), datas.last()) }
}
pub open spec fn pair_names(p: Seq<(String, Vec<u8>)>) -> Seq<Seq<char>> { Seq::new(p.len(), |i: int| p[i].0@) }
pub open spec fn pair_datas(p: Seq<(String, Vec<u8>)>) -> Seq<Seq<u8>> { Seq::new(p.len(), |i: int| p[i].1@) }
// TRUSTED: (A-std) `<BTreeMap<K, V> as FromIterator<(K, V)>>::from_iter`, reached through `collect::<Result<BTreeMap<_, _>, _>>()` once every
// item is Ok: the map holds the pairs of the iterator, "if the iterator produces any pairs with equal keys, all but the last value for
// each such key are discarded" (std documentation) -- i.e. the fold of `insert` over the pairs in order.  `map_deep` (keys and values seen
// as character / byte sequences) is tied to the map only by this function.  Target of the declared rewrite of the collect chain.
#[verifier::external_body]
fn verif_collect_btreemap(pairs: Vec<(String, Vec<u8>)>) -> (m: BTreeMap<String, Vec<u8>>)
    ensures map_deep(m) == fold_bind(pair_names(pairs@), pair_datas(pairs@)),
{
    pairs.into_iter().collect()
}

/// a MODULE record of the dir stream as read_modules returns it
pub ghost struct ModV { pub name: Seq<char>, pub stream_name: Seq<char>, pub text_offset: int }
spec fn modv(m: Module) -> ModV { ModV { name: m.name@, stream_name: m.stream_name@, text_offset: m.text_offset as int } }
/// `module_ok` of unit vbadec over the ghost record
pub open spec fn modv_ok(t: Seq<u8>, m: ModV, cp: u16) -> bool {
    m.text_offset == mod_text_offset(t) && m.name == decoded(cp, mod_name(t)) && m.stream_name == decoded(cp, mod_stream_name(t))
}
/// what a successful `from_cfb` did, in order
pub ghost struct Run {
    /// bytes the container returned for the name "dir"
    pub dir_raw: Seq<u8>,
    /// the decompressed dir stream
    pub dir: Seq<u8>,
    /// cursor (suffix of the dir stream) at which the reference array was read / at which the PROJECTMODULES record was read
    pub t_refs: Seq<u8>,
    pub t_mods: Seq<u8>,
    /// the MODULE records, in order
    pub mods: Seq<ModV>,
    /// logical content of the container (with its reader) when the stream of module k was looked up
    pub states: Seq<Parsed>,
    /// bytes the container returned for module k's stream / module k's decompressed source
    pub raws: Seq<Seq<u8>>,
    pub datas: Seq<Seq<u8>>,
}
/// the project information is parsed from the decompressed "dir" stream of the container
#[verifier::opaque]
pub open spec fn run_dir(p0: Parsed, w: Run) -> bool {
    has_name(p0.dirs, "dir"@) && reads_as(p0, "dir"@, w.dir_raw) && (valid_container(w.dir_raw) ==> w.dir == decode(w.dir_raw))
}
/// code page and the start of the reference array are what read_dir_information finds in the dir stream
#[verifier::opaque]
pub open spec fn run_info(w: Run, vp: VbaProject) -> bool { vp.cp() as int == dir_codepage(w.dir) && w.t_refs == dir_info_rest(w.dir) }
/// `references` is what Reference::from_stream returned at t_refs (its contract from unit names); the array ends where PROJECTMODULES starts
#[verifier::opaque]
pub open spec fn run_refs(w: Run, vp: VbaProject) -> bool {
    let rw = ref_walk(w.t_refs);
    &&& rw is Some
    &&& w.t_mods == rw->Some_0.1
    &&& (names_nonempty(ev_names(rw->Some_0.0), vp.cp()) ==> names_match(vp.refs(), ev_names(rw->Some_0.0), vp.cp())
            && refs_match(vp.refs(), refs_fold(rw->Some_0.0, vp.cp())))
}
/// the MODULE records are what read_modules returned at t_mods (its contract from unit vbadec)
#[verifier::opaque]
pub open spec fn run_mods(w: Run, vp: VbaProject) -> bool {
    w.mods.len() == modules_count(w.t_mods)
    && forall|j: int| 0 <= j < w.mods.len() ==> modv_ok(nth_mod(modules_first(w.t_mods), j), #[trigger] w.mods[j], vp.cp())
}
/// `raw` is what the container state `st` holds under the module's STREAM name; `data` is its decompression from the recorded offset
pub open spec fn src_ok(st: Parsed, mv: ModV, raw: Seq<u8>, data: Seq<u8>) -> bool {
    &&& reads_as(st, mv.stream_name, raw)
    &&& 0 <= mv.text_offset <= raw.len()
    &&& (valid_container(raw.skip(mv.text_offset)) ==> data == decode(raw.skip(mv.text_offset)))
}
/// the bytes bound come from the module's OWN stream: some `raw` that the container state `st` holds under mv.stream_name, cut at
/// mv.text_offset and decompressed
pub open spec fn module_read_from_its_own_stream(st: Parsed, mv: ModV, data: Seq<u8>) -> bool {
    exists|raw: Seq<u8>| #[trigger] reads_as(st, mv.stream_name, raw) && src_ok(st, mv, raw, data)
}
/// .. and the state has the directory and the allocation tables of the initial container, which has an entry of that name
pub open spec fn item_ok(p0: Parsed, mv: ModV, st: Parsed, raw: Seq<u8>, data: Seq<u8>) -> bool {
    &&& st.dirs == p0.dirs && st.fat == p0.fat && st.mini_fat == p0.mini_fat && st.size == p0.size
    &&& has_name(p0.dirs, mv.stream_name)
    &&& src_ok(st, mv, raw, data)
}
#[verifier::opaque]
pub open spec fn run_streams(p0: Parsed, w: Run) -> bool {
    &&& w.states.len() == w.mods.len() && w.raws.len() == w.mods.len() && w.datas.len() == w.mods.len()
    &&& forall|k: int| 0 <= k < w.mods.len() ==> item_ok(p0, #[trigger] w.mods[k], w.states[k], w.raws[k], w.datas[k])
}
pub open spec fn run_names(w: Run) -> Seq<Seq<char>> { Seq::new(w.mods.len(), |k: int| w.mods[k].name) }
/// the module map: module k's NAME is bound to module k's data, in record order
#[verifier::opaque]
pub open spec fn run_map(w: Run, vp: VbaProject) -> bool { vp.mods() == fold_bind(run_names(w), w.datas) }
pub open spec fn run_ok(p0: Parsed, w: Run, vp: VbaProject) -> bool {
    run_dir(p0, w) && run_info(w, vp) && run_refs(w, vp) && run_mods(w, vp) && run_streams(p0, w) && run_map(w, vp)
}
pub open spec fn the_run(p0: Parsed, vp: VbaProject) -> Run { choose|w: Run| run_ok(p0, w, vp) }

// ---- consequences of run_ok, each under its own (opaque) name so that the clauses of from_cfb are one fact each
/// the keys of the module map are exactly the NAMEs of the MODULE records
#[verifier::opaque]
pub open spec fn run_keys(w: Run, vp: VbaProject) -> bool {
    forall|key: Seq<char>| vp.mods().contains_key(key) <==> exists|k: int| 0 <= k < w.mods.len() && #[trigger] w.mods[k].name == key
}
/// a module name is bound to the data of the last MODULE record of that name (for a project with distinct module names: of ITS record)
#[verifier::opaque]
pub open spec fn run_last_binding(w: Run, vp: VbaProject) -> bool {
    forall|k: int| 0 <= k < w.mods.len() && (forall|j: int| k < j < w.mods.len() ==> (#[trigger] w.mods[j]).name != w.mods[k].name)
        ==> vp.mods().contains_key(#[trigger] w.mods[k].name) && vp.mods()[w.mods[k].name] == w.datas[k]
}
/// no module's text offset lies beyond its stream (otherwise from_cfb fails)
#[verifier::opaque]
pub open spec fn run_offsets_in_streams(w: Run) -> bool {
    w.raws.len() == w.mods.len() && forall|k: int| 0 <= k < w.mods.len() ==> 0 <= (#[trigger] w.mods[k]).text_offset <= w.raws[k].len()
}
/// every module's stream name is the name of a directory entry (otherwise from_cfb fails)
#[verifier::opaque]
pub open spec fn run_streams_exist(dirs: Seq<DirEnt>, w: Run) -> bool {
    forall|k: int| 0 <= k < w.mods.len() ==> has_name(dirs, (#[trigger] w.mods[k]).stream_name)
}
proof fn lemma_run_consequences(p0: Parsed, w: Run, vp: VbaProject)
    requires run_ok(p0, w, vp),
    ensures run_keys(w, vp), run_last_binding(w, vp), run_offsets_in_streams(w), run_streams_exist(p0.dirs, w),
{
    reveal(run_streams); reveal(run_map); reveal(run_keys); reveal(run_last_binding); reveal(run_offsets_in_streams); reveal(run_streams_exist);
    assert forall|key: Seq<char>| vp.mods().contains_key(key) <==> exists|k: int| 0 <= k < w.mods.len() && #[trigger] w.mods[k].name == key by {
        lemma_fold_dom(run_names(w), w.datas, key);
        if exists|k: int| 0 <= k < w.mods.len() && #[trigger] w.mods[k].name == key {
            let k = choose|k: int| 0 <= k < w.mods.len() && #[trigger] w.mods[k].name == key;
            assert(run_names(w)[k] == key);
        }
        if vp.mods().contains_key(key) {
            let k = choose|k: int| 0 <= k < run_names(w).len() && #[trigger] run_names(w)[k] == key;
            assert(w.mods[k].name == key);
        }
    }
    assert forall|k: int| 0 <= k < w.mods.len() && (forall|j: int| k < j < w.mods.len() ==> (#[trigger] w.mods[j]).name != w.mods[k].name)
        implies vp.mods().contains_key(#[trigger] w.mods[k].name) && vp.mods()[w.mods[k].name] == w.datas[k] by {
        assert forall|j: int| k < j < run_names(w).len() implies run_names(w)[j] != run_names(w)[k] by { assert(w.mods[j].name != w.mods[k].name); }
        lemma_fold_last(run_names(w), w.datas, k);
        assert(run_names(w)[k] == w.mods[k].name);
    }
}

/// (proved) the keys of a fold of bindings are exactly the names bound
proof fn lemma_fold_dom(names: Seq<Seq<char>>, datas: Seq<Seq<u8>>, key: Seq<char>)
    requires names.len() == datas.len(),
    ensures fold_bind(names, datas).contains_key(key) <==> exists|k: int| 0 <= k < names.len() && #[trigger] names[k] == key,
    decreases names.len(),
{
    if names.len() > 0 {
        lemma_fold_dom(names.drop_last(), datas.drop_last(), key);
        if exists|k: int| 0 <= k < names.len() && #[trigger] names[k] == key {
            let k = choose|k: int| 0 <= k < names.len() && #[trigger] names[k] == key;
            if k < names.len() - 1 { assert(names.drop_last()[k] == key); }
        }
        if fold_bind(names.drop_last(), datas.drop_last()).contains_key(key) {
            let k = choose|k: int| 0 <= k < names.drop_last().len() && #[trigger] names.drop_last()[k] == key;
            assert(names[k] == key);
        }
    }
}
/// (proved) a name is bound to the data of the LAST binding of that name
proof fn lemma_fold_last(names: Seq<Seq<char>>, datas: Seq<Seq<u8>>, k: int)
    requires names.len() == datas.len(), 0 <= k < names.len(), forall|j: int| k < j < names.len() ==> names[j] != names[k],
    ensures fold_bind(names, datas).contains_key(names[k]), fold_bind(names, datas)[names[k]] == datas[k],
    decreases names.len(),
{
    if k < names.len() - 1 {
        assert(names.last() != names[k]);
        lemma_fold_last(names.drop_last(), datas.drop_last(), k);
    }
}
/// witness for the representation invariant required of the container (same as unit cfb)
proof fn witness_requires()
{
    let sc = Sectors { data: vstd::pervasive::arbitrary(), size: 512 };
    let ms = Sectors { data: vstd::pervasive::arbitrary(), size: 64 };
    let c = Cfb { directories: vstd::pervasive::arbitrary(), sectors: sc, fats: vstd::pervasive::arbitrary(), mini_sectors: ms, mini_fats: vstd::pervasive::arbitrary() };
    assert(c.wf());
}
/// witness: fold_bind on two bindings of one name keeps the later one (guards the meaning of `run_map`)
proof fn witness_fold_bind()
    ensures fold_bind(seq![seq!['A'], seq!['A']], seq![seq![1u8], seq![2u8]])[seq!['A']] == seq![2u8],
{
    let n = seq![seq!['A'], seq!['A']]; let d = seq![seq![1u8], seq![2u8]];
    lemma_fold_last(n, d, 1);
}

// =====================================================================================================================
// The accessors of VbaProject (C18 observe_at: get_references, get_module_names, get_module_raw, get_module)
// =====================================================================================================================
use vstd::std_specs::btree::{maps_borrowed_key_to_value, contains_borrowed_key, borrowed_key_ordering_matches};
// TRUSTED: (A-std) a `BTreeMap<String, _>` looked up by `&str` (std: "`Borrow<str> for String`: Eq, Ord and Hash are equivalent for borrowed
// and owned values"; String's Ord is the lawful lexicographic order on the text): the lookup finds the value of the key whose text is
// exactly `k`, if there is one.  vstd leaves its lookup predicates uninterpreted for String / str; this axiom ties them to `map_deep`
// (the map seen as character sequence -> byte sequence, which `verif_collect_btreemap` defines for the map from_cfb builds).
#[verifier::external_body]
pub proof fn axiom_string_keyed_lookup(m: BTreeMap<String, Vec<u8>>, k: &str)
    ensures
        vstd::laws_cmp::obeys_cmp::<String>(),
        borrowed_key_ordering_matches::<String, str>(),
        contains_borrowed_key(m@, k) <==> map_deep(m).contains_key(k@),
        forall|v: Vec<u8>| #[trigger] maps_borrowed_key_to_value(m@, k, v) ==> map_deep(m).contains_key(k@) && map_deep(m)[k@] == v@,
{}
// TRUSTED: `map_deep` has the keys of the map, seen as character sequences (meaning of the deep view)
#[verifier::external_body]
pub proof fn axiom_map_deep_dom(m: BTreeMap<String, Vec<u8>>)
    ensures forall|key: Seq<char>| map_deep(m).contains_key(key) <==> exists|s: String| #[trigger] m@.contains_key(s) && s@ == key,
{}
// TRUSTED: (A-std) `String::from(&str)` / `<&str as Into<String>>::into` copies the characters; vstd has no specification for this instance
#[verifier::external_body]
pub proof fn axiom_string_from_str()
    ensures
        <String as vstd::std_specs::convert::FromSpec<&str>>::obeys_from_spec(),
        forall|s: &str| (#[trigger] <String as vstd::std_specs::convert::FromSpec<&str>>::from_spec(s))@ == s@,
{}
// TRUSTED: (A-std, weak) `core::str::from_utf8` never panics; NOTHING is assumed about its result (present only so that a text using it
// is decided by the verifier instead of being rejected)
#[verifier::external_type_specification] #[verifier::external_body] pub struct ExUtf8Error(core::str::Utf8Error);
pub assume_specification[ core::str::from_utf8 ](v: &[u8]) -> (r: Result<&str, core::str::Utf8Error>);
// (`<str as ToOwned>::to_owned` is specified by vstd itself)
// TRUSTED: (A-std, weak) these `str` methods never panic; NOTHING is assumed about their results (present only so that a text that
// normalises a module name before the lookup is decided by the verifier instead of being rejected)
pub assume_specification[ str::to_lowercase ](s: &str) -> (r: String);
pub assume_specification[ str::to_uppercase ](s: &str) -> (r: String);
pub assume_specification[ str::trim ](s: &str) -> (r: &str);



// ---- VbaProject::new: the project of a compound file given as bytes
/// everything from_cfb guarantees about a project `vp` read from a container with logical content p0
pub open spec fn project_ok(p0: Parsed, vp: VbaProject) -> bool {
    let w = the_run(p0, vp);
    run_ok(p0, w, vp) && run_keys(w, vp) && run_last_binding(w, vp) && run_offsets_in_streams(w) && run_streams_exist(p0.dirs, w)
}
/// `res` is what opening the bytes `inp` as a compound file ([MS-CFB], `cfb_parse` of unit cfb) and reading the VBA project from THAT
/// container gives: bytes that do not start with a valid compound-file header are an error; for a well-formed compound file whose length
/// is covered by `len`, a project is described (`project_ok`) by the logical content of exactly these bytes
#[verifier::opaque]
pub open spec fn project_of_container(inp: Seq<u8>, len: int, res: Result<VbaProject, VbaError>) -> bool {
    &&& (!hdr_valid(inp) ==> res is Err)
    &&& forall|fuel: nat| #[trigger] cfb_parse(inp, fuel) is Some && len >= inp.len() ==> (match res {
            Ok(vp) => project_ok(cfb_parse(inp, fuel).unwrap(), vp),
            Err(_) => true,
        })
}
//@@ impl src/vba.rs VbaProject
//@@ fn src/vba.rs VbaProject::new props=C18 entry ret=res
//@@ sig
    ensures
        //# C18.project_new_is_container_then_from_cfb
        project_of_container((*old(r)).rem(), len as int, res),
//@@ body
        let ghost inp = (*r).rem();
        proof { reveal(project_of_container); }
//@@ before /VbaProject::from_cfb\(/
        let ghost p1 = cfb.parsed(r);
        proof {
            // the container handed to from_cfb is the one Cfb::new built from these bytes, over the same reader: its logical content is
            // the logical content of the bytes
            assert forall|fuel: nat| #[trigger] cfb_parse(inp, fuel) is Some && len as int >= inp.len() implies p1 == cfb_parse(inp, fuel).unwrap() by {}
        }
//@@ end
//@@ fn src/vba.rs VbaProject::from_cfb props=C18 entry ret=res
//@@ sig
    requires
        // representation invariant of the container (not file controlled; established by Cfb::new, required by Cfb::get_stream)
        old(cfb).wf(),
    ensures
        //# C18.container_directory_unchanged
        final(cfb).dirs() == old(cfb).dirs() && final(cfb).fat() == old(cfb).fat() && final(cfb).mini_fat() == old(cfb).mini_fat()
            && final(cfb).ssz() == old(cfb).ssz() && final(cfb).wf(),
        //# C18.missing_dir_stream_is_error
        !has_name(old(cfb).dirs(), "dir"@) ==> res is Err,
        //# C18.dir_stream_decompressed
        res matches Ok(vp) ==> run_dir(old(cfb).parsed(old(r)), the_run(old(cfb).parsed(old(r)), vp)),
        //# C18.code_page_from_dir_stream
        res matches Ok(vp) ==> run_info(the_run(old(cfb).parsed(old(r)), vp), vp),
        //# C18.references_passed_through
        res matches Ok(vp) ==> run_refs(the_run(old(cfb).parsed(old(r)), vp), vp),
        //# C18.module_records_from_dir_stream
        res matches Ok(vp) ==> run_mods(the_run(old(cfb).parsed(old(r)), vp), vp),
        //# C18.modules_from_own_stream
        res matches Ok(vp) ==> run_streams(old(cfb).parsed(old(r)), the_run(old(cfb).parsed(old(r)), vp)),
        //# C18.module_map_is_fold_of_bindings
        res matches Ok(vp) ==> run_map(the_run(old(cfb).parsed(old(r)), vp), vp),
        //# C18.module_names_exactly
        res matches Ok(vp) ==> run_keys(the_run(old(cfb).parsed(old(r)), vp), vp),
        //# C18.module_bound_to_data_of_its_last_record
        res matches Ok(vp) ==> run_last_binding(the_run(old(cfb).parsed(old(r)), vp), vp),
        //# C18.module_offset_beyond_stream_is_error
        res matches Ok(vp) ==> run_offsets_in_streams(the_run(old(cfb).parsed(old(r)), vp)),
        //# C18.missing_stream_is_error
        res matches Ok(vp) ==> run_streams_exist(old(cfb).dirs(), the_run(old(cfb).parsed(old(r)), vp)),
//@@ body
        let ghost p0 = cfb.parsed(r);
//@@ after /let stream = cfb\.get_stream\([^;]*;/
        let ghost dir_raw = stream@;
        proof {
            //# C18.dir_stream_decompressed
            assert(has_name(p0.dirs, "dir"@) && reads_as(p0, "dir"@, dir_raw));
        }
//@@ after /let stream = crate::cfb::decompress_stream\([^;]*;/
        let ghost dir = stream@;
//@@ after /let encoding = read_dir_information\([^;]*;/
        let ghost t_refs = stream@;
//@@ after /let refs = Reference::from_stream\([^;]*;/
        let ghost t_mods = stream@;
//@@ after /let mods[^;]*;/
        let ghost modsq = mods@;
        let ghost mvs = Seq::new(modsq.len(), |j: int| modv(modsq[j]));
        let ghost mut states = Seq::<Parsed>::empty();
        let ghost mut raws = Seq::<Seq<u8>>::empty();
        let ghost mut datas = Seq::<Seq<u8>>::empty();
        let ghost mut pairs_g = Seq::<(String, Vec<u8>)>::empty();
//@@ closure 1
 -> (res: Result<(String, Vec<u8>), crate::cfb::CfbError>)
    ensures
        //# C18.module_offset_beyond_stream_is_error
        m.text_offset > s@.len() ==> res is Err,
        //# C18.module_bound_to_its_name
        res matches Ok(p) ==> p.0 == m.name,
        //# C18.module_source_decompressed_from_its_offset
        res matches Ok(p) ==> m.text_offset <= s@.len() && (valid_container(s@.skip(m.text_offset as int)) ==> p.1@ == decode(s@.skip(m.text_offset as int))),
//@@ closure 2
 -> (p: (String, Vec<u8>))
    ensures
        //# C18.module_bound_to_its_name
        p.0 == m.name,
        //# C18.module_source_is_the_decompressed_stream
        p.1 == s,
//@@ replace /mods\s*\.into_iter\(\)\s*\.map\(\|m\|\s*\{/ Verus rejects closures that capture `&mut` variables (`cfb`, `r`); `it.map(|m| { BODY }).collect::<Result<BTreeMap<_, _>, _>>()?` is unfolded into the loop that defines it (std: map applies the closure to each item in order; collect into Result stops at the first Err and returns it, `?` converts it with From; otherwise the pairs are collected into the map): this directive rewrites the head (loop header, BODY becomes the block `let __item = { BODY }`), the next one the tail; BODY itself -- both inner closures -- stays in place untouched
{
            let mut __pairs: Vec<(String, Vec<u8>)> = Vec::new();
            for m in it: mods
                invariant
                    cfb.wf(),
                    cfb.dirs() == p0.dirs && cfb.fat() == p0.fat && cfb.mini_fat() == p0.mini_fat && cfb.ssz() == p0.size,
                    cfb.dirs() == old(cfb).dirs() && cfb.fat() == old(cfb).fat() && cfb.mini_fat() == old(cfb).mini_fat() && cfb.ssz() == old(cfb).ssz(),
                    it.seq() == modsq, mvs.len() == modsq.len(),
                    forall|j: int| 0 <= j < modsq.len() ==> #[trigger] mvs[j] == modv(modsq[j]),
                    __pairs@.len() == it.index@, states.len() == it.index@, raws.len() == it.index@, datas.len() == it.index@,
                    forall|k: int| 0 <= k < it.index@ ==> item_ok(p0, #[trigger] mvs[k], states[k], raws[k], datas[k]),
                    forall|k: int| 0 <= k < it.index@ ==> (#[trigger] __pairs@[k]).0@ == mvs[k].name && __pairs@[k].1@ == datas[k],
            {
                let ghost i = it.index@ as int;
                let ghost pk = cfb.parsed(r);
                let ghost mv = modv(m);
                proof { assert(m == modsq[i]); assert(mv == mvs[i]); }
                let __item: Result<(String, Vec<u8>), crate::cfb::CfbError> = {
//@@ replace /\}\)\s*\.collect::<Result<_, _>>\(\)\?;/ (tail of the rewrite above) the item is unwrapped with `?` (first Err ends the function, converted with From as `collect()?` does), the pair is appended, and after the loop the pairs are collected by the trusted `verif_collect_btreemap` (BTreeMap's FromIterator)
};
                proof {
                    if __item is Ok {
                        let p = __item->Ok_0;
                        // the module's stream is looked up under its STREAM name in the container as it is now ..
                        // (C18.missing_stream_is_error)
                        assert(has_name(p0.dirs, mv.stream_name));
                        // .. and what is bound is the decompression of those bytes from the module's text offset
                        // (C18.modules_from_own_stream)
                        assert(module_read_from_its_own_stream(pk, mv, p.1@));
                        // .. under the module's NAME
                        // (C18.module_bound_to_its_name)
                        assert(p.0@ == mv.name);
                    }
                }
                let __pair = __item?;
                let ghost raw = choose|raw: Seq<u8>| #[trigger] reads_as(pk, mv.stream_name, raw) && src_ok(pk, mv, raw, __pair.1@);
                proof {
                    states = states.push(pk); raws = raws.push(raw); datas = datas.push(__pair.1@);
                    assert(item_ok(p0, mv, pk, raw, __pair.1@));
                }
                __pairs.push(__pair);
            }
            proof { pairs_g = __pairs@; assert(pairs_g.len() == modsq.len()); }
            verif_collect_btreemap(__pairs)
        };
//@@ before /Ok\(VbaProject \{/
        proof {
            let vp = VbaProject { references: refs, modules: modules, encoding: encoding };
            let w = Run { dir_raw: dir_raw, dir: dir, t_refs: t_refs, t_mods: t_mods, mods: mvs, states: states, raws: raws, datas: datas };
            //# C18.dir_stream_decompressed
            assert(run_dir(p0, w)) by { reveal(run_dir); }
            //# C18.code_page_from_dir_stream
            assert(run_info(w, vp)) by { reveal(run_info); }
            //# C18.references_passed_through
            assert(run_refs(w, vp)) by { reveal(run_refs); }
            //# C18.module_records_from_dir_stream
            assert(run_mods(w, vp)) by { reveal(run_mods); }
            //# C18.modules_from_own_stream
            assert(run_streams(p0, w)) by { reveal(run_streams); }
            //# C18.module_map_is_fold_of_bindings
            assert(run_map(w, vp)) by {
                reveal(run_map);
                assert(run_names(w) =~= pair_names(pairs_g));
                assert(w.datas =~= pair_datas(pairs_g));
            }
            assert(run_ok(p0, w, vp));
            lemma_run_consequences(p0, the_run(p0, vp), vp);
        }
//@@ end

//@@ fn src/vba.rs VbaProject::get_references props=C18 entry ret=res
//@@ sig
    ensures
        //# C18.references_are_the_stored_references
        res@ == self.refs(),
//@@ end
//@@ fn src/vba.rs VbaProject::get_module_names props=C18 entry ret=res
//@@ sig
    ensures
        //# C18.module_names_are_the_map_keys
        forall|key: Seq<char>| self.mods().contains_key(key) <==> exists|i: int| 0 <= i < res@.len() && (#[trigger] res@[i])@ == key,
        //# C18.module_names_one_per_key
        res@.len() == self.key_count(),
//@@ closure 0
 -> (r: &str) ensures r@ == k@
//@@ replace /self\.modules\.keys\(\)/ no change of evaluation: the `keys()` iterator and the tail expression of the function are bound to locals (this directive: `let __keys = ..; let __names = __keys`, the next one: `; __names`) so that proof text can mention them
let __keys = self.modules.keys();
        let ghost kq = __keys.remaining();
        let __names: Vec<&str> = __keys
//@@ replace /\.collect\(\)/ (second half of the binding above)
.collect();
        proof {
            axiom_string_keyed_lookup(self.modules, "");
            axiom_map_deep_dom(self.modules);
            let ks = kq.unref();
            assert forall|key: Seq<char>| self.mods().contains_key(key) <==> exists|i: int| 0 <= i < __names@.len() && (#[trigger] __names@[i])@ == key by {
                if self.mods().contains_key(key) {
                    let s = choose|s: String| self.modules@.contains_key(s) && s@ == key;
                    assert(ks.to_set().contains(s));
                    let i = choose|i: int| 0 <= i < ks.len() && ks[i] == s;
                    assert(__names@[i]@ == key);
                }
                if exists|i: int| 0 <= i < __names@.len() && (#[trigger] __names@[i])@ == key {
                    let i = choose|i: int| 0 <= i < __names@.len() && (#[trigger] __names@[i])@ == key;
                    assert(ks.to_set().contains(ks[i]));
                    assert(self.modules@.contains_key(ks[i]) && ks[i]@ == key);
                }
            }
        }
        __names
//@@ end
//@@ fn src/vba.rs VbaProject::get_module_raw props=C18 entry ret=res
//@@ sig
    ensures
        //# C18.module_raw_is_bound_content
        res matches Ok(raw) ==> self.mods().contains_key(name@) && raw@ == self.mods()[name@],
        //# C18.module_raw_err_iff_absent
        res is Err <==> !self.mods().contains_key(name@),
        //# C18.module_raw_err_is_module_not_found
        res matches Err(e) ==> (e matches VbaError::ModuleNotFound(n) && n@ == name@),
//@@ body
        proof { axiom_string_keyed_lookup(self.modules, name); axiom_string_from_str(); }
//@@ end
//@@ fn src/vba.rs VbaProject::get_module props=C18 entry ret=res
//@@ sig
    ensures
        //# C18.module_text_is_code_page_decoding
        res matches Ok(t) ==> self.mods().contains_key(name@) && t@ == decoded(self.cp(), self.mods()[name@]),
        //# C18.module_text_err_iff_absent
        res is Err <==> !self.mods().contains_key(name@),
//@@ end
//@@ endimpl


// =====================================================================================================================
// Reader::vba_project of the zip-based formats (src/xlsx/mod.rs, src/xlsb/mod.rs): which part is read, with which length
// =====================================================================================================================
use zip::result::ZipError;
// TRUSTED: (A-io) std::io::Seek: only named as a bound of the reader type parameter here
pub trait Seek: Read {}
// TRUSTED: derive(Clone) of VbaProject (needed for `Cow<'_, VbaProject>`; never called by the verified text)
impl Clone for VbaProject {
    #[verifier::external_body]
    fn clone(&self) -> Self { unimplemented!() }
}
// ---- A-zip: the zip container.  TRUSTED: `ZipArchive` / `ZipFile` are stand-ins for zip::read::{ZipArchive, ZipFile} (zip 2.4), in the
// style of units xlsxparts / ctors.  The archive is a set of entries found by EXACT name; an entry has bytes (what reading it delivers),
// a declared uncompressed size (central directory field, what `ZipFile::size` returns) and may fail to open (unsupported method,
// encryption, I/O).  ASSUMED AND NOT VERIFIED: central directory parsing and inflate.  Opening or reading an entry never changes the archive.
#[verifier::external_body]
#[verifier::accept_recursive_types(RS)]
pub struct ZipArchive<RS> { _p: core::marker::PhantomData<RS> }
/// the archive has an entry with exactly this name
pub uninterp spec fn has_entry<RS>(zip: ZipArchive<RS>, name: Seq<char>) -> bool;
/// .. and that entry can be opened for reading
pub uninterp spec fn entry_opens<RS>(zip: ZipArchive<RS>, name: Seq<char>) -> bool;
/// the (uncompressed) bytes of the entry / its declared uncompressed size
pub uninterp spec fn entry_bytes<RS>(zip: ZipArchive<RS>, name: Seq<char>) -> Seq<u8>;
pub uninterp spec fn entry_size<RS>(zip: ZipArchive<RS>, name: Seq<char>) -> u64;
#[verifier::external_body]
pub struct ZipFile<'a> { _p: core::marker::PhantomData<&'a ()> }
pub uninterp spec fn zf_rem<'a>(f: ZipFile<'a>) -> Seq<u8>;
pub uninterp spec fn zf_failed<'a>(f: ZipFile<'a>) -> bool;
pub uninterp spec fn zf_size<'a>(f: ZipFile<'a>) -> u64;
impl<'a> Read for ZipFile<'a> {
    open spec fn rem(&self) -> Seq<u8> { zf_rem(*self) }
    open spec fn io_failed(&self) -> bool { zf_failed(*self) }
    #[verifier::external_body]
    fn read(&mut self, buf: &mut [u8]) -> (r: Result<usize, std::io::Error>) { unimplemented!() }
    #[verifier::external_body]
    fn read_exact(&mut self, buf: &mut [u8]) -> (r: Result<(), std::io::Error>) { unimplemented!() }
}
impl<'a> ZipFile<'a> {
    // TRUSTED: A-zip -- zip::read::ZipFile::size ("Get the size of the file, in bytes, when uncompressed": the declared size)
    #[verifier::external_body]
    pub fn size(&self) -> (n: u64)
        ensures n == zf_size(*self),
    { unimplemented!() }
}
impl<RS: Read + Seek> ZipArchive<RS> {
    // TRUSTED: A-zip -- zip::read::ZipArchive::by_name ("Search for a file entry by name"): exact comparison; Err(FileNotFound) exactly when
    // there is no such entry; Ok exactly when the entry exists and can be opened; the opened entry delivers the entry's bytes
    #[verifier::external_body]
    pub fn by_name<'a>(&'a mut self, name: &str) -> (r: Result<ZipFile<'a>, ZipError>)
        ensures
            *final(self) == *old(self),
            r matches Err(ZipError::FileNotFound) <==> !has_entry(*old(self), name@),
            r is Ok <==> has_entry(*old(self), name@) && entry_opens(*old(self), name@),
            r matches Ok(f) ==> zf_rem(f) == entry_bytes(*old(self), name@) && zf_size(f) == entry_size(*old(self), name@),
    { unimplemented!() }
}
/// [MS-OFFVBA]/ECMA-376: the VBA project part of a macro-enabled workbook (xlsm / xlsb) as calamine looks it up
pub open spec fn vba_part() -> Seq<char> { "xl/vbaProject.bin"@ }

//@@ item src/xlsx/mod.rs enum XlsxError
//@@ item src/xlsb/mod.rs enum XlsbError
//@@ item src/lib.rs struct Dimensions keep_attrs
//@@ item src/lib.rs enum SheetType
//@@ item src/lib.rs enum SheetVisible
//@@ item src/lib.rs struct Sheet
//@@ item src/lib.rs struct Metadata
//@@ item src/lib.rs enum HeaderRow keep_attrs
//@@ item src/formats.rs enum CellFormat
//@@ item src/xlsx/mod.rs type Tables
//@@ item src/xlsx/mod.rs struct Xlsx cfg_off=picture
//@@ item src/xlsx/mod.rs struct XlsxOptions
//@@ item src/xlsb/mod.rs struct XlsbOptions
//@@ item src/xlsb/mod.rs struct Xlsb cfg_off=picture
impl<RS> Xlsx<RS> { pub closed spec fn zipv(&self) -> ZipArchive<RS> { self.zip } }
impl<RS> Xlsb<RS> { pub closed spec fn zipv(&self) -> ZipArchive<RS> { self.zip } }

// Stand-in for the trait `Reader` of src/lib.rs, restricted to the method under contract in this unit (signature copied)
pub trait Reader<RS>: Sized
where
    RS: Read + Seek,
{
    type Error;
    fn vba_project(&mut self) -> Option<Result<Cow<'_, VbaProject>, Self::Error>>;
}

//@@ impl src/xlsx/mod.rs "Reader<RS> for Xlsx<RS>"
//@@ item src/xlsx/mod.rs impl_type "Reader<RS> for Xlsx<RS>::type Error"
//@@ fn src/xlsx/mod.rs "Reader<RS> for Xlsx<RS>::vba_project" props=C18 entry ret=res r12
//@@ sig
    ensures
        //# C18.vba_project_archive_unchanged
        final(self).zipv() == old(self).zipv(),
        //# C18.vba_project_none_iff_no_readable_part
        res is None <==> !(has_entry(old(self).zipv(), vba_part()) && entry_opens(old(self).zipv(), vba_part())),
        //# C18.vba_project_part_is_xl_vbaProject_bin
        res matches Some(Ok(c)) ==> (c matches Cow::Owned(vp)
            && project_of_container(entry_bytes(old(self).zipv(), vba_part()), entry_size(old(self).zipv(), vba_part()) as int, Ok::<VbaProject, VbaError>(vp))),
        //# C18.vba_project_error_is_vba_variant
        res matches Some(Err(e)) ==> (e matches XlsxError::Vba(ve)
            && project_of_container(entry_bytes(old(self).zipv(), vba_part()), entry_size(old(self).zipv(), vba_part()) as int, Err::<VbaProject, VbaError>(ve))),
//@@ replace? /\.map\(Cow::Owned\)/ Verus does not support a datatype constructor as a function value; eta-expanded, same function
.map(|__v: VbaProject| -> (__c: Cow<'_, VbaProject>) ensures __c == Cow::<'_, VbaProject>::Owned(__v) { Cow::Owned(__v) })
//@@ end
//@@ endimpl

//@@ impl src/xlsb/mod.rs "Reader<RS> for Xlsb<RS>"
//@@ item src/xlsb/mod.rs impl_type "Reader<RS> for Xlsb<RS>::type Error"
//@@ fn src/xlsb/mod.rs "Reader<RS> for Xlsb<RS>::vba_project" props=C18 entry ret=res r12
//@@ sig
    ensures
        //# C18.vba_project_archive_unchanged
        final(self).zipv() == old(self).zipv(),
        //# C18.vba_project_none_iff_no_readable_part
        res is None <==> !(has_entry(old(self).zipv(), vba_part()) && entry_opens(old(self).zipv(), vba_part())),
        //# C18.vba_project_part_is_xl_vbaProject_bin
        res matches Some(Ok(c)) ==> (c matches Cow::Owned(vp)
            && project_of_container(entry_bytes(old(self).zipv(), vba_part()), entry_size(old(self).zipv(), vba_part()) as int, Ok::<VbaProject, VbaError>(vp))),
        //# C18.vba_project_error_is_vba_variant
        res matches Some(Err(e)) ==> (e matches XlsbError::Vba(ve)
            && project_of_container(entry_bytes(old(self).zipv(), vba_part()), entry_size(old(self).zipv(), vba_part()) as int, Err::<VbaProject, VbaError>(ve))),
//@@ closure 0
 -> (x: Result<Cow<'_, VbaProject>, XlsbError>)
    ensures
        //# C18.vba_project_part_is_xl_vbaProject_bin
        x matches Ok(c) ==> (c matches Cow::Owned(vp) && project_of_container(zf_rem(f), zf_size(f) as int, Ok::<VbaProject, VbaError>(vp))),
        //# C18.vba_project_error_is_vba_variant
        x matches Err(e) ==> (e matches XlsbError::Vba(ve) && project_of_container(zf_rem(f), zf_size(f) as int, Err::<VbaProject, VbaError>(ve))),
//@@ replace? /\.map\(Cow::Owned\)/ Verus does not support a datatype constructor as a function value; eta-expanded, same function
.map(|__v: VbaProject| -> (__c: Cow<'_, VbaProject>) ensures __c == Cow::<'_, VbaProject>::Owned(__v) { Cow::Owned(__v) })
//@@ end
//@@ endimpl

} // verus!
// stand-in for encoding_rs (only referenced from the external_body of Directory::from_slice, never seen by Verus)
pub struct Encoding;
impl Encoding {
    pub fn decode<'a>(&'static self, _b: &'a [u8]) -> (std::borrow::Cow<'a, str>, &'static Encoding, bool) { unimplemented!() }
}
pub static UTF_16LE: &Encoding = &Encoding;
fn main() {}
