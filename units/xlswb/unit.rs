//@@ unit props=C02,C16,C17,C20,C14,C10,C06,C11
// Unit xlswb: the record dispatch `Xls::parse_workbook` of src/xls.rs (verbatim text, one 220-line function).
//
// What is under contract here is the WIRING: which record id reaches which record walker, with which arguments, in which order the
// results are accumulated, what is stored under which sheet name, and the FILEPASS / Date1904 / BoundSheet8 handling. The walkers
// themselves (parse_number, parse_rk, parse_mul_rk, parse_bool_err, parse_label, parse_label_sst, parse_string, parse_merge_cells,
// parse_sheet_metadata, parse_bof, parse_xf, parse_format, parse_sst, parse_formula_value, parse_formula, parse_dimensions,
// RecordIter::next, Range::from_sparse, Cfb::get_stream, builtin_format_by_code) are ASSUMED here, each as "returns the value of an
// uninterpreted function of its arguments" (they are deterministic functions); what those values are is proved in units
// xlsrec / xlsstr / range / cfb / formats / xlsf.
//
// Specification (from [MS-XLS] 2.1.4, 2.1.7.20 and the property texts):
//   recs(s)                 the records of the substream that starts at s, up to (excluding) its EOF record 0x000A
//   g_fold(recs, ..)        meaning of the workbook-globals substream: code page / BIFF version in force, BoundSheet8 list in stream
//                           order, FORMAT table, XF list, SST;  has_1904(recs): a Date1904 record with value 1 occurs
//   fp(recs)                the substream carries a FILEPASS record at a legal position (only BOF / WriteProtect before it)
//   cells_of / formulas_of / merges_of / fmla_pos_of (recs, ctx)
//                           meaning of a sheet substream: cells / formulas / merged regions as the concatenation, in record order, of
//                           each record's contribution according to the dispatch table (`contrib`); cell of the last FORMULA record
//   model(list, stream)     which substream (stream[lbPlyPos..]) is stored under which sheet name
//
// Clauses: C20.filepass_is_password_error (FILEPASS of any encryption type and any length), converse password_only_if_filepass,
//   C16.sheets_in_boundsheet_order, sheet_positions_and_names, encoding_and_biff_in_force, date1904_flag, one_entry_per_sheet_name,
//   sheet_substream_at_boundsheet_position, stored_under_the_boundsheet_name, C10/C16.xf_formats_resolved (+ format/xf_records_collected),
//   C02.sst_wired, dispatch_cells (+ one labelled assertion per record id: dispatch_number, _rk, _mulrk, _label, _labelsst, _boolerr,
//   _string_of_preceding_formula, _formula_cached_value, unknown_ids_contribute_nothing), formula_string_position, cells_per_sheet,
//   C14.formulas_at_cells, dispatch_formula_text_at_cell, sheet_names_for_3d_references, formulas_per_sheet,
//   C17.merge_regions_appended, dispatch_mergecells, merge_regions_per_sheet; implicit obligations (entry point) -> C06.
//
// Declared rewrites of real code (all logged): r4 (`format!` -> opaque string, two sites: the "Unrecognised formula" fallback text and the
//   `{sh}!{f}` prefix of defined names -- neither is pinned down here), r6 on the two `for record in records` loops, R2m `mutparams`
//   (names the entry values of `mut reader`, `mut cfb`), and four ad-hoc rewrites forced by Verus limitations: `or_else(|_| ..)` capturing
//   `&mut` variables, `xtis.extend(..chunks_exact(6).take(cxti).map(closure))` (no specification hook for `take` / `map` of the foreign iterator
//   ChunksExact: explicit loop over the same iterator, closure body verbatim -- as in unit names), and the two `.map(closure).collect()` chains
//   inside this GENERIC impl (vstd's map/collect specification is not applied
//   there; repro: `fn f<RS>(xfs: Vec<u16>, r: RS) { let g = xfs@; let v: Vec<u32> = xfs.into_iter().map(|x| -> (r: u32) ensures r == h(x) { hh(x) }).collect();
//   assert(v@.len() == g.len()); }` fails, the same body in a non-generic fn verifies). The feature `picture` is off in the verified
//   configuration: the verus! macro accepts the `#[cfg(feature = "picture")]` statements and match arm as they stand (nothing dropped).
// Not pinned down: the defined-name list (`metadata.names`, the Lbl arm and the `defined_names` closure chain) and the XTI table -- they
//   are existentially quantified in C14.formulas_per_sheet; `pictures`.
#![feature(allocator_api)]
#![allow(unused_imports, dead_code, unused_variables, unused_mut, unused_assignments, unexpected_cfgs, deprecated)]
use vstd::prelude::*;
use std::io::{Read, Seek};
use std::marker::PhantomData;
use std::collections::BTreeMap;
use std::slice::ChunksExact;
use std::cmp::min;

verus! {

// ---- stand-ins for foreign types (opaque plumbing; never inspected by the verified code)
pub mod vba { pub struct VbaError; }
pub struct VbaProject { _opaque: u8 }
#[verifier::external_type_specification] #[verifier::external_body] pub struct ExIoError(std::io::Error);
#[verifier::external_trait_specification] pub trait ExRead { type ExternalTraitSpecificationFor: std::io::Read; }
#[verifier::external_trait_specification] pub trait ExSeek { type ExternalTraitSpecificationFor: std::io::Seek; }
pub mod cfb {
    pub struct CfbError { _opaque: u8 }
}
use cfb::CfbError;
/// stand-in for cfb::XlsEncoding (wraps an encoding_rs table; only handed through to the string decoders)
pub struct XlsEncoding { _opaque: u8 }
/// stand-in for cfb::Cfb (the parsed compound file; only handed to get_stream)
pub struct Cfb { _opaque: u8 }

//@@ item src/xls.rs enum XlsError cfg_off=picture
//@@ item src/lib.rs enum CellErrorType keep_attrs
//@@ item src/lib.rs struct Dimensions
//@@ item src/lib.rs enum SheetType keep_attrs
//@@ item src/lib.rs enum SheetVisible keep_attrs
//@@ item src/lib.rs struct Sheet
//@@ item src/lib.rs struct Metadata
//@@ item src/lib.rs enum HeaderRow keep_attrs
//@@ item src/lib.rs trait "trait CellType"
//@@ item src/lib.rs struct Cell
//@@ item src/lib.rs struct Range
//@@ item src/datatype.rs enum ExcelDateTimeType keep_attrs
//@@ item src/datatype.rs struct ExcelDateTime keep_attrs
//@@ item src/datatype.rs enum Data keep_attrs
//@@ item src/formats.rs enum CellFormat keep_attrs
//@@ item src/xls.rs struct XlsOptions
//@@ item src/xls.rs struct SheetData
//@@ item src/xls.rs struct Xls cfg_off=picture
//@@ item src/xls.rs struct Xti keep_attrs
//@@ item src/xls.rs struct Record
//@@ item src/xls.rs struct RecordIter
//@@ item src/xls.rs struct Bof
//@@ item src/xls.rs enum Biff keep_attrs
impl CellType for Data {}
impl CellType for String {}
// TRUSTED: `#[derive(Clone)]` on `struct Sheet` is a field-wise clone: the copy equals the original.
impl Clone for Sheet {
    #[verifier::external_body]
    fn clone(&self) -> (r: Self)
        ensures r == *self,
    { Sheet { name: self.name.clone(), typ: self.typ, visible: self.visible } }
}

//@@ include common/bytes.rs

// ---- std functions without a vstd specification
// TRUSTED: `s.chunks_exact(n)` panics iff n == 0 (core::slice documentation); every chunk it hands out has exactly n elements (the XTI
// table built from them is pinned down in unit names, not here)
#[verifier::external_type_specification] #[verifier::external_body] #[verifier::reject_recursive_types(T)]
pub struct ExChunksExact<'a, T: 'a>(ChunksExact<'a, T>);
/// elements not yet handed out / chunk size
pub uninterp spec fn cx_rem<T>(c: ChunksExact<'_, T>) -> Seq<T>;
pub uninterp spec fn cx_size<T>(c: ChunksExact<'_, T>) -> int;
pub assume_specification<'a, T>[ <[T]>::chunks_exact ](s: &'a [T], n: usize) -> (r: ChunksExact<'a, T>)
    requires n != 0,
    ensures cx_rem(r) == s@, cx_size(r) == n;
// TRUSTED: ChunksExact::next (core::slice documentation): the next n elements while at least n remain, else None (a shorter tail is never handed out)
pub assume_specification<'a, T>[ <ChunksExact<'a, T> as Iterator>::next ](c: &mut ChunksExact<'a, T>) -> (r: Option<&'a [T]>)
    ensures
        cx_size(*final(c)) == cx_size(*old(c)),
        cx_rem(*old(c)).len() < cx_size(*old(c)) ==> r is None && cx_rem(*final(c)) == cx_rem(*old(c)),
        cx_rem(*old(c)).len() >= cx_size(*old(c)) ==> r is Some
            && r->Some_0@ == cx_rem(*old(c)).take(cx_size(*old(c)))
            && cx_rem(*final(c)) == cx_rem(*old(c)).skip(cx_size(*old(c)));
// TRUSTED: documented behaviour of std::cmp::min (generic over Ord; the only instantiation used is usize, whose order is the integer order)
pub uninterp spec fn min_spec<T>(a: T, b: T) -> T;
#[verifier::external_body]
pub broadcast proof fn axiom_min_usize(a: usize, b: usize)
    ensures #[trigger] min_spec(a, b) == (if a <= b { a } else { b }),
{}
pub assume_specification<T: Ord>[ std::cmp::min::<T> ](a: T, b: T) -> (r: T)
    ensures r == min_spec(a, b);
/// the items an `IntoIterator` value hands out, in order
pub uninterp spec fn iter_items<T, I>(i: I) -> Seq<T>;
// TRUSTED: `Vec::extend` appends the items of the iterator in order (alloc::vec documentation)
pub assume_specification<T, A: std::alloc::Allocator, I: IntoIterator<Item = T>>[ <Vec<T, A> as Extend<T>>::extend ](v: &mut Vec<T, A>, i: I)
    ensures final(v)@ == old(v)@ + iter_items::<T, I>(i);
// TRUSTED: `Option<T>` as IntoIterator yields its value once, or nothing (core::option documentation)
#[verifier::external_body]
pub proof fn axiom_option_items<T>(o: Option<T>)
    ensures iter_items::<T, Option<T>>(o) == opt_seq(o),
{}
pub open spec fn opt_seq<T>(o: Option<T>) -> Seq<T> { match o { Some(x) => seq![x], None => Seq::<T>::empty() } }
// TRUSTED: Option::map_or (core::option documentation): the default for None, f(value) for Some
pub assume_specification<T, U, F: FnOnce(T) -> U>[ Option::<T>::map_or ](o: Option<T>, d: U, f: F) -> (r: U)
    requires o matches Some(v) ==> call_requires(f, (v,)),
    ensures o is None ==> r == d, o matches Some(v) ==> call_ensures(f, (v,), r);
// TRUSTED: Option::filter (core::option documentation): None for None; for Some(v) the predicate decides between Some(v) and None
pub assume_specification<T, P: FnOnce(&T) -> bool>[ Option::<T>::filter ](o: Option<T>, p: P) -> (r: Option<T>)
    requires o matches Some(v) ==> call_requires(p, (&v,)),
    ensures o is None ==> r is None, o matches Some(v) ==> (call_ensures(p, (&v,), true) && r == Some(v)) || (call_ensures(p, (&v,), false) && r is None);
// TRUSTED: Result::unwrap_or_else (core::result documentation): the Ok value, or op(error)
pub assume_specification<T, E, F: FnOnce(E) -> T>[ Result::<T, E>::unwrap_or_else ](x: Result<T, E>, op: F) -> (r: T)
    requires x matches Err(e) ==> call_requires(op, (e,)),
    ensures x matches Ok(v) ==> r == v, x matches Err(e) ==> call_ensures(op, (e,), r);
// TRUSTED: `String: Ord` is a lawful total order (lexicographic byte order, alloc::string documentation); vstd's BTreeMap
// specifications are conditional on the key type obeying the comparison laws
#[verifier::external_body]
pub proof fn axiom_string_obeys_cmp()
    ensures vstd::laws_cmp::obeys_cmp::<String>(),
{}

// R4: opaque stand-in for `format!(..)` results (no specification: nothing is claimed about such strings)
#[verifier::external_body] fn verif_opaque_string() -> String { String::new() }

// TRUSTED: expansion of `from_err!(crate::cfb::CfbError, XlsError, Cfb)` (src/xls.rs): wraps the error in the Cfb variant
impl vstd::std_specs::convert::FromSpecImpl<CfbError> for XlsError {
    open spec fn obeys_from_spec() -> bool { true }
    open spec fn from_spec(e: CfbError) -> XlsError { XlsError::Cfb(e) }
}
impl From<CfbError> for XlsError { fn from(e: CfbError) -> XlsError { XlsError::Cfb(e) } }
// TRUSTED: the same expansion as seen by the `?` operator (vstd models the conversion in `?` by the uninterpreted relation spec_from)
#[verifier::external_body]
pub broadcast proof fn axiom_from_cfb(e: CfbError, r: XlsError)
    ensures #[trigger] vstd::std_specs::control_flow::spec_from::<XlsError, CfbError>(e, r) ==> r == XlsError::Cfb(e),
{}

// =====================================================================================================================
// Record framing ([MS-XLS] 2.1.4), as far as this unit needs it
// =====================================================================================================================
/// ghost view of a record: type, body, and the bodies of the Continue records attached to it
pub struct RecV { pub typ: int, pub data: Seq<u8>, pub cont: Option<Seq<Seq<u8>>> }
impl<'a> Record<'a> {
    pub closed spec fn v(&self) -> RecV {
        RecV { typ: self.typ as int, data: self.data@, cont: match self.cont { Some(v) => Some(Seq::new(v@.len(), |i: int| v@[i]@)), None => None } }
    }
}
pub enum Step { End, Bad, Rec(RecV, Seq<u8>) }
/// what `RecordIter::next` makes of the rest of a stream: nothing left / truncated record / a record and the rest behind it
// TRUSTED: `RecordIter::next` is a deterministic function of the remaining stream; its value is characterised in unit xlsrec
// (clauses C02.next_none_iff_empty, next_typ, next_data, next_framing, next_progress, next_err_is_eostream).
pub uninterp spec fn rec_step(s: Seq<u8>) -> Step;
impl<'a> RecordIter<'a> {
    pub closed spec fn s(&self) -> Seq<u8> { self.stream@ }
}
impl<'a> vstd::std_specs::iter::IteratorSpecImpl for RecordIter<'a> {
    open spec fn obeys_prophetic_iter_laws(&self) -> bool { false }
    open spec fn remaining(&self) -> Seq<Result<Record<'a>, XlsError>> { Seq::empty() }
    open spec fn will_return_none(&self) -> bool { false }
    open spec fn decrease(&self) -> Option<nat> { None }
    open spec fn peek(&self, i: int) -> Option<Result<Record<'a>, XlsError>> { None }
}
impl<'a> Iterator for RecordIter<'a> {
    type Item = Result<Record<'a>, XlsError>;
    // TRUSTED: proved in unit xlsrec ("Iterator for RecordIter<'a>::next": C02.next_*)
    #[verifier::external_body]
    fn next(&mut self) -> (res: Option<Self::Item>)
        ensures
            match rec_step(old(self).s()) {
                Step::End => res is None && old(self).s().len() == 0 && final(self).s() == old(self).s(),
                Step::Bad => (res matches Some(Err(XlsError::EoStream(_)))) && old(self).s().len() > 0,
                Step::Rec(v, rest) => (res matches Some(Ok(r)) && r.v() == v) && final(self).s() == rest
                    && old(self).s().len() >= 4 + v.data.len() + rest.len()
                    && v.typ == le16(old(self).s()) && v.data == old(self).s().subrange(4, 4 + le16(old(self).s().skip(2))),
            },
    { unimplemented!() }
}

/// the records of the substream that starts at `s`, up to (excluding) its EOF record ([MS-XLS] 2.4.103, type 0x000A), the end of the
/// stream, or the first truncated record
pub open spec fn recs(s: Seq<u8>) -> Seq<RecV>
    decreases s.len()
{
    match rec_step(s) {
        Step::Rec(v, rest) => if v.typ != 0x000A && rest.len() < s.len() { seq![v] + recs(rest) } else { Seq::empty() },
        _ => Seq::empty(),
    }
}
proof fn lemma_recs_step(s: Seq<u8>)
    ensures
        match rec_step(s) {
            Step::Rec(v, rest) => if v.typ != 0x000A && rest.len() < s.len() { recs(s) == seq![v] + recs(rest) } else { recs(s) == Seq::<RecV>::empty() },
            _ => recs(s) == Seq::<RecV>::empty(),
        },
{}

// =====================================================================================================================
// Assumed contracts of the record walkers: each returns the value of an uninterpreted function of its arguments.
// =====================================================================================================================
pub open spec fn not_password<T>(res: Result<T, XlsError>) -> bool { res is Err && !(res->Err_0 is Password) }
pub open spec fn sviews(s: Seq<String>) -> Seq<Seq<char>> { Seq::new(s.len(), |i: int| s[i]@) }

// TRUSTED (all of the following `uninterp spec fn`): the value the walker of that name returns on these arguments (None: it returns Err).
// What the value is: unit xlsrec (C02.number_*, rk_*, boolerr_*, labelsst_*, label_*, string_*, mulrk_*, dimensions_*, C10.xf_*, C16.bof_*,
// C16.sheet_*, C17.merge_*), unit xlsstr (C12/C19 parse_sst), unit xlsf / kani (parse_formula, parse_formula_value), unit formats (builtin_format_by_code).
// "never Password": `XlsError::Password` is constructed at one place of src/xls.rs only, the FILEPASS arm of parse_workbook.
pub uninterp spec fn codepage_enc(cp: int) -> Option<XlsEncoding>;
pub uninterp spec fn builtin_fmt(code: u16) -> CellFormat;
pub uninterp spec fn number_cell(r: Seq<u8>, formats: Seq<CellFormat>, is_1904: bool) -> Option<Cell<Data>>;
pub uninterp spec fn rk_cell(r: Seq<u8>, formats: Seq<CellFormat>, is_1904: bool) -> Option<Cell<Data>>;
pub uninterp spec fn boolerr_cell(r: Seq<u8>) -> Option<Cell<Data>>;
pub uninterp spec fn label_cell(r: Seq<u8>, enc: XlsEncoding, biff: Biff) -> Option<Option<Cell<Data>>>;
pub uninterp spec fn labelsst_cell(r: Seq<u8>, strings: Seq<String>) -> Option<Option<Cell<Data>>>;
pub uninterp spec fn string_of(r: Seq<u8>, enc: XlsEncoding, biff: Biff) -> Option<String>;
pub uninterp spec fn mulrk_cells(r: Seq<u8>, formats: Seq<CellFormat>, is_1904: bool) -> Seq<Cell<Data>>;
pub uninterp spec fn formula_value(r: Seq<u8>) -> Option<Option<Data>>;
pub uninterp spec fn formula_text(rgce: Seq<u8>, sheets: Seq<Seq<char>>, names: Seq<(String, String)>, xtis: Seq<Xti>, enc: XlsEncoding) -> Option<String>;
pub uninterp spec fn dims_of(r: Seq<u8>) -> Option<Dimensions>;
pub uninterp spec fn bof_of(v: RecV) -> Option<Biff>;
pub uninterp spec fn sheet_of(v: RecV, enc: XlsEncoding, biff: Biff) -> Option<(usize, Sheet)>;
pub uninterp spec fn format_of(v: RecV, enc: XlsEncoding) -> Option<(u16, CellFormat)>;
pub uninterp spec fn xf_of(v: RecV) -> Option<u16>;
pub uninterp spec fn sst_of(v: RecV, enc: XlsEncoding) -> Option<Seq<String>>;
pub uninterp spec fn defined_name_of(rgce: Seq<u8>) -> Option<(Option<usize>, String)>;
/// the bytes of the stream `name` of the compound file (None: no such stream / unreadable)
// TRUSTED: unit cfb (C13.get_stream_reads_logical_stream, get_stream_frame): the result is a function of the compound file and the name,
// and reading one stream does not change what any stream reads as (the reader's content is immutable; only its position moves)
pub uninterp spec fn cfb_stream<R>(cfb: Cfb, reader: R, name: Seq<char>) -> Option<Seq<u8>>;

impl Cfb {
    #[verifier::external_body]
    pub fn get_stream<R: Read + Seek>(&mut self, name: &str, r: &mut R) -> (res: Result<Vec<u8>, CfbError>)
        ensures
            match cfb_stream(*old(self), *old(r), name@) { Some(s) => res is Ok && res->Ok_0@ == s, None => res is Err },
            forall|n: Seq<char>| cfb_stream(*final(self), *final(r), n) == cfb_stream(*old(self), *old(r), n),
    { unimplemented!() }
}
impl XlsEncoding {
    #[verifier::external_body]
    pub fn from_codepage(codepage: u16) -> (res: Result<XlsEncoding, CfbError>)
        ensures match codepage_enc(codepage as int) { Some(e) => res == Ok::<XlsEncoding, CfbError>(e), None => res is Err },
    { unimplemented!() }
}

pub open spec fn ret<T>(res: Result<T, XlsError>, spec: Option<T>) -> bool {
    match spec { Some(x) => res == Ok::<T, XlsError>(x), None => not_password(res) }
}

#[verifier::external_body] fn parse_bof(r: &mut Record<'_>) -> (res: Result<Bof, XlsError>)
    ensures match bof_of(old(r).v()) { Some(b) => res is Ok && res->Ok_0.biff == b, None => not_password(res) },
{ unimplemented!() }
#[verifier::external_body] fn parse_sheet_metadata(r: &mut Record<'_>, encoding: &XlsEncoding, biff: Biff) -> (res: Result<(usize, Sheet), XlsError>)
    ensures ret(res, sheet_of(old(r).v(), *encoding, biff)),
{ unimplemented!() }
#[verifier::external_body] fn parse_number(r: &[u8], formats: &[CellFormat], is_1904: bool) -> (res: Result<Cell<Data>, XlsError>)
    ensures ret(res, number_cell(r@, formats@, is_1904)),
{ unimplemented!() }
#[verifier::external_body] fn parse_bool_err(r: &[u8]) -> (res: Result<Cell<Data>, XlsError>)
    ensures ret(res, boolerr_cell(r@)),
{ unimplemented!() }
#[verifier::external_body] fn parse_rk(r: &[u8], formats: &[CellFormat], is_1904: bool) -> (res: Result<Cell<Data>, XlsError>)
    ensures ret(res, rk_cell(r@, formats@, is_1904)),
{ unimplemented!() }

/// [MS-XLS] 2.4.168 MergeCells: cmcs (2 bytes), then cmcs Ref8 structures; 2.5.209 Ref8: rwFirst, rwLast, colFirst, colLast (2 bytes each)
pub open spec fn u16_at(r: Seq<u8>, o: int) -> int { r[o] as int + 256 * (r[o + 1] as int) }
pub open spec fn ref8_at(r: Seq<u8>, o: int) -> Dimensions {
    Dimensions { start: (u16_at(r, o) as u32, u16_at(r, o + 4) as u32), end: (u16_at(r, o + 2) as u32, u16_at(r, o + 6) as u32) }
}
pub open spec fn merge_cmcs(r: Seq<u8>) -> int { u16_at(r, 0) }
/// a record body holds its declared regions
pub open spec fn merge_wf(r: Seq<u8>) -> bool { r.len() >= 2 && r.len() >= 2 + 8 * merge_cmcs(r) }
pub open spec fn merge_regions(r: Seq<u8>) -> Seq<Dimensions> { Seq::new(merge_cmcs(r) as nat, |k: int| ref8_at(r, 2 + 8 * k)) }
// TRUSTED: proved in unit xlsrec (C17.merge_len_guard: Err exactly when the body does not hold its declared regions; merge_count, merge_frame,
// merge_regions -- written as one equation)
#[verifier::external_body] fn parse_merge_cells(r: &[u8], merge_cells: &mut Vec<Dimensions>) -> (res: Result<(), XlsError>)
    ensures
        merge_wf(r@) ==> res is Ok && final(merge_cells)@ == old(merge_cells)@ + merge_regions(r@),
        !merge_wf(r@) ==> not_password(res),
{ unimplemented!() }
/// [MS-XLS] 2.4.175 MulRk: rw (2), colFirst (2), rgrkrec: (colLast - colFirst + 1) RkRec of 6 bytes, colLast (2)
pub open spec fn mulrk_wf(r: Seq<u8>) -> bool {
    r.len() >= 6 && u16_at(r, 2) <= u16_at(r, r.len() - 2) && r.len() == 6 + 6 * (u16_at(r, r.len() - 2) - u16_at(r, 2) + 1)
}
// TRUSTED: proved in unit xlsrec (C02.mulrk_ok, mulrk_count, mulrk_frame, mulrk_cells: for a well-formed record exactly the run's cells are
// appended, `mulrk_cells` being the sequence characterised there by mulrk_cell_ok; C02.mulrk_err_iff_malformed: Err exactly otherwise)
#[verifier::external_body] fn parse_mul_rk(r: &[u8], cells: &mut Vec<Cell<Data>>, formats: &[CellFormat], is_1904: bool) -> (res: Result<(), XlsError>)
    ensures
        mulrk_wf(r@) ==> res is Ok && final(cells)@ == old(cells)@ + mulrk_cells(r@, formats@, is_1904),
        !mulrk_wf(r@) ==> not_password(res),
{ unimplemented!() }
#[verifier::external_body] fn parse_string(r: &[u8], encoding: &XlsEncoding, biff: Biff) -> (res: Result<String, XlsError>)
    ensures ret(res, string_of(r@, *encoding, biff)),
{ unimplemented!() }
#[verifier::external_body] fn parse_label(r: &[u8], encoding: &XlsEncoding, biff: Biff) -> (res: Result<Option<Cell<Data>>, XlsError>)
    ensures ret(res, label_cell(r@, *encoding, biff)),
{ unimplemented!() }
#[verifier::external_body] fn parse_label_sst(r: &[u8], strings: &[String]) -> (res: Result<Option<Cell<Data>>, XlsError>)
    ensures ret(res, labelsst_cell(r@, strings@)),
{ unimplemented!() }
/// [MS-XLS] 2.4.90 Dimensions: the fields are unsigned 32-bit (rows) / 16-bit (columns) values
// TRUSTED: unit xlsrec C02.dimensions_used_range / dimensions_empty_sheet: `end` is (rwMac - 1, colMac - 1) or `start`, so neither `end.0 + 1`
// nor `end.1 + 1` can overflow u32 (rwMac, colMac are u32 / u16 fields)
#[verifier::external_body] fn parse_dimensions(r: &[u8]) -> (res: Result<Dimensions, XlsError>)
    ensures
        ret(res, dims_of(r@)),
        res matches Ok(d) ==> (d.end == d.start || (d.end.0 < u32::MAX && d.end.1 < 65535)),
{ unimplemented!() }
#[verifier::external_body] fn parse_sst(r: &mut Record<'_>, encoding: &XlsEncoding) -> (res: Result<Vec<String>, XlsError>)
    ensures match sst_of(old(r).v(), *encoding) { Some(s) => res is Ok && res->Ok_0@ == s, None => not_password(res) },
{ unimplemented!() }
#[verifier::external_body] fn parse_xf(r: &Record<'_>) -> (res: Result<u16, XlsError>)
    ensures ret(res, xf_of(r.v())),
{ unimplemented!() }
#[verifier::external_body] fn parse_format(r: &mut Record<'_>, encoding: &XlsEncoding) -> (res: Result<(u16, CellFormat), XlsError>)
    ensures ret(res, format_of(old(r).v(), *encoding)),
{ unimplemented!() }
// the Lbl (defined name) record is read in place; the decoded name is not pinned down by this unit
// TRUSTED: unit xlsstr (read_unicode_string_no_cch is an entry point there: no precondition, never panics)
#[verifier::external_body] fn read_unicode_string_no_cch(encoding: &XlsEncoding, buf: &[u8], len: &usize, s: &mut String)
{ unimplemented!() }
#[verifier::external_body] fn parse_defined_names(rgce: &[u8]) -> (res: Result<(Option<usize>, String), XlsError>)
    ensures ret(res, defined_name_of(rgce@)),
{ unimplemented!() }
#[verifier::external_body] fn parse_formula(rgce: &[u8], sheets: &[String], names: &[(String, String)], xtis: &[Xti], encoding: &XlsEncoding) -> (res: Result<String, XlsError>)
    ensures ret(res, formula_text(rgce@, sviews(sheets@), names@, xtis@, *encoding)),
{ unimplemented!() }
#[verifier::external_body] fn parse_formula_value(r: &[u8]) -> (res: Result<Option<Data>, XlsError>)
    ensures ret(res, formula_value(r@)),
{ unimplemented!() }
#[verifier::external_body] pub fn builtin_format_by_code(code: u16) -> (r: CellFormat)
    ensures r == builtin_fmt(code),
{ unimplemented!() }

impl<T: CellType> Cell<T> {
    pub closed spec fn p(&self) -> (u32, u32) { self.pos }
    pub closed spec fn val(&self) -> T { self.val }
    pub closed spec fn mk(position: (u32, u32), value: T) -> Cell<T> { Cell { pos: position, val: value } }
    // TRUSTED: proved in units xlsrec / range (C02.cell_new, C05.cell_new): two field moves
    #[verifier::external_body] pub fn new(position: (u32, u32), value: T) -> (c: Cell<T>)
        ensures c == Cell::mk(position, value),
    { unimplemented!() }
}
/// the range `Range::from_sparse` builds from these cells
// TRUSTED: unit range (C05.sparse_*; no precondition: the cells may come in any order): empty iff no cells; else bounds == tight bounding
// box, at(p) == value of the last cell at p, default elsewhere
pub uninterp spec fn sparse_range<T: CellType>(cells: Seq<Cell<T>>) -> Range<T>;
impl<T: CellType> Range<T> {
    #[verifier::external_body] pub fn from_sparse(cells: Vec<Cell<T>>) -> (r: Range<T>)
        ensures r == sparse_range(cells@),
    { unimplemented!() }
}

// =====================================================================================================================
// Meaning of the workbook-globals substream ([MS-XLS] 2.1.7.20.3)
// =====================================================================================================================
pub struct GS {
    pub enc: XlsEncoding,                 // code page in force (CodePage 0x0042, unless forced by the option)
    pub biff: Biff,                       // BIFF version in force (BOF 0x0809)
    pub sheets: Seq<(usize, Sheet)>,      // BoundSheet8 0x0085, in stream order: (lbPlyPos, sheet)
    pub fmts: Map<u16, CellFormat>,       // Format 0x041E: ifmt -> class of the format string
    pub xfs: Seq<u16>,                    // XF 0x00E0, in stream order: ifmt
    pub strings: Seq<String>,             // SST 0x00FC
}
pub open spec fn g_step(st: GS, v: RecV, forced: Option<u16>) -> GS {
    if v.typ == 0x0042 && forced is None {
        match codepage_enc(le16(v.data)) { Some(e) => GS { enc: e, ..st }, None => st }
    } else if v.typ == 0x041E {
        match format_of(v, st.enc) { Some(f) => GS { fmts: st.fmts.insert(f.0, f.1), ..st }, None => st }
    } else if v.typ == 0x00E0 {
        match xf_of(v) { Some(x) => GS { xfs: st.xfs.push(x), ..st }, None => st }
    } else if v.typ == 0x0085 {
        match sheet_of(v, st.enc, st.biff) { Some(s) => GS { sheets: st.sheets.push(s), ..st }, None => st }
    } else if v.typ == 0x0809 {
        match bof_of(v) { Some(b) => GS { biff: b, ..st }, None => st }
    } else if v.typ == 0x00FC {
        match sst_of(v, st.enc) { Some(s) => GS { strings: s, ..st }, None => st }
    } else {
        st
    }
}
pub open spec fn g_fold(rs: Seq<RecV>, g0: GS, forced: Option<u16>) -> GS
    decreases rs.len()
{
    if rs.len() == 0 { g0 } else { g_step(g_fold(rs.drop_last(), g0, forced), rs.last(), forced) }
}
/// [MS-XLS] 2.4.77 Date1904: f1904DateSystem (2 bytes): 0 = 1900 date system, 1 = 1904 date system (other values are not defined)
pub open spec fn is_date1904(v: RecV) -> bool { v.typ == 0x0022 }
pub open spec fn d1904_legal(rs: Seq<RecV>) -> bool { forall|i: int| 0 <= i < rs.len() && is_date1904(#[trigger] rs[i]) ==> le16(rs[i].data) <= 1 }
pub open spec fn has_1904(rs: Seq<RecV>) -> bool { exists|i: int| 0 <= i < rs.len() && is_date1904(#[trigger] rs[i]) && le16(rs[i].data) == 1 }

/// [MS-XLS] 2.1.7.20.3 Globals substream: BOF [WriteProtect] [FilePass] ... : records that may precede FILEPASS
pub open spec fn before_filepass_ok(v: RecV) -> bool { (v.typ == 0x0809 && bof_of(v) is Some) || v.typ == 0x0086 }
/// the substream carries a FILEPASS record (0x002F, [MS-XLS] 2.4.117 -- of any encryption type and any length) at a legal position
pub open spec fn fp(rs: Seq<RecV>) -> bool
    decreases rs.len()
{
    if rs.len() == 0 { false } else if rs[0].typ == 0x002F { true } else if before_filepass_ok(rs[0]) { fp(rs.skip(1)) } else { false }
}
/// a FILEPASS record occurs somewhere
pub open spec fn any_fp(rs: Seq<RecV>) -> bool { exists|i: int| 0 <= i < rs.len() && (#[trigger] rs[i]).typ == 0x002F }

pub open spec fn names_of(s: Seq<(usize, Sheet)>) -> Seq<(usize, String)> { Seq::new(s.len(), |i: int| (s[i].0, s[i].1.name)) }
pub open spec fn sheets_of(s: Seq<(usize, Sheet)>) -> Seq<Sheet> { Seq::new(s.len(), |i: int| s[i].1) }
proof fn lemma_sheets_push(s: Seq<(usize, Sheet)>, x: (usize, Sheet))
    ensures names_of(s.push(x)) == names_of(s).push((x.0, x.1.name)), sheets_of(s.push(x)) == sheets_of(s).push(x.1),
{
    assert(names_of(s.push(x)) =~= names_of(s).push((x.0, x.1.name)));
    assert(sheets_of(s.push(x)) =~= sheets_of(s).push(x.1));
}
pub open spec fn fmts_eq(a: Map<u16, CellFormat>, b: Map<u16, CellFormat>) -> bool { a == b }
/// the format of an XF: the custom FORMAT record with its ifmt if there is one, else the built-in format of that number
pub open spec fn resolve_fmt(fmts: Map<u16, CellFormat>, ifmt: u16) -> CellFormat { if fmts.contains_key(ifmt) { fmts[ifmt] } else { builtin_fmt(ifmt) } }
pub open spec fn resolve_all(fmts: Map<u16, CellFormat>, xfs: Seq<u16>) -> Seq<CellFormat> { Seq::new(xfs.len(), |i: int| resolve_fmt(fmts, xfs[i])) }

// =====================================================================================================================
// Meaning of a sheet substream: the dispatch table ([MS-XLS] 2.1.7.20.5 Worksheet substream; record ids 2.3.1)
// =====================================================================================================================
/// what the cell walkers are given: the workbook's XF-derived format table, date system, SST, code page, BIFF version
pub struct CCtx { pub formats: Seq<CellFormat>, pub is_1904: bool, pub strings: Seq<String>, pub enc: XlsEncoding, pub biff: Biff }
/// what the formula renderer is given: sheet names (BoundSheet8 order), defined names, XTI table, code page
pub struct FCtx { pub names: Seq<Seq<char>>, pub dn: Seq<(String, String)>, pub xtis: Seq<Xti>, pub enc: XlsEncoding }
/// a formula: its cell and, when the token stream can be rendered, its text
pub struct FAbs { pub pos: (u32, u32), pub text: Option<String> }

/// what `format_excel_f64` makes of a number under a number format (proved on the real text in unit xlsrec: DateTime / duration flavour
/// exactly for the date / elapsed-time formats, plain Float otherwise; serial and date system unchanged)
pub uninterp spec fn typed_f64(v: f64, fmt: Option<CellFormat>, is_1904: bool) -> Data;
pub open spec fn fmt_at(formats: Seq<CellFormat>, i: int) -> Option<CellFormat> { if 0 <= i < formats.len() { Some(formats[i]) } else { None } }
/// C10 (taken from the property statement): a cached *numeric* formula result is typed by the number format of the cell's XF
/// (ixfe, 2 bytes at offset 4 of the FORMULA record) exactly like a NUMBER record; bool / error / string results are kept as they are.
pub open spec fn typed_cached(val: Data, d: Seq<u8>, cc: CCtx) -> Data {
    match val { Data::Float(x) => typed_f64(x, fmt_at(cc.formats, le16(d.skip(4)) as int), cc.is_1904), _ => val }
}
// TRUSTED here: proved on the real text in unit xlsrec (xlsrec/format_excel_f64, clause format_f64)
#[verifier::external_body] fn format_excel_f64(value: f64, format: Option<&CellFormat>, is_1904: bool) -> (d: Data)
    ensures d == typed_f64(value, match format { Some(f) => Some(*f), None => None }, is_1904),
{ unimplemented!() }
/// [MS-XLS] 2.4.127 Formula: cell (rw 2, col 2, ixfe 2), val FormulaValue (8 bytes at 6), flags (2), chn (4), formula CellParsedFormula (at 20)
pub open spec fn is_formula(v: RecV) -> bool { v.typ == 0x0006 && v.data.len() >= 20 }
pub open spec fn formula_pos(d: Seq<u8>) -> (u32, u32) { (le16(d) as u32, le16(d.skip(2)) as u32) }
/// cell of the last FORMULA record (the cell a following STRING record 0x0207 belongs to, [MS-XLS] 2.4.268)
pub open spec fn fmla_pos_of(rs: Seq<RecV>) -> (u32, u32)
    decreases rs.len()
{
    if rs.len() == 0 { (0u32, 0u32) } else if is_formula(rs.last()) { formula_pos(rs.last().data) } else { fmla_pos_of(rs.drop_last()) }
}
/// the cells one record contributes (`fpos`: cell of the preceding FORMULA). Unknown record ids contribute nothing.
pub open spec fn contrib(v: RecV, fpos: (u32, u32), cc: CCtx) -> Seq<Cell<Data>> {
    let d = v.data;
    if v.typ == 0x0203 { opt_seq(number_cell(d, cc.formats, cc.is_1904)) }                                       // NUMBER
    else if v.typ == 0x0204 { match label_cell(d, cc.enc, cc.biff) { Some(o) => opt_seq(o), None => Seq::empty() } }     // LABEL
    else if v.typ == 0x0205 { opt_seq(boolerr_cell(d)) }                                                          // BOOLERR
    else if v.typ == 0x0207 { match string_of(d, cc.enc, cc.biff) { Some(s) => seq![Cell::mk(fpos, Data::String(s))], None => Seq::empty() } }  // STRING
    else if v.typ == 0x027E { opt_seq(rk_cell(d, cc.formats, cc.is_1904)) }                                       // RK
    else if v.typ == 0x00FD { match labelsst_cell(d, cc.strings) { Some(o) => opt_seq(o), None => Seq::empty() } }       // LABELSST
    else if v.typ == 0x00BD { mulrk_cells(d, cc.formats, cc.is_1904) }                                            // MULRK
    else if is_formula(v) { match formula_value(d.subrange(6, 14)) { Some(Some(val)) => seq![Cell::mk(formula_pos(d), typed_cached(val, d, cc))], _ => Seq::empty() } }  // FORMULA: cached value, typed by the XF's number format (C10)
    else { Seq::empty() }
}
/// record ids of the sheet dispatch table (0x0200 Dimensions only sizes a buffer; 0x000A EOF ends the sheet)
pub open spec fn dispatched(t: int) -> bool {
    t == 0x0203 || t == 0x0204 || t == 0x0205 || t == 0x0207 || t == 0x027E || t == 0x00FD || t == 0x00BD || t == 0x00E5 || t == 0x0006 || t == 0x000A
}
/// the cells of a sheet substream: concatenation, in record order, of each record's contribution
pub open spec fn cells_of(rs: Seq<RecV>, cc: CCtx) -> Seq<Cell<Data>>
    decreases rs.len()
{
    if rs.len() == 0 { Seq::empty() } else { cells_of(rs.drop_last(), cc) + contrib(rs.last(), fmla_pos_of(rs.drop_last()), cc) }
}
/// the formulas of a sheet substream: one per FORMULA record, at the record's cell, text = rendering of its token stream
pub open spec fn formulas_of(rs: Seq<RecV>, fc: FCtx) -> Seq<FAbs>
    decreases rs.len()
{
    if rs.len() == 0 { Seq::empty() }
    else if is_formula(rs.last()) {
        formulas_of(rs.drop_last(), fc).push(FAbs { pos: formula_pos(rs.last().data), text: formula_text(rs.last().data.skip(20), fc.names, fc.dn, fc.xtis, fc.enc) })
    } else { formulas_of(rs.drop_last(), fc) }
}
/// the merged regions of a sheet substream: concatenation over ALL its MergeCells records (0x00E5; each holds at most 1026 regions), in order
pub open spec fn merges_of(rs: Seq<RecV>) -> Seq<Dimensions>
    decreases rs.len()
{
    if rs.len() == 0 { Seq::empty() } else if rs.last().typ == 0x00E5 { merges_of(rs.drop_last()) + merge_regions(rs.last().data) } else { merges_of(rs.drop_last()) }
}
proof fn lemma_legal_push(rs: Seq<RecV>, v: RecV)
    ensures
        d1904_legal(rs.push(v)) == (d1904_legal(rs) && (is_date1904(v) ==> le16(v.data) <= 1)),
        has_1904(rs.push(v)) == (has_1904(rs) || (is_date1904(v) && le16(v.data) == 1)),
{
    let p = rs.push(v);
    assert(p[rs.len() as int] == v);
    assert forall|i: int| 0 <= i < rs.len() implies #[trigger] p[i] == rs[i] by {}
    if d1904_legal(p) { assert forall|i: int| 0 <= i < rs.len() && is_date1904(#[trigger] rs[i]) implies le16(rs[i].data) <= 1 by { assert(p[i] == rs[i]); } }
    if has_1904(rs) {
        let i = choose|i: int| 0 <= i < rs.len() && is_date1904(#[trigger] rs[i]) && le16(rs[i].data) == 1;
        assert(p[i] == rs[i]);
    }
    if has_1904(p) {
        let i = choose|i: int| 0 <= i < p.len() && is_date1904(#[trigger] p[i]) && le16(p[i].data) == 1;
        if i < rs.len() { assert(p[i] == rs[i]); }
    }
}
/// the formula cells `fs` are the formulas `abs`: same cells in the same order, and the text wherever the tokens can be rendered
pub open spec fn fm(fs: Seq<Cell<String>>, abs: Seq<FAbs>) -> bool {
    fs.len() == abs.len() && forall|k: int| 0 <= k < fs.len() ==> (#[trigger] fs[k]).p() == abs[k].pos && (abs[k].text matches Some(t) ==> fs[k].val() == t)
}

/// the substream a BoundSheet8 position points to ([MS-XLS] 2.4.28 lbPlyPos: stream position of the sheet's BOF record)
pub open spec fn sub_at(stream: Seq<u8>, pos: usize) -> Seq<u8> { stream.subrange(pos as int, stream.len() as int) }
/// which substream is stored under which sheet name (a later BoundSheet8 with the same name replaces an earlier one)
pub open spec fn model(list: Seq<(usize, String)>, stream: Seq<u8>) -> Map<String, Seq<u8>>
    decreases list.len()
{
    if list.len() == 0 { Map::empty() } else { model(list.drop_last(), stream).insert(list.last().1, sub_at(stream, list.last().0)) }
}
spec fn sheets_dom(m: Map<String, SheetData>, list: Seq<(usize, String)>, stream: Seq<u8>) -> bool {
    m.dom() =~= model(list, stream).dom()
}
/// C17: every sheet's merged regions are those of ITS substream
spec fn sheets_merges(m: Map<String, SheetData>, list: Seq<(usize, String)>, stream: Seq<u8>) -> bool {
    forall|n: String| #[trigger] model(list, stream).contains_key(n) ==>
        m[n].merge_cells@ == merges_of(recs(model(list, stream)[n]))
}
/// C02: every sheet's range is from_sparse of the cells of ITS substream
spec fn sheets_cells(m: Map<String, SheetData>, list: Seq<(usize, String)>, stream: Seq<u8>, cc: CCtx) -> bool {
    forall|n: String| #[trigger] model(list, stream).contains_key(n) ==>
        m[n].range == sparse_range(cells_of(recs(model(list, stream)[n]), cc))
}
/// C14: every sheet's formula range is from_sparse of the formulas of ITS substream
spec fn sheets_formulas(m: Map<String, SheetData>, list: Seq<(usize, String)>, stream: Seq<u8>, fc: FCtx) -> bool {
    forall|n: String| #[trigger] model(list, stream).contains_key(n) ==>
        exists|fs: Seq<Cell<String>>| fm(fs, formulas_of(recs(model(list, stream)[n]), fc)) && m[n].formula == #[trigger] sparse_range(fs)
}
proof fn lemma_model_step(list: Seq<(usize, String)>, k: int, stream: Seq<u8>)
    requires 0 <= k < list.len(),
    ensures model(list.take(k + 1), stream) == model(list.take(k), stream).insert(list[k].1, sub_at(stream, list[k].0)),
{
    assert(list.take(k + 1).drop_last() =~= list.take(k));
    assert(list.take(k + 1).last() == list[k]);
}

/// the stream [MS-XLS] 2.1.2 calls the Workbook stream: named "Workbook" (BIFF8), else "Book" (BIFF5)
pub open spec fn wb_stream<R>(cfb: Cfb, reader: R) -> Option<Seq<u8>> {
    match cfb_stream(cfb, reader, "Workbook"@) { Some(s) => Some(s), None => cfb_stream(cfb, reader, "Book"@) }
}

/// the code page the reader starts with (the `force_codepage` option, else 1200 = UTF-16LE, the BIFF8 default) is one the decoder knows
pub open spec fn codepage_known(forced: Option<u16>) -> bool {
    codepage_enc((match forced { Some(c) => c, None => 1200u16 }) as int) is Some
}

/// the meaning of the globals substream of the workbook stream `s` under the `force_codepage` option
spec fn g_init(forced: Option<u16>) -> GS {
    GS { enc: codepage_enc((match forced { Some(c) => c, None => 1200u16 }) as int)->Some_0, biff: Biff::Biff8, sheets: Seq::empty(), fmts: Map::empty(), xfs: Seq::empty(), strings: Seq::empty() }
}

/// the meaning of the globals substream of the workbook stream `s` under the `force_codepage` option
spec fn gsem(s: Seq<u8>, forced: Option<u16>) -> GS { g_fold(recs(s), g_init(forced), forced) }
pub open spec fn name_views(list: Seq<(usize, String)>) -> Seq<Seq<char>> { Seq::new(list.len(), |i: int| list[i].1@) }

//@@ impl src/xls.rs Xls nth=1
//@@ fn src/xls.rs Xls::parse_workbook props=C02,C16,C17,C20,C14,C10,C11 entry ret=res r4 mutparams
//@@ r6 0
//@@ r6 2
//@@ replace /let stream = (cfb\s*\.get_stream\([^;]*?\))\s*\.or_else\(\|_\|\s*([^;]*)\)\?;/ Verus rejects closures that capture `&mut` variables (cfb, reader); `a.or_else(|_| b)` is by definition `match a { Ok(v) => Ok(v), Err(_) => b }` (core::result)
let stream = (match \g<1> { Ok(__v) => Ok(__v), Err(_) => \g<2> })?;
//@@ sig
    ensures
        //# C20.filepass_is_password_error
        wb_stream(__p_cfb, __p_reader) matches Some(s) && fp(recs(s)) && codepage_known(old(self).options.force_codepage) ==> res matches Err(XlsError::Password),
        //# C20.password_only_if_filepass
        res matches Err(XlsError::Password) ==> wb_stream(__p_cfb, __p_reader) matches Some(s) && any_fp(recs(s)),
        //# C16.workbook_stream_missing_is_error
        wb_stream(__p_cfb, __p_reader) is None ==> res is Err,
        //# C16.sheets_in_boundsheet_order
        res is Ok ==> (wb_stream(__p_cfb, __p_reader) matches Some(s) && final(self).metadata.sheets@ == old(self).metadata.sheets@ + sheets_of(gsem(s, old(self).options.force_codepage).sheets)),
        //# C16,C10,C11.date1904_flag
        res is Ok ==> (wb_stream(__p_cfb, __p_reader) matches Some(s) && (d1904_legal(recs(s)) ==> final(self).is_1904 == (old(self).is_1904 || has_1904(recs(s))))),
        //# C10,C16.xf_formats_resolved
        res is Ok ==> (wb_stream(__p_cfb, __p_reader) matches Some(s) && final(self).formats@ == resolve_all(gsem(s, old(self).options.force_codepage).fmts, gsem(s, old(self).options.force_codepage).xfs)),
        //# C16.one_entry_per_sheet_name
        res is Ok ==> (wb_stream(__p_cfb, __p_reader) matches Some(s) && sheets_dom(final(self).sheets@, names_of(gsem(s, old(self).options.force_codepage).sheets), s)),
        //# C17.merge_regions_per_sheet
        res is Ok ==> (wb_stream(__p_cfb, __p_reader) matches Some(s) && sheets_merges(final(self).sheets@, names_of(gsem(s, old(self).options.force_codepage).sheets), s)),
        //# C02,C10,C16.cells_per_sheet
        res is Ok ==> (wb_stream(__p_cfb, __p_reader) matches Some(s) && sheets_cells(final(self).sheets@, names_of(gsem(s, old(self).options.force_codepage).sheets), s,
            CCtx { formats: final(self).formats@, is_1904: final(self).is_1904, strings: gsem(s, old(self).options.force_codepage).strings, enc: gsem(s, old(self).options.force_codepage).enc, biff: gsem(s, old(self).options.force_codepage).biff })),
        //# C14.formulas_per_sheet
        res is Ok ==> (wb_stream(__p_cfb, __p_reader) matches Some(s) && exists|dn: Seq<(String, String)>, xt: Seq<Xti>|
            #[trigger] sheets_formulas(final(self).sheets@, names_of(gsem(s, old(self).options.force_codepage).sheets), s, FCtx { names: name_views(names_of(gsem(s, old(self).options.force_codepage).sheets)), dn: dn, xtis: xt, enc: gsem(s, old(self).options.force_codepage).enc })
            && final(self).metadata.names@ == dn),
//@@ body
    broadcast use axiom_from_cfb;
//@@ before /let mut sheet_names = /
    let ghost s0 = stream@;
    proof { assert(wb_stream(__p_cfb, __p_reader) == Some(s0)); }
//@@ before /\{\s*let wb = /
    let ghost forced = self.options.force_codepage;
    let ghost g0 = GS { enc: encoding, biff: Biff::Biff8, sheets: Seq::empty(), fmts: Map::empty(), xfs: Seq::empty(), strings: Seq::empty() };
    let ghost ms0 = self.metadata.sheets@;
    let ghost d0 = self.is_1904;
    let ghost mut done: Seq<RecV> = Seq::empty();
    let ghost mut cur: Seq<u8> = s0;
//@@ loop 0
                invariant_except_break
                    //# C16.globals_records_until_eof
                    recs(s0) == done + recs(__it0.s()),
                    //# C20.filepass_is_password_error
                    fp(recs(s0)) ==> fp(recs(__it0.s())),
                invariant
                    cur == __it0.s(),
                    wb_stream(__p_cfb, __p_reader) == Some(s0),
                    self.options.force_codepage == forced,
                    //# C16.encoding_and_biff_in_force
                    g_fold(done, g0, forced).enc == encoding && g_fold(done, g0, forced).biff == biff,
                    //# C16.sheets_in_boundsheet_order
                    self.metadata.sheets@ == ms0 + sheets_of(g_fold(done, g0, forced).sheets),
                    //# C16.sheet_positions_and_names
                    sheet_names@ == names_of(g_fold(done, g0, forced).sheets),
                    //# C10.format_records_collected
                    fmts_eq(formats@, g_fold(done, g0, forced).fmts),
                    //# C10.xf_records_collected
                    xfs@ == g_fold(done, g0, forced).xfs,
                    //# C02.sst_wired
                    strings@ == g_fold(done, g0, forced).strings,
                    //# C16,C10,C11.date1904_flag
                    d1904_legal(done) ==> self.is_1904 == (d0 || has_1904(done)),
                ensures
                    //# C16.globals_records_until_eof
                    recs(s0) == done,
                    !fp(recs(s0)),
                decreases __it0.s().len(),
//@@ after /let mut r = record\?;/
                broadcast use axiom_from_cfb;
                let ghost v = r.v();
                let ghost done_in = done;
                proof {
                    lemma_recs_step(cur);
                    if v.typ != 0x000A {
                        done = done.push(v);
                        assert(recs(s0) =~= done + recs(__it0.s()));
                        assert(done.drop_last() =~= done_in);
                        assert(recs(s0)[done.len() - 1] == v);
                        assert(recs(cur)[0] == v);
                        assert(recs(cur).skip(1) =~= recs(__it0.s()));
                        lemma_legal_push(done_in, v);
                        assert(g_fold(done, g0, forced) == g_step(g_fold(done_in, g0, forced), v, forced));
                        lemma_sheets_push(g_fold(done_in, g0, forced).sheets, sheet_of(v, encoding, biff)->Some_0);
                    }
                    cur = __it0.s();
                }
//@@ replace /xtis\.extend\((.*?)\s*\.chunks_exact\((.*?)\)\s*\.take\((.*?)\)\s*\.map\(\|xti\| (Xti \{.*?\})\)\);/ `v.extend(s.chunks_exact(n).take(c).map(|x| E))` is rewritten to its documented meaning (core::iter::Take: at most c items, the counter is tested before the inner iterator is asked; Map: E for each item; Vec::extend: pushed in order) as an explicit loop over the same `chunks_exact` iterator, because Verus has no specification hook for the provided adapters `take` and `map` of the foreign iterator `ChunksExact`. The closure body E is re-inserted verbatim (\g<4>) and is verified (same rewrite as in unit names, where the resulting table is pinned down).
{ let __take: usize = \g<3>; let mut __ch = \g<1>.chunks_exact(\g<2>); let mut __n: usize = 0;
                        loop
                            invariant __n <= __take, cx_size(__ch) == 6,
                            decreases __take - __n,
                        {
                            if __n >= __take { break; }
                            match __ch.next() {
                                None => { break; }
                                Some(xti) => {
                                    xtis.push(\g<4>);
                                    __n += 1;
                                }
                            }
                        }
                    }
//@@ replace /self\.formats = xfs\s*\.into_iter\(\)\s*\.map\(\|fmt\| (.*?)\)\s*\.collect\(\);/ Verus limitation (probed, minimal repro in the report): vstd's specification of Iterator::map + collect is not applied to a closure inside a GENERIC impl (`impl<RS: Read + Seek>`), although the same statement verifies in a non-generic function. `v.into_iter().map(|x| E).collect::<Vec<_>>()` is rewritten to its documented meaning (core::iter::Map, FromIterator for Vec): a new Vec holding E for every element of v in order. The closure body E is re-inserted verbatim (\g<1>).
self.formats = { let ghost __xs = xfs@; let ghost __fm = formats@; let mut __out: Vec<CellFormat> = Vec::new();
            for fmt in __itx: xfs
                invariant
                    __itx.seq() == __xs, __fm == formats@,
                    //# C10,C16.xf_formats_resolved
                    __out@ == resolve_all(__fm, __xs.take(__itx.index@ as int)),
            {
                let ghost __k = __itx.index@ as int;
                __out.push(\g<1>);
                proof { assert(__xs.take(__k + 1) =~= __xs.take(__k).push(__xs[__k])); assert(__out@ =~= resolve_all(__fm, __xs.take(__k + 1))); }
            }
            proof { assert(__xs.take(__xs.len() as int) =~= __xs); }
            __out };
//@@ replace /let fmla_sheet_names = sheet_names\s*\.iter\(\)\s*\.map\(\|\(_, n\)\| (.*?)\)\s*\.collect::<Vec<_>>\(\);/ same Verus limitation and the same rewrite of `.iter().map(|(_, n)| E).collect::<Vec<_>>()`; E (`n.clone()`) is re-inserted verbatim (\g<1>)
let fmla_sheet_names = { let mut __out: Vec<String> = Vec::new();
            for __e in __ity: sheet_names.iter()
                invariant
                    __ity.seq().len() == sheet_names@.len(),
                    forall|i: int| 0 <= i < sheet_names@.len() ==> *(#[trigger] __ity.seq()[i]) == sheet_names@[i],
                    __out@.len() == __ity.index@,
                    //# C14.sheet_names_for_3d_references
                    sviews(__out@) == name_views(sheet_names@.take(__ity.index@ as int)),
            {
                let ghost __k = __ity.index@ as int;
                let (_, n) = __e;
                let ghost __o0 = __out@;
                __out.push(\g<1>);
                proof {
                    assert(*__e == sheet_names@[__k]);
                    assert(__out@.last()@ == sheet_names@[__k].1@);
                    assert(sheet_names@.take(__k + 1) =~= sheet_names@.take(__k).push(sheet_names@[__k]));
                    assert forall|i: int| 0 <= i <= __k implies sviews(__out@)[i] == name_views(sheet_names@.take(__k + 1))[i] by {
                        if i < __k { assert(sviews(__o0)[i] == name_views(sheet_names@.take(__k))[i]); assert(__out@[i] == __o0[i]); }
                    }
                    assert(sviews(__out@) =~= name_views(sheet_names@.take(__k + 1)));
                }
            }
            proof { assert(sheet_names@.take(sheet_names@.len() as int) =~= sheet_names@); }
            __out };
//@@ before /self\.formats = xfs/
        let ghost xfs0 = xfs@;
//@@ before /for \(pos, name\) in /
        proof { assert(sviews(fmla_sheet_names@) =~= name_views(sheet_names@)); }
        let ghost names0 = sheet_names@;
        let ghost cc = CCtx { formats: self.formats@, is_1904: self.is_1904, strings: strings@, enc: encoding, biff: biff };
        let ghost fc = FCtx { names: sviews(fmla_sheet_names@), dn: defined_names@, xtis: xtis@, enc: encoding };
//@@ loop 1 it
                invariant
                    it.seq() == names0,
                    wb_stream(__p_cfb, __p_reader) == Some(s0), !fp(recs(s0)), s0 == stream@,
                    cc == (CCtx { formats: self.formats@, is_1904: self.is_1904, strings: strings@, enc: encoding, biff: biff }),
                    fc == (FCtx { names: sviews(fmla_sheet_names@), dn: defined_names@, xtis: xtis@, enc: encoding }),
                    sheets_dom(sheets@, names0.take(it.index@ as int), s0),
                    //# C17.merge_regions_stored_under_sheet_name
                    sheets_merges(sheets@, names0.take(it.index@ as int), s0),
                    //# C02,C10,C16.cells_stored_under_sheet_name
                    sheets_cells(sheets@, names0.take(it.index@ as int), s0, cc),
                    //# C14.formulas_stored_under_sheet_name
                    sheets_formulas(sheets@, names0.take(it.index@ as int), s0, fc),
//@@ before /let mut cells = Vec::new/
            let ghost k = it.index@ as int;
            let ghost sub = sh@;
            let ghost mut sdone: Seq<RecV> = Seq::empty();
            let ghost mut scur: Seq<u8> = sub;
            proof {
                assert(names0[k] == (pos, name));
                //# C16.sheet_substream_at_boundsheet_position
                assert(sub =~= sub_at(s0, pos));
            }
//@@ loop 2
                invariant_except_break
                    //# C02.sheet_records_until_eof
                    recs(sub) == sdone + recs(__it2.s()),
                invariant
                    scur == __it2.s(),
                    wb_stream(__p_cfb, __p_reader) == Some(s0), !fp(recs(s0)),
                    cc == (CCtx { formats: self.formats@, is_1904: self.is_1904, strings: strings@, enc: encoding, biff: biff }),
                    fc == (FCtx { names: sviews(fmla_sheet_names@), dn: defined_names@, xtis: xtis@, enc: encoding }),
                    //# C17.merge_regions_appended
                    merge_cells@ == merges_of(sdone),
                    //# C02,C10,C16.dispatch_cells
                    cells@ == cells_of(sdone, cc),
                    //# C02.formula_string_position
                    fmla_pos == fmla_pos_of(sdone),
                    //# C14.formulas_at_cells
                    fm(formulas@, formulas_of(sdone, fc)),
                ensures
                    //# C02.sheet_records_until_eof
                    recs(sub) == sdone,
                decreases __it2.s().len(),
//@@ after /let r = record\?;/
                let ghost v = r.v();
                let ghost sdone_in = sdone;
                let ghost cells_in = cells@;
                let ghost formulas_in = formulas@;
                let ghost merges_in = merge_cells@;
                proof {
                    lemma_recs_step(scur);
                    if v.typ != 0x000A {
                        sdone = sdone.push(v);
                        assert(recs(sub) =~= sdone + recs(__it2.s()));
                        assert(sdone.drop_last() =~= sdone_in);
                        lemma_legal_push(sdone_in, v);
                    }
                    scur = __it2.s();
                    axiom_option_items::<Cell<Data>>(label_cell(v.data, cc.enc, cc.biff)->Some_0);
                    axiom_option_items::<Cell<Data>>(labelsst_cell(v.data, cc.strings)->Some_0);
                }
//@@ after /_ => \(\),\s*\}/#1of2
                proof {
                    let fpos = fmla_pos_of(sdone_in);
                    //# C02,C10,C16,C11.dispatch_number
                    assert(v.typ == 0x0203 ==> cells@ == cells_in + contrib(v, fpos, cc));
                    //# C02.dispatch_label
                    assert(v.typ == 0x0204 ==> cells@ == cells_in + contrib(v, fpos, cc));
                    //# C02.dispatch_boolerr
                    assert(v.typ == 0x0205 ==> cells@ == cells_in + contrib(v, fpos, cc));
                    //# C02.dispatch_string_of_preceding_formula
                    assert(v.typ == 0x0207 ==> cells@ == cells_in + contrib(v, fpos, cc));
                    //# C02,C10,C16,C11.dispatch_rk
                    assert(v.typ == 0x027E ==> cells@ == cells_in + contrib(v, fpos, cc));
                    //# C02.dispatch_labelsst
                    assert(v.typ == 0x00FD ==> cells@ == cells_in + contrib(v, fpos, cc));
                    //# C02,C10,C16,C11.dispatch_mulrk
                    assert(v.typ == 0x00BD ==> cells@ == cells_in + contrib(v, fpos, cc));
                    //# C02,C14,C10,C16,C11.dispatch_formula_cached_value
                    assert(is_formula(v) ==> cells@ == cells_in + contrib(v, fpos, cc));
                    //# C14.dispatch_formula_text_at_cell
                    assert(is_formula(v) ==> formulas@.len() == formulas_in.len() + 1 && formulas@.last().p() == formula_pos(v.data) && fmla_pos == formula_pos(v.data));
                    //# C17.dispatch_mergecells
                    assert(v.typ == 0x00E5 ==> merge_cells@ == merges_in + merge_regions(v.data));
                    //# C02.unknown_ids_contribute_nothing
                    assert(!dispatched(v.typ) ==> cells@ == cells_in && formulas@ == formulas_in && merge_cells@ == merges_in && fmla_pos == fpos);
                }
//@@ before /cells\.reserve\(/
                        // a cell record takes at least 6 bytes of the stream (RkRec of a MULRK run): no more cells are reserved than the sheet
                        // substream can hold, whatever the Dimensions record declares (each reserved Cell<Data> is 40 bytes)
                        //# C06.reserve_proportional_to_input
                        assert(6 * (n as int) <= sh@.len()) by { broadcast use axiom_min_usize; }
//@@ before /sheets\.insert\(/
            proof {
                axiom_string_obeys_cmp();
                lemma_model_step(names0, k, s0);
                assert(fm(formulas@, formulas_of(recs(sub), fc)));
            }
            let ghost sheets_in = sheets@;
            let ghost fs_k = formulas@;
//@@ after /sheets\.insert\([^;]*;/
            proof {
                let m0 = model(names0.take(k), s0);
                let m1 = model(names0.take(k + 1), s0);
                assert(m1 == m0.insert(name, sub));
                //# C16.stored_under_the_boundsheet_name
                assert(sheets@ == sheets_in.insert(name, sheets@[name]));
                //# C14.formulas_stored_under_sheet_name
                assert(sheets@[name].formula == sparse_range(fs_k));
                assert forall|n: String| #[trigger] m1.contains_key(n) implies
                    exists|fs: Seq<Cell<String>>| fm(fs, formulas_of(recs(m1[n]), fc)) && sheets@[n].formula == #[trigger] sparse_range(fs) by {
                    if n == name { assert(fm(fs_k, formulas_of(recs(m1[n]), fc)) && sheets@[n].formula == sparse_range(fs_k)); }
                    else { assert(m0.contains_key(n)); assert(sheets@[n] == sheets_in[n]); }
                }
                //# C17.merge_regions_stored_under_sheet_name
                assert forall|n: String| #[trigger] m1.contains_key(n) implies sheets@[n].merge_cells@ == merges_of(recs(m1[n])) by {
                    if n != name { assert(m0.contains_key(n)); assert(sheets@[n] == sheets_in[n]); }
                }
                //# C02,C10,C16.cells_stored_under_sheet_name
                assert forall|n: String| #[trigger] m1.contains_key(n) implies sheets@[n].range == sparse_range(cells_of(recs(m1[n]), cc)) by {
                    if n != name { assert(m0.contains_key(n)); assert(sheets@[n] == sheets_in[n]); }
                }
            }
//@@ before /let defined_names = defined_names/
        proof { assert(self.formats@ == resolve_all(formats@, xfs0)); }
//@@ before /self\.sheets = sheets;/
        proof {
            assert(names0.take(names0.len() as int) =~= names0);
            assert(g0 == g_init(forced));
            assert(recs(s0) == done);
            assert(sheets_formulas(sheets@, names0, s0, fc));
        }
//@@ end
//@@ endimpl

// ---- witnesses: every `requires` of this unit is satisfiable
proof fn witness_requires() {
    // <[T]>::chunks_exact: n != 0 -- the only call site passes 6
    assert(6usize != 0);
    // read_u16 / read_i16 (common/bytes.rs): a 2-byte slice
    assert(seq![1u8, 0u8].len() >= 2);
}

} // verus!
fn main() {}
