//@@ unit props=C02,C16,C17,C20,C14,C10,C06
// Unit xlswb: the record dispatch of src/xls.rs `Xls::parse_workbook` (verbatim text).
#![feature(allocator_api)]
#![allow(unused_imports, dead_code, unused_variables, unused_mut, unused_assignments, unexpected_cfgs)]
use vstd::prelude::*;
use std::io::{Read, Seek};
use std::marker::PhantomData;
use std::collections::BTreeMap;
use std::slice::Chunks;

verus! {

// ---- stand-ins for foreign types (opaque plumbing; never inspected by the verified code)
pub mod vba { pub struct VbaError; }
pub struct VbaProject { _opaque: u8 }
#[verifier::external_type_specification] #[verifier::external_body] pub struct ExIoError(std::io::Error);
#[verifier::external_trait_specification] pub trait ExRead { type ExternalTraitSpecificationFor: std::io::Read; }
#[verifier::external_trait_specification] pub trait ExSeek { type ExternalTraitSpecificationFor: std::io::Seek; }
pub mod cfb {
    pub struct CfbError { _opaque: u8 }
}
use cfb::CfbError;
pub struct XlsEncoding { _opaque: u8 }
pub struct Cfb { _opaque: u8 }

//@@ item src/xls.rs enum XlsError cfg_off=picture
//@@ item src/lib.rs enum CellErrorType keep_attrs
//@@ item src/lib.rs struct Dimensions
//@@ item src/lib.rs enum SheetType keep_attrs
//@@ item src/lib.rs enum SheetVisible keep_attrs
//@@ item src/lib.rs struct Sheet
//@@ item src/lib.rs struct Metadata
//@@ item src/lib.rs enum HeaderRow keep_attrs
//@@ item src/lib.rs trait "trait CellType"
//@@ item src/lib.rs struct Cell
//@@ item src/lib.rs struct Range
//@@ item src/datatype.rs enum ExcelDateTimeType keep_attrs
//@@ item src/datatype.rs struct ExcelDateTime keep_attrs
//@@ item src/datatype.rs enum Data keep_attrs
//@@ item src/formats.rs enum CellFormat keep_attrs
//@@ item src/xls.rs struct XlsOptions
//@@ item src/xls.rs struct SheetData
//@@ item src/xls.rs struct Xls cfg_off=picture
//@@ item src/xls.rs struct Xti keep_attrs
//@@ item src/xls.rs struct Record
//@@ item src/xls.rs struct RecordIter
//@@ item src/xls.rs struct Bof
//@@ item src/xls.rs enum Biff keep_attrs
impl CellType for Data {}
// TRUSTED: `#[derive(Clone)]` on `struct Sheet` is a field-wise clone: the copy equals the original.
impl Clone for Sheet {
    #[verifier::external_body]
    fn clone(&self) -> (r: Self)
        ensures r == *self,
    { Sheet { name: self.name.clone(), typ: self.typ, visible: self.visible } }
}
impl CellType for String {}

//@@ include common/bytes.rs

// ---- std functions without a vstd specification
// TRUSTED: `s.chunks(n)` panics iff n == 0 (core::slice documentation); the chunk contents are not used by any clause of this unit
#[verifier::external_type_specification] #[verifier::external_body] #[verifier::reject_recursive_types(T)]
pub struct ExChunks<'a, T: 'a>(Chunks<'a, T>);
pub assume_specification<'a, T>[ <[T]>::chunks ](s: &'a [T], n: usize) -> (r: Chunks<'a, T>)
    requires n != 0;
/// the items an `IntoIterator` value hands out, in order
pub uninterp spec fn iter_items<T, I>(i: I) -> Seq<T>;
// TRUSTED: `Vec::extend` appends the items of the iterator in order (alloc::vec documentation)
pub assume_specification<T, A: std::alloc::Allocator, I: IntoIterator<Item = T>>[ <Vec<T, A> as Extend<T>>::extend ](v: &mut Vec<T, A>, i: I)
    ensures final(v)@ == old(v)@ + iter_items::<T, I>(i);
// TRUSTED: `Option<T>` as IntoIterator yields its value once, or nothing (core::option documentation)
#[verifier::external_body]
pub proof fn axiom_option_items<T>(o: Option<T>)
    ensures iter_items::<T, Option<T>>(o) == (match o { Some(x) => seq![x], None => Seq::<T>::empty() }),
{}
// TRUSTED: Option::map_or (core::option documentation): the default for None, f(value) for Some
pub assume_specification<T, U, F: FnOnce(T) -> U>[ Option::<T>::map_or ](o: Option<T>, d: U, f: F) -> (r: U)
    requires o matches Some(v) ==> call_requires(f, (v,)),
    ensures o is None ==> r == d, o matches Some(v) ==> call_ensures(f, (v,), r);
// TRUSTED: Result::unwrap_or_else (core::result documentation): the Ok value, or op(error)
pub assume_specification<T, E, F: FnOnce(E) -> T>[ Result::<T, E>::unwrap_or_else ](x: Result<T, E>, op: F) -> (r: T)
    requires x matches Err(e) ==> call_requires(op, (e,)),
    ensures x matches Ok(v) ==> r == v, x matches Err(e) ==> call_ensures(op, (e,), r);

#[verifier::external_body] fn verif_opaque_string() -> String { String::new() }

impl From<CfbError> for XlsError { fn from(e: CfbError) -> XlsError { XlsError::Cfb(e) } }

impl Cfb {
    #[verifier::external_body]
    pub fn get_stream<R: Read + Seek>(&mut self, name: &str, r: &mut R) -> Result<Vec<u8>, CfbError> { unimplemented!() }
}
impl XlsEncoding {
    #[verifier::external_body]
    pub fn from_codepage(codepage: u16) -> Result<XlsEncoding, CfbError> { unimplemented!() }
}

#[verifier::external_body] fn parse_bof(r: &mut Record<'_>) -> Result<Bof, XlsError> { unimplemented!() }
#[verifier::external_body] fn parse_sheet_metadata(r: &mut Record<'_>, encoding: &XlsEncoding, biff: Biff) -> Result<(usize, Sheet), XlsError> { unimplemented!() }
#[verifier::external_body] fn parse_number(r: &[u8], formats: &[CellFormat], is_1904: bool) -> Result<Cell<Data>, XlsError> { unimplemented!() }
#[verifier::external_body] fn parse_bool_err(r: &[u8]) -> Result<Cell<Data>, XlsError> { unimplemented!() }
#[verifier::external_body] fn parse_rk(r: &[u8], formats: &[CellFormat], is_1904: bool) -> Result<Cell<Data>, XlsError> { unimplemented!() }
#[verifier::external_body] fn parse_merge_cells(r: &[u8], merge_cells: &mut Vec<Dimensions>) -> Result<(), XlsError> { unimplemented!() }
#[verifier::external_body] fn parse_mul_rk(r: &[u8], cells: &mut Vec<Cell<Data>>, formats: &[CellFormat], is_1904: bool) -> Result<(), XlsError> { unimplemented!() }
#[verifier::external_body] fn parse_string(r: &[u8], encoding: &XlsEncoding, biff: Biff) -> Result<String, XlsError> { unimplemented!() }
#[verifier::external_body] fn parse_label(r: &[u8], encoding: &XlsEncoding, biff: Biff) -> Result<Option<Cell<Data>>, XlsError> { unimplemented!() }
#[verifier::external_body] fn parse_label_sst(r: &[u8], strings: &[String]) -> Result<Option<Cell<Data>>, XlsError> { unimplemented!() }
#[verifier::external_body] fn parse_dimensions(r: &[u8]) -> Result<Dimensions, XlsError> { unimplemented!() }
#[verifier::external_body] fn parse_sst(r: &mut Record<'_>, encoding: &XlsEncoding) -> Result<Vec<String>, XlsError> { unimplemented!() }
#[verifier::external_body] fn parse_xf(r: &Record<'_>) -> Result<u16, XlsError> { unimplemented!() }
#[verifier::external_body] fn parse_format(r: &mut Record<'_>, encoding: &XlsEncoding) -> Result<(u16, CellFormat), XlsError> { unimplemented!() }
#[verifier::external_body] fn read_unicode_string_no_cch(encoding: &XlsEncoding, buf: &[u8], len: &usize, s: &mut String) { unimplemented!() }
#[verifier::external_body] fn parse_defined_names(rgce: &[u8]) -> Result<(Option<usize>, String), XlsError> { unimplemented!() }
#[verifier::external_body] fn parse_formula(rgce: &[u8], sheets: &[String], names: &[(String, String)], xtis: &[Xti], encoding: &XlsEncoding) -> Result<String, XlsError> { unimplemented!() }
#[verifier::external_body] fn parse_formula_value(r: &[u8]) -> Result<Option<Data>, XlsError> { unimplemented!() }
#[verifier::external_body] pub fn builtin_format_by_code(code: u16) -> CellFormat { unimplemented!() }

impl<T: CellType> Cell<T> {
    #[verifier::external_body] pub fn new(position: (u32, u32), value: T) -> Cell<T> { unimplemented!() }
}
impl<T: CellType> Range<T> {
    #[verifier::external_body] pub fn from_sparse(cells: Vec<Cell<T>>) -> Range<T> { unimplemented!() }
}

// ---- record framing ([MS-XLS] 2.1.4), as far as this unit needs it
/// ghost view of a record: type, body, and the bodies of the Continue records attached to it
pub struct RecV { pub typ: int, pub data: Seq<u8>, pub cont: Option<Seq<Seq<u8>>> }
impl<'a> Record<'a> {
    pub closed spec fn v(&self) -> RecV {
        RecV { typ: self.typ as int, data: self.data@, cont: match self.cont { Some(v) => Some(Seq::new(v@.len(), |i: int| v@[i]@)), None => None } }
    }
}
pub enum Step { End, Bad, Rec(RecV, Seq<u8>) }
/// what `RecordIter::next` makes of the rest of a stream: nothing left / truncated record / a record and the rest behind it
// TRUSTED: `RecordIter::next` is a deterministic function of the remaining stream; its value is characterised in unit xlsrec
// (clauses C02.next_none_iff_empty, next_typ, next_data, next_framing, next_progress, next_err_is_eostream).
pub uninterp spec fn rec_step(s: Seq<u8>) -> Step;
pub open spec fn u16_at(r: Seq<u8>, o: int) -> int { r[o] as int + 256 * (r[o + 1] as int) }
impl<'a> RecordIter<'a> {
    pub closed spec fn s(&self) -> Seq<u8> { self.stream@ }
}
impl<'a> vstd::std_specs::iter::IteratorSpecImpl for RecordIter<'a> {
    open spec fn obeys_prophetic_iter_laws(&self) -> bool { false }
    open spec fn remaining(&self) -> Seq<Result<Record<'a>, XlsError>> { Seq::empty() }
    open spec fn will_return_none(&self) -> bool { false }
    open spec fn decrease(&self) -> Option<nat> { None }
    open spec fn peek(&self, i: int) -> Option<Result<Record<'a>, XlsError>> { None }
}
impl<'a> Iterator for RecordIter<'a> {
    type Item = Result<Record<'a>, XlsError>;
    // TRUSTED: proved in unit xlsrec ("Iterator for RecordIter<'a>::next": C02.next_*)
    #[verifier::external_body]
    fn next(&mut self) -> (res: Option<Self::Item>)
        ensures
            match rec_step(old(self).s()) {
                Step::End => res is None && old(self).s().len() == 0 && final(self).s() == old(self).s(),
                Step::Bad => (res matches Some(Err(XlsError::EoStream(_)))) && old(self).s().len() > 0,
                Step::Rec(v, rest) => (res matches Some(Ok(r)) && r.v() == v) && final(self).s() == rest
                    && old(self).s().len() >= 4 + v.data.len() + rest.len()
                    && v.typ == u16_at(old(self).s(), 0) && v.data == old(self).s().subrange(4, 4 + u16_at(old(self).s(), 2)),
            },
    { unimplemented!() }
}

//@@ impl src/xls.rs Xls nth=1
//@@ fn src/xls.rs Xls::parse_workbook props=C02,C16,C17,C20,C14 entry ret=res r4
//@@ r6 0
//@@ r6 2
//@@ loop 0
                invariant true,
                decreases __it0.s().len(),
//@@ loop 1
                invariant true,
//@@ loop 2
                invariant true,
                decreases __it2.s().len(),
//@@ replace /let stream = (cfb\s*\.get_stream\([^;]*?\))\s*\.or_else\(\|_\|\s*([^;]*)\)\?;/ Verus rejects closures that capture `&mut` variables (cfb, reader); `a.or_else(|_| b)` is by definition `match a { Ok(v) => Ok(v), Err(_) => b }` (core::result)
let stream = (match \g<1> { Ok(__v) => Ok(__v), Err(_) => \g<2> })?;
//@@ end
//@@ endimpl

} // verus!
fn main() {}
