//@@ unit props=C10,C17,C01,C16,C06
// Unit xlsxparts: HEADER PLACEHOLDER
#![feature(pattern)]
#![allow(unused_imports, dead_code, unused_variables, unused_mut, unused_assignments, unexpected_cfgs)]
use vstd::prelude::*;
use vstd::std_specs::cmp::PartialEqSpec;
use vstd::std_specs::iter::{IteratorSpec, IteratorSpecImpl};
use std::borrow::Cow;
use std::ops::Deref;
use std::cmp::{max, min};
use std::io::{Read, Seek};
use std::collections::BTreeMap;
use std::ops::{Index, RangeFrom, RangeFull};
use std::slice::SliceIndex;
use vstd::std_specs::core::IndexSpec;
use vstd::string::to_string_from_display_ensures;
use vstd::std_specs::btree::{maps_borrowed_key_to_value, contains_borrowed_key, borrowed_key_ordering_matches};

verus! {

// ---- stand-ins for foreign error payload types (opaque; never inspected by the verified code)
pub mod quick_xml {
    pub struct Error;
    pub mod events { pub mod attributes { pub struct AttrError; } }
    pub mod encoding { pub struct EncodingError; }
}
// TRUSTED: A-zip -- zip::result::ZipError (zip 2.4): the payloads of Io / InvalidArchive / UnsupportedArchive are dropped (never inspected)
pub mod zip { pub mod result { pub enum ZipError { Io, InvalidArchive, UnsupportedArchive, FileNotFound, InvalidPassword } } }
pub mod vba { pub struct VbaError; }
#[verifier::external_type_specification] #[verifier::external_body] pub struct ExIoError(std::io::Error);
#[verifier::external_type_specification] #[verifier::external_body] pub struct ExParseFloatError(std::num::ParseFloatError);
#[verifier::external_type_specification] #[verifier::external_body] pub struct ExParseIntError(std::num::ParseIntError);
#[verifier::external_trait_specification] pub trait ExRead { type ExternalTraitSpecificationFor: std::io::Read; }
#[verifier::external_trait_specification] pub trait ExSeek { type ExternalTraitSpecificationFor: std::io::Seek; }

//@@ item src/xlsx/mod.rs enum XlsxError
//@@ item src/lib.rs struct Dimensions keep_attrs
//@@ item src/lib.rs enum SheetType
//@@ item src/lib.rs enum SheetVisible
//@@ item src/lib.rs struct Sheet
//@@ item src/lib.rs struct Metadata
//@@ item src/lib.rs enum HeaderRow keep_attrs
//@@ item src/formats.rs enum CellFormat
//@@ item src/xlsx/mod.rs type Tables
//@@ item src/xlsx/mod.rs struct Xlsx cfg_off=picture
//@@ item src/xlsx/mod.rs struct XlsxOptions

// what `from_err!(quick_xml::Error, XlsxError, Xml)` / `from_err!(quick_xml::events::attributes::AttrError, XlsxError, XmlAttribute)`
// (macro of src/utils.rs) expand to
impl From<quick_xml::Error> for XlsxError { fn from(e: quick_xml::Error) -> (r: XlsxError) ensures r == XlsxError::Xml(e) { XlsxError::Xml(e) } }
impl vstd::std_specs::convert::FromSpecImpl<quick_xml::Error> for XlsxError {
    open spec fn obeys_from_spec() -> bool { true }
    open spec fn from_spec(e: quick_xml::Error) -> Self { XlsxError::Xml(e) }
}
impl From<quick_xml::events::attributes::AttrError> for XlsxError { fn from(e: quick_xml::events::attributes::AttrError) -> (r: XlsxError) ensures r == XlsxError::XmlAttribute(e) { XlsxError::XmlAttribute(e) } }
impl vstd::std_specs::convert::FromSpecImpl<quick_xml::events::attributes::AttrError> for XlsxError {
    open spec fn obeys_from_spec() -> bool { true }
    open spec fn from_spec(e: quick_xml::events::attributes::AttrError) -> Self { XlsxError::XmlAttribute(e) }
}

impl From<quick_xml::encoding::EncodingError> for XlsxError { fn from(e: quick_xml::encoding::EncodingError) -> (r: XlsxError) ensures r == XlsxError::Encoding(e) { XlsxError::Encoding(e) } }
impl vstd::std_specs::convert::FromSpecImpl<quick_xml::encoding::EncodingError> for XlsxError {
    open spec fn obeys_from_spec() -> bool { true }
    open spec fn from_spec(e: quick_xml::encoding::EncodingError) -> Self { XlsxError::Encoding(e) }
}
impl From<std::num::ParseIntError> for XlsxError { fn from(e: std::num::ParseIntError) -> (r: XlsxError) ensures r == XlsxError::ParseInt(e) { XlsxError::ParseInt(e) } }
impl vstd::std_specs::convert::FromSpecImpl<std::num::ParseIntError> for XlsxError {
    open spec fn obeys_from_spec() -> bool { true }
    open spec fn from_spec(e: std::num::ParseIntError) -> Self { XlsxError::ParseInt(e) }
}

// =====================================================================================================================
// A-std: assumed specifications of std functions the verified text calls (one line of documented behaviour each)
// =====================================================================================================================
pub mod ax {
    use vstd::prelude::*;
    use vstd::std_specs::cmp::PartialEqSpec;
    // TRUSTED: A-std -- `<String as PartialEq<str>>::eq` compares the character sequences (this is what `&String == &str` resolves to)
    pub broadcast axiom fn axiom_string_eq_obeys(a: &String)
        ensures (#[trigger] a@).len() >= 0, <String as PartialEqSpec<str>>::obeys_eq_spec();
    pub broadcast axiom fn axiom_string_eq_str(a: &String, b: &str)
        ensures #[trigger] <String as PartialEqSpec<str>>::eq_spec(a, b) == (a@ == b@);
}
broadcast use {ax::axiom_string_eq_str, ax::axiom_string_eq_obeys};

// =====================================================================================================================
// A-xml: GHOST MODEL OF quick-xml 0.37 (configuration set by xlsx::xml_reader: trim_text(false), expand_empty_elements = true,
// check_end_names = false).  Everything in this section is TRUSTED.  A reader owns the ghost sequence `events()` of the results
// its successive `read_event_into` calls deliver, and a position `pos()`.  What is ASSUMED AND NOT VERIFIED: that quick-xml turns
// the bytes of the zip part into this sequence (tokenisation, `<a/>` delivered as Start+End, attribute splitting, entity / character
// reference resolution in `unescape` / `decode_and_unescape_value`, white space preserved).
// DIFFERENT ghost values, never conflated by the contracts: the QUALIFIED name of a tag or attribute as written (`x15:workbookPr`,
// `r:id`), its LOCAL part (`workbookPr`, `id`), its PREFIX, and the NAMESPACE NAME the prefix (or the default namespace) is bound to at
// that point of the document (XML Namespaces 1.0; quick-xml's plain Reader does not resolve it: it is a fact about the document);
// the RAW bytes of an attribute value / text as written and the UNESCAPED text (`unesc`, uninterpreted).
// =====================================================================================================================
pub enum EvKind {
    Start,   // start tag (or the first half of an empty-element tag)
    End,     // end tag (or the second half of an empty-element tag)
    Text,    // character data between tags
    CData,   // <![CDATA[ ... ]]>, literal content in `text`
    Other,   // comment, processing instruction, XML declaration, DOCTYPE
    Error,   // the reader returns Err at this point
}
pub ghost struct Attr {
    pub ok: bool,                  // the attribute is syntactically well formed and not a duplicate (the iterator yields Ok)
    pub key: Seq<u8>,              // qualified attribute name as written, e.g. `r:id`
    pub local: Seq<u8>,            // its local part, e.g. `id`
    pub ns: Seq<u8>,               // namespace name its prefix is bound to (empty: unprefixed attributes are in no namespace)
    pub raw: Seq<u8>,              // value bytes as written between the quotes (what `Attribute::value` holds)
}
pub ghost struct Ev {
    pub kind: EvKind,
    pub name: Seq<u8>,             // qualified tag name as written, e.g. `x15:workbookPr` (Start / End)
    pub prefix: Option<Seq<u8>>,   // its namespace prefix, e.g. Some(`x15`); None: unprefixed
    pub local: Seq<u8>,            // its local part, e.g. `workbookPr`
    pub ns: Seq<u8>,               // namespace name the element belongs to (binding of the prefix / default namespace in scope)
    pub attrs: Seq<Attr>,          // attributes in document order (Start)
    pub text: Seq<char>,           // content of a Text event after unescaping, literal content of a CData event
    pub text_ok: bool,             // `unescape()` succeeds on this Text event
}
/// attribute value decoded with entity / character references resolved (what `decode_and_unescape_value` returns); None: error
pub uninterp spec fn unesc(raw: Seq<u8>) -> Option<Seq<char>>;
/// XML Namespaces: QName = (Prefix ':')? LocalPart
pub open spec fn qname_of(prefix: Option<Seq<u8>>, local: Seq<u8>) -> Seq<u8> {
    match prefix { None => local, Some(p) => p + seq![0x3au8] + local }
}
/// XML 1.0 well-formedness constraint "Unique Att Spec": no attribute name appears twice in a start tag (quick-xml's attribute iterator
/// checks it -- `with_checks(true)` is its default -- and yields Err for the repeated one: such an attribute has `ok == false`)
pub open spec fn attrs_unique(attrs: Seq<Attr>) -> bool {
    forall|i: int, j: int| 0 <= i < j < attrs.len() && (#[trigger] attrs[i]).ok && (#[trigger] attrs[j]).ok ==> attrs[i].key != attrs[j].key
}
impl Ev {
    pub open spec fn is_tag(self) -> bool { self.kind is Start || self.kind is End }
    /// the qualified name is prefix + ':' + local part
    pub open spec fn wf(self) -> bool { (self.is_tag() ==> self.name == qname_of(self.prefix, self.local)) && attrs_unique(self.attrs) }
}
/// the spreadsheetml main namespace `http://schemas.openxmlformats.org/spreadsheetml/2006/main` (or its Strict twin)
pub uninterp spec fn is_main_ns(ns: Seq<u8>) -> bool;
/// the officeDocument relationships namespace `http://schemas.openxmlformats.org/officeDocument/2006/relationships`
pub uninterp spec fn is_rel_ns(ns: Seq<u8>) -> bool;

// TRUSTED: A-std -- `Cow::deref` / `Cow::as_ref` yield the borrowed or owned content; `cow_ref` names it
pub uninterp spec fn cow_ref<'a, 'b, B: ?Sized + ToOwned>(c: &'b Cow<'a, B>) -> &'b B;
pub assume_specification<'a, 'b, B: ?Sized + ToOwned>[ <Cow<'a, B> as Deref>::deref ](c: &'b Cow<'a, B>) -> (r: &'b B)
    ensures r == cow_ref(c);
pub assume_specification<'a, 'b, T: ?Sized + ToOwned>[ <Cow<'a, T> as AsRef<T>>::as_ref ](c: &'b Cow<'a, T>) -> (r: &'b T)
    ensures r == cow_ref(c);

// TRUSTED: A-xml -- quick_xml::name::QName (a tuple struct over the qualified-name bytes; `==` compares the bytes)
pub struct QName<'a>(pub &'a [u8]);
impl<'a> PartialEq for QName<'a> {
    #[verifier::external_body]
    fn eq(&self, o: &QName<'a>) -> (r: bool) ensures r == (self.0@ =~= o.0@) { unimplemented!() }
}
impl<'a> QName<'a> {
    // TRUSTED: A-xml -- `AsRef<[u8]> for QName`
    #[verifier::external_body]
    pub fn as_ref(&self) -> (r: &[u8]) ensures r@ == self.0@ { unimplemented!() }
}
// TRUSTED: A-xml -- quick_xml::name::LocalName
#[verifier::external_body]
pub struct LocalName<'a> { _p: core::marker::PhantomData<&'a ()> }
impl<'a> LocalName<'a> {
    pub uninterp spec fn bytes(&self) -> Seq<u8>;
    // TRUSTED: A-xml
    #[verifier::external_body]
    pub fn as_ref(&self) -> (r: &[u8]) ensures r@ == self.bytes() { unimplemented!() }
}
// TRUSTED: A-xml -- quick_xml::encoding::Decoder (UTF-8 unless the XML declaration says otherwise; folded into `unesc` / `dec`)
pub struct Decoder { _p: u8 }
/// raw bytes decoded (no entity resolution): what `decoder().decode(bytes)` returns; None: encoding error
pub uninterp spec fn dec(raw: Seq<u8>) -> Option<Seq<char>>;
impl Decoder {
    // TRUSTED: A-xml
    #[verifier::external_body]
    pub fn decode<'b>(&self, bytes: &'b [u8]) -> (r: Result<Cow<'b, str>, quick_xml::encoding::EncodingError>)
        ensures
            dec(bytes@) is Some ==> r is Ok && cow_ref(&r->Ok_0)@ == dec(bytes@)->Some_0,
            dec(bytes@) is None ==> r is Err,
    { unimplemented!() }
}
// TRUSTED: A-xml -- quick_xml::events::attributes::Attribute (public fields `key`, `value`: the verified code matches on them)
pub struct Attribute<'a> { pub key: QName<'a>, pub value: Cow<'a, [u8]> }
impl<'a> Attribute<'a> {
    /// this exec attribute carries the qualified name and raw value of the ghost attribute
    pub open spec fn is(&self, a: Attr) -> bool { self.key.0@ == a.key && cow_ref(&self.value)@ == a.raw }
    // TRUSTED: A-xml -- decodes the raw value and resolves entity / character references
    #[verifier::external_body]
    pub fn decode_and_unescape_value(&self, decoder: Decoder) -> (r: Result<Cow<'a, str>, quick_xml::Error>)
        ensures
            unesc(cow_ref(&self.value)@) is Some ==> r is Ok && cow_ref(&r->Ok_0)@ == unesc(cow_ref(&self.value)@)->Some_0,
            unesc(cow_ref(&self.value)@) is None ==> r is Err,
    { unimplemented!() }
}
/// the results the attribute iterator yields for the ghost attributes
pub open spec fn attrs_match<'a>(items: Seq<Result<Attribute<'a>, quick_xml::events::attributes::AttrError>>, attrs: Seq<Attr>) -> bool {
    &&& items.len() == attrs.len()
    &&& forall|i: int| 0 <= i < attrs.len() ==> ((#[trigger] items[i]) is Ok <==> attrs[i].ok)
    &&& forall|i: int| 0 <= i < attrs.len() && attrs[i].ok ==> (#[trigger] items[i])->Ok_0.is(attrs[i])
}
// TRUSTED: A-xml -- quick_xml::events::attributes::Attributes: an iterator over Result<Attribute, AttrError>, one item per attribute in
// document order
#[verifier::external_body]
pub struct Attributes<'a> { _p: core::marker::PhantomData<&'a ()> }
impl<'a> Attributes<'a> {
    pub uninterp spec fn items(&self) -> Seq<Result<Attribute<'a>, quick_xml::events::attributes::AttrError>>;
    // TRUSTED: A-std + A-xml -- `attributes().filter_map(Result::ok)`: the successfully parsed attributes, in order (stands for
    // Iterator::filter_map with the function `Result::ok`; the argument is not inspected)
    #[verifier::external_body]
    pub fn filter_map<B, F: FnMut(Result<Attribute<'a>, quick_xml::events::attributes::AttrError>) -> Option<B>>(self, f: F) -> (r: OkAttributes<'a>)
        ensures r.src() == self.items(),
    { unimplemented!() }
}
impl<'a> Attributes<'a> {
    // TRUSTED: A-std + A-xml -- `attributes().flatten()`: the successfully parsed attributes, in order (Iterator::flatten over Result items)
    #[verifier::external_body]
    pub fn flatten(self) -> (r: FlatAttributes<'a>)
        ensures r.items().len() <= self.items().len(),
    { unimplemented!() }
}
// TRUSTED: stand-in for `Flatten<Attributes>`
#[verifier::external_body]
pub struct FlatAttributes<'a> { _p: core::marker::PhantomData<&'a ()> }
impl<'a> FlatAttributes<'a> {
    pub uninterp spec fn items(&self) -> Seq<Attribute<'a>>;
}
impl<'a> Iterator for FlatAttributes<'a> {
    type Item = Attribute<'a>;
    #[verifier::external_body]
    fn next(&mut self) -> (r: Option<Self::Item>) { unimplemented!() }
}
impl<'a> IteratorSpecImpl for FlatAttributes<'a> {
    open spec fn obeys_prophetic_iter_laws(&self) -> bool { true }
    open spec fn remaining(&self) -> Seq<Attribute<'a>> { self.items() }
    open spec fn will_return_none(&self) -> bool { true }
    open spec fn decrease(&self) -> Option<nat> { Some(self.items().len()) }
    open spec fn peek(&self, i: int) -> Option<Attribute<'a>> { if 0 <= i < self.items().len() { Some(self.items()[i]) } else { None } }
}
impl<'a> Iterator for Attributes<'a> {
    type Item = Result<Attribute<'a>, quick_xml::events::attributes::AttrError>;
    #[verifier::external_body]
    fn next(&mut self) -> (r: Option<Self::Item>) { unimplemented!() }
}
impl<'a> IteratorSpecImpl for Attributes<'a> {
    open spec fn obeys_prophetic_iter_laws(&self) -> bool { true }
    open spec fn remaining(&self) -> Seq<Result<Attribute<'a>, quick_xml::events::attributes::AttrError>> { self.items() }
    open spec fn will_return_none(&self) -> bool { true }
    open spec fn decrease(&self) -> Option<nat> { Some(self.items().len()) }
    open spec fn peek(&self, i: int) -> Option<Result<Attribute<'a>, quick_xml::events::attributes::AttrError>> {
        if 0 <= i < self.items().len() { Some(self.items()[i]) } else { None }
    }
}
/// f holds of every Ok item among the first n
pub closed spec fn ok_all<'a>(items: Seq<Result<Attribute<'a>, quick_xml::events::attributes::AttrError>>, f: spec_fn(Attribute<'a>) -> bool, n: int) -> bool {
    forall|j: int| 0 <= j < n && j < items.len() && (#[trigger] items[j]) is Ok ==> f(items[j]->Ok_0)
}
/// (proved) `ok_all` read on the side of the ghost attributes: re-triggering on `at[j]`
pub broadcast proof fn lemma_ok_all<'a>(items: Seq<Result<Attribute<'a>, quick_xml::events::attributes::AttrError>>, f: spec_fn(Attribute<'a>) -> bool, n: int, at: Seq<Attr>, j: int)
    requires ok_all(items, f, n), attrs_match(items, at), 0 <= j < n, j < at.len(), at[j].ok,
    ensures #![trigger ok_all(items, f, n), attrs_match(items, at), at[j]] f(items[j]->Ok_0) && items[j]->Ok_0.is(at[j]),
{
    assert(items[j] is Ok);
}
// TRUSTED: stand-in for `FilterMap<Attributes, fn(Result<..>) -> Option<..>>` as produced by `.filter_map(Result::ok)`
#[verifier::external_body]
pub struct OkAttributes<'a> { _p: core::marker::PhantomData<&'a ()> }
impl<'a> OkAttributes<'a> {
    pub uninterp spec fn src(&self) -> Seq<Result<Attribute<'a>, quick_xml::events::attributes::AttrError>>;
    // TRUSTED: A-std -- Iterator::find on it: the first Ok item (in order) for which the predicate returns true
    #[verifier::external_body]
    pub fn find<P: FnMut(&Attribute<'a>) -> bool>(&mut self, pred: P) -> (r: Option<Attribute<'a>>)
        ensures
            match r {
                Some(x) => exists|i: int| 0 <= i < old(self).src().len() && (#[trigger] old(self).src()[i]) == Ok::<Attribute<'a>, quick_xml::events::attributes::AttrError>(x)
                    && call_ensures(pred, (&x,), true)
                    && ok_all(old(self).src(), |y: Attribute<'a>| call_ensures(pred, (&y,), false), i),
                None => ok_all(old(self).src(), |y: Attribute<'a>| call_ensures(pred, (&y,), false), old(self).src().len() as int),
            },
    { unimplemented!() }
}

// TRUSTED: A-xml -- quick_xml::events::{BytesStart, BytesEnd, BytesText, BytesCData}: views onto one ghost event
#[verifier::external_body]
pub struct BytesStart<'a> { _p: core::marker::PhantomData<&'a ()> }
#[verifier::external_body]
pub struct BytesEnd<'a> { _p: core::marker::PhantomData<&'a ()> }
#[verifier::external_body]
pub struct BytesText<'a> { _p: core::marker::PhantomData<&'a ()> }
#[verifier::external_body]
pub struct BytesCData<'a> { _p: core::marker::PhantomData<&'a ()> }
// TRUSTED: A-xml -- quick_xml::events::Event; `Other` stands for Comment / PI / Decl / DocType (never named by the verified code;
// `Empty` cannot occur with expand_empty_elements = true)
pub enum Event<'a> {
    Start(BytesStart<'a>),
    End(BytesEnd<'a>),
    Text(BytesText<'a>),
    CData(BytesCData<'a>),
    Other,
    Eof,
}
/// ASCII text as bytes
pub open spec fn bytes_of(s: Seq<char>) -> Seq<u8> { s.map_values(|c: char| c as u8) }
/// index of the first attribute at or after i that is malformed or has this qualified name; attrs.len() if none
pub open spec fn tga_idx(attrs: Seq<Attr>, key: Seq<u8>, i: int) -> int
    decreases attrs.len() - i
{
    if i < 0 || i >= attrs.len() { attrs.len() as int } else if !attrs[i].ok || attrs[i].key == key { i } else { tga_idx(attrs, key, i + 1) }
}
impl<'a> BytesStart<'a> {
    pub uninterp spec fn ev(&self) -> Ev;
    // TRUSTED: A-xml
    #[verifier::external_body]
    pub fn name(&self) -> (r: QName<'_>) ensures r.0@ == self.ev().name { unimplemented!() }
    // TRUSTED: A-xml
    #[verifier::external_body]
    pub fn local_name(&self) -> (r: LocalName<'_>) ensures r.bytes() == self.ev().local { unimplemented!() }
    // TRUSTED: A-xml
    #[verifier::external_body]
    pub fn attributes(&self) -> (r: Attributes<'_>) ensures attrs_match(r.items(), self.ev().attrs) { unimplemented!() }
    // TRUSTED: A-xml -- "Try to get an attribute": iterates the attributes, returns the first whose qualified name equals `attr_name`
    // (Ok(None) if there is none), or the error of a malformed attribute met before it.  (Real signature: `N: AsRef<[u8]> + Sized`.)
    #[verifier::external_body]
    pub fn try_get_attribute(&self, attr_name: &str) -> (r: Result<Option<Attribute<'_>>, quick_xml::events::attributes::AttrError>)
        ensures ({
            let at = self.ev().attrs;
            let k = tga_idx(at, bytes_of(attr_name@), 0);
            if k >= at.len() { r matches Ok(None) } else if !at[k].ok { r is Err } else { r matches Ok(Some(a)) && a.is(at[k]) }
        }),
    { unimplemented!() }
}
impl<'a> BytesEnd<'a> {
    pub uninterp spec fn ev(&self) -> Ev;
    // TRUSTED: A-xml
    #[verifier::external_body]
    pub fn name(&self) -> (r: QName<'_>) ensures r.0@ == self.ev().name { unimplemented!() }
    // TRUSTED: A-xml
    #[verifier::external_body]
    pub fn local_name(&self) -> (r: LocalName<'_>) ensures r.bytes() == self.ev().local { unimplemented!() }
}
impl<'a> BytesText<'a> {
    pub uninterp spec fn ev(&self) -> Ev;
    // TRUSTED: A-xml -- `unescape` returns the text with the predefined entities and character references resolved, or Err
    #[verifier::external_body]
    pub fn unescape(&self) -> (r: Result<Cow<'a, str>, quick_xml::Error>)
        ensures
            self.ev().text_ok ==> r is Ok && cow_ref(&r->Ok_0)@ == self.ev().text,
            !self.ev().text_ok ==> r is Err,
    { unimplemented!() }
}
impl<'a> BytesCData<'a> {
    pub uninterp spec fn ev(&self) -> Ev;
}
/// the result `read_event_into` delivers for the ghost event e
pub open spec fn ev_result<'b>(r: Result<Event<'b>, quick_xml::Error>, e: Ev) -> bool {
    match e.kind {
        EvKind::Start => r matches Ok(Event::Start(b)) && b.ev() == e,
        EvKind::End => r matches Ok(Event::End(b)) && b.ev() == e,
        EvKind::Text => r matches Ok(Event::Text(b)) && b.ev() == e,
        EvKind::CData => r matches Ok(Event::CData(b)) && b.ev() == e,
        EvKind::Other => r matches Ok(Event::Other),
        EvKind::Error => r is Err,
    }
}
// TRUSTED: A-xml -- quick_xml::Reader<BufReader<ZipFile>> (type alias XlReader of src/xlsx/mod.rs)
#[verifier::external_body]
pub struct XlReader<'a> { _p: core::marker::PhantomData<&'a ()> }
impl<'a> XlReader<'a> {
    pub uninterp spec fn events(&self) -> Seq<Ev>;
    pub uninterp spec fn pos(&self) -> nat;
    pub open spec fn left(&self) -> int { if self.pos() >= self.events().len() { 0 } else { self.events().len() - self.pos() } }
    // TRUSTED: A-xml -- returns events[pos] and advances; at the end of input returns Eof for ever; qualified names are prefix:local
    #[verifier::external_body]
    pub fn read_event_into<'b>(&mut self, buf: &'b mut Vec<u8>) -> (r: Result<Event<'b>, quick_xml::Error>)
        ensures
            final(self).events() == old(self).events(),
            old(self).pos() >= old(self).events().len() ==> (r matches Ok(Event::Eof)) && final(self).pos() == old(self).pos(),
            old(self).pos() < old(self).events().len() ==>
                final(self).pos() == old(self).pos() + 1 && ev_result(r, old(self).events()[old(self).pos() as int])
                && old(self).events()[old(self).pos() as int].wf(),
    { unimplemented!() }
    // TRUSTED: A-xml
    #[verifier::external_body]
    pub fn decoder(&self) -> Decoder { unimplemented!() }
}

// =====================================================================================================================
// A-zip: the zip container.  TRUSTED: `ZipArchive`, `ZipFile`, `FileNames` are stand-ins for zip::read::{ZipArchive, ZipFile} and the
// iterator `file_names()` returns (zip 2.4.2).  `content()` is the logical content of the archive: the list of entry names (central
// directory order; names are unique: zip keeps them in an IndexMap) and, per name, the XML events of the entry.  Reading a part never
// changes it.  What is ASSUMED AND NOT VERIFIED: central directory parsing, inflate, and that quick-xml turns the bytes of the entry
// into the ghost event sequence (A-xml).
// =====================================================================================================================
use zip::result::ZipError;
#[verifier::external_body]
#[verifier::accept_recursive_types(RS)]
pub struct ZipArchive<RS> { _p: core::marker::PhantomData<RS> }
/// logical content of an archive (abstract)
#[verifier::external_body]
pub ghost struct ZipContent { _p: u8 }
pub uninterp spec fn content<RS>(zip: ZipArchive<RS>) -> ZipContent;
/// the entry names of the archive as stored, in directory order
pub uninterp spec fn names(c: ZipContent) -> Seq<Seq<char>>;
/// the XML events of the entry stored under EXACTLY this name; None: the entry cannot be opened (zip-level error other than "not found")
pub uninterp spec fn entry_events(c: ZipContent, name: Seq<char>) -> Option<Seq<Ev>>;
// TRUSTED: A-zip -- zip::read::ZipFile: an opened entry
#[verifier::external_body]
pub struct ZipFile<'a> { _p: core::marker::PhantomData<&'a ()> }
impl<'a> ZipFile<'a> {
    /// the XML events its bytes tokenise to under the reader configuration of A-xml
    pub uninterp spec fn events(&self) -> Seq<Ev>;
}
// TRUSTED: A-zip -- the iterator returned by `ZipArchive::file_names` ("an iterator over all the file and directory names in this archive")
#[verifier::external_body]
pub struct FileNames<'a> { _p: core::marker::PhantomData<&'a ()> }
impl<'a> FileNames<'a> {
    pub uninterp spec fn rem(&self) -> Seq<&'a str>;
    // TRUSTED: A-std -- Iterator::find on it: the first name (in order) for which the predicate returns true
    #[verifier::external_body]
    pub fn find<P: FnMut(&&'a str) -> bool>(&mut self, pred: P) -> (r: Option<&'a str>)
        ensures
            match r {
                Some(x) => exists|i: int| 0 <= i < old(self).rem().len() && (#[trigger] old(self).rem()[i]) == x && call_ensures(pred, (&x,), true)
                    && forall|j: int| #![trigger old(self).rem()[j]] 0 <= j < i ==> call_ensures(pred, (&old(self).rem()[j],), false),
                None => forall|j: int| #![trigger old(self).rem()[j]] 0 <= j < old(self).rem().len() ==> call_ensures(pred, (&old(self).rem()[j],), false),
            },
    { unimplemented!() }
}
impl<RS: Read + Seek> ZipArchive<RS> {
    // TRUSTED: A-zip
    #[verifier::external_body]
    pub fn file_names(&self) -> (r: FileNames<'_>)
        ensures
            r.rem().len() == names(content(*self)).len(),
            forall|i: int| #![trigger r.rem()[i]] #![trigger names(content(*self))[i]] 0 <= i < r.rem().len() ==> r.rem()[i]@ == names(content(*self))[i],
    { unimplemented!() }
    // TRUSTED: A-zip -- "Search for a file entry by name": exact comparison; Err(FileNotFound) iff there is no entry of this name;
    // the archive content is unchanged
    #[verifier::external_body]
    pub fn by_name<'a>(&'a mut self, name: &str) -> (r: Result<ZipFile<'a>, ZipError>)
        ensures
            content(*final(self)) == content(*old(self)),
            !names(content(*old(self))).contains(name@) <==> r == Err::<ZipFile<'a>, ZipError>(ZipError::FileNotFound),
            names(content(*old(self))).contains(name@) ==> match entry_events(content(*old(self)), name@) {
                Some(ev) => r is Ok && (r->Ok_0).events() == ev,
                None => r is Err,
            },
    { unimplemented!() }
}
// TRUSTED: stand-in for std::io::BufReader (a buffering wrapper: same bytes)
pub struct BufReader<R> { pub inner: R }
impl<R> BufReader<R> {
    pub fn new(inner: R) -> (r: Self) ensures r.inner == inner { BufReader { inner } }
}
// TRUSTED: A-xml -- quick_xml::reader::Config (0.37.5): public fields and `trim_text`; Default as in the crate
pub struct Config {
    pub allow_unmatched_ends: bool,
    pub check_comments: bool,
    pub check_end_names: bool,
    pub expand_empty_elements: bool,
    pub trim_markup_names_in_closing_tags: bool,
    pub trim_text_start: bool,
    pub trim_text_end: bool,
}
impl Config {
    pub open spec fn default_spec() -> Config {
        Config { allow_unmatched_ends: false, check_comments: false, check_end_names: true, expand_empty_elements: false,
                 trim_markup_names_in_closing_tags: true, trim_text_start: false, trim_text_end: false }
    }
    /// "Set both trim_text_start and trim_text_end to the same value"
    pub fn trim_text(&mut self, trim: bool)
        ensures *final(self) == (Config { trim_text_start: trim, trim_text_end: trim, ..*old(self) }),
    {
        self.trim_text_start = trim;
        self.trim_text_end = trim;
    }
}
/// the configuration under which the ghost event model A-xml describes the reader: white space kept (no trimming), `<a/>` delivered as
/// Start + End, end-tag names not checked against start tags
pub open spec fn axml_config(c: Config) -> bool {
    !c.trim_text_start && !c.trim_text_end && c.expand_empty_elements && !c.check_end_names && !c.check_comments
}
// TRUSTED: A-xml -- `quick_xml::Reader::from_reader` (alias XmlReader in src/xlsx/mod.rs): a reader at the start of the source with the
// default configuration; `config_mut` hands out the configuration
pub struct XmlReader;
impl XmlReader {
    #[verifier::external_body]
    pub fn from_reader<'a>(r: BufReader<ZipFile<'a>>) -> (x: XlReader<'a>)
        ensures x.events() == r.inner.events(), x.pos() == 0, x.cfg() == Config::default_spec(),
    { unimplemented!() }
}
impl<'a> XlReader<'a> {
    pub uninterp spec fn cfg(&self) -> Config;
    #[verifier::external_body]
    pub fn config_mut(&mut self) -> (c: &mut Config)
        ensures *c == old(self).cfg(), final(self).cfg() == *final(c), final(self).events() == old(self).events(), final(self).pos() == old(self).pos(),
    { unimplemented!() }
}

/// the archive has a part with this name, compared ASCII-case-insensitively (C01 "part-name case": OPC part names are case-insensitive, ECMA-376 Part 2, 8.3.5)
pub open spec fn part_idx(c: ZipContent, path: Seq<char>, i: int) -> bool {
    0 <= i < names(c).len() && eq_ic(names(c)[i], path) && forall|j: int| 0 <= j < i ==> !eq_ic(#[trigger] names(c)[j], path)
}
pub open spec fn has_part(c: ZipContent, path: Seq<char>) -> bool { exists|i: int| 0 <= i < names(c).len() && eq_ic(#[trigger] names(c)[i], path) }
/// the XML events of that part (the first entry whose name matches); None: the part cannot be opened (zip-level error)
pub open spec fn part_events(c: ZipContent, path: Seq<char>) -> Option<Seq<Ev>> {
    if has_part(c, path) { entry_events(c, names(c)[choose|i: int| part_idx(c, path, i)]) } else { None }
}

proof fn lemma_part_idx_unique(c: ZipContent, path: Seq<char>, k: int)
    requires part_idx(c, path, k),
    ensures has_part(c, path), (choose|i: int| part_idx(c, path, i)) == k, part_events(c, path) == entry_events(c, names(c)[k]),
{
    let i = choose|i: int| part_idx(c, path, i);
    assert(part_idx(c, path, i));
    if i < k { assert(!eq_ic(names(c)[i], path)); }
    if k < i { assert(!eq_ic(names(c)[k], path)); }
}
// TRUSTED: A-std -- `str::eq_ignore_ascii_case`: "Checks that two strings are an ASCII case-insensitive match"
pub open spec fn ascii_lower(c: char) -> char { if 'A' <= c && c <= 'Z' { ((c as u8) + 32u8) as char } else { c } }
pub open spec fn eq_ic(a: Seq<char>, b: Seq<char>) -> bool { a.len() == b.len() && forall|i: int| 0 <= i < a.len() ==> ascii_lower(#[trigger] a[i]) == ascii_lower(b[i]) }
pub assume_specification[ str::eq_ignore_ascii_case ](a: &str, b: &str) -> (r: bool)
    ensures r == eq_ic(a@, b@);
impl From<ZipError> for XlsxError { fn from(e: ZipError) -> (r: XlsxError) ensures r == XlsxError::Zip(e) { XlsxError::Zip(e) } }
impl vstd::std_specs::convert::FromSpecImpl<ZipError> for XlsxError {
    open spec fn obeys_from_spec() -> bool { true }
    open spec fn from_spec(e: ZipError) -> Self { XlsxError::Zip(e) }
}

//@@ fn src/xlsx/mod.rs xml_reader props=C01 ret=r
//@@ sig
    ensures
        //# C07.xml_reader_archive_unchanged
        content(*final(zip)) == content(*old(zip)),
        //# C01.part_name_case_insensitive
        r is None <==> !has_part(content(*old(zip)), path@),
        //# C01.part_reader_at_start_of_that_part
        r is Some && r->Some_0 is Ok ==> part_events(content(*old(zip)), path@) == Some((r->Some_0->Ok_0).events()) && (r->Some_0->Ok_0).pos() == 0,
        //# C01.part_open_error_is_reported
        r is Some && r->Some_0 is Err ==> part_events(content(*old(zip)), path@) is None,
        //# C01.reader_configuration
        r is Some && r->Some_0 is Ok ==> axml_config((r->Some_0->Ok_0).cfg()),
//@@ closure 0
    -> (res: bool) ensures
        //# C01.part_name_compared_case_insensitively
        res == eq_ic((**n)@, path@)
//@@ before /match zip\.by_name/
    proof {
        let c = content(*old(zip));
        let nm = names(c);
        assert(content(*zip) == c);
        let k = choose|k: int| 0 <= k < nm.len() && nm[k] == actual_path@ && eq_ic(nm[k], path@) && forall|j: int| 0 <= j < k ==> !eq_ic(#[trigger] nm[j], path@);
        assert(part_idx(c, path@, k));
        assert(has_part(c, path@));
        lemma_part_idx_unique(c, path@, k);
        assert(nm.contains(actual_path@));
    }
//@@ end

// =====================================================================================================================
// Names the verified code compares with (byte-string literals) and their ASCII bytes
// =====================================================================================================================
#[verifier::opaque] pub open spec fn n_stylesheet() -> Seq<u8> { seq![0x73u8, 0x74u8, 0x79u8, 0x6cu8, 0x65u8, 0x53u8, 0x68u8, 0x65u8, 0x65u8, 0x74u8] }   // styleSheet
#[verifier::opaque] pub open spec fn n_numfmts() -> Seq<u8> { seq![0x6eu8, 0x75u8, 0x6du8, 0x46u8, 0x6du8, 0x74u8, 0x73u8] }   // numFmts
#[verifier::opaque] pub open spec fn n_numfmt() -> Seq<u8> { seq![0x6eu8, 0x75u8, 0x6du8, 0x46u8, 0x6du8, 0x74u8] }   // numFmt
#[verifier::opaque] pub open spec fn n_cellxfs() -> Seq<u8> { seq![0x63u8, 0x65u8, 0x6cu8, 0x6cu8, 0x58u8, 0x66u8, 0x73u8] }   // cellXfs
#[verifier::opaque] pub open spec fn n_xf() -> Seq<u8> { seq![0x78u8, 0x66u8] }   // xf
#[verifier::opaque] pub open spec fn k_numfmtid() -> Seq<u8> { seq![0x6eu8, 0x75u8, 0x6du8, 0x46u8, 0x6du8, 0x74u8, 0x49u8, 0x64u8] }   // numFmtId
#[verifier::opaque] pub open spec fn k_formatcode() -> Seq<u8> { seq![0x66u8, 0x6fu8, 0x72u8, 0x6du8, 0x61u8, 0x74u8, 0x43u8, 0x6fu8, 0x64u8, 0x65u8] }   // formatCode
#[verifier::opaque] pub open spec fn n_relationships() -> Seq<u8> { seq![0x52u8, 0x65u8, 0x6cu8, 0x61u8, 0x74u8, 0x69u8, 0x6fu8, 0x6eu8, 0x73u8, 0x68u8, 0x69u8, 0x70u8, 0x73u8] }   // Relationships
#[verifier::opaque] pub open spec fn n_relationship() -> Seq<u8> { seq![0x52u8, 0x65u8, 0x6cu8, 0x61u8, 0x74u8, 0x69u8, 0x6fu8, 0x6eu8, 0x73u8, 0x68u8, 0x69u8, 0x70u8] }   // Relationship
#[verifier::opaque] pub open spec fn k_id_cap() -> Seq<u8> { seq![0x49u8, 0x64u8] }   // Id
#[verifier::opaque] pub open spec fn k_target() -> Seq<u8> { seq![0x54u8, 0x61u8, 0x72u8, 0x67u8, 0x65u8, 0x74u8] }   // Target
#[verifier::opaque] pub open spec fn n_worksheet() -> Seq<u8> { seq![0x77u8, 0x6fu8, 0x72u8, 0x6bu8, 0x73u8, 0x68u8, 0x65u8, 0x65u8, 0x74u8] }   // worksheet
#[verifier::opaque] pub open spec fn n_mergecells() -> Seq<u8> { seq![0x6du8, 0x65u8, 0x72u8, 0x67u8, 0x65u8, 0x43u8, 0x65u8, 0x6cu8, 0x6cu8, 0x73u8] }   // mergeCells
#[verifier::opaque] pub open spec fn n_mergecell() -> Seq<u8> { seq![0x6du8, 0x65u8, 0x72u8, 0x67u8, 0x65u8, 0x43u8, 0x65u8, 0x6cu8, 0x6cu8] }   // mergeCell
#[verifier::opaque] pub open spec fn k_ref() -> Seq<u8> { seq![0x72u8, 0x65u8, 0x66u8] }   // ref
// TRUSTED: A-lit -- Verus keeps the contents of byte-string literals uninterpreted (only their length is known); the bytes of the
// literals the verified code compares names with are stated here (ASCII)
#[verifier::external_body]
pub proof fn axiom_bytelits()
    ensures
        b"styleSheet"@ == n_stylesheet(), b"numFmts"@ == n_numfmts(), b"numFmt"@ == n_numfmt(), b"cellXfs"@ == n_cellxfs(), b"xf"@ == n_xf(),
        b"numFmtId"@ == k_numfmtid(), b"formatCode"@ == k_formatcode(),
        b"Relationships"@ == n_relationships(), b"Relationship"@ == n_relationship(), b"Id"@ == k_id_cap(), b"Target"@ == k_target(),
        b"worksheet"@ == n_worksheet(), b"mergeCells"@ == n_mergecells(), b"mergeCell"@ == n_mergecell(), b"ref"@ == k_ref(),
{}
/// (proved) `slice == byte-string literal` (vstd: same length and pointwise equal) is equality of the byte sequences
pub broadcast proof fn lemma_bytes_eq_array<const N: usize>(a: &[u8], b: &[u8; N])
    ensures #[trigger] <[u8] as PartialEqSpec<[u8; N]>>::eq_spec(a, b) <==> a@ == b@
{
    if <[u8] as PartialEqSpec<[u8; N]>>::eq_spec(a, b) { assert(a@ =~= b@); }
}
proof fn lemma_names_distinct()
    ensures
        n_stylesheet() != n_numfmts(), n_stylesheet() != n_numfmt(), n_stylesheet() != n_cellxfs(), n_stylesheet() != n_xf(),
        n_numfmts() != n_numfmt(), n_numfmts() != n_cellxfs(), n_numfmts() != n_xf(), n_numfmt() != n_cellxfs(), n_numfmt() != n_xf(), n_cellxfs() != n_xf(),
        k_numfmtid() != k_formatcode(),
        n_relationships() != n_relationship(), k_id_cap() != k_target(),
        n_worksheet() != n_mergecells(), n_worksheet() != n_mergecell(), n_mergecells() != n_mergecell(),
{
    reveal(n_stylesheet); reveal(n_numfmts); reveal(n_numfmt); reveal(n_cellxfs); reveal(n_xf); reveal(k_numfmtid); reveal(k_formatcode);
    reveal(n_relationships); reveal(n_relationship); reveal(k_id_cap); reveal(k_target); reveal(n_worksheet); reveal(n_mergecells); reveal(n_mergecell);
    assert(n_stylesheet().len() == 10 && n_numfmts().len() == 7 && n_numfmt().len() == 6 && n_cellxfs().len() == 7 && n_xf().len() == 2);
    assert(n_numfmts()[0] != n_cellxfs()[0]);
    assert(k_numfmtid().len() == 8 && k_formatcode().len() == 10);
    assert(n_relationships().len() == 13 && n_relationship().len() == 12 && k_id_cap().len() == 2 && k_target().len() == 6);
    assert(n_worksheet().len() == 9 && n_mergecells().len() == 10 && n_mergecell().len() == 9);
    assert(n_worksheet()[0] != n_mergecell()[0]);
}

// =====================================================================================================================
// A-std: byte-string keyed maps (`BTreeMap<Vec<u8>, String>` looked up with `&[u8]`)
// =====================================================================================================================
/// the value stored under the key with these bytes, if any
pub uninterp spec fn bk_lookup(m: Map<Vec<u8>, String>, id: Seq<u8>) -> Option<Seq<char>>;
// TRUSTED: A-std -- `Vec<u8>` keys looked up by `&[u8]` (std: `Borrow<[u8]> for Vec<u8>`; Ord of Vec<u8> and [u8] is the same lexicographic
// order on the bytes) -- vstd leaves both predicates uninterpreted for these types --; `bk_lookup` names the outcome of a lookup as a
// function of the key BYTES: found value / absent
#[verifier::external_body]
pub proof fn axiom_bytes_keyed_map(m: Map<Vec<u8>, String>, k: &[u8])
    ensures
        vstd::laws_cmp::obeys_cmp::<Vec<u8>>(),
        borrowed_key_ordering_matches::<Vec<u8>, [u8]>(),
        forall|v: String| #[trigger] maps_borrowed_key_to_value(m, k, v) ==> bk_lookup(m, k@) == Some(v@),
        !contains_borrowed_key(m, k) ==> bk_lookup(m, k@) is None,
{}
// TRUSTED: A-std -- an empty map holds nothing; after `insert(key, val)` a lookup with the bytes of `key` finds `val` (replacing what
// was there), every other lookup is unchanged (keys are compared by their bytes)
#[verifier::external_body]
pub proof fn axiom_bytes_keyed_insert(m: Map<Vec<u8>, String>, key: Vec<u8>, val: String)
    ensures
        vstd::laws_cmp::obeys_cmp::<Vec<u8>>(),
        forall|id: Seq<u8>| #[trigger] bk_lookup(m.insert(key, val), id) == (if id == key@ { Some(val@) } else { bk_lookup(m, id) }),
{}
#[verifier::external_body]
pub proof fn axiom_bytes_keyed_empty()
    ensures forall|id: Seq<u8>| (#[trigger] bk_lookup(Map::<Vec<u8>, String>::empty(), id)) is None,
{}
/// the exec map `m` holds exactly the ghost map `g` (key bytes -> text)
pub open spec fn bk_is(m: Map<Vec<u8>, String>, g: Map<Seq<u8>, Seq<char>>) -> bool {
    forall|id: Seq<u8>| #[trigger] bk_lookup(m, id) == (if g.contains_key(id) { Some(g[id]) } else { None::<Seq<char>> })
}
// TRUSTED: A-std -- `Cow::into_owned`: the owned content (for Cow<str>: the same characters)
pub uninterp spec fn cow_owned<'a, B: ?Sized + ToOwned>(c: Cow<'a, B>) -> <B as ToOwned>::Owned;
pub assume_specification<'a, B: ?Sized + ToOwned>[ <Cow<'a, B>>::into_owned ](c: Cow<'a, B>) -> (r: <B as ToOwned>::Owned)
    ensures r == cow_owned(c);
pub broadcast axiom fn axiom_cow_str_owned<'a>(c: Cow<'a, str>)
    ensures (#[trigger] cow_owned::<str>(c))@ == cow_ref(&c)@;
// TRUSTED: Option::map_or (core::option documentation): the default for None, f(value) for Some
pub assume_specification<T, U, F: FnOnce(T) -> U>[ Option::<T>::map_or ](o: Option<T>, d: U, f: F) -> (r: U)
    requires o matches Some(v) ==> call_requires(f, (v,)),
    ensures o is None ==> r == d, o matches Some(v) ==> call_ensures(f, (v,), r);

// =====================================================================================================================
// C10: styles.xml.  ECMA-376 Part 1, 18.8.39 styleSheet (CT_Stylesheet): sequence numFmts?, fonts?, fills?, borders?, cellStyleXfs?,
// cellXfs?, cellStyles?, dxfs?, tableStyles?, colors?, extLst?.
//   18.8.31 numFmts = numFmt* ; 18.8.30 numFmt (empty element): numFmtId (required, ST_NumFmtId), formatCode (required, xsd:string) --
//   "the number format code ... for this number format id".
//   18.8.10 cellXfs = xf+ ; 18.8.45 xf: attribute numFmtId (optional), children alignment?, protection?, extLst?.  "The cell's style
//   index `s` is a zero-based index into cellXfs."
//   18.8.30: ids 0..49 (+ locale ranges) name built-in formats; ids 14-22, 45-47 are the date/time ones.
// The class of the number format of cell style i is therefore: xf := i-th xf child of cellXfs (document order); no numFmtId => Other
// (General); numFmtId registered by a numFmt => class of its formatCode (the attribute VALUE, i.e. with XML references resolved);
// otherwise => class of the built-in format of that id.
// Ids are compared as written (both attributes are canonical decimal numerals in every producer; the oracle of the Kani harness
// `builtin_by_id_all_short_ids` makes the same choice: a non-canonical numeral names no built-in id).
// The definition below walks the event sequence with the element context of the schema; what the schema does not allow where it
// stands (and that a name-matching reader could mistake for one of the elements above) is `Bad`: not covered.
// =====================================================================================================================
/// class of a custom number format code (the scanner of src/formats.rs; under contract in unit formats: `scan` automaton + grammar lemmas)
pub uninterp spec fn fmt_class(code: Seq<char>) -> CellFormat;
/// ECMA-376 18.8.30 built-in number formats: ids 14-22, 45, 47 are date/time formats, 46 is the elapsed-time format [h]:mm:ss
pub open spec fn builtin_class(id: int) -> CellFormat {
    if 14 <= id <= 22 || id == 45 || id == 47 { CellFormat::DateTime } else if id == 46 { CellFormat::TimeDelta } else { CellFormat::Other }
}
pub open spec fn is_digit(c: u8) -> bool { 0x30 <= c <= 0x39 }
pub open spec fn dec10(s: Seq<u8>) -> nat decreases s.len() { if s.len() == 0 { 0 } else { dec10(s.drop_last()) * 10 + (s.last() - 0x30) as nat } }
/// value of a canonical decimal numeral (digits only, no sign, no leading zero unless "0"); None otherwise
pub open spec fn canon_dec(s: Seq<u8>) -> Option<nat> {
    if s.len() == 0 || (s.len() > 1 && s[0] == 0x30) || !(forall|i: int| 0 <= i < s.len() ==> is_digit(#[trigger] s[i])) { None } else { Some(dec10(s)) }
}
pub open spec fn builtin_of(id: Seq<u8>) -> CellFormat { match canon_dec(id) { Some(n) => builtin_class(n as int), None => CellFormat::Other } }
// TRUSTED: callee contracts.  detect_custom_number_format: unit formats (C10: result == scan automaton, declarative lemmas);
// builtin_format_by_id: complete Kani harness `builtin_by_id_all_short_ids` (kani/formats.rs; same oracle: canonical numeral -> ECMA class, else Other)
//@@ fn src/formats.rs detect_custom_number_format props=C10 ret=r external_body
//@@ sig
    ensures r == fmt_class(format@),
//@@ end
//@@ fn src/formats.rs builtin_format_by_id props=C10 ret=r external_body by=builtin_by_id_all_short_ids
//@@ sig
    ensures r == builtin_of(id@),
//@@ end

pub enum StCtx { Top, NumFmts, CellXfs }
pub ghost struct StSt {
    pub root: bool,                               // the `styleSheet` start tag has been met
    pub ctx: StCtx,                               // content of: styleSheet / numFmts / cellXfs
    pub skip: nat,                                // > 0: inside an element whose content is skipped, at this depth
    pub seen_fmts: bool,                          // numFmts has been met
    pub seen_xfs: bool,                           // cellXfs has been met
    pub fmts: Map<Seq<u8>, Seq<char>>,            // custom formats registered so far: id as written -> format code (unescaped)
    pub xfs: Seq<CellFormat>,                     // classes of the cell XFs so far, in document order
}
pub ghost struct StRes { pub ok: bool, pub xfs: Seq<CellFormat>, pub end: int }
pub enum StStep { Next(StSt), Done, Bad }
pub open spec fn st_init() -> StSt {
    StSt { root: false, ctx: StCtx::Top, skip: 0, seen_fmts: false, seen_xfs: false, fmts: Map::empty(), xfs: Seq::empty() }
}
pub open spec fn is_main(e: Ev) -> bool { is_main_ns(e.ns) }
pub ghost struct NfAcc { pub id: Seq<u8>, pub code: Seq<char> }
/// id / format code of a numFmt element read off its first k attributes (XML: attribute names are unique per element, so the order of
/// the visit is immaterial); None: an attribute is malformed or the format code cannot be unescaped
pub open spec fn nf_fold(attrs: Seq<Attr>, k: int) -> Option<NfAcc>
    decreases k
{
    if k <= 0 { Some(NfAcc { id: Seq::empty(), code: Seq::empty() }) }
    else {
        match nf_fold(attrs, k - 1) {
            None => None,
            Some(acc) => {
                let a = attrs[k - 1];
                if !a.ok { None }
                else if a.key == k_numfmtid() { Some(NfAcc { id: a.raw, ..acc }) }
                else if a.key == k_formatcode() { match unesc(a.raw) { Some(v) => Some(NfAcc { code: v, ..acc }), None => None } }
                else { Some(acc) }
            },
        }
    }
}
pub open spec fn has_key(attrs: Seq<Attr>, key: Seq<u8>, n: int) -> bool { exists|j: int| 0 <= j < n && j < attrs.len() && (#[trigger] attrs[j]).key == key }
/// the (id, format code) a numFmt element registers; None: malformed, numFmtId missing, or no (an empty) format code
pub open spec fn numfmt_entry(e: Ev) -> Option<NfAcc> {
    match nf_fold(e.attrs, e.attrs.len() as int) {
        None => None,
        Some(acc) => if has_key(e.attrs, k_numfmtid(), e.attrs.len() as int) && acc.code.len() > 0 { Some(acc) } else { None },
    }
}
proof fn lemma_nf_fold_prefix(attrs: Seq<Attr>, k: int, n: int)
    requires 0 <= k <= n, nf_fold(attrs, n) is Some,
    ensures nf_fold(attrs, k) is Some,
    decreases n - k,
{
    if k < n { lemma_nf_fold_prefix(attrs, k + 1, n); }
}
pub open spec fn all_ok(attrs: Seq<Attr>) -> bool { forall|j: int| 0 <= j < attrs.len() ==> (#[trigger] attrs[j]).ok }
/// index of the first well-formed attribute at or after i written `key`; attrs.len() if none
pub open spec fn ok_key_idx(attrs: Seq<Attr>, key: Seq<u8>, i: int) -> int
    decreases attrs.len() - i
{
    if i < 0 || i >= attrs.len() { attrs.len() as int } else if attrs[i].ok && attrs[i].key == key { i } else { ok_key_idx(attrs, key, i + 1) }
}
proof fn lemma_ok_key_idx_first(attrs: Seq<Attr>, key: Seq<u8>, from: int, i: int)
    requires 0 <= from <= i < attrs.len(), attrs[i].ok && attrs[i].key == key,
        forall|j: int| from <= j < i ==> !((#[trigger] attrs[j]).ok && attrs[j].key == key),
    ensures ok_key_idx(attrs, key, from) == i,
    decreases i - from,
{
    if from < i { lemma_ok_key_idx_first(attrs, key, from + 1, i); }
}
proof fn lemma_ok_key_idx_none(attrs: Seq<Attr>, key: Seq<u8>, from: int)
    requires 0 <= from <= attrs.len(), forall|j: int| from <= j < attrs.len() ==> !((#[trigger] attrs[j]).ok && attrs[j].key == key),
    ensures ok_key_idx(attrs, key, from) == attrs.len(),
    decreases attrs.len() - from,
{
    if from < attrs.len() { lemma_ok_key_idx_none(attrs, key, from + 1); }
}
/// class of the number format with this id under the registered custom formats
pub open spec fn class_of_id(fmts: Map<Seq<u8>, Seq<char>>, id: Seq<u8>) -> CellFormat {
    if fmts.contains_key(id) { fmt_class(fmts[id]) } else { builtin_of(id) }
}
/// class of the number format an xf element refers to; None: malformed attribute
pub open spec fn xf_entry(e: Ev, fmts: Map<Seq<u8>, Seq<char>>) -> Option<CellFormat> {
    if !all_ok(e.attrs) { None }
    else {
        let k = ok_key_idx(e.attrs, k_numfmtid(), 0);
        if k >= e.attrs.len() { Some(CellFormat::Other) } else { Some(class_of_id(fmts, e.attrs[k].raw)) }
    }
}
/// class of the format with these id bytes, read off the exec map
pub open spec fn class_of_raw(m: Map<Vec<u8>, String>, id: Seq<u8>) -> CellFormat {
    match bk_lookup(m, id) { Some(code) => fmt_class(code), None => builtin_of(id) }
}
/// what the event e does in state s
pub open spec fn st_step(e: Ev, s: StSt) -> StStep {
    if e.kind is Error { StStep::Bad }
    else if !s.root {
        // prolog: XML declaration, comments, white space; then the root element
        if e.kind is Start { if is_main(e) && e.local == n_stylesheet() { StStep::Next(StSt { root: true, ..s }) } else { StStep::Bad } }
        else if e.kind is End { StStep::Bad }
        else { StStep::Next(s) }
    } else {
        match s.ctx {
            StCtx::Top =>
                if s.skip > 0 {
                    // inside fonts, fills, borders, cellStyleXfs (whose xf children are NOT cell styles), cellStyles, dxfs (whose numFmt children are
                    // differential formats, not registered ones), tableStyles, colors, extLst
                    if e.kind is Start { if e.local == n_numfmts() || e.local == n_cellxfs() { StStep::Bad } else { StStep::Next(StSt { skip: s.skip + 1, ..s }) } }
                    else if e.kind is End { if e.local == n_stylesheet() { StStep::Bad } else { StStep::Next(StSt { skip: (s.skip - 1) as nat, ..s }) } }
                    else { StStep::Next(s) }
                } else if e.kind is Start {
                    if is_main(e) && e.local == n_numfmts() {
                        // schema order: numFmts comes first, at most once
                        if s.seen_fmts || s.seen_xfs { StStep::Bad } else { StStep::Next(StSt { ctx: StCtx::NumFmts, seen_fmts: true, ..s }) }
                    } else if is_main(e) && e.local == n_cellxfs() {
                        if s.seen_xfs { StStep::Bad } else { StStep::Next(StSt { ctx: StCtx::CellXfs, seen_xfs: true, ..s }) }
                    } else if e.local == n_numfmts() || e.local == n_cellxfs() { StStep::Bad }
                    else { StStep::Next(StSt { skip: 1, ..s }) }
                } else if e.kind is End {
                    if e.local == n_stylesheet() { StStep::Done } else { StStep::Bad }
                } else { StStep::Next(s) },
            StCtx::NumFmts =>
                // CT_NumFmts: numFmt* (empty elements)
                if e.kind is Start {
                    if is_main(e) && e.local == n_numfmt() {
                        match numfmt_entry(e) { Some(x) => StStep::Next(StSt { fmts: s.fmts.insert(x.id, x.code), ..s }), None => StStep::Bad }
                    } else { StStep::Bad }
                } else if e.kind is End {
                    if e.local == n_numfmts() { StStep::Next(StSt { ctx: StCtx::Top, ..s }) } else if e.local == n_numfmt() { StStep::Next(s) } else { StStep::Bad }
                } else { StStep::Next(s) },
            StCtx::CellXfs =>
                // CT_CellXfs: xf+ ; content of an xf (alignment, protection, extLst) is skipped
                if s.skip > 0 {
                    if e.kind is Start { if e.local == n_xf() { StStep::Bad } else { StStep::Next(StSt { skip: s.skip + 1, ..s }) } }
                    else if e.kind is End { if e.local == n_cellxfs() { StStep::Bad } else { StStep::Next(StSt { skip: (s.skip - 1) as nat, ..s }) } }
                    else { StStep::Next(s) }
                } else if e.kind is Start {
                    if is_main(e) && e.local == n_xf() {
                        match xf_entry(e, s.fmts) { Some(c) => StStep::Next(StSt { xfs: s.xfs.push(c), skip: 1, ..s }), None => StStep::Bad }
                    } else { StStep::Bad }
                } else if e.kind is End {
                    if e.local == n_cellxfs() { StStep::Next(StSt { ctx: StCtx::Top, ..s }) } else { StStep::Bad }
                } else { StStep::Next(s) },
        }
    }
}
pub open spec fn st_bad(i: int) -> StRes { StRes { ok: false, xfs: Seq::empty(), end: i } }
pub open spec fn st_scan(ev: Seq<Ev>, i: int, s: StSt) -> StRes
    decreases ev.len() - i
{
    if i < 0 || i >= ev.len() { st_bad(i) }
    else {
        match st_step(ev[i], s) {
            StStep::Next(s2) => st_scan(ev, i + 1, s2),
            StStep::Done => StRes { ok: true, xfs: s.xfs, end: i },
            StStep::Bad => st_bad(i),
        }
    }
}
/// the cell-XF format classes a styles part declares
pub open spec fn st_part(ev: Seq<Ev>) -> StRes { st_scan(ev, 0, st_init()) }
pub open spec fn styles_path() -> Seq<char> { "xl/styles.xml"@ }
/// (hypothesis of the clause that holds for the code as it stands) no formatCode attribute contains an entity / character reference:
/// decoding its raw bytes already yields its value
pub open spec fn codes_plain(ev: Seq<Ev>) -> bool {
    forall|k: int, j: int| 0 <= k < ev.len() && 0 <= j < (#[trigger] ev[k]).attrs.len() && (#[trigger] ev[k].attrs[j]).key == k_formatcode()
        ==> dec(ev[k].attrs[j].raw) == unesc(ev[k].attrs[j].raw)
}

//@@ impl src/xlsx/mod.rs Xlsx
#[verifier::loop_isolation(false)]
#[verifier::allow_complex_invariants]
//@@ fn src/xlsx/mod.rs Xlsx::read_styles props=C10 entry ret=r
//@@ sig
    ensures
        //# C07.read_styles_frame
        final(self).strings == old(self).strings && final(self).sheets == old(self).sheets && final(self).tables == old(self).tables
            && final(self).is_1904 == old(self).is_1904 && final(self).metadata == old(self).metadata
            && final(self).merged_regions == old(self).merged_regions && final(self).options == old(self).options
            && content(final(self).zip) == content(old(self).zip),
        //# C10.absent_styles_part
        !has_part(content(old(self).zip), styles_path()) ==> r is Ok && final(self).formats == old(self).formats,
        //# C10.xlsx_style_table_plain_codes
        ({ let evs = part_events(content(old(self).zip), styles_path());
           has_part(content(old(self).zip), styles_path()) && evs is Some && st_part(evs->Some_0).ok && codes_plain(evs->Some_0) ==>
               r is Ok && final(self).formats@ == old(self).formats@ + st_part(evs->Some_0).xfs }),
//@@ replace /Attribute \{\s*key: QName\((b"[^"]*")\),\s*value: v,\s*\}\s*=>/#0of2 Verus crashes on byte-string literal patterns: the slice is bound and compared in a guard (same test, same arm order); the literal is kept verbatim
Attribute { key: QName(__k), value: v } if __k == \g<1> =>
//@@ replace /Attribute \{\s*key: QName\((b"[^"]*")\),\s*value: v,\s*\}\s*=>/#1of2 (same)
Attribute { key: QName(__k), value: v } if __k == \g<1> =>
//@@ replace /a\.map_err\((XlsxError::XmlAttr)\)\?/ Verus: "using a datatype constructor as a function value" unsupported; eta-expanded, same function
a.map_err(|e| -> (x: XlsxError) ensures x == \g<1>(e) { \g<1>(e) })?
//@@ closure 1
    -> (res: bool) ensures
        //# C10.xf_format_id_attribute
        res == (a.key.0@ == b"numFmtId"@)
//@@ closure 2
    -> (res: CellFormat) ensures
        //# C10.xf_class_custom_else_builtin
        res == class_of_raw(number_formats@, cow_ref(&a.value)@)
//@@ before /match number_formats\.get\(/
                                        proof { axiom_bytes_keyed_map(number_formats@, cow_ref(&a.value)); }
//@@ body
        broadcast use {axiom_cow_str_owned, lemma_bytes_eq_array};
//@@ before /let mut number_formats = /
        let ghost ev = xml.events();
        let ghost tot = st_part(ev);
        let ghost good = tot.ok && codes_plain(ev);
        let ghost mut st = st_init();
        let ghost f0 = self.formats@;
        proof { axiom_bytelits(); lemma_names_distinct(); axiom_bytes_keyed_empty(); }
//@@ after /let mut number_formats = [^;]*;/
        proof { assert(bk_is(number_formats@, st.fmts)); assert(f0 + st.xfs =~= f0); }
//@@ loop 0
            invariant_except_break
                //# C10.code_follows_the_schema_walk
                good ==> st_scan(ev, xml.pos() as int, st) == tot,
            invariant
                xml.events() == ev,
                self.strings == old(self).strings && self.sheets == old(self).sheets && self.tables == old(self).tables
                    && self.is_1904 == old(self).is_1904 && self.metadata == old(self).metadata
                    && self.merged_regions == old(self).merged_regions && self.options == old(self).options,
                good ==> st.ctx is Top,
                //# C10.xf_classes_in_document_order_so_far
                good ==> self.formats@ == f0 + st.xfs,
                //# C10.custom_formats_registered_so_far
                good ==> bk_is(number_formats@, st.fmts),
            ensures
                good ==> st.xfs == tot.xfs,
            decreases xml.left(),
//@@ before /match xml\.read_event_into\(&mut buf\)/
            let ghost opos = xml.pos() as int;
            let ghost st0 = st;
            let ghost stp = if opos < ev.len() { st_step(ev[opos], st) } else { StStep::Bad };
            proof {
                if good {
                    assert(opos < ev.len());
                    assert(!(stp is Bad));
                    assert(st0.ctx is Top);
                    if ev[opos].kind is Start && ev[opos].local == n_numfmts() { assert(stp is Next && stp->Next_0.ctx is NumFmts); }
                    else if ev[opos].kind is Start && ev[opos].local == n_cellxfs() { assert(stp is Next && stp->Next_0.ctx is CellXfs); }
                    else if ev[opos].kind is End && ev[opos].local == n_stylesheet() { assert(stp is Done); }
                    else { assert(stp is Next && stp->Next_0.ctx is Top && stp->Next_0.xfs == st0.xfs && stp->Next_0.fmts == st0.fmts); }
                    if stp is Next { st = stp->Next_0; }
                }
            }
//@@ loop 1
                    invariant_except_break
                        good ==> st.ctx is NumFmts,
                        good ==> st.root,
                    invariant
                        xml.events() == ev, xml.pos() > opos,
                        self.strings == old(self).strings && self.sheets == old(self).sheets && self.tables == old(self).tables
                            && self.is_1904 == old(self).is_1904 && self.metadata == old(self).metadata
                            && self.merged_regions == old(self).merged_regions && self.options == old(self).options,
                        good ==> st_scan(ev, xml.pos() as int, st) == tot,
                        good ==> self.formats@ == f0 + st.xfs,
                        good ==> bk_is(number_formats@, st.fmts),
                    ensures
                        good ==> st.ctx is Top,
                    decreases xml.left(),
//@@ before /match xml\.read_event_into\(&mut inner_buf\)/#0of2
                    let ghost ipos = xml.pos() as int;
                    let ghost st1 = st;
                    let ghost stq = if ipos < ev.len() { st_step(ev[ipos], st) } else { StStep::Bad };
                    proof {
                        if good {
                            assert(ipos < ev.len());
                            assert(!(stq is Bad));
                            assert(st1.ctx is NumFmts);
                            assert(stq is Next);
                            if ev[ipos].kind is Start { assert(ev[ipos].local == n_numfmt() && is_main(ev[ipos]) && numfmt_entry(ev[ipos]) is Some); }
                            else if ev[ipos].kind is End && ev[ipos].local == n_numfmts() { assert(stq->Next_0.ctx is Top && stq->Next_0.xfs == st1.xfs && stq->Next_0.fmts == st1.fmts); }
                            else { assert(stq->Next_0 == st1); }
                            st = stq->Next_0;
                        }
                    }
//@@ before /let mut id = Vec::new\(\);/
                            let ghost at = ev[ipos].attrs;
                            proof {
                                assert(e.ev() == ev[ipos]);
                                assert(attrs_unique(at));
                                if good { assert(numfmt_entry(ev[ipos]) is Some); }
                            }
//@@ loop 2 it
                                invariant
                                    attrs_match(it.seq(), at),
                                    //# C10.numfmt_id_and_code_from_attributes
                                    good ==> nf_fold(at, it.index@ as int) == Some(NfAcc { id: id@, code: format@ }),
                                    good ==> forall|j: int| 0 <= j < it.index@ ==> (#[trigger] at[j]).ok,
                                    good ==> (id@.len() > 0 ==> has_key(at, k_numfmtid(), it.index@ as int)),
//@@ before /match a\.map_err/
                                let ghost k = it.index@ as int;
                                proof {
                                    assert(0 <= k < at.len());
                                    assert(a == it.seq()[k]);
                                    if good {
                                        lemma_nf_fold_prefix(at, k + 1, at.len() as int);
                                        assert(at[k].ok);
                                        if at[k].key == k_numfmtid() {
                                            if id@.len() > 0 {
                                                let j = choose|j: int| 0 <= j < k && j < at.len() && (#[trigger] at[j]).key == k_numfmtid();
                                                assert(at[j].ok && at[k].ok);
                                                assert(false);
                                            }
                                            assert(id@ + at[k].raw =~= at[k].raw);
                                        }
                                        if at[k].key == k_formatcode() {
                                            assert(dec(at[k].raw) == unesc(at[k].raw));
                                            assert(unesc(at[k].raw) is Some);
                                        }
                                        let acc = NfAcc { id: id@, code: format@ };
                                        if at[k].key == k_numfmtid() { assert(nf_fold(at, k + 1) == Some(NfAcc { id: at[k].raw, ..acc })); }
                                        else if at[k].key == k_formatcode() { assert(nf_fold(at, k + 1) == Some(NfAcc { code: unesc(at[k].raw)->Some_0, ..acc })); }
                                        else { assert(nf_fold(at, k + 1) == Some(acc)); }
                                    }
                                }
//@@ before /if !format\.is_empty\(\)/
                            proof { if good { assert(nf_fold(at, at.len() as int) == Some(NfAcc { id: id@, code: format@ })); assert(format@.len() > 0); } }
//@@ before /number_formats\.insert\(/
                                proof { axiom_bytes_keyed_insert(number_formats@, id, format); }
//@@ loop 3
                    invariant_except_break
                        good ==> st.ctx is CellXfs,
                        good ==> st.root,
                    invariant
                        xml.events() == ev, xml.pos() > opos,
                        self.strings == old(self).strings && self.sheets == old(self).sheets && self.tables == old(self).tables
                            && self.is_1904 == old(self).is_1904 && self.metadata == old(self).metadata
                            && self.merged_regions == old(self).merged_regions && self.options == old(self).options,
                        good ==> st_scan(ev, xml.pos() as int, st) == tot,
                        good ==> self.formats@ == f0 + st.xfs,
                        good ==> bk_is(number_formats@, st.fmts),
                    ensures
                        good ==> st.ctx is Top,
                    decreases xml.left(),
//@@ before /match xml\.read_event_into\(&mut inner_buf\)/#1of2
                    let ghost xpos = xml.pos() as int;
                    let ghost st2 = st;
                    let ghost stx = if xpos < ev.len() { st_step(ev[xpos], st) } else { StStep::Bad };
                    proof {
                        if good {
                            assert(xpos < ev.len());
                            assert(!(stx is Bad));
                            assert(st2.ctx is CellXfs);
                            assert(stx is Next);
                            if ev[xpos].kind is Start && ev[xpos].local == n_xf() {
                                assert(st2.skip == 0 && is_main(ev[xpos]) && xf_entry(ev[xpos], st2.fmts) is Some);
                                assert(stx->Next_0.xfs == st2.xfs.push(xf_entry(ev[xpos], st2.fmts)->Some_0) && stx->Next_0.fmts == st2.fmts && stx->Next_0.ctx is CellXfs);
                            } else if ev[xpos].kind is End && ev[xpos].local == n_cellxfs() {
                                assert(stx->Next_0.ctx is Top && stx->Next_0.xfs == st2.xfs && stx->Next_0.fmts == st2.fmts);
                            } else { assert(stx->Next_0.ctx is CellXfs && stx->Next_0.xfs == st2.xfs && stx->Next_0.fmts == st2.fmts); }
                            st = stx->Next_0;
                        }
                    }
//@@ before /self\.formats\.push\(/
                            let ghost at = ev[xpos].attrs;
                            let ghost fb = self.formats@;
                            proof { assert(e.ev() == ev[xpos]); }
//@@ after /self\.formats\.push\([^;]*;/
                            proof {
                                broadcast use lemma_ok_all;
                                if good {
                                    assert(xf_entry(ev[xpos], st2.fmts) is Some);
                                    assert(self.formats@ == fb.push(xf_entry(ev[xpos], st2.fmts)->Some_0));
                                    assert((f0 + st2.xfs).push(xf_entry(ev[xpos], st2.fmts)->Some_0) =~= f0 + st2.xfs.push(xf_entry(ev[xpos], st2.fmts)->Some_0));
                                }
                            }
//@@ end
//@@ endimpl

} // verus!
fn main() {}
