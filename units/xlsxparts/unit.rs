//@@ unit props=C10,C17,C01,C16,C06,C07
// Unit xlsxparts: the remaining part readers of the xlsx reader (src/xlsx/mod.rs), verbatim text, under contract against the GHOST MODEL of
// quick-xml and zip of unit xlsxwb (assumptions A-xml / A-zip of DESIGN.md section 5; stand-in copied from units/xlsxwb/unit.rs and
// extended: attribute-name uniqueness in `Ev::wf`, `Attributes::attrs()`, borrowed attribute values, `LocalName` equality / `From<QName>`,
// reader `Config`, `ZipArchive::file_names / by_name`, `ZipError` as an enum).
//
// Functions under contract (real text, extracted by byte span):
//   xml_reader                      C01 "part-name case": the part is looked up ASCII-case-insensitively among the archive's entry names (first
//                                   match), None iff absent; Some(Err) iff the entry cannot be opened; the reader starts at event 0 of that
//                                   entry and is configured as A-xml assumes (no trimming, empty elements expanded, end names unchecked);
//                                   archive content unchanged.  `has_part` / `part_events` are DEFINED here over the A-zip name list.
//   Xlsx::read_styles               C10 `formats` == old formats ++ classes of the xf children of cellXfs in document order, by the schema-directed
//                                   walk `st_scan` of ECMA-376 18.8 (numFmts registers id -> formatCode VALUE; xf: registered id => fmt_class(code),
//                                   else built-in class of the id, no numFmtId => Other); absent part => nothing; frame.
//                                   (The formatCode used to be decoded without unescaping: fixed finding, see findings/xlsxparts.json.)
//   Xlsx::read_relationships        C01 "relationship-target spelling": result map == Id -> Target VALUE of every Relationship element (OPC 9.3
//                                   walk `rl_scan`); missing part => Err(FileNotFound); frame.  (The Target used to be decoded without
//                                   unescaping: fixed finding, see findings/xlsxparts.json.)
//   get_attribute                   C01,C17 first attribute that is malformed or has the name: Err / its raw value; Ok(None) if none
//   Xlsx::read_merged_regions       C17 for every sheet (name, path) of `self.sheets` in order: the regions its part declares (walk `ws_scan` of the
//                                   whole part: the mergeCell children of the mergeCells child of the root, `ref` decoded by get_dimension), appended
//                                   as (name, path, region) -- same count, order, corners, attributed to that sheet; frame: only `merged_regions`
//                                   changes, to Some, and only on Ok
//   Xlsx::load_merged_regions       C17 idempotent (cache already loaded: nothing changes), else as read_merged_regions; frame
//   Xlsx::merged_regions            C17 the loaded list itself (requires: loaded -- documented API protocol)
//   Xlsx::merged_regions_by_sheet   C17 exactly the entries recorded under exactly this name, in order
//   Xlsx::worksheet_merge_cells     C17 first sheet with exactly this name (None for an unknown name or a missing part); Some(Ok(regions of that
//                                   part == ws_scan)), through the ASSUMED contract of read_merge_cells (unit xlsxxml) and two lemmas relating
//                                   the walk of the part to the walk of the mergeCells element; Some(Err) if the part cannot be opened; frame
//   Xlsx::worksheet_merge_cells_at  C17 None beyond the sheet list, else worksheet_merge_cells of the n-th sheet's name; frame
//   Xlsx::load_tables               C17 idempotent, frame, loaded on Ok
//   Xlsx::read_table_metadata       C17 the XML part unit xlsxwb left unspecified, for every table part the function opens (WHICH parts -- the path
//                                   arithmetic through `format!`, rule R4 -- stays unspecified): the pushed entry is what the part declares by the
//                                   ECMA-376 18.5.1 walk `tb_scan`: displayName, ref (decoded by get_dimension), headerRowCount default 1,
//                                   totalsRowCount default 0 (attribute named exactly so), insertRow, the tableColumn captions in document order;
//                                   it is attributed to the sheet whose relationships are being read.  Proved for every table part the walk
//                                   covers (attribute VALUES: references resolved, insertRow an xsd:boolean).  Frame, loaded-or-unchanged,
//                                   header / totals arithmetic, C06 (checked row arithmetic, `../` target without parent folder => Err): as in
//                                   unit xlsxwb (same directive text).  (Raw attribute bytes, `insertRow != "0"`, unchecked arithmetic and the
//                                   `expect`: fixed findings, see findings/xlsxparts.json.)
//   InnerTableMetadata::new         C17 defaults (1 header row, no totals row, no insert row, empty texts)
//   Xlsx::table_names, table_names_in_sheet
//                                   C17 all loaded names in order / those recorded under exactly this sheet name, in order
// NOT specified here: which parts read_table_metadata opens (sheet rels path, `../` resolution of table targets: `format!` is opaque, rule R4).
// TRUSTED (all marked below): the quick-xml / zip stand-ins (A-xml / A-zip), byte-keyed BTreeMap lookups (`bk_lookup` axioms), std
// specifications (A-std), byte-literal contents (axiom_bytelits), callee contracts: detect_custom_number_format (unit formats),
// builtin_format_by_id (Kani harness builtin_by_id_all_short_ids), get_dimension (units a1 / xlsxxml), read_merge_cells (unit xlsxxml),
// Reader::metadata; str::parse::<u32> (uninterpreted `parse_spec`).
// Declared rewrites (logged): byte-string literal patterns -> binding + guard (Verus crashes on them), `map_err(Variant)` eta-expanded,
// `&self.sheets` -> `self.sheets.iter()` + R6 (loop with `continue`), `iter().filter(..).map(..).collect()` / `iter().map(..).collect()`
// unfolded into the loop that defines them (vstd's prophetic Filter spec / map spec in generic impls out of reach), closure patterns (R2c).
// Genuine findings: findings/xlsxparts.json (native demonstrations findings/xlsxparts_*.rs); fixed ones are listed under "fixed" there.
#![feature(pattern)]
#![feature(allocator_api)]
#![allow(unused_imports, dead_code, unused_variables, unused_mut, unused_assignments, unexpected_cfgs)]
use vstd::prelude::*;
use vstd::std_specs::cmp::PartialEqSpec;
use vstd::std_specs::iter::{IteratorSpec, IteratorSpecImpl};
use std::borrow::Cow;
use std::ops::Deref;
use std::cmp::{max, min};
use std::io::{Read, Seek};
use std::collections::BTreeMap;
use std::ops::{Index, RangeFrom, RangeFull};
use std::slice::SliceIndex;
use vstd::std_specs::core::IndexSpec;
use vstd::string::to_string_from_display_ensures;
use vstd::std_specs::btree::{maps_borrowed_key_to_value, contains_borrowed_key, borrowed_key_ordering_matches};

verus! {

// ---- stand-ins for foreign error payload types (opaque; never inspected by the verified code)
pub mod quick_xml {
    pub struct Error;
    pub mod events { pub mod attributes { pub struct AttrError; } }
    pub mod encoding { pub struct EncodingError; }
}
// TRUSTED: A-zip -- zip::result::ZipError (zip 2.4): the payloads of Io / InvalidArchive / UnsupportedArchive are dropped (never inspected)
pub mod zip { pub mod result { pub enum ZipError { Io, InvalidArchive, UnsupportedArchive, FileNotFound, InvalidPassword } } }
pub mod vba { pub struct VbaError; }
#[verifier::external_type_specification] #[verifier::external_body] pub struct ExIoError(std::io::Error);
#[verifier::external_type_specification] #[verifier::external_body] pub struct ExParseFloatError(std::num::ParseFloatError);
#[verifier::external_type_specification] #[verifier::external_body] pub struct ExParseIntError(std::num::ParseIntError);
#[verifier::external_trait_specification] pub trait ExRead { type ExternalTraitSpecificationFor: std::io::Read; }
#[verifier::external_trait_specification] pub trait ExSeek { type ExternalTraitSpecificationFor: std::io::Seek; }

//@@ item src/xlsx/mod.rs enum XlsxError
//@@ item src/lib.rs struct Dimensions keep_attrs
//@@ item src/lib.rs enum SheetType
//@@ item src/lib.rs enum SheetVisible
//@@ item src/lib.rs struct Sheet
//@@ item src/lib.rs struct Metadata
//@@ item src/lib.rs enum HeaderRow keep_attrs
//@@ item src/formats.rs enum CellFormat
//@@ item src/xlsx/mod.rs type Tables
//@@ item src/xlsx/mod.rs struct Xlsx cfg_off=picture
//@@ item src/xlsx/mod.rs struct XlsxOptions

// what `from_err!(quick_xml::Error, XlsxError, Xml)` / `from_err!(quick_xml::events::attributes::AttrError, XlsxError, XmlAttribute)`
// (macro of src/utils.rs) expand to
impl From<quick_xml::Error> for XlsxError { fn from(e: quick_xml::Error) -> (r: XlsxError) ensures r == XlsxError::Xml(e) { XlsxError::Xml(e) } }
impl vstd::std_specs::convert::FromSpecImpl<quick_xml::Error> for XlsxError {
    open spec fn obeys_from_spec() -> bool { true }
    open spec fn from_spec(e: quick_xml::Error) -> Self { XlsxError::Xml(e) }
}
impl From<quick_xml::events::attributes::AttrError> for XlsxError { fn from(e: quick_xml::events::attributes::AttrError) -> (r: XlsxError) ensures r == XlsxError::XmlAttribute(e) { XlsxError::XmlAttribute(e) } }
impl vstd::std_specs::convert::FromSpecImpl<quick_xml::events::attributes::AttrError> for XlsxError {
    open spec fn obeys_from_spec() -> bool { true }
    open spec fn from_spec(e: quick_xml::events::attributes::AttrError) -> Self { XlsxError::XmlAttribute(e) }
}

impl From<quick_xml::encoding::EncodingError> for XlsxError { fn from(e: quick_xml::encoding::EncodingError) -> (r: XlsxError) ensures r == XlsxError::Encoding(e) { XlsxError::Encoding(e) } }
impl vstd::std_specs::convert::FromSpecImpl<quick_xml::encoding::EncodingError> for XlsxError {
    open spec fn obeys_from_spec() -> bool { true }
    open spec fn from_spec(e: quick_xml::encoding::EncodingError) -> Self { XlsxError::Encoding(e) }
}
impl From<std::num::ParseIntError> for XlsxError { fn from(e: std::num::ParseIntError) -> (r: XlsxError) ensures r == XlsxError::ParseInt(e) { XlsxError::ParseInt(e) } }
impl vstd::std_specs::convert::FromSpecImpl<std::num::ParseIntError> for XlsxError {
    open spec fn obeys_from_spec() -> bool { true }
    open spec fn from_spec(e: std::num::ParseIntError) -> Self { XlsxError::ParseInt(e) }
}

// =====================================================================================================================
// A-std: assumed specifications of std functions the verified text calls (one line of documented behaviour each)
// =====================================================================================================================
pub mod ax {
    use vstd::prelude::*;
    use vstd::std_specs::cmp::PartialEqSpec;
    // TRUSTED: A-std -- `<String as PartialEq<str>>::eq` compares the character sequences (this is what `&String == &str` resolves to)
    pub broadcast axiom fn axiom_string_eq_obeys(a: &String)
        ensures (#[trigger] a@).len() >= 0, <String as PartialEqSpec<str>>::obeys_eq_spec();
    pub broadcast axiom fn axiom_string_eq_str(a: &String, b: &str)
        ensures #[trigger] <String as PartialEqSpec<str>>::eq_spec(a, b) == (a@ == b@);
    // TRUSTED: A-std -- `<String as PartialEq<&str>>::eq` likewise (this is what `String == &str` resolves to)
    pub broadcast axiom fn axiom_string_eq_refstr_obeys<'a>(a: &String)
        ensures (#[trigger] a@).len() >= 0, <String as PartialEqSpec<&'a str>>::obeys_eq_spec();
    pub broadcast axiom fn axiom_string_eq_refstr<'a>(a: &String, b: &&'a str)
        ensures #[trigger] <String as PartialEqSpec<&'a str>>::eq_spec(a, b) == (a@ == b@);
}
broadcast use {ax::axiom_string_eq_str, ax::axiom_string_eq_obeys, ax::axiom_string_eq_refstr, ax::axiom_string_eq_refstr_obeys};

// =====================================================================================================================
// A-xml: GHOST MODEL OF quick-xml 0.37 (configuration set by xlsx::xml_reader: trim_text(false), expand_empty_elements = true,
// check_end_names = false).  Everything in this section is TRUSTED.  A reader owns the ghost sequence `events()` of the results
// its successive `read_event_into` calls deliver, and a position `pos()`.  What is ASSUMED AND NOT VERIFIED: that quick-xml turns
// the bytes of the zip part into this sequence (tokenisation, `<a/>` delivered as Start+End, attribute splitting, entity / character
// reference resolution in `unescape` / `decode_and_unescape_value`, white space preserved).
// DIFFERENT ghost values, never conflated by the contracts: the QUALIFIED name of a tag or attribute as written (`x15:workbookPr`,
// `r:id`), its LOCAL part (`workbookPr`, `id`), its PREFIX, and the NAMESPACE NAME the prefix (or the default namespace) is bound to at
// that point of the document (XML Namespaces 1.0; quick-xml's plain Reader does not resolve it: it is a fact about the document);
// the RAW bytes of an attribute value / text as written and the UNESCAPED text (`unesc`, uninterpreted).
// =====================================================================================================================
pub enum EvKind {
    Start,   // start tag (or the first half of an empty-element tag)
    End,     // end tag (or the second half of an empty-element tag)
    Text,    // character data between tags
    CData,   // <![CDATA[ ... ]]>, literal content in `text`
    Other,   // comment, processing instruction, XML declaration, DOCTYPE
    Error,   // the reader returns Err at this point
}
pub ghost struct Attr {
    pub ok: bool,                  // the attribute is syntactically well formed and not a duplicate (the iterator yields Ok)
    pub key: Seq<u8>,              // qualified attribute name as written, e.g. `r:id`
    pub local: Seq<u8>,            // its local part, e.g. `id`
    pub ns: Seq<u8>,               // namespace name its prefix is bound to (empty: unprefixed attributes are in no namespace)
    pub raw: Seq<u8>,              // value bytes as written between the quotes (what `Attribute::value` holds)
}
pub ghost struct Ev {
    pub kind: EvKind,
    pub name: Seq<u8>,             // qualified tag name as written, e.g. `x15:workbookPr` (Start / End)
    pub prefix: Option<Seq<u8>>,   // its namespace prefix, e.g. Some(`x15`); None: unprefixed
    pub local: Seq<u8>,            // its local part, e.g. `workbookPr`
    pub ns: Seq<u8>,               // namespace name the element belongs to (binding of the prefix / default namespace in scope)
    pub attrs: Seq<Attr>,          // attributes in document order (Start)
    pub text: Seq<char>,           // content of a Text event after unescaping, literal content of a CData event
    pub text_ok: bool,             // `unescape()` succeeds on this Text event
}
/// attribute value decoded with entity / character references resolved (what `decode_and_unescape_value` returns); None: error
pub uninterp spec fn unesc(raw: Seq<u8>) -> Option<Seq<char>>;
/// XML Namespaces: QName = (Prefix ':')? LocalPart
pub open spec fn qname_of(prefix: Option<Seq<u8>>, local: Seq<u8>) -> Seq<u8> {
    match prefix { None => local, Some(p) => p + seq![0x3au8] + local }
}
/// XML 1.0 well-formedness constraint "Unique Att Spec": no attribute name appears twice in a start tag (quick-xml's attribute iterator
/// checks it -- `with_checks(true)` is its default -- and yields Err for the repeated one: such an attribute has `ok == false`)
pub open spec fn attrs_unique(attrs: Seq<Attr>) -> bool {
    forall|i: int, j: int| 0 <= i < j < attrs.len() && (#[trigger] attrs[i]).ok && (#[trigger] attrs[j]).ok ==> attrs[i].key != attrs[j].key
}
impl Ev {
    pub open spec fn is_tag(self) -> bool { self.kind is Start || self.kind is End }
    /// the qualified name is prefix + ':' + local part
    pub open spec fn wf(self) -> bool { (self.is_tag() ==> self.name == qname_of(self.prefix, self.local)) && attrs_unique(self.attrs) }
}
/// the spreadsheetml main namespace `http://schemas.openxmlformats.org/spreadsheetml/2006/main` (or its Strict twin)
pub uninterp spec fn is_main_ns(ns: Seq<u8>) -> bool;
/// the officeDocument relationships namespace `http://schemas.openxmlformats.org/officeDocument/2006/relationships`
pub uninterp spec fn is_rel_ns(ns: Seq<u8>) -> bool;

// TRUSTED: A-std -- `Cow::deref` / `Cow::as_ref` yield the borrowed or owned content; `cow_ref` names it
pub uninterp spec fn cow_ref<'a, 'b, B: ?Sized + ToOwned>(c: &'b Cow<'a, B>) -> &'b B;
// ASSUMED (std, deliberately weak): Vec::extend appends SOMETHING the iterator yields -- nothing is said about what. It only serves to have
// text that builds a table with `extend` decided (a clause about the table then fails unless the proof knows the items) instead of rejected.
pub assume_specification<T, A: std::alloc::Allocator, I: IntoIterator<Item = T>>[ <Vec<T, A> as Extend<T>>::extend ](v: &mut Vec<T, A>, it: I)
    ensures final(v)@.len() >= old(v)@.len(), final(v)@.subrange(0, old(v)@.len() as int) == old(v)@;
pub assume_specification<'a, 'b, B: ?Sized + ToOwned>[ <Cow<'a, B> as Deref>::deref ](c: &'b Cow<'a, B>) -> (r: &'b B)
    ensures r == cow_ref(c);
pub assume_specification<'a, 'b, T: ?Sized + ToOwned>[ <Cow<'a, T> as AsRef<T>>::as_ref ](c: &'b Cow<'a, T>) -> (r: &'b T)
    ensures r == cow_ref(c);

// TRUSTED: A-xml -- quick_xml::name::QName (a tuple struct over the qualified-name bytes; `==` compares the bytes)
pub struct QName<'a>(pub &'a [u8]);
impl<'a> PartialEq for QName<'a> {
    #[verifier::external_body]
    fn eq(&self, o: &QName<'a>) -> (r: bool) ensures r == (self.0@ =~= o.0@) { unimplemented!() }
}
impl<'a> QName<'a> {
    // TRUSTED: A-xml -- `AsRef<[u8]> for QName`
    #[verifier::external_body]
    pub fn as_ref(&self) -> (r: &[u8]) ensures r@ == self.0@ { unimplemented!() }
}
// TRUSTED: A-xml -- quick_xml::name::LocalName
#[verifier::external_body]
pub struct LocalName<'a> { _p: core::marker::PhantomData<&'a ()> }
impl<'a> LocalName<'a> {
    pub uninterp spec fn bytes(&self) -> Seq<u8>;
    // TRUSTED: A-xml
    #[verifier::external_body]
    pub fn as_ref(&self) -> (r: &[u8]) ensures r@ == self.bytes() { unimplemented!() }
}
// TRUSTED: A-xml -- quick_xml::encoding::Decoder (UTF-8 unless the XML declaration says otherwise; folded into `unesc` / `dec`)
pub struct Decoder { _p: u8 }
/// raw bytes decoded (no entity resolution): what `decoder().decode(bytes)` returns; None: encoding error
pub uninterp spec fn dec(raw: Seq<u8>) -> Option<Seq<char>>;
impl Decoder {
    // TRUSTED: A-xml
    #[verifier::external_body]
    pub fn decode<'b>(&self, bytes: &'b [u8]) -> (r: Result<Cow<'b, str>, quick_xml::encoding::EncodingError>)
        ensures
            dec(bytes@) is Some ==> r is Ok && cow_ref(&r->Ok_0)@ == dec(bytes@)->Some_0,
            dec(bytes@) is None ==> r is Err,
    { unimplemented!() }
}
// TRUSTED: A-xml -- quick_xml::events::attributes::Attribute (public fields `key`, `value`: the verified code matches on them)
pub struct Attribute<'a> { pub key: QName<'a>, pub value: Cow<'a, [u8]> }
impl<'a> Attribute<'a> {
    /// this exec attribute carries the qualified name and raw value of the ghost attribute
    pub open spec fn is(&self, a: Attr) -> bool { self.key.0@ == a.key && cow_ref(&self.value)@ == a.raw }
    // TRUSTED: A-xml -- decodes the raw value and resolves entity / character references
    #[verifier::external_body]
    pub fn decode_and_unescape_value(&self, decoder: Decoder) -> (r: Result<Cow<'a, str>, quick_xml::Error>)
        ensures
            unesc(cow_ref(&self.value)@) is Some ==> r is Ok && cow_ref(&r->Ok_0)@ == unesc(cow_ref(&self.value)@)->Some_0,
            unesc(cow_ref(&self.value)@) is None ==> r is Err,
    { unimplemented!() }
}
/// the results the attribute iterator yields for the ghost attributes
pub open spec fn attrs_match<'a>(items: Seq<Result<Attribute<'a>, quick_xml::events::attributes::AttrError>>, attrs: Seq<Attr>) -> bool {
    &&& items.len() == attrs.len()
    &&& forall|i: int| 0 <= i < attrs.len() ==> ((#[trigger] items[i]) is Ok <==> attrs[i].ok)
    &&& forall|i: int| 0 <= i < attrs.len() && attrs[i].ok ==> (#[trigger] items[i])->Ok_0.is(attrs[i])
}
// TRUSTED: A-xml -- quick_xml::events::attributes::Attributes: an iterator over Result<Attribute, AttrError>, one item per attribute in
// document order
#[verifier::external_body]
pub struct Attributes<'a> { _p: core::marker::PhantomData<&'a ()> }
impl<'a> Attributes<'a> {
    pub uninterp spec fn items(&self) -> Seq<Result<Attribute<'a>, quick_xml::events::attributes::AttrError>>;
    // TRUSTED: A-std + A-xml -- `attributes().filter_map(Result::ok)`: the successfully parsed attributes, in order (stands for
    // Iterator::filter_map with the function `Result::ok`; the argument is not inspected)
    #[verifier::external_body]
    pub fn filter_map<B, F: FnMut(Result<Attribute<'a>, quick_xml::events::attributes::AttrError>) -> Option<B>>(self, f: F) -> (r: OkAttributes<'a>)
        ensures r.src() == self.items(),
    { unimplemented!() }
}
impl<'a> Attributes<'a> {
    // TRUSTED: A-std + A-xml -- `attributes().flatten()`: the successfully parsed attributes, in order (Iterator::flatten over Result items)
    #[verifier::external_body]
    pub fn flatten(self) -> (r: FlatAttributes<'a>)
        ensures r.items().len() <= self.items().len(),
            // (Result is an iterator over its Ok payload: when every item is Ok the payloads come out one for one, in order)
            (forall|i: int| 0 <= i < self.items().len() ==> (#[trigger] self.items()[i]) is Ok) ==>
                r.items().len() == self.items().len() && forall|i: int| 0 <= i < self.items().len() ==> #[trigger] r.items()[i] == self.items()[i]->Ok_0,
    { unimplemented!() }
}
// TRUSTED: stand-in for `Flatten<Attributes>`
#[verifier::external_body]
pub struct FlatAttributes<'a> { _p: core::marker::PhantomData<&'a ()> }
impl<'a> FlatAttributes<'a> {
    pub uninterp spec fn items(&self) -> Seq<Attribute<'a>>;
}
impl<'a> Iterator for FlatAttributes<'a> {
    type Item = Attribute<'a>;
    #[verifier::external_body]
    fn next(&mut self) -> (r: Option<Self::Item>) { unimplemented!() }
}
impl<'a> IteratorSpecImpl for FlatAttributes<'a> {
    open spec fn obeys_prophetic_iter_laws(&self) -> bool { true }
    open spec fn remaining(&self) -> Seq<Attribute<'a>> { self.items() }
    open spec fn will_return_none(&self) -> bool { true }
    open spec fn decrease(&self) -> Option<nat> { Some(self.items().len()) }
    open spec fn peek(&self, i: int) -> Option<Attribute<'a>> { if 0 <= i < self.items().len() { Some(self.items()[i]) } else { None } }
}
impl<'a> Iterator for Attributes<'a> {
    type Item = Result<Attribute<'a>, quick_xml::events::attributes::AttrError>;
    #[verifier::external_body]
    fn next(&mut self) -> (r: Option<Self::Item>) { unimplemented!() }
}
impl<'a> IteratorSpecImpl for Attributes<'a> {
    open spec fn obeys_prophetic_iter_laws(&self) -> bool { true }
    open spec fn remaining(&self) -> Seq<Result<Attribute<'a>, quick_xml::events::attributes::AttrError>> { self.items() }
    open spec fn will_return_none(&self) -> bool { true }
    open spec fn decrease(&self) -> Option<nat> { Some(self.items().len()) }
    open spec fn peek(&self, i: int) -> Option<Result<Attribute<'a>, quick_xml::events::attributes::AttrError>> {
        if 0 <= i < self.items().len() { Some(self.items()[i]) } else { None }
    }
}
/// f holds of every Ok item among the first n
pub closed spec fn ok_all<'a>(items: Seq<Result<Attribute<'a>, quick_xml::events::attributes::AttrError>>, f: spec_fn(Attribute<'a>) -> bool, n: int) -> bool {
    forall|j: int| 0 <= j < n && j < items.len() && (#[trigger] items[j]) is Ok ==> f(items[j]->Ok_0)
}
/// (proved) `ok_all` read on the side of the ghost attributes: re-triggering on `at[j]`
pub broadcast proof fn lemma_ok_all<'a>(items: Seq<Result<Attribute<'a>, quick_xml::events::attributes::AttrError>>, f: spec_fn(Attribute<'a>) -> bool, n: int, at: Seq<Attr>, j: int)
    requires ok_all(items, f, n), attrs_match(items, at), 0 <= j < n, j < at.len(), at[j].ok,
    ensures #![trigger ok_all(items, f, n), attrs_match(items, at), at[j]] f(items[j]->Ok_0) && items[j]->Ok_0.is(at[j]),
{
    assert(items[j] is Ok);
}
// TRUSTED: stand-in for `FilterMap<Attributes, fn(Result<..>) -> Option<..>>` as produced by `.filter_map(Result::ok)`
#[verifier::external_body]
pub struct OkAttributes<'a> { _p: core::marker::PhantomData<&'a ()> }
impl<'a> OkAttributes<'a> {
    pub uninterp spec fn src(&self) -> Seq<Result<Attribute<'a>, quick_xml::events::attributes::AttrError>>;
    // TRUSTED: A-std -- Iterator::find on it: the first Ok item (in order) for which the predicate returns true
    #[verifier::external_body]
    pub fn find<P: FnMut(&Attribute<'a>) -> bool>(&mut self, pred: P) -> (r: Option<Attribute<'a>>)
        ensures
            match r {
                Some(x) => exists|i: int| 0 <= i < old(self).src().len() && (#[trigger] old(self).src()[i]) == Ok::<Attribute<'a>, quick_xml::events::attributes::AttrError>(x)
                    && call_ensures(pred, (&x,), true)
                    && ok_all(old(self).src(), |y: Attribute<'a>| call_ensures(pred, (&y,), false), i),
                None => ok_all(old(self).src(), |y: Attribute<'a>| call_ensures(pred, (&y,), false), old(self).src().len() as int),
            },
    { unimplemented!() }
}

// TRUSTED: A-xml -- quick_xml::events::{BytesStart, BytesEnd, BytesText, BytesCData}: views onto one ghost event
#[verifier::external_body]
pub struct BytesStart<'a> { _p: core::marker::PhantomData<&'a ()> }
#[verifier::external_body]
pub struct BytesEnd<'a> { _p: core::marker::PhantomData<&'a ()> }
#[verifier::external_body]
pub struct BytesText<'a> { _p: core::marker::PhantomData<&'a ()> }
#[verifier::external_body]
pub struct BytesCData<'a> { _p: core::marker::PhantomData<&'a ()> }
// TRUSTED: A-xml -- quick_xml::events::Event; `Other` stands for Comment / PI / Decl / DocType (never named by the verified code;
// `Empty` cannot occur with expand_empty_elements = true)
pub enum Event<'a> {
    Start(BytesStart<'a>),
    End(BytesEnd<'a>),
    Text(BytesText<'a>),
    CData(BytesCData<'a>),
    Other,
    Eof,
}
/// ASCII text as bytes
pub open spec fn bytes_of(s: Seq<char>) -> Seq<u8> { s.map_values(|c: char| c as u8) }
/// index of the first attribute at or after i that is malformed or has this qualified name; attrs.len() if none
pub open spec fn tga_idx(attrs: Seq<Attr>, key: Seq<u8>, i: int) -> int
    decreases attrs.len() - i
{
    if i < 0 || i >= attrs.len() { attrs.len() as int } else if !attrs[i].ok || attrs[i].key == key { i } else { tga_idx(attrs, key, i + 1) }
}
impl<'a> BytesStart<'a> {
    pub uninterp spec fn ev(&self) -> Ev;
    // TRUSTED: A-xml
    #[verifier::external_body]
    pub fn name(&self) -> (r: QName<'_>) ensures r.0@ == self.ev().name { unimplemented!() }
    // TRUSTED: A-xml
    #[verifier::external_body]
    pub fn local_name(&self) -> (r: LocalName<'_>) ensures r.bytes() == self.ev().local { unimplemented!() }
    // TRUSTED: A-xml
    #[verifier::external_body]
    pub fn attributes(&self) -> (r: Attributes<'_>) ensures attrs_match(r.items(), self.ev().attrs), r.attrs() == self.ev().attrs { unimplemented!() }
    // TRUSTED: A-xml -- "Try to get an attribute": iterates the attributes, returns the first whose qualified name equals `attr_name`
    // (Ok(None) if there is none), or the error of a malformed attribute met before it.  (Real signature: `N: AsRef<[u8]> + Sized`.)
    #[verifier::external_body]
    pub fn try_get_attribute(&self, attr_name: &str) -> (r: Result<Option<Attribute<'_>>, quick_xml::events::attributes::AttrError>)
        ensures ({
            let at = self.ev().attrs;
            let k = tga_idx(at, bytes_of(attr_name@), 0);
            if k >= at.len() { r matches Ok(None) } else if !at[k].ok { r is Err } else { r matches Ok(Some(a)) && a.is(at[k]) }
        }),
    { unimplemented!() }
}
impl<'a> BytesEnd<'a> {
    pub uninterp spec fn ev(&self) -> Ev;
    // TRUSTED: A-xml
    #[verifier::external_body]
    pub fn name(&self) -> (r: QName<'_>) ensures r.0@ == self.ev().name { unimplemented!() }
    // TRUSTED: A-xml
    #[verifier::external_body]
    pub fn local_name(&self) -> (r: LocalName<'_>) ensures r.bytes() == self.ev().local { unimplemented!() }
}
impl<'a> BytesText<'a> {
    pub uninterp spec fn ev(&self) -> Ev;
    // TRUSTED: A-xml -- `unescape` returns the text with the predefined entities and character references resolved, or Err
    #[verifier::external_body]
    pub fn unescape(&self) -> (r: Result<Cow<'a, str>, quick_xml::Error>)
        ensures
            self.ev().text_ok ==> r is Ok && cow_ref(&r->Ok_0)@ == self.ev().text,
            !self.ev().text_ok ==> r is Err,
    { unimplemented!() }
}
impl<'a> BytesCData<'a> {
    pub uninterp spec fn ev(&self) -> Ev;
}
/// the result `read_event_into` delivers for the ghost event e
pub open spec fn ev_result<'b>(r: Result<Event<'b>, quick_xml::Error>, e: Ev) -> bool {
    match e.kind {
        EvKind::Start => r matches Ok(Event::Start(b)) && b.ev() == e,
        EvKind::End => r matches Ok(Event::End(b)) && b.ev() == e,
        EvKind::Text => r matches Ok(Event::Text(b)) && b.ev() == e,
        EvKind::CData => r matches Ok(Event::CData(b)) && b.ev() == e,
        EvKind::Other => r matches Ok(Event::Other),
        EvKind::Error => r is Err,
    }
}
// TRUSTED: A-xml -- quick_xml::Reader<BufReader<ZipFile>> (type alias XlReader of src/xlsx/mod.rs)
#[verifier::external_body]
pub struct XlReader<'a> { _p: core::marker::PhantomData<&'a ()> }
impl<'a> XlReader<'a> {
    pub uninterp spec fn events(&self) -> Seq<Ev>;
    pub uninterp spec fn pos(&self) -> nat;
    pub open spec fn left(&self) -> int { if self.pos() >= self.events().len() { 0 } else { self.events().len() - self.pos() } }
    // TRUSTED: A-xml -- returns events[pos] and advances; at the end of input returns Eof for ever; qualified names are prefix:local
    #[verifier::external_body]
    pub fn read_event_into<'b>(&mut self, buf: &'b mut Vec<u8>) -> (r: Result<Event<'b>, quick_xml::Error>)
        ensures
            final(self).events() == old(self).events(),
            old(self).pos() >= old(self).events().len() ==> (r matches Ok(Event::Eof)) && final(self).pos() == old(self).pos(),
            old(self).pos() < old(self).events().len() ==>
                final(self).pos() == old(self).pos() + 1 && ev_result(r, old(self).events()[old(self).pos() as int])
                && old(self).events()[old(self).pos() as int].wf(),
    { unimplemented!() }
    // TRUSTED: A-xml
    #[verifier::external_body]
    pub fn decoder(&self) -> Decoder { unimplemented!() }
}

// =====================================================================================================================
// A-zip: the zip container.  TRUSTED: `ZipArchive`, `ZipFile`, `FileNames` are stand-ins for zip::read::{ZipArchive, ZipFile} and the
// iterator `file_names()` returns (zip 2.4.2).  `content()` is the logical content of the archive: the list of entry names (central
// directory order; names are unique: zip keeps them in an IndexMap) and, per name, the XML events of the entry.  Reading a part never
// changes it.  What is ASSUMED AND NOT VERIFIED: central directory parsing, inflate, and that quick-xml turns the bytes of the entry
// into the ghost event sequence (A-xml).
// =====================================================================================================================
use zip::result::ZipError;
#[verifier::external_body]
#[verifier::accept_recursive_types(RS)]
pub struct ZipArchive<RS> { _p: core::marker::PhantomData<RS> }
/// logical content of an archive (abstract)
#[verifier::external_body]
pub ghost struct ZipContent { _p: u8 }
pub uninterp spec fn content<RS>(zip: ZipArchive<RS>) -> ZipContent;
/// the entry names of the archive as stored, in directory order
pub uninterp spec fn names(c: ZipContent) -> Seq<Seq<char>>;
/// the XML events of the entry stored under EXACTLY this name; None: the entry cannot be opened (zip-level error other than "not found")
pub uninterp spec fn entry_events(c: ZipContent, name: Seq<char>) -> Option<Seq<Ev>>;
// TRUSTED: A-zip -- zip::read::ZipFile: an opened entry
#[verifier::external_body]
pub struct ZipFile<'a> { _p: core::marker::PhantomData<&'a ()> }
impl<'a> ZipFile<'a> {
    /// the XML events its bytes tokenise to under the reader configuration of A-xml
    pub uninterp spec fn events(&self) -> Seq<Ev>;
}
// TRUSTED: A-zip -- the iterator returned by `ZipArchive::file_names` ("an iterator over all the file and directory names in this archive")
#[verifier::external_body]
pub struct FileNames<'a> { _p: core::marker::PhantomData<&'a ()> }
impl<'a> FileNames<'a> {
    pub uninterp spec fn rem(&self) -> Seq<&'a str>;
    // TRUSTED: A-std -- Iterator::find on it: the first name (in order) for which the predicate returns true
    #[verifier::external_body]
    pub fn find<P: FnMut(&&'a str) -> bool>(&mut self, pred: P) -> (r: Option<&'a str>)
        ensures
            match r {
                Some(x) => exists|i: int| 0 <= i < old(self).rem().len() && (#[trigger] old(self).rem()[i]) == x && call_ensures(pred, (&x,), true)
                    && forall|j: int| #![trigger old(self).rem()[j]] 0 <= j < i ==> call_ensures(pred, (&old(self).rem()[j],), false),
                None => forall|j: int| #![trigger old(self).rem()[j]] 0 <= j < old(self).rem().len() ==> call_ensures(pred, (&old(self).rem()[j],), false),
            },
    { unimplemented!() }
}
impl<RS: Read + Seek> ZipArchive<RS> {
    // TRUSTED: A-zip
    #[verifier::external_body]
    pub fn file_names(&self) -> (r: FileNames<'_>)
        ensures
            r.rem().len() == names(content(*self)).len(),
            forall|i: int| #![trigger r.rem()[i]] #![trigger names(content(*self))[i]] 0 <= i < r.rem().len() ==> r.rem()[i]@ == names(content(*self))[i],
    { unimplemented!() }
    // TRUSTED: A-zip -- "Search for a file entry by name": exact comparison; Err(FileNotFound) iff there is no entry of this name;
    // the archive content is unchanged
    #[verifier::external_body]
    pub fn by_name<'a>(&'a mut self, name: &str) -> (r: Result<ZipFile<'a>, ZipError>)
        ensures
            content(*final(self)) == content(*old(self)),
            !names(content(*old(self))).contains(name@) <==> r == Err::<ZipFile<'a>, ZipError>(ZipError::FileNotFound),
            names(content(*old(self))).contains(name@) ==> match entry_events(content(*old(self)), name@) {
                Some(ev) => r is Ok && (r->Ok_0).events() == ev,
                None => r is Err,
            },
    { unimplemented!() }
}
// TRUSTED: stand-in for std::io::BufReader (a buffering wrapper: same bytes)
pub struct BufReader<R> { pub inner: R }
impl<R> BufReader<R> {
    pub fn new(inner: R) -> (r: Self) ensures r.inner == inner { BufReader { inner } }
}
// TRUSTED: A-xml -- quick_xml::reader::Config (0.37.5): public fields and `trim_text`; Default as in the crate
pub struct Config {
    pub allow_unmatched_ends: bool,
    pub check_comments: bool,
    pub check_end_names: bool,
    pub expand_empty_elements: bool,
    pub trim_markup_names_in_closing_tags: bool,
    pub trim_text_start: bool,
    pub trim_text_end: bool,
}
impl Config {
    pub open spec fn default_spec() -> Config {
        Config { allow_unmatched_ends: false, check_comments: false, check_end_names: true, expand_empty_elements: false,
                 trim_markup_names_in_closing_tags: true, trim_text_start: false, trim_text_end: false }
    }
    /// "Set both trim_text_start and trim_text_end to the same value"
    pub fn trim_text(&mut self, trim: bool)
        ensures *final(self) == (Config { trim_text_start: trim, trim_text_end: trim, ..*old(self) }),
    {
        self.trim_text_start = trim;
        self.trim_text_end = trim;
    }
}
/// the configuration under which the ghost event model A-xml describes the reader: white space kept (no trimming), `<a/>` delivered as
/// Start + End, end-tag names not checked against start tags
pub open spec fn axml_config(c: Config) -> bool {
    !c.trim_text_start && !c.trim_text_end && c.expand_empty_elements && !c.check_end_names && !c.check_comments
}
// TRUSTED: A-xml -- `quick_xml::Reader::from_reader` (alias XmlReader in src/xlsx/mod.rs): a reader at the start of the source with the
// default configuration; `config_mut` hands out the configuration
pub struct XmlReader;
impl XmlReader {
    #[verifier::external_body]
    pub fn from_reader<'a>(r: BufReader<ZipFile<'a>>) -> (x: XlReader<'a>)
        ensures x.events() == r.inner.events(), x.pos() == 0, x.cfg() == Config::default_spec(),
    { unimplemented!() }
}
impl<'a> XlReader<'a> {
    pub uninterp spec fn cfg(&self) -> Config;
    #[verifier::external_body]
    pub fn config_mut(&mut self) -> (c: &mut Config)
        ensures *c == old(self).cfg(), final(self).cfg() == *final(c), final(self).events() == old(self).events(), final(self).pos() == old(self).pos(),
    { unimplemented!() }
}

/// the archive has a part with this name, compared ASCII-case-insensitively (C01 "part-name case": OPC part names are case-insensitive, ECMA-376 Part 2, 8.3.5)
pub open spec fn part_idx(c: ZipContent, path: Seq<char>, i: int) -> bool {
    0 <= i < names(c).len() && eq_ic(names(c)[i], path) && forall|j: int| 0 <= j < i ==> !eq_ic(#[trigger] names(c)[j], path)
}
pub open spec fn has_part(c: ZipContent, path: Seq<char>) -> bool { exists|i: int| 0 <= i < names(c).len() && eq_ic(#[trigger] names(c)[i], path) }
/// the XML events of that part (the first entry whose name matches); None: the part cannot be opened (zip-level error)
pub open spec fn part_events(c: ZipContent, path: Seq<char>) -> Option<Seq<Ev>> {
    if has_part(c, path) { entry_events(c, names(c)[choose|i: int| part_idx(c, path, i)]) } else { None }
}

proof fn lemma_part_idx_unique(c: ZipContent, path: Seq<char>, k: int)
    requires part_idx(c, path, k),
    ensures has_part(c, path), (choose|i: int| part_idx(c, path, i)) == k, part_events(c, path) == entry_events(c, names(c)[k]),
{
    let i = choose|i: int| part_idx(c, path, i);
    assert(part_idx(c, path, i));
    if i < k { assert(!eq_ic(names(c)[i], path)); }
    if k < i { assert(!eq_ic(names(c)[k], path)); }
}
// TRUSTED: A-std -- `str::eq_ignore_ascii_case`: "Checks that two strings are an ASCII case-insensitive match"
pub open spec fn ascii_lower(c: char) -> char { if 'A' <= c && c <= 'Z' { ((c as u8) + 32u8) as char } else { c } }
pub open spec fn eq_ic(a: Seq<char>, b: Seq<char>) -> bool { a.len() == b.len() && forall|i: int| 0 <= i < a.len() ==> ascii_lower(#[trigger] a[i]) == ascii_lower(b[i]) }
pub assume_specification[ str::eq_ignore_ascii_case ](a: &str, b: &str) -> (r: bool)
    ensures r == eq_ic(a@, b@);
impl From<ZipError> for XlsxError { fn from(e: ZipError) -> (r: XlsxError) ensures r == XlsxError::Zip(e) { XlsxError::Zip(e) } }
impl vstd::std_specs::convert::FromSpecImpl<ZipError> for XlsxError {
    open spec fn obeys_from_spec() -> bool { true }
    open spec fn from_spec(e: ZipError) -> Self { XlsxError::Zip(e) }
}

//@@ fn src/xlsx/mod.rs xml_reader props=C01 entry ret=r
//@@ sig
    ensures
        //# C01.xml_reader_archive_unchanged
        content(*final(zip)) == content(*old(zip)),
        //# C01.part_name_case_insensitive
        r is None <==> !has_part(content(*old(zip)), path@),
        //# C01.part_reader_at_start_of_that_part
        r is Some && r->Some_0 is Ok ==> part_events(content(*old(zip)), path@) == Some((r->Some_0->Ok_0).events()) && (r->Some_0->Ok_0).pos() == 0,
        //# C01.part_open_error_is_reported
        r is Some && r->Some_0 is Err ==> part_events(content(*old(zip)), path@) is None,
        //# C01.reader_configuration
        r is Some && r->Some_0 is Ok ==> axml_config((r->Some_0->Ok_0).cfg()),
//@@ closure 0
    -> (res: bool) ensures
        //# C01.part_name_compared_case_insensitively
        res == eq_ic((**n)@, path@)
//@@ before /match zip\.by_name/
    proof {
        let c = content(*old(zip));
        let nm = names(c);
        assert(content(*zip) == c);
        let k = choose|k: int| 0 <= k < nm.len() && nm[k] == actual_path@ && eq_ic(nm[k], path@) && forall|j: int| 0 <= j < k ==> !eq_ic(#[trigger] nm[j], path@);
        assert(part_idx(c, path@, k));
        assert(has_part(c, path@));
        lemma_part_idx_unique(c, path@, k);
        assert(nm.contains(actual_path@));
    }
//@@ end

// =====================================================================================================================
// Names the verified code compares with (byte-string literals) and their ASCII bytes
// =====================================================================================================================
#[verifier::opaque] pub open spec fn n_stylesheet() -> Seq<u8> { seq![0x73u8, 0x74u8, 0x79u8, 0x6cu8, 0x65u8, 0x53u8, 0x68u8, 0x65u8, 0x65u8, 0x74u8] }   // styleSheet
#[verifier::opaque] pub open spec fn n_numfmts() -> Seq<u8> { seq![0x6eu8, 0x75u8, 0x6du8, 0x46u8, 0x6du8, 0x74u8, 0x73u8] }   // numFmts
#[verifier::opaque] pub open spec fn n_numfmt() -> Seq<u8> { seq![0x6eu8, 0x75u8, 0x6du8, 0x46u8, 0x6du8, 0x74u8] }   // numFmt
#[verifier::opaque] pub open spec fn n_cellxfs() -> Seq<u8> { seq![0x63u8, 0x65u8, 0x6cu8, 0x6cu8, 0x58u8, 0x66u8, 0x73u8] }   // cellXfs
#[verifier::opaque] pub open spec fn n_xf() -> Seq<u8> { seq![0x78u8, 0x66u8] }   // xf
#[verifier::opaque] pub open spec fn k_numfmtid() -> Seq<u8> { seq![0x6eu8, 0x75u8, 0x6du8, 0x46u8, 0x6du8, 0x74u8, 0x49u8, 0x64u8] }   // numFmtId
#[verifier::opaque] pub open spec fn k_formatcode() -> Seq<u8> { seq![0x66u8, 0x6fu8, 0x72u8, 0x6du8, 0x61u8, 0x74u8, 0x43u8, 0x6fu8, 0x64u8, 0x65u8] }   // formatCode
#[verifier::opaque] pub open spec fn n_relationships() -> Seq<u8> { seq![0x52u8, 0x65u8, 0x6cu8, 0x61u8, 0x74u8, 0x69u8, 0x6fu8, 0x6eu8, 0x73u8, 0x68u8, 0x69u8, 0x70u8, 0x73u8] }   // Relationships
#[verifier::opaque] pub open spec fn n_relationship() -> Seq<u8> { seq![0x52u8, 0x65u8, 0x6cu8, 0x61u8, 0x74u8, 0x69u8, 0x6fu8, 0x6eu8, 0x73u8, 0x68u8, 0x69u8, 0x70u8] }   // Relationship
#[verifier::opaque] pub open spec fn k_id_cap() -> Seq<u8> { seq![0x49u8, 0x64u8] }   // Id
#[verifier::opaque] pub open spec fn k_target() -> Seq<u8> { seq![0x54u8, 0x61u8, 0x72u8, 0x67u8, 0x65u8, 0x74u8] }   // Target
#[verifier::opaque] pub open spec fn n_worksheet() -> Seq<u8> { seq![0x77u8, 0x6fu8, 0x72u8, 0x6bu8, 0x73u8, 0x68u8, 0x65u8, 0x65u8, 0x74u8] }   // worksheet
#[verifier::opaque] pub open spec fn n_mergecells() -> Seq<u8> { seq![0x6du8, 0x65u8, 0x72u8, 0x67u8, 0x65u8, 0x43u8, 0x65u8, 0x6cu8, 0x6cu8, 0x73u8] }   // mergeCells
#[verifier::opaque] pub open spec fn n_mergecell() -> Seq<u8> { seq![0x6du8, 0x65u8, 0x72u8, 0x67u8, 0x65u8, 0x43u8, 0x65u8, 0x6cu8, 0x6cu8] }   // mergeCell
#[verifier::opaque] pub open spec fn k_ref() -> Seq<u8> { seq![0x72u8, 0x65u8, 0x66u8] }   // ref
// TRUSTED: A-lit -- Verus keeps the contents of byte-string literals uninterpreted (only their length is known); the bytes of the
// literals the verified code compares names with are stated here (ASCII)
#[verifier::external_body]
pub proof fn axiom_bytelits()
    ensures
        b"styleSheet"@ == n_stylesheet(), b"numFmts"@ == n_numfmts(), b"numFmt"@ == n_numfmt(), b"cellXfs"@ == n_cellxfs(), b"xf"@ == n_xf(),
        b"numFmtId"@ == k_numfmtid(), b"formatCode"@ == k_formatcode(),
        b"Relationships"@ == n_relationships(), b"Relationship"@ == n_relationship(), b"Id"@ == k_id_cap(), b"Target"@ == k_target(),
        b"worksheet"@ == n_worksheet(), b"mergeCells"@ == n_mergecells(), b"mergeCell"@ == n_mergecell(), b"ref"@ == k_ref(),
{}
/// (proved) `slice == byte-string literal` (vstd: same length and pointwise equal) is equality of the byte sequences
pub broadcast proof fn lemma_bytes_eq_array<const N: usize>(a: &[u8], b: &[u8; N])
    ensures #[trigger] <[u8] as PartialEqSpec<[u8; N]>>::eq_spec(a, b) <==> a@ == b@
{
    if <[u8] as PartialEqSpec<[u8; N]>>::eq_spec(a, b) { assert(a@ =~= b@); }
}
/// (proved) `slice == slice` / `slice != slice` on bytes is (in)equality of the byte sequences; `&a[..]` is the whole array
pub broadcast proof fn lemma_bytes_eq_slice(a: &[u8], b: &[u8])
    ensures #[trigger] <[u8] as PartialEqSpec<[u8]>>::eq_spec(a, b) <==> a@ == b@
{
    if <[u8] as PartialEqSpec<[u8]>>::eq_spec(a, b) { assert(a@ =~= b@); }
}
pub broadcast proof fn lemma_subrange_full(s: Seq<u8>)
    ensures #[trigger] s.subrange(0, s.len() as int) == s
{
    assert(s.subrange(0, s.len() as int) =~= s);
}
proof fn lemma_names_distinct()
    ensures
        n_stylesheet() != n_numfmts(), n_stylesheet() != n_numfmt(), n_stylesheet() != n_cellxfs(), n_stylesheet() != n_xf(),
        n_numfmts() != n_numfmt(), n_numfmts() != n_cellxfs(), n_numfmts() != n_xf(), n_numfmt() != n_cellxfs(), n_numfmt() != n_xf(), n_cellxfs() != n_xf(),
        k_numfmtid() != k_formatcode(),
        n_relationships() != n_relationship(), k_id_cap() != k_target(),
        n_worksheet() != n_mergecells(), n_worksheet() != n_mergecell(), n_mergecells() != n_mergecell(),
{
    reveal(n_stylesheet); reveal(n_numfmts); reveal(n_numfmt); reveal(n_cellxfs); reveal(n_xf); reveal(k_numfmtid); reveal(k_formatcode);
    reveal(n_relationships); reveal(n_relationship); reveal(k_id_cap); reveal(k_target); reveal(n_worksheet); reveal(n_mergecells); reveal(n_mergecell);
    assert(n_stylesheet().len() == 10 && n_numfmts().len() == 7 && n_numfmt().len() == 6 && n_cellxfs().len() == 7 && n_xf().len() == 2);
    assert(n_numfmts()[0] != n_cellxfs()[0]);
    assert(k_numfmtid().len() == 8 && k_formatcode().len() == 10);
    assert(n_relationships().len() == 13 && n_relationship().len() == 12 && k_id_cap().len() == 2 && k_target().len() == 6);
    assert(n_worksheet().len() == 9 && n_mergecells().len() == 10 && n_mergecell().len() == 9);
    assert(n_worksheet()[0] != n_mergecell()[0]);
}

// =====================================================================================================================
// A-std: byte-string keyed maps (`BTreeMap<Vec<u8>, String>` looked up with `&[u8]`)
// =====================================================================================================================
/// the value stored under the key with these bytes, if any
pub uninterp spec fn bk_lookup(m: Map<Vec<u8>, String>, id: Seq<u8>) -> Option<Seq<char>>;
// TRUSTED: A-std -- `Vec<u8>` keys looked up by `&[u8]` (std: `Borrow<[u8]> for Vec<u8>`; Ord of Vec<u8> and [u8] is the same lexicographic
// order on the bytes) -- vstd leaves both predicates uninterpreted for these types --; `bk_lookup` names the outcome of a lookup as a
// function of the key BYTES: found value / absent
#[verifier::external_body]
pub proof fn axiom_bytes_keyed_map(m: Map<Vec<u8>, String>, k: &[u8])
    ensures
        vstd::laws_cmp::obeys_cmp::<Vec<u8>>(),
        borrowed_key_ordering_matches::<Vec<u8>, [u8]>(),
        forall|v: String| #[trigger] maps_borrowed_key_to_value(m, k, v) ==> bk_lookup(m, k@) == Some(v@),
        !contains_borrowed_key(m, k) ==> bk_lookup(m, k@) is None,
{}
// TRUSTED: A-std -- an empty map holds nothing; after `insert(key, val)` a lookup with the bytes of `key` finds `val` (replacing what
// was there), every other lookup is unchanged (keys are compared by their bytes)
#[verifier::external_body]
pub proof fn axiom_bytes_keyed_insert(m: Map<Vec<u8>, String>, key: Vec<u8>, val: String)
    ensures
        vstd::laws_cmp::obeys_cmp::<Vec<u8>>(),
        forall|id: Seq<u8>| #[trigger] bk_lookup(m.insert(key, val), id) == (if id == key@ { Some(val@) } else { bk_lookup(m, id) }),
{}
#[verifier::external_body]
pub proof fn axiom_bytes_keyed_empty()
    ensures forall|id: Seq<u8>| (#[trigger] bk_lookup(Map::<Vec<u8>, String>::empty(), id)) is None,
{}
/// the exec map `m` holds exactly the ghost map `g` (key bytes -> text)
pub open spec fn bk_is(m: Map<Vec<u8>, String>, g: Map<Seq<u8>, Seq<char>>) -> bool {
    forall|id: Seq<u8>| #[trigger] bk_lookup(m, id) == (if g.contains_key(id) { Some(g[id]) } else { None::<Seq<char>> })
}
// TRUSTED: A-std -- `Cow::into_owned`: the owned content (for Cow<str>: the same characters)
pub uninterp spec fn cow_owned<'a, B: ?Sized + ToOwned>(c: Cow<'a, B>) -> <B as ToOwned>::Owned;
pub assume_specification<'a, B: ?Sized + ToOwned>[ <Cow<'a, B>>::into_owned ](c: Cow<'a, B>) -> (r: <B as ToOwned>::Owned)
    ensures r == cow_owned(c);
pub broadcast axiom fn axiom_cow_str_owned<'a>(c: Cow<'a, str>)
    ensures (#[trigger] cow_owned::<str>(c))@ == cow_ref(&c)@;
// TRUSTED: Option::map_or (core::option documentation): the default for None, f(value) for Some
pub assume_specification<T, U, F: FnOnce(T) -> U>[ Option::<T>::map_or ](o: Option<T>, d: U, f: F) -> (r: U)
    requires o matches Some(v) ==> call_requires(f, (v,)),
    ensures o is None ==> r == d, o matches Some(v) ==> call_ensures(f, (v,), r);

// =====================================================================================================================
// C10: styles.xml.  ECMA-376 Part 1, 18.8.39 styleSheet (CT_Stylesheet): sequence numFmts?, fonts?, fills?, borders?, cellStyleXfs?,
// cellXfs?, cellStyles?, dxfs?, tableStyles?, colors?, extLst?.
//   18.8.31 numFmts = numFmt* ; 18.8.30 numFmt (empty element): numFmtId (required, ST_NumFmtId), formatCode (required, xsd:string) --
//   "the number format code ... for this number format id".
//   18.8.10 cellXfs = xf+ ; 18.8.45 xf: attribute numFmtId (optional), children alignment?, protection?, extLst?.  "The cell's style
//   index `s` is a zero-based index into cellXfs."
//   18.8.30: ids 0..49 (+ locale ranges) name built-in formats; ids 14-22, 45-47 are the date/time ones.
// The class of the number format of cell style i is therefore: xf := i-th xf child of cellXfs (document order); no numFmtId => Other
// (General); numFmtId registered by a numFmt => class of its formatCode (the attribute VALUE, i.e. with XML references resolved);
// otherwise => class of the built-in format of that id.
// Ids are compared as written (both attributes are canonical decimal numerals in every producer; the oracle of the Kani harness
// `builtin_by_id_all_short_ids` makes the same choice: a non-canonical numeral names no built-in id).
// The definition below walks the event sequence with the element context of the schema; what the schema does not allow where it
// stands (and that a name-matching reader could mistake for one of the elements above) is `Bad`: not covered.
// =====================================================================================================================
/// class of a custom number format code (the scanner of src/formats.rs; under contract in unit formats: `scan` automaton + grammar lemmas)
pub uninterp spec fn fmt_class(code: Seq<char>) -> CellFormat;
/// ECMA-376 18.8.30 built-in number formats: ids 14-22, 45, 47 are date/time formats, 46 is the elapsed-time format [h]:mm:ss
pub open spec fn builtin_class(id: int) -> CellFormat {
    if 14 <= id <= 22 || id == 45 || id == 47 { CellFormat::DateTime } else if id == 46 { CellFormat::TimeDelta } else { CellFormat::Other }
}
pub open spec fn is_digit(c: u8) -> bool { 0x30 <= c <= 0x39 }
pub open spec fn dec10(s: Seq<u8>) -> nat decreases s.len() { if s.len() == 0 { 0 } else { dec10(s.drop_last()) * 10 + (s.last() - 0x30) as nat } }
/// value of a canonical decimal numeral (digits only, no sign, no leading zero unless "0"); None otherwise
pub open spec fn canon_dec(s: Seq<u8>) -> Option<nat> {
    if s.len() == 0 || (s.len() > 1 && s[0] == 0x30) || !(forall|i: int| 0 <= i < s.len() ==> is_digit(#[trigger] s[i])) { None } else { Some(dec10(s)) }
}
pub open spec fn builtin_of(id: Seq<u8>) -> CellFormat { match canon_dec(id) { Some(n) => builtin_class(n as int), None => CellFormat::Other } }
// TRUSTED: callee contracts.  detect_custom_number_format: unit formats (C10: result == scan automaton, declarative lemmas);
// builtin_format_by_id: complete Kani harness `builtin_by_id_all_short_ids` (kani/formats.rs; same oracle: canonical numeral -> ECMA class, else Other)
//@@ fn src/formats.rs detect_custom_number_format props=C10 ret=r external_body
//@@ sig
    ensures r == fmt_class(format@),
//@@ end
//@@ fn src/formats.rs builtin_format_by_id props=C10 ret=r external_body by=builtin_by_id_all_short_ids
//@@ sig
    ensures r == builtin_of(id@),
//@@ end

pub enum StCtx { Top, NumFmts, CellXfs }
pub ghost struct StSt {
    pub root: bool,                               // the `styleSheet` start tag has been met
    pub ctx: StCtx,                               // content of: styleSheet / numFmts / cellXfs
    pub skip: nat,                                // > 0: inside an element whose content is skipped, at this depth
    pub seen_fmts: bool,                          // numFmts has been met
    pub seen_xfs: bool,                           // cellXfs has been met
    pub fmts: Map<Seq<u8>, Seq<char>>,            // custom formats registered so far: id as written -> format code (unescaped)
    pub xfs: Seq<CellFormat>,                     // classes of the cell XFs so far, in document order
}
pub ghost struct StRes { pub ok: bool, pub xfs: Seq<CellFormat>, pub end: int }
pub enum StStep { Next(StSt), Done, Bad }
pub open spec fn st_init() -> StSt {
    StSt { root: false, ctx: StCtx::Top, skip: 0, seen_fmts: false, seen_xfs: false, fmts: Map::empty(), xfs: Seq::empty() }
}
pub open spec fn is_main(e: Ev) -> bool { is_main_ns(e.ns) }
pub ghost struct NfAcc { pub id: Seq<u8>, pub code: Seq<char> }
/// id / format code of a numFmt element read off its first k attributes (XML: attribute names are unique per element, so the order of
/// the visit is immaterial); None: an attribute is malformed or the format code cannot be unescaped
pub open spec fn nf_fold(attrs: Seq<Attr>, k: int) -> Option<NfAcc>
    decreases k
{
    if k <= 0 { Some(NfAcc { id: Seq::empty(), code: Seq::empty() }) }
    else {
        match nf_fold(attrs, k - 1) {
            None => None,
            Some(acc) => {
                let a = attrs[k - 1];
                if !a.ok { None }
                else if a.key == k_numfmtid() { Some(NfAcc { id: a.raw, ..acc }) }
                else if a.key == k_formatcode() { match unesc(a.raw) { Some(v) => Some(NfAcc { code: v, ..acc }), None => None } }
                else { Some(acc) }
            },
        }
    }
}
pub open spec fn has_key(attrs: Seq<Attr>, key: Seq<u8>, n: int) -> bool { exists|j: int| 0 <= j < n && j < attrs.len() && (#[trigger] attrs[j]).key == key }
/// the (id, format code) a numFmt element registers; None: malformed, numFmtId missing, or no (an empty) format code
pub open spec fn numfmt_entry(e: Ev) -> Option<NfAcc> {
    match nf_fold(e.attrs, e.attrs.len() as int) {
        None => None,
        Some(acc) => if has_key(e.attrs, k_numfmtid(), e.attrs.len() as int) && acc.code.len() > 0 { Some(acc) } else { None },
    }
}
proof fn lemma_nf_fold_prefix(attrs: Seq<Attr>, k: int, n: int)
    requires 0 <= k <= n, nf_fold(attrs, n) is Some,
    ensures nf_fold(attrs, k) is Some,
    decreases n - k,
{
    if k < n { lemma_nf_fold_prefix(attrs, k + 1, n); }
}
pub open spec fn all_ok(attrs: Seq<Attr>) -> bool { forall|j: int| 0 <= j < attrs.len() ==> (#[trigger] attrs[j]).ok }
/// index of the first well-formed attribute at or after i written `key`; attrs.len() if none
pub open spec fn ok_key_idx(attrs: Seq<Attr>, key: Seq<u8>, i: int) -> int
    decreases attrs.len() - i
{
    if i < 0 || i >= attrs.len() { attrs.len() as int } else if attrs[i].ok && attrs[i].key == key { i } else { ok_key_idx(attrs, key, i + 1) }
}
proof fn lemma_ok_key_idx_first(attrs: Seq<Attr>, key: Seq<u8>, from: int, i: int)
    requires 0 <= from <= i < attrs.len(), attrs[i].ok && attrs[i].key == key,
        forall|j: int| from <= j < i ==> !((#[trigger] attrs[j]).ok && attrs[j].key == key),
    ensures ok_key_idx(attrs, key, from) == i,
    decreases i - from,
{
    if from < i { lemma_ok_key_idx_first(attrs, key, from + 1, i); }
}
proof fn lemma_first_exists(attrs: Seq<Attr>, key: Seq<u8>)
    requires exists|j: int| 0 <= j < attrs.len() && (#[trigger] attrs[j]).ok && attrs[j].key == key,
    ensures exists|i: int| 0 <= i < attrs.len() && (#[trigger] attrs[i]).ok && attrs[i].key == key
        && forall|j: int| 0 <= j < i ==> !((#[trigger] attrs[j]).ok && attrs[j].key == key),
{
    let i = ok_key_idx(attrs, key, 0);
    lemma_ok_key_idx_props(attrs, key, 0);
    let j0 = choose|j: int| 0 <= j < attrs.len() && (#[trigger] attrs[j]).ok && attrs[j].key == key;
    assert(i <= j0);
}
/// ok_key_idx(from) is the first index >= from of a well-formed attribute written `key` (or len)
proof fn lemma_ok_key_idx_props(attrs: Seq<Attr>, key: Seq<u8>, from: int)
    requires 0 <= from <= attrs.len(),
    ensures
        from <= ok_key_idx(attrs, key, from) <= attrs.len(),
        ok_key_idx(attrs, key, from) < attrs.len() ==> attrs[ok_key_idx(attrs, key, from)].ok && attrs[ok_key_idx(attrs, key, from)].key == key,
        forall|j: int| from <= j < ok_key_idx(attrs, key, from) ==> !((#[trigger] attrs[j]).ok && attrs[j].key == key),
    decreases attrs.len() - from,
{
    if from < attrs.len() && !(attrs[from].ok && attrs[from].key == key) { lemma_ok_key_idx_props(attrs, key, from + 1); }
}
proof fn lemma_ok_key_idx_none(attrs: Seq<Attr>, key: Seq<u8>, from: int)
    requires 0 <= from <= attrs.len(), forall|j: int| from <= j < attrs.len() ==> !((#[trigger] attrs[j]).ok && attrs[j].key == key),
    ensures ok_key_idx(attrs, key, from) == attrs.len(),
    decreases attrs.len() - from,
{
    if from < attrs.len() { lemma_ok_key_idx_none(attrs, key, from + 1); }
}
/// class of the number format with this id under the registered custom formats
pub open spec fn class_of_id(fmts: Map<Seq<u8>, Seq<char>>, id: Seq<u8>) -> CellFormat {
    if fmts.contains_key(id) { fmt_class(fmts[id]) } else { builtin_of(id) }
}
/// class of the number format an xf element refers to; None: malformed attribute
pub open spec fn xf_entry(e: Ev, fmts: Map<Seq<u8>, Seq<char>>) -> Option<CellFormat> {
    if !all_ok(e.attrs) { None }
    else {
        let k = ok_key_idx(e.attrs, k_numfmtid(), 0);
        if k >= e.attrs.len() { Some(CellFormat::Other) } else { Some(class_of_id(fmts, e.attrs[k].raw)) }
    }
}
/// class of the format with these id bytes, read off the exec map
pub open spec fn class_of_raw(m: Map<Vec<u8>, String>, id: Seq<u8>) -> CellFormat {
    match bk_lookup(m, id) { Some(code) => fmt_class(code), None => builtin_of(id) }
}
/// what the event e does in state s
pub open spec fn st_step(e: Ev, s: StSt) -> StStep {
    if e.kind is Error { StStep::Bad }
    else if !s.root {
        // prolog: XML declaration, comments, white space; then the root element
        if e.kind is Start { if is_main(e) && e.local == n_stylesheet() { StStep::Next(StSt { root: true, ..s }) } else { StStep::Bad } }
        else if e.kind is End { StStep::Bad }
        else { StStep::Next(s) }
    } else {
        match s.ctx {
            StCtx::Top =>
                if s.skip > 0 {
                    // inside fonts, fills, borders, cellStyleXfs (whose xf children are NOT cell styles), cellStyles, dxfs (whose numFmt children are
                    // differential formats, not registered ones), tableStyles, colors, extLst
                    if e.kind is Start { if e.local == n_numfmts() || e.local == n_cellxfs() { StStep::Bad } else { StStep::Next(StSt { skip: s.skip + 1, ..s }) } }
                    else if e.kind is End { if e.local == n_stylesheet() { StStep::Bad } else { StStep::Next(StSt { skip: (s.skip - 1) as nat, ..s }) } }
                    else { StStep::Next(s) }
                } else if e.kind is Start {
                    if is_main(e) && e.local == n_numfmts() {
                        // schema order: numFmts comes first, at most once
                        if s.seen_fmts || s.seen_xfs { StStep::Bad } else { StStep::Next(StSt { ctx: StCtx::NumFmts, seen_fmts: true, ..s }) }
                    } else if is_main(e) && e.local == n_cellxfs() {
                        if s.seen_xfs { StStep::Bad } else { StStep::Next(StSt { ctx: StCtx::CellXfs, seen_xfs: true, ..s }) }
                    } else if e.local == n_numfmts() || e.local == n_cellxfs() { StStep::Bad }
                    else { StStep::Next(StSt { skip: 1, ..s }) }
                } else if e.kind is End {
                    if e.local == n_stylesheet() { StStep::Done } else { StStep::Bad }
                } else { StStep::Next(s) },
            StCtx::NumFmts =>
                // CT_NumFmts: numFmt* (empty elements)
                if e.kind is Start {
                    if is_main(e) && e.local == n_numfmt() {
                        match numfmt_entry(e) { Some(x) => StStep::Next(StSt { fmts: s.fmts.insert(x.id, x.code), ..s }), None => StStep::Bad }
                    } else { StStep::Bad }
                } else if e.kind is End {
                    if e.local == n_numfmts() { StStep::Next(StSt { ctx: StCtx::Top, ..s }) } else if e.local == n_numfmt() { StStep::Next(s) } else { StStep::Bad }
                } else { StStep::Next(s) },
            StCtx::CellXfs =>
                // CT_CellXfs: xf+ ; content of an xf (alignment, protection, extLst) is skipped
                if s.skip > 0 {
                    if e.kind is Start { if e.local == n_xf() { StStep::Bad } else { StStep::Next(StSt { skip: s.skip + 1, ..s }) } }
                    else if e.kind is End { if e.local == n_cellxfs() { StStep::Bad } else { StStep::Next(StSt { skip: (s.skip - 1) as nat, ..s }) } }
                    else { StStep::Next(s) }
                } else if e.kind is Start {
                    if is_main(e) && e.local == n_xf() {
                        match xf_entry(e, s.fmts) { Some(c) => StStep::Next(StSt { xfs: s.xfs.push(c), skip: 1, ..s }), None => StStep::Bad }
                    } else { StStep::Bad }
                } else if e.kind is End {
                    if e.local == n_cellxfs() { StStep::Next(StSt { ctx: StCtx::Top, ..s }) } else { StStep::Bad }
                } else { StStep::Next(s) },
        }
    }
}
pub open spec fn st_bad(i: int) -> StRes { StRes { ok: false, xfs: Seq::empty(), end: i } }
pub open spec fn st_scan(ev: Seq<Ev>, i: int, s: StSt) -> StRes
    decreases ev.len() - i
{
    if i < 0 || i >= ev.len() { st_bad(i) }
    else {
        match st_step(ev[i], s) {
            StStep::Next(s2) => st_scan(ev, i + 1, s2),
            StStep::Done => StRes { ok: true, xfs: s.xfs, end: i },
            StStep::Bad => st_bad(i),
        }
    }
}
/// the cell-XF format classes a styles part declares
pub open spec fn st_part(ev: Seq<Ev>) -> StRes { st_scan(ev, 0, st_init()) }
pub open spec fn styles_path() -> Seq<char> { "xl/styles.xml"@ }

// ---- witnesses: the walks accept the canonical small documents (non-vacuity of the definitions)
pub open spec fn ev_tag(kind: EvKind, local: Seq<u8>, ns: Seq<u8>, attrs: Seq<Attr>) -> Ev {
    Ev { kind: kind, name: local, prefix: None, local: local, ns: ns, attrs: attrs, text: Seq::empty(), text_ok: true }
}
pub open spec fn at_ok(key: Seq<u8>, raw: Seq<u8>) -> Attr { Attr { ok: true, key: key, local: key, ns: Seq::empty(), raw: raw } }
/// <styleSheet><numFmts><numFmt numFmtId="164" formatCode=C/></numFmts><cellXfs><xf numFmtId="164"/><xf numFmtId="14"/><xf/></cellXfs></styleSheet>
/// declares the style table [class of C, DateTime (built-in 14), Other]
proof fn witness_st_part(ns: Seq<u8>, c_raw: Seq<u8>, code: Seq<char>)
    requires is_main_ns(ns), unesc(c_raw) == Some(code), code.len() > 0,
    ensures ({
        let id164 = seq![0x31u8, 0x36u8, 0x34u8];
        let id14 = seq![0x31u8, 0x34u8];
        let ev = seq![
            ev_tag(EvKind::Start, n_stylesheet(), ns, Seq::empty()),
            ev_tag(EvKind::Start, n_numfmts(), ns, Seq::empty()),
            ev_tag(EvKind::Start, n_numfmt(), ns, seq![at_ok(k_numfmtid(), id164), at_ok(k_formatcode(), c_raw)]),
            ev_tag(EvKind::End, n_numfmt(), ns, Seq::empty()),
            ev_tag(EvKind::End, n_numfmts(), ns, Seq::empty()),
            ev_tag(EvKind::Start, n_cellxfs(), ns, Seq::empty()),
            ev_tag(EvKind::Start, n_xf(), ns, seq![at_ok(k_numfmtid(), id164)]),
            ev_tag(EvKind::End, n_xf(), ns, Seq::empty()),
            ev_tag(EvKind::Start, n_xf(), ns, seq![at_ok(k_numfmtid(), id14)]),
            ev_tag(EvKind::End, n_xf(), ns, Seq::empty()),
            ev_tag(EvKind::Start, n_xf(), ns, Seq::empty()),
            ev_tag(EvKind::End, n_xf(), ns, Seq::empty()),
            ev_tag(EvKind::End, n_cellxfs(), ns, Seq::empty()),
            ev_tag(EvKind::End, n_stylesheet(), ns, Seq::empty())];
        st_part(ev).ok && st_part(ev).xfs == seq![fmt_class(code), CellFormat::DateTime, CellFormat::Other] }),
{
    lemma_names_distinct();
    let id164 = seq![0x31u8, 0x36u8, 0x34u8];
    let id14 = seq![0x31u8, 0x34u8];
    let a_id = at_ok(k_numfmtid(), id164);
    let a_code = at_ok(k_formatcode(), c_raw);
    let nf = seq![a_id, a_code];
    // the numFmt element registers (164, code)
    reveal_with_fuel(nf_fold, 3);
    assert(nf_fold(nf, 2) == Some(NfAcc { id: id164, code: code }));
    assert(nf[0].key == k_numfmtid());
    assert(has_key(nf, k_numfmtid(), 2));
    let e_nf = ev_tag(EvKind::Start, n_numfmt(), ns, nf);
    assert(numfmt_entry(e_nf) == Some(NfAcc { id: id164, code: code }));
    let fm = Map::<Seq<u8>, Seq<char>>::empty().insert(id164, code);
    // the three xf elements
    let x1 = seq![at_ok(k_numfmtid(), id164)];
    let x2 = seq![at_ok(k_numfmtid(), id14)];
    reveal_with_fuel(ok_key_idx, 2);
    assert(ok_key_idx(x1, k_numfmtid(), 0) == 0);
    assert(ok_key_idx(x2, k_numfmtid(), 0) == 0);
    assert(ok_key_idx(Seq::<Attr>::empty(), k_numfmtid(), 0) == 0);
    assert(id14 != id164) by { assert(id14.len() != id164.len()); }
    assert(!fm.contains_key(id14));
    assert(canon_dec(id14) == Some(14nat)) by {
        reveal_with_fuel(dec10, 3);
        assert(id14.drop_last() =~= seq![0x31u8]);
        assert(seq![0x31u8].drop_last() =~= Seq::<u8>::empty());
    }
    assert(xf_entry(ev_tag(EvKind::Start, n_xf(), ns, x1), fm) == Some(fmt_class(code)));
    assert(xf_entry(ev_tag(EvKind::Start, n_xf(), ns, x2), fm) == Some(CellFormat::DateTime));
    assert(xf_entry(ev_tag(EvKind::Start, n_xf(), ns, Seq::empty()), fm) == Some(CellFormat::Other));
    reveal_with_fuel(st_scan, 15);
    assert(Seq::<CellFormat>::empty().push(fmt_class(code)).push(CellFormat::DateTime).push(CellFormat::Other) =~= seq![fmt_class(code), CellFormat::DateTime, CellFormat::Other]);
}

//@@ impl src/xlsx/mod.rs Xlsx
#[verifier::loop_isolation(false)]
#[verifier::allow_complex_invariants]
//@@ fn src/xlsx/mod.rs Xlsx::read_styles props=C10,C01 entry ret=r
//@@ sig
    ensures
        //# C10,C01.read_styles_frame
        final(self).strings == old(self).strings && final(self).sheets == old(self).sheets && final(self).tables == old(self).tables
            && final(self).is_1904 == old(self).is_1904 && final(self).metadata == old(self).metadata
            && final(self).merged_regions == old(self).merged_regions && final(self).options == old(self).options
            && content(final(self).zip) == content(old(self).zip),
        //# C10,C01.absent_styles_part
        !has_part(content(old(self).zip), styles_path()) ==> r is Ok && final(self).formats == old(self).formats,
        //# C10,C01.xlsx_style_table
        ({ let evs = part_events(content(old(self).zip), styles_path());
           has_part(content(old(self).zip), styles_path()) && evs is Some && st_part(evs->Some_0).ok ==>
               r is Ok && final(self).formats@ == old(self).formats@ + st_part(evs->Some_0).xfs }),
//@@ replace /(a @ )?Attribute \{\s*key: QName\((b"[^"]*")\),\s*(value: v|\.\.),?\s*\}\s*=>/#0of2 Verus crashes on byte-string literal patterns: the slice is bound and compared in a guard (same test, same arm order); the literal, the other field pattern and a binding of the whole attribute are kept verbatim
\g<1>Attribute { key: QName(__k), \g<3> } if __k == \g<2> =>
//@@ replace /(a @ )?Attribute \{\s*key: QName\((b"[^"]*")\),\s*(value: v|\.\.),?\s*\}\s*=>/#1of2 (same)
\g<1>Attribute { key: QName(__k), \g<3> } if __k == \g<2> =>
//@@ replace /a\.map_err\((XlsxError::XmlAttr)\)\?/ Verus: "using a datatype constructor as a function value" unsupported; eta-expanded, same function
a.map_err(|e| -> (x: XlsxError) ensures x == \g<1>(e) { \g<1>(e) })?
//@@ closure 1
    -> (res: bool) ensures
        //# C10,C01.xf_format_id_attribute
        res == (a.key.0@ == b"numFmtId"@)
//@@ closure 2
    -> (res: CellFormat) ensures
        //# C10,C01.xf_class_custom_else_builtin
        res == class_of_raw(number_formats@, cow_ref(&a.value)@)
//@@ before /match number_formats\.get\(/
                                        proof { axiom_bytes_keyed_map(number_formats@, cow_ref(&a.value)); }
//@@ body
        broadcast use {axiom_cow_str_owned, lemma_bytes_eq_array};
//@@ before /let mut number_formats = /
        let ghost ev = xml.events();
        let ghost tot = st_part(ev);
        let ghost good = tot.ok;
        let ghost mut st = st_init();
        let ghost f0 = self.formats@;
        proof { axiom_bytelits(); lemma_names_distinct(); axiom_bytes_keyed_empty(); }
//@@ after /let mut number_formats = [^;]*;/
        proof { assert(bk_is(number_formats@, st.fmts)); assert(f0 + st.xfs =~= f0); }
//@@ loop 0
            invariant_except_break
                //# C10,C01.code_follows_the_schema_walk
                good ==> st_scan(ev, xml.pos() as int, st) == tot,
            invariant
                xml.events() == ev,
                self.strings == old(self).strings && self.sheets == old(self).sheets && self.tables == old(self).tables
                    && self.is_1904 == old(self).is_1904 && self.metadata == old(self).metadata
                    && self.merged_regions == old(self).merged_regions && self.options == old(self).options,
                good ==> st.ctx is Top,
                //# C10,C01.xf_classes_in_document_order_so_far
                good ==> self.formats@ == f0 + st.xfs,
                //# C10,C01.custom_formats_registered_so_far
                good ==> bk_is(number_formats@, st.fmts),
            ensures
                good ==> st.xfs == tot.xfs,
            decreases xml.left(),
//@@ before /match xml\.read_event_into\(&mut buf\)/
            let ghost opos = xml.pos() as int;
            let ghost st0 = st;
            let ghost stp = if opos < ev.len() { st_step(ev[opos], st) } else { StStep::Bad };
            proof {
                if good {
                    assert(opos < ev.len());
                    assert(!(stp is Bad));
                    assert(st0.ctx is Top);
                    if ev[opos].kind is Start && ev[opos].local == n_numfmts() { assert(stp is Next && stp->Next_0.ctx is NumFmts); }
                    else if ev[opos].kind is Start && ev[opos].local == n_cellxfs() { assert(stp is Next && stp->Next_0.ctx is CellXfs); }
                    else if ev[opos].kind is End && ev[opos].local == n_stylesheet() { assert(stp is Done); }
                    else { assert(stp is Next && stp->Next_0.ctx is Top && stp->Next_0.xfs == st0.xfs && stp->Next_0.fmts == st0.fmts); }
                    if stp is Next { st = stp->Next_0; }
                }
            }
//@@ loop 1
                    invariant_except_break
                        good ==> st.ctx is NumFmts,
                        good ==> st.root,
                    invariant
                        xml.events() == ev, xml.pos() > opos,
                        self.strings == old(self).strings && self.sheets == old(self).sheets && self.tables == old(self).tables
                            && self.is_1904 == old(self).is_1904 && self.metadata == old(self).metadata
                            && self.merged_regions == old(self).merged_regions && self.options == old(self).options,
                        //# C10,C01.code_follows_the_schema_walk
                        good ==> st_scan(ev, xml.pos() as int, st) == tot,
                        //# C10,C01.xf_classes_in_document_order_so_far
                        good ==> self.formats@ == f0 + st.xfs,
                        //# C10,C01.custom_formats_registered_so_far
                        good ==> bk_is(number_formats@, st.fmts),
                    ensures
                        good ==> st.ctx is Top,
                    decreases xml.left(),
//@@ before /match xml\.read_event_into\(&mut inner_buf\)/#0of2
                    let ghost ipos = xml.pos() as int;
                    let ghost st1 = st;
                    let ghost stq = if ipos < ev.len() { st_step(ev[ipos], st) } else { StStep::Bad };
                    proof {
                        if good {
                            assert(ipos < ev.len());
                            assert(!(stq is Bad));
                            assert(st1.ctx is NumFmts);
                            assert(stq is Next);
                            if ev[ipos].kind is Start { assert(ev[ipos].local == n_numfmt() && is_main(ev[ipos]) && numfmt_entry(ev[ipos]) is Some); }
                            else if ev[ipos].kind is End && ev[ipos].local == n_numfmts() { assert(stq->Next_0.ctx is Top && stq->Next_0.xfs == st1.xfs && stq->Next_0.fmts == st1.fmts); }
                            else { assert(stq->Next_0 == st1); }
                            st = stq->Next_0;
                        }
                    }
//@@ before /let mut id = Vec::new\(\);/
                            let ghost at = ev[ipos].attrs;
                            proof {
                                assert(e.ev() == ev[ipos]);
                                assert(attrs_unique(at));
                                if good { assert(numfmt_entry(ev[ipos]) is Some); }
                            }
//@@ loop 2 it
                                invariant
                                    attrs_match(it.seq(), at),
                                    //# C10,C01.numfmt_id_and_code_from_attributes
                                    good ==> nf_fold(at, it.index@ as int) is Some && nf_fold(at, it.index@ as int)->Some_0.id =~= id@
                                        && nf_fold(at, it.index@ as int)->Some_0.code =~= format@,
                                    good ==> forall|j: int| 0 <= j < it.index@ ==> (#[trigger] at[j]).ok,
                                    good ==> (id@.len() > 0 ==> has_key(at, k_numfmtid(), it.index@ as int)),
//@@ before /match a\.map_err/
                                let ghost k = it.index@ as int;
                                proof {
                                    assert(0 <= k < at.len());
                                    assert(a == it.seq()[k]);
                                    if good {
                                        lemma_nf_fold_prefix(at, k + 1, at.len() as int);
                                        assert(at[k].ok);
                                        if at[k].key == k_numfmtid() {
                                            if id@.len() > 0 {
                                                let j = choose|j: int| 0 <= j < k && j < at.len() && (#[trigger] at[j]).key == k_numfmtid();
                                                assert(at[j].ok && at[k].ok);
                                                assert(false);
                                            }
                                            assert(id@ + at[k].raw =~= at[k].raw);
                                        }
                                        if at[k].key == k_formatcode() {
                                            assert(unesc(at[k].raw) is Some);
                                        }
                                        let acc = NfAcc { id: id@, code: format@ };
                                        if at[k].key == k_numfmtid() { assert(nf_fold(at, k + 1) == Some(NfAcc { id: at[k].raw, ..acc })); }
                                        else if at[k].key == k_formatcode() { assert(nf_fold(at, k + 1) == Some(NfAcc { code: unesc(at[k].raw)->Some_0, ..acc })); }
                                        else { assert(nf_fold(at, k + 1) == Some(acc)); }
                                    }
                                }
//@@ before /if !?format\./
                            proof { if good { assert(nf_fold(at, at.len() as int)->Some_0.id == id@ && nf_fold(at, at.len() as int)->Some_0.code == format@); assert(format@.len() > 0); } }
//@@ before /number_formats\.insert\(/
                                proof { axiom_bytes_keyed_insert(number_formats@, id, format); }
//@@ loop 3
                    invariant_except_break
                        good ==> st.ctx is CellXfs,
                        good ==> st.root,
                    invariant
                        xml.events() == ev, xml.pos() > opos,
                        self.strings == old(self).strings && self.sheets == old(self).sheets && self.tables == old(self).tables
                            && self.is_1904 == old(self).is_1904 && self.metadata == old(self).metadata
                            && self.merged_regions == old(self).merged_regions && self.options == old(self).options,
                        //# C10,C01.code_follows_the_schema_walk
                        good ==> st_scan(ev, xml.pos() as int, st) == tot,
                        //# C10,C01.xf_classes_in_document_order_so_far
                        good ==> self.formats@ == f0 + st.xfs,
                        //# C10,C01.custom_formats_registered_so_far
                        good ==> bk_is(number_formats@, st.fmts),
                    ensures
                        good ==> st.ctx is Top,
                    decreases xml.left(),
//@@ before /match xml\.read_event_into\(&mut inner_buf\)/#1of2
                    let ghost xpos = xml.pos() as int;
                    let ghost st2 = st;
                    let ghost stx = if xpos < ev.len() { st_step(ev[xpos], st) } else { StStep::Bad };
                    proof {
                        if good {
                            assert(xpos < ev.len());
                            assert(!(stx is Bad));
                            assert(st2.ctx is CellXfs);
                            assert(stx is Next);
                            if ev[xpos].kind is Start && ev[xpos].local == n_xf() {
                                assert(st2.skip == 0 && is_main(ev[xpos]) && xf_entry(ev[xpos], st2.fmts) is Some);
                                assert(stx->Next_0.xfs == st2.xfs.push(xf_entry(ev[xpos], st2.fmts)->Some_0) && stx->Next_0.fmts == st2.fmts && stx->Next_0.ctx is CellXfs);
                            } else if ev[xpos].kind is End && ev[xpos].local == n_cellxfs() {
                                assert(stx->Next_0.ctx is Top && stx->Next_0.xfs == st2.xfs && stx->Next_0.fmts == st2.fmts);
                            } else { assert(stx->Next_0.ctx is CellXfs && stx->Next_0.xfs == st2.xfs && stx->Next_0.fmts == st2.fmts); }
                            st = stx->Next_0;
                        }
                    }
//@@ before /self\.formats\.\w+\(/
                            let ghost at = ev[xpos].attrs;
                            let ghost fb = self.formats@;
                            proof { assert(e.ev() == ev[xpos]); }
//@@ after /self\.formats\.\w+\([^;]*;/
                            proof {
                                broadcast use lemma_ok_all;
                                let key = k_numfmtid();
                                let v = self.formats@[fb.len() as int];
                                //# C10,C01.xf_class_appended_in_document_order
                                assert(self.formats@ =~= fb.push(v));
                                if good {
                                    assert(all_ok(at));
                                    if forall|j: int| 0 <= j < at.len() ==> !((#[trigger] at[j]).ok && at[j].key == key) {
                                        lemma_ok_key_idx_none(at, key, 0);
                                        //# C10,C01.xf_without_format_id_is_general
                                        assert(v == CellFormat::Other);
                                    } else {
                                        let i0 = choose|i: int| 0 <= i < at.len() && (#[trigger] at[i]).ok && at[i].key == key
                                            && forall|j: int| 0 <= j < i ==> !((#[trigger] at[j]).ok && at[j].key == key);
                                        lemma_first_exists(at, key);
                                        lemma_ok_key_idx_first(at, key, 0, i0);
                                        //# C10,C01.xf_class_of_its_format_id
                                        assert(v == class_of_raw(number_formats@, at[i0].raw));
                                    }
                                    //# C10,C01.xf_class_is_the_declared_one
                                    assert(v == xf_entry(ev[xpos], st2.fmts)->Some_0);
                                    assert((f0 + st2.xfs).push(v) =~= f0 + st2.xfs.push(v));
                                }
                            }
//@@ end
//@@ endimpl

// =====================================================================================================================
// Additions to the A-xml stand-in used by the merged-region readers.  TRUSTED.
// =====================================================================================================================
/// index of the first ':' of s at or after i, s.len() if none
pub open spec fn colon_at(s: Seq<u8>, i: int) -> int
    decreases s.len() - i
{
    if i < 0 || i >= s.len() { s.len() as int } else if s[i] == 0x3au8 { i } else { colon_at(s, i + 1) }
}
/// XML Namespaces: QName = (Prefix ':')? LocalPart -- the local part of a qualified name (quick-xml `QName::local_name`)
pub open spec fn local_of(name: Seq<u8>) -> Seq<u8> {
    let c = colon_at(name, 0);
    if c >= name.len() { name } else { name.subrange(c + 1, name.len() as int) }
}
proof fn lemma_local_no_colon(n: Seq<u8>, i: int)
    requires 0 <= i <= n.len(), forall|k: int| 0 <= k < n.len() ==> n[k] != 0x3au8,
    ensures colon_at(n, i) == n.len(),
    decreases n.len() - i,
{
    if i < n.len() { lemma_local_no_colon(n, i + 1); }
}
proof fn lemma_plain_names()
    ensures local_of(n_mergecell()) == n_mergecell(),
{
    reveal(n_mergecell);
    lemma_local_no_colon(n_mergecell(), 0);
}
// TRUSTED: A-xml -- `impl PartialEq for LocalName` (derived: compares the bytes) and `impl From<QName> for LocalName` ("the local part")
impl<'a> PartialEq for LocalName<'a> {
    #[verifier::external_body]
    fn eq(&self, o: &LocalName<'a>) -> (r: bool) ensures r == (self.bytes() == o.bytes()) { unimplemented!() }
}
impl<'a> From<QName<'a>> for LocalName<'a> {
    #[verifier::external_body]
    fn from(q: QName<'a>) -> (r: LocalName<'a>) ensures r.bytes() == local_of(q.0@) { unimplemented!() }
}
impl<'a> vstd::std_specs::convert::FromSpecImpl<QName<'a>> for LocalName<'a> {
    open spec fn obeys_from_spec() -> bool { false }
    open spec fn from_spec(q: QName<'a>) -> Self { arbitrary() }
}
impl<'a> Attributes<'a> {
    /// the ghost attributes this iterator (still) ranges over
    pub uninterp spec fn attrs(&self) -> Seq<Attr>;
}
// TRUSTED: A-xml -- representation invariant of the stand-in: the items an `Attributes` value yields are those of its ghost attributes;
// the values are borrowed from the tag (quick-xml never yields `Cow::Owned` here)
pub broadcast axiom fn axiom_attributes_wf<'a>(a: &Attributes<'a>)
    ensures attrs_match(#[trigger] a.items(), a.attrs()),
            forall|i: int| 0 <= i < a.items().len() && (#[trigger] a.items()[i]) is Ok ==> (a.items()[i]->Ok_0).value is Borrowed;
// TRUSTED: A-std -- `Cow::deref` of a borrowed Cow is the borrowed reference
pub broadcast axiom fn axiom_cow_borrowed<'a, 'b>(c: &'b Cow<'a, [u8]>)
    ensures *c matches Cow::Borrowed(b) ==> b@ == (#[trigger] cow_ref(c))@;

// TRUSTED: stand-in for src/xlsx/mod.rs get_dimension (A1 range decoding; under contract in units a1 / xlsxxml, its C06 findings are
// registered there): an ST_Ref (ECMA-376 18.18.62) whose corners are in order decodes to its two corners
pub uninterp spec fn dim_of(s: Seq<u8>) -> Option<Dimensions>;
#[verifier::external_body]
pub(crate) fn get_dimension(dimension: &[u8]) -> (r: Result<Dimensions, XlsxError>)
    ensures dim_of(dimension@) is Some ==> r == Ok::<Dimensions, XlsxError>(dim_of(dimension@)->Some_0),
{ unimplemented!() }

#[verifier::loop_isolation(false)]
//@@ fn src/xlsx/mod.rs get_attribute props=C01,C17 entry ret=r
//@@ sig
    ensures
        //# C01,C17.attribute_lookup
        ({
            let at = atts.attrs();
            let k = tga_idx(at, n.0@, 0);
            if k >= at.len() { r matches Ok(None) } else if !at[k].ok { r is Err } else { r matches Ok(Some(x)) && x@ == at[k].raw }
        }),
//@@ body
    broadcast use {axiom_attributes_wf, axiom_cow_borrowed};
    let ghost at = atts.attrs();
    let ghost items0 = atts.items();
//@@ loop 0 it
        invariant
            it.seq() == items0, attrs_match(items0, at),
            forall|i: int| 0 <= i < items0.len() && (#[trigger] items0[i]) is Ok ==> (items0[i]->Ok_0).value is Borrowed,
            tga_idx(at, n.0@, it.index@ as int) == tga_idx(at, n.0@, 0),
//@@ before /match a \{/
        let ghost k = it.index@ as int;
        proof {
            assert(0 <= k < at.len());
            assert(a == items0[k]);
            assert(tga_idx(at, n.0@, k) == (if !at[k].ok || at[k].key == n.0@ { k } else { tga_idx(at, n.0@, k + 1) }));
            if a is Ok { assert(at[k].ok && (a->Ok_0).is(at[k]) && (a->Ok_0).value is Borrowed); }
        }
//@@ end

// TRUSTED: A-std -- `str::starts_with(&str)`: "Returns true if the given pattern matches a prefix of this string slice" (`pat_chars`: the
// characters of a `&str` pattern).  Not called by the verified text; present so that an edit replacing an exact comparison by a prefix
// test is verified against the contracts, not rejected.
pub uninterp spec fn pat_chars<P>(p: P) -> Seq<char>;
pub broadcast axiom fn axiom_pat_chars_str(p: &str)
    ensures #[trigger] pat_chars::<&str>(p) == p@;
#[verifier::allow(undeclared_external_trait)]
pub assume_specification<P: std::str::pattern::Pattern>[ str::starts_with ](s: &str, p: P) -> (r: bool)
    ensures r == is_prefix(pat_chars(p), s@);
// TRUSTED: (A-std) `iter_rem` names the elements a slice iterator has not yet yielded; tied to vstd's own `IteratorSpec::remaining` (a
// separate uninterpreted name is needed where a `for` loop is desugared by rule R6: the loop measure)
pub uninterp spec fn iter_rem<'a, T>(it: &std::slice::Iter<'a, T>) -> Seq<&'a T>;
#[verifier::external_body]
pub broadcast proof fn axiom_iter_rem<'a, T>(it: &std::slice::Iter<'a, T>)
    ensures #[trigger] iter_rem(it) == IteratorSpec::remaining(it) {}
// TRUSTED: A-std -- `to_string()` of a String (through Display) is its content
pub broadcast axiom fn axiom_string_to_string(t: &String, s: String)
    ensures #[trigger] to_string_from_display_ensures::<String>(t, s) <==> s@ == t@;

// =====================================================================================================================
// C17: merged regions of a worksheet part.  ECMA-376 Part 1, 18.3.1.99 worksheet (CT_Worksheet): sequence sheetPr?, dimension?,
// sheetViews?, sheetFormatPr?, cols*, sheetData, ..., mergeCells?, phoneticPr?, conditionalFormatting*, ..., extLst?.
//   18.3.1.55 mergeCells (CT_MergeCells) = mergeCell+ ; 18.3.1.54 mergeCell: empty element with the required attribute ref (ST_Ref).
// "The regions a sheet declares" = the refs of the mergeCell children of the mergeCells child of the part's root element, in
// document order.  The definition walks the event sequence of the whole part (to its end) with the element context of the schema;
// elements named mergeCell / mergeCells anywhere else are `Bad` (not covered).
// =====================================================================================================================
pub enum WsCtx { Top, Merge }
pub ghost struct WsSt {
    pub root: bool,                 // the root start tag has been met
    pub closed: bool,               // ... and its end tag
    pub ctx: WsCtx,                 // content of: the root element / mergeCells
    pub skip: nat,                  // > 0: inside an element whose content is skipped, at this depth
    pub seen: bool,                 // mergeCells has been met
    pub regions: Seq<Dimensions>,   // regions declared so far, in document order
}
pub enum WsStep { Next(WsSt), Bad }
pub ghost struct WsRes { pub ok: bool, pub regions: Seq<Dimensions> }
pub open spec fn ws_init() -> WsSt { WsSt { root: false, closed: false, ctx: WsCtx::Top, skip: 0, seen: false, regions: Seq::empty() } }
/// an element a name-matching reader would mistake for a merged-region declaration
pub open spec fn mc_stray(e: Ev) -> bool { e.local == n_mergecell() || e.local == n_mergecells() }
/// the region a mergeCell element declares: its `ref` attribute (required) decoded as ST_Ref; None: absent / malformed
pub open spec fn mc_entry(e: Ev) -> Option<Dimensions> {
    let k = tga_idx(e.attrs, k_ref(), 0);
    if k >= e.attrs.len() || !e.attrs[k].ok { None } else { dim_of(e.attrs[k].raw) }
}
pub open spec fn ws_step(e: Ev, s: WsSt) -> WsStep {
    if e.kind is Error { WsStep::Bad }
    else if s.closed {
        // after the root element: comments, processing instructions, white space only
        if e.is_tag() { WsStep::Bad } else { WsStep::Next(s) }
    } else if !s.root {
        if e.kind is Start { if mc_stray(e) { WsStep::Bad } else { WsStep::Next(WsSt { root: true, ..s }) } }
        else if e.kind is End { WsStep::Bad }
        else { WsStep::Next(s) }
    } else {
        match s.ctx {
            WsCtx::Top =>
                if s.skip > 0 {
                    if e.kind is Start { if mc_stray(e) { WsStep::Bad } else { WsStep::Next(WsSt { skip: s.skip + 1, ..s }) } }
                    else if e.kind is End { WsStep::Next(WsSt { skip: (s.skip - 1) as nat, ..s }) }
                    else { WsStep::Next(s) }
                } else if e.kind is Start {
                    if is_main(e) && e.local == n_mergecells() {
                        if s.seen { WsStep::Bad } else { WsStep::Next(WsSt { ctx: WsCtx::Merge, seen: true, ..s }) }
                    } else if mc_stray(e) { WsStep::Bad }
                    else { WsStep::Next(WsSt { skip: 1, ..s }) }
                } else if e.kind is End { WsStep::Next(WsSt { closed: true, ..s }) }
                else { WsStep::Next(s) },
            WsCtx::Merge =>
                if e.kind is Start {
                    if is_main(e) && e.local == n_mergecell() {
                        match mc_entry(e) { Some(d) => WsStep::Next(WsSt { regions: s.regions.push(d), ..s }), None => WsStep::Bad }
                    } else { WsStep::Bad }
                } else if e.kind is End {
                    if e.local == n_mergecells() { WsStep::Next(WsSt { ctx: WsCtx::Top, ..s }) }
                    else if e.local == n_mergecell() { WsStep::Next(s) } else { WsStep::Bad }
                } else { WsStep::Next(s) },
        }
    }
}
pub open spec fn ws_bad() -> WsRes { WsRes { ok: false, regions: Seq::empty() } }
pub open spec fn ws_scan(ev: Seq<Ev>, i: int, s: WsSt) -> WsRes
    decreases ev.len() - i
{
    if i < 0 { ws_bad() }
    else if i >= ev.len() { if s.closed { WsRes { ok: true, regions: s.regions } } else { ws_bad() } }
    else {
        match ws_step(ev[i], s) {
            WsStep::Next(s2) => ws_scan(ev, i + 1, s2),
            WsStep::Bad => ws_bad(),
        }
    }
}
/// the merged regions a worksheet part declares
pub open spec fn ws_part(ev: Seq<Ev>) -> WsRes { ws_scan(ev, 0, ws_init()) }

/// <worksheet><sheetData/><mergeCells><mergeCell ref=R/></mergeCells></worksheet> declares the one region R decodes to
proof fn witness_ws_part(ns: Seq<u8>, other: Seq<u8>, r_raw: Seq<u8>, d: Dimensions)
    requires is_main_ns(ns), dim_of(r_raw) == Some(d), other != n_mergecell(), other != n_mergecells(),
    ensures ({
        let ev = seq![
            ev_tag(EvKind::Start, n_worksheet(), ns, Seq::empty()),
            ev_tag(EvKind::Start, other, ns, Seq::empty()),
            ev_tag(EvKind::End, other, ns, Seq::empty()),
            ev_tag(EvKind::Start, n_mergecells(), ns, Seq::empty()),
            ev_tag(EvKind::Start, n_mergecell(), ns, seq![at_ok(k_ref(), r_raw)]),
            ev_tag(EvKind::End, n_mergecell(), ns, Seq::empty()),
            ev_tag(EvKind::End, n_mergecells(), ns, Seq::empty()),
            ev_tag(EvKind::End, n_worksheet(), ns, Seq::empty())];
        ws_part(ev).ok && ws_part(ev).regions == seq![d] }),
{
    lemma_names_distinct();
    let at = seq![at_ok(k_ref(), r_raw)];
    reveal_with_fuel(tga_idx, 2);
    assert(tga_idx(at, k_ref(), 0) == 0);
    assert(mc_entry(ev_tag(EvKind::Start, n_mergecell(), ns, at)) == Some(d));
    reveal_with_fuel(ws_scan, 10);
    assert(Seq::<Dimensions>::empty().push(d) =~= seq![d]);
}

/// (name, part name, region) triples as plain values
pub type RegV = (Seq<char>, Seq<char>, Dimensions);
pub open spec fn rv(v: Seq<(String, String, Dimensions)>) -> Seq<RegV> { v.map_values(|t: (String, String, Dimensions)| (t.0@, t.1@, t.2)) }
pub open spec fn tag(name: Seq<char>, path: Seq<char>, rs: Seq<Dimensions>) -> Seq<RegV> { rs.map_values(|d: Dimensions| (name, path, d)) }
pub open spec fn refs3(v: Seq<(&String, &String, &Dimensions)>) -> Seq<(String, String, Dimensions)> {
    v.map_values(|t: (&String, &String, &Dimensions)| (*t.0, *t.1, *t.2))
}
/// the entries recorded under exactly this sheet name, order preserved
pub open spec fn regions_named(v: Seq<(String, String, Dimensions)>, name: Seq<char>) -> Seq<(String, String, Dimensions)>
    decreases v.len()
{
    if v.len() == 0 { Seq::empty() } else {
        let k = regions_named(v.drop_last(), name);
        if v.last().0@ == name { k.push(v.last()) } else { k }
    }
}
/// the part of a sheet is absent, or it is a readable worksheet part covered by the definition above
pub open spec fn sheet_part_ok(c: ZipContent, path: Seq<char>) -> bool {
    !has_part(c, path) || (part_events(c, path) is Some && ws_part(part_events(c, path)->Some_0).ok)
}
/// the regions the part declares (none if the archive has no such part)
pub open spec fn part_regions(c: ZipContent, path: Seq<char>) -> Seq<Dimensions> {
    if has_part(c, path) && part_events(c, path) is Some { ws_part(part_events(c, path)->Some_0).regions } else { Seq::empty() }
}
/// regions of the first k sheets, sheet by sheet in workbook order, each tagged with its sheet's name and part name
pub open spec fn all_regions(c: ZipContent, sh: Seq<(String, String)>, k: int) -> Seq<RegV>
    decreases k
{
    if k <= 0 { Seq::empty() } else { all_regions(c, sh, k - 1) + tag(sh[k - 1].0@, sh[k - 1].1@, part_regions(c, sh[k - 1].1@)) }
}
pub open spec fn sheets_ok(c: ZipContent, sh: Seq<(String, String)>) -> bool { forall|i: int| 0 <= i < sh.len() ==> sheet_part_ok(c, (#[trigger] sh[i]).1@) }

//@@ impl src/xlsx/mod.rs Xlsx
#[verifier::loop_isolation(false)]
#[verifier::allow_complex_invariants]
//@@ fn src/xlsx/mod.rs Xlsx::read_merged_regions props=C17,C07 entry ret=r
//@@ sig
    ensures
        //# C17,C07.read_merged_regions_frame
        final(self).strings == old(self).strings && final(self).sheets == old(self).sheets && final(self).tables == old(self).tables
            && final(self).formats == old(self).formats && final(self).is_1904 == old(self).is_1904 && final(self).metadata == old(self).metadata
            && final(self).options == old(self).options && content(final(self).zip) == content(old(self).zip),
        //# C17.merged_regions_loaded_or_unchanged
        (r is Ok ==> final(self).merged_regions is Some) && (r is Err ==> final(self).merged_regions == old(self).merged_regions),
        //# C17.merged_regions_per_sheet_in_order
        sheets_ok(content(old(self).zip), old(self).sheets@) ==> r is Ok
            && rv(final(self).merged_regions->Some_0@) == all_regions(content(old(self).zip), old(self).sheets@, old(self).sheets@.len() as int),
//@@ body
        broadcast use {axiom_iter_rem, axiom_string_to_string, lemma_bytes_eq_array};
//@@ before /let mut regions = /
        let ghost c = content(self.zip);
        let ghost sh = self.sheets@;
        let ghost allok = sheets_ok(c, sh);
        let ghost mut k: int = 0;
        proof { axiom_bytelits(); lemma_names_distinct(); lemma_plain_names(); }
//@@ r6 0 iter /&self\.sheets/ `<&Vec<T> as IntoIterator>::into_iter` is `iter()` (vstd specifies the latter)
self.sheets.iter()
//@@ loop 0
            invariant
                self.strings == old(self).strings && self.sheets == old(self).sheets && self.tables == old(self).tables
                    && self.formats == old(self).formats && self.is_1904 == old(self).is_1904 && self.metadata == old(self).metadata
                    && self.options == old(self).options && self.merged_regions == old(self).merged_regions
                    && content(self.zip) == content(old(self).zip),
                0 <= k <= sh.len(), iter_rem(&__it0).len() == sh.len() - k,
                forall|j: int| 0 <= j < iter_rem(&__it0).len() ==> *(#[trigger] iter_rem(&__it0)[j]) == sh[k + j],
                //# C17.regions_of_the_sheets_so_far
                allok ==> rv(regions@) =~= all_regions(c, sh, k),
            decreases iter_rem(&__it0).len(),
//@@ before /let mut xml = match xml_reader/
                let ghost nm = sheet_name@;
                let ghost pth = sheet_path@;
                let ghost base = rv(regions@);
                proof {
                    k = k + 1;
                    assert(sh[k - 1].0@ == nm && sh[k - 1].1@ == pth);
                    if allok { assert(sheet_part_ok(c, pth)); }
                    if !has_part(c, pth) { assert(all_regions(c, sh, k) =~= all_regions(c, sh, k - 1)); }
                }
//@@ before /let mut buf = Vec::new\(\);/
                let ghost ev = xml.events();
                let ghost tot = ws_part(ev);
                let ghost mut wst = ws_init();
                proof {
                    if allok { assert(part_events(c, pth) == Some(ev)); assert(tot.ok); }
                    assert(base + tag(nm, pth, wst.regions) =~= base);
                }
//@@ loop 1
                invariant
                    xml.events() == ev,
                    self.strings == old(self).strings && self.sheets == old(self).sheets && self.tables == old(self).tables
                        && self.formats == old(self).formats && self.is_1904 == old(self).is_1904 && self.metadata == old(self).metadata
                        && self.options == old(self).options && self.merged_regions == old(self).merged_regions,
                    //# C17.code_follows_the_schema_walk
                    allok ==> ws_scan(ev, xml.pos() as int, wst) == tot,
                    //# C17.regions_of_this_sheet_so_far
                    allok ==> rv(regions@) =~= base + tag(nm, pth, wst.regions),
                ensures
                    allok ==> wst.regions == tot.regions,
                decreases xml.left(),
//@@ before /match xml\.read_event_into\(&mut buf\)/
                    let ghost pos = xml.pos() as int;
                    let ghost w0 = wst;
                    let ghost stp = if pos < ev.len() { ws_step(ev[pos], wst) } else { WsStep::Bad };
                    proof {
                        if allok && pos < ev.len() {
                            assert(stp is Next);
                            wst = stp->Next_0;
                            if ev[pos].kind is Start && ev[pos].local == n_mergecell() {
                                assert(w0.ctx is Merge && is_main(ev[pos]) && mc_entry(ev[pos]) is Some && wst.regions == w0.regions.push(mc_entry(ev[pos])->Some_0));
                            } else { assert(wst.regions == w0.regions); }
                        }
                    }
//@@ before /if let Some\(attr\) = get_attribute/
                            proof { assert(e.ev() == ev[pos]); assert(ev[pos].kind is Start && ev[pos].local == n_mergecell()); }
//@@ after /regions\.push\([^;]*;/
                                proof {
                                    if allok {
                                        let d = mc_entry(ev[pos])->Some_0;
                                        //# C17.region_attributed_to_the_sheet_being_read
                                        assert(rv(regions@) =~= (base + tag(nm, pth, w0.regions)).push((nm, pth, d)));
                                        assert(tag(nm, pth, w0.regions.push(d)) =~= tag(nm, pth, w0.regions).push((nm, pth, d)));
                                    }
                                }
//@@ before /self\.merged_regions = Some\(regions\)/
        proof { assert(k == sh.len()); }
//@@ end
//@@ endimpl

// =====================================================================================================================
// State of an opened workbook as seen by contracts of `pub` functions (the fields of struct Xlsx are private)
// =====================================================================================================================
impl<RS> Xlsx<RS> {
    pub closed spec fn g_zip(&self) -> ZipArchive<RS> { self.zip }
    pub closed spec fn g_strings(&self) -> Vec<String> { self.strings }
    pub closed spec fn g_sheets(&self) -> Vec<(String, String)> { self.sheets }
    pub closed spec fn g_tables(&self) -> Tables { self.tables }
    pub closed spec fn g_formats(&self) -> Vec<CellFormat> { self.formats }
    pub closed spec fn g_1904(&self) -> bool { self.is_1904 }
    pub closed spec fn g_meta(&self) -> Metadata { self.metadata }
    pub closed spec fn g_merged(&self) -> Option<Vec<(String, String, Dimensions)>> { self.merged_regions }
    pub closed spec fn g_opts(&self) -> XlsxOptions { self.options }
    /// everything but the merged-region cache (the archive through its logical content)
    pub open spec fn but_merged(&self) -> (ZipContent, Vec<String>, Vec<(String, String)>, Tables, Vec<CellFormat>, bool, Metadata, XlsxOptions) {
        (content(self.g_zip()), self.g_strings(), self.g_sheets(), self.g_tables(), self.g_formats(), self.g_1904(), self.g_meta(), self.g_opts())
    }
    /// everything but the table cache
    pub open spec fn but_tables(&self) -> (ZipContent, Vec<String>, Vec<(String, String)>, Vec<CellFormat>, bool, Metadata, Option<Vec<(String, String, Dimensions)>>, XlsxOptions) {
        (content(self.g_zip()), self.g_strings(), self.g_sheets(), self.g_formats(), self.g_1904(), self.g_meta(), self.g_merged(), self.g_opts())
    }
}

//@@ impl src/xlsx/mod.rs Xlsx
//@@ fn src/xlsx/mod.rs Xlsx::load_merged_regions props=C17,C07 entry ret=r
//@@ sig
    ensures
        //# C17,C07.load_merged_regions_frame
        final(self).but_merged() == old(self).but_merged(),
        //# C17,C07.load_merged_regions_idempotent
        old(self).g_merged() is Some ==> r is Ok && final(self).g_merged() == old(self).g_merged(),
        //# C17.merged_regions_loaded_or_unchanged
        (r is Ok ==> final(self).g_merged() is Some) && (r is Err ==> final(self).g_merged() == old(self).g_merged()),
        //# C17.merged_regions_per_sheet_in_order
        old(self).g_merged() is None && sheets_ok(content(old(self).g_zip()), old(self).g_sheets()@) ==> r is Ok
            && rv(final(self).g_merged()->Some_0@) == all_regions(content(old(self).g_zip()), old(self).g_sheets()@, old(self).g_sheets()@.len() as int),
//@@ end
//@@ fn src/xlsx/mod.rs Xlsx::merged_regions props=C17 ret=r
//@@ sig
    requires
        //# C17.merged_regions_loaded  (documented: "Merged Regions must be loaded before the are referenced")
        self.g_merged() is Some,
    ensures
        //# C17.merged_regions_are_the_loaded_ones
        *r == self.g_merged()->Some_0,
//@@ end
#[verifier::loop_isolation(false)]
//@@ fn src/xlsx/mod.rs Xlsx::merged_regions_by_sheet props=C17,C06 ret=r
//@@ sig
    requires
        //# C17.merged_regions_loaded
        self.g_merged() is Some,
    ensures
        //# C17.regions_of_exactly_this_sheet_in_order
        refs3(r@) == regions_named(self.g_merged()->Some_0@, name@),
//@@ replace /(self\s*\.merged_regions\(\)\s*\.iter\(\))\s*\.filter\(\|s\| ([^\n]*)\)\s*\.map\(\|(\([^|]*\))\| ([^\n]*)\)\s*\.collect\(\)/ Verus: vstd's prophetic specification of `Iterator::filter` is out of reach here; `it.filter(|s| P).map(|PAT| E).collect()` is unfolded into the loop that defines it (std: filter yields the elements for which the predicate returns true, map applies the function, collect gathers in order); the iterator expression, the predicate, the pattern and the mapped expression are re-inserted verbatim
{
            let mut __out = Vec::new();
            let ghost src = self.merged_regions->Some_0@;
            for __x in it: \g<1>
                invariant
                    src == self.merged_regions->Some_0@,
                    //# C17.regions_of_exactly_this_sheet_so_far
                    refs3(__out@) == regions_named(src.take(it.index@ as int), name@),
            {
                let ghost i = it.index@ as int;
                proof { assert(*__x == src[i]); assert(src.take(i + 1).drop_last() =~= src.take(i)); }
                let __keep = { let s = &__x; \g<2> };
                if __keep { let \g<3> = __x; __out.push(\g<4>); proof { assert(refs3(__out@) =~= regions_named(src.take(i), name@).push(src[i])); } }
            }
            proof { assert(src.take(src.len() as int) =~= src); }
            __out
        }
//@@ end
//@@ endimpl

// =====================================================================================================================
// C17: worksheet_merge_cells(name) / worksheet_merge_cells_at(n)
// =====================================================================================================================
pub ghost struct McRes { pub ok: bool, pub regions: Seq<Dimensions>, pub end: int }
/// content of a `mergeCells` element from event i on (the start tag has been read) -- the definition unit xlsxxml verifies
/// `read_merge_cells` against (restated in this unit's event model: local names are a field of the ghost event)
pub open spec fn mc_scan(ev: Seq<Ev>, i: int, acc: Seq<Dimensions>) -> McRes
    decreases ev.len() - i
{
    if i < 0 || i >= ev.len() { McRes { ok: false, regions: acc, end: i } }
    else {
        let e = ev[i];
        if e.kind is Error { McRes { ok: false, regions: acc, end: i } }
        else if e.kind is Start {
            if e.local == n_mergecell() {
                match mc_entry(e) { Some(d) => mc_scan(ev, i + 1, acc.push(d)), None => McRes { ok: false, regions: acc, end: i } }
            } else { McRes { ok: false, regions: acc, end: i } }
        } else if e.kind is End {
            if e.local == n_mergecells() { McRes { ok: true, regions: acc, end: i } }
            else if e.local == n_mergecell() { mc_scan(ev, i + 1, acc) }
            else { McRes { ok: false, regions: acc, end: i } }
        } else { mc_scan(ev, i + 1, acc) }
    }
}
// TRUSTED: callee contract of src/xlsx/mod.rs read_merge_cells, under contract in unit xlsxxml (clauses C17.merge_reader_frame,
// C17.merge_regions_in_order: one region per `<mergeCell ref>` in document order up to `</mergeCells>`)
#[verifier::external_body]
fn read_merge_cells(xml: &mut XlReader<'_>) -> (r: Result<Vec<Dimensions>, XlsxError>)
    ensures
        final(xml).events() == old(xml).events() && final(xml).pos() >= old(xml).pos(),
        ({ let m = mc_scan(old(xml).events(), old(xml).pos() as int, Seq::empty());
           m.ok ==> r is Ok && r->Ok_0@ == m.regions && final(xml).pos() == m.end + 1 }),
{ unimplemented!() }
// Stand-in for the trait `Reader` of src/lib.rs, restricted to the method the verified text calls (signature copied)
pub trait Reader<RS>: Sized where RS: Read + Seek {
    fn metadata(&self) -> &Metadata;
}
impl<RS: Read + Seek> Reader<RS> for Xlsx<RS> {
    // TRUSTED: `Reader::metadata` for Xlsx (src/xlsx/mod.rs: returns `&self.metadata`)
    #[verifier::external_body]
    fn metadata(&self) -> (r: &Metadata)
        ensures *r == self.g_meta(),
    { unimplemented!() }
}

// TRUSTED: (A-std) documented behaviour of `slice::Iter::find`: first element (in order) for which the predicate returns true
/// f holds of the first n elements (used with f = "the predicate returns false")
pub closed spec fn rejects<'a, T>(rem: Seq<&'a T>, f: spec_fn(&'a T) -> bool, n: int) -> bool {
    forall|j: int| 0 <= j < n && j < rem.len() ==> f(#[trigger] rem[j])
}
/// (proved) `rejects` read on the slice side: re-triggering on `s[i]`
pub broadcast proof fn lemma_rejects<'a, T>(rem: Seq<&'a T>, f: spec_fn(&'a T) -> bool, n: int, s: Seq<T>, i: int)
    requires rejects(rem, f, n), rem.len() == s.len(), forall|j: int| 0 <= j < s.len() ==> *(#[trigger] rem[j]) == s[j], 0 <= i < n, i < s.len(),
    ensures #![trigger rejects(rem, f, n), s[i]] f(&s[i])
{
    assert(*rem[i] == s[i]);
}
pub assume_specification<'a, T, P: FnMut(&<std::slice::Iter<'a, T> as Iterator>::Item) -> bool>[ <std::slice::Iter<'a, T> as Iterator>::find::<P> ](it: &mut std::slice::Iter<'a, T>, pred: P) -> (r: Option<<std::slice::Iter<'a, T> as Iterator>::Item>)
    where std::slice::Iter<'a, T>: Sized
    ensures
        match r {
            Some(x) => exists|i: int| 0 <= i < iter_rem(old(it)).len() && x == #[trigger] iter_rem(old(it))[i] && call_ensures(pred, (&x,), true)
                && rejects(iter_rem(old(it)), |y: &'a T| call_ensures(pred, (&y,), false), i),
            None => rejects(iter_rem(old(it)), |y: &'a T| call_ensures(pred, (&y,), false), iter_rem(old(it)).len() as int),
        };
impl<RS> Xlsx<RS> {
    /// `name` is (exactly: same characters, same case) the name of one of the sheets listed in workbook.xml
    pub open spec fn knows(&self, name: Seq<char>) -> bool { exists|i: int| 0 <= i < self.g_sheets()@.len() && (#[trigger] self.g_sheets()@[i]).0@ == name }
}
/// the first sheet entry with exactly this name
pub open spec fn first_named(sh: Seq<(String, String)>, name: Seq<char>, i: int) -> bool {
    0 <= i < sh.len() && sh[i].0@ == name && forall|j: int| 0 <= j < i ==> (#[trigger] sh[j]).0@ != name
}
/// inside mergeCells the walk of the part and the walk of the element (`mc_scan`) agree, and the part's walk resumes after `</mergeCells>`
proof fn lemma_ws_merge_run(ev: Seq<Ev>, i: int, s: WsSt)
    requires 0 <= i, s.root, !s.closed, s.ctx is Merge, ws_scan(ev, i, s).ok,
    ensures ({ let m = mc_scan(ev, i, s.regions);
               m.ok && i <= m.end < ev.len() && ws_scan(ev, m.end + 1, WsSt { ctx: WsCtx::Top, regions: m.regions, ..s }) == ws_scan(ev, i, s) }),
    decreases ev.len() - i,
{
    if i < ev.len() {
        let e = ev[i];
        match ws_step(e, s) {
            WsStep::Next(s2) => {
                if e.kind is End && e.local == n_mergecells() {
                } else {
                    lemma_ws_merge_run(ev, i + 1, s2);
                }
            },
            WsStep::Bad => {},
        }
    }
}
/// once mergeCells has been read the rest of the part declares no further region
proof fn lemma_ws_after_merge(ev: Seq<Ev>, i: int, s: WsSt)
    requires 0 <= i, s.seen, s.ctx is Top, ws_scan(ev, i, s).ok,
    ensures ws_scan(ev, i, s).regions == s.regions,
    decreases ev.len() - i,
{
    if i < ev.len() {
        match ws_step(ev[i], s) {
            WsStep::Next(s2) => { lemma_ws_after_merge(ev, i + 1, s2); },
            WsStep::Bad => {},
        }
    }
}
impl Metadata {
    /// the sheet descriptors, in workbook order
    pub closed spec fn m_sheets(&self) -> Seq<Sheet> { self.sheets@ }
}
/// what `worksheet_merge_cells(name)` must return for a workbook with these sheets over this archive
pub open spec fn merge_cells_of(sh: Seq<(String, String)>, c: ZipContent, name: Seq<char>, r: Option<Result<Vec<Dimensions>, XlsxError>>) -> bool {
    &&& ((forall|i: int| 0 <= i < sh.len() ==> (#[trigger] sh[i]).0@ != name) ==> r is None)
    &&& forall|i: int| #[trigger] first_named(sh, name, i) ==> ({
            let path = sh[i].1@;
            &&& (r is None <==> !has_part(c, path))
            &&& (has_part(c, path) && part_events(c, path) is None ==> r is Some && r->Some_0 is Err)
            &&& (has_part(c, path) && part_events(c, path) is Some && ws_part(part_events(c, path)->Some_0).ok ==>
                    r is Some && r->Some_0 is Ok && (r->Some_0->Ok_0)@ == ws_part(part_events(c, path)->Some_0).regions)
        })
}

//@@ impl src/xlsx/mod.rs Xlsx
#[verifier::loop_isolation(false)]
#[verifier::allow_complex_invariants]
//@@ fn src/xlsx/mod.rs Xlsx::worksheet_merge_cells props=C17,C07 entry ret=r
//@@ sig
    ensures
        //# C17,C07.worksheet_merge_cells_frame
        final(self).but_merged() == old(self).but_merged() && final(self).g_merged() == old(self).g_merged(),
        //# C17,C07.merge_cells_of_the_named_sheet
        merge_cells_of(old(self).g_sheets()@, content(old(self).g_zip()), name@, r),
//@@ closure 0
    -> (res: bool) ensures
        //# C17,C07.sheet_lookup_exact_name
        res == (__c0_0.0@ == name@)
//@@ closure 1
    -> (res: Result<Vec<Dimensions>, XlsxError>) ensures
        //# C17.part_open_error_is_returned
        xml is Err ==> res is Err,
        //# C17.merge_cells_of_the_part
        xml is Ok && (xml->Ok_0).pos() == 0 && ws_part((xml->Ok_0).events()).ok ==> res is Ok && (res->Ok_0)@ == ws_part((xml->Ok_0).events()).regions
//@@ body
        broadcast use {axiom_iter_rem, lemma_rejects, lemma_bytes_eq_array};
        let ghost sh = self.sheets@;
        proof { axiom_bytelits(); lemma_names_distinct(); }
//@@ before /let xml = xml_reader\(/
        proof {
            assert(exists|k: int| 0 <= k < sh.len() && (#[trigger] sh[k]).1 == *path && first_named(sh, name@, k));
        }
//@@ before /let mut merge_cells = Vec::new\(\);/
            let ghost ev = xml.events();
            let ghost tot = ws_part(ev);
            let ghost good = tot.ok && xml.pos() == 0;
            let ghost mut wst = ws_init();
//@@ loop 0
                invariant_except_break
                    good ==> ws_scan(ev, xml.pos() as int, wst) == tot,
                    good ==> wst.ctx is Top && !wst.seen && wst.regions.len() == 0 && merge_cells@.len() == 0,
                invariant
                    xml.events() == ev,
                ensures
                    good ==> merge_cells@ == tot.regions,
                decreases xml.left(),
//@@ before /match xml\.read_event_into\(&mut buffer\)/
                let ghost pos = xml.pos() as int;
                let ghost w0 = wst;
                let ghost stp = if pos < ev.len() { ws_step(ev[pos], wst) } else { WsStep::Bad };
                proof {
                    if good {
                        if pos < ev.len() {
                            assert(stp is Next);
                            wst = stp->Next_0;
                            if ev[pos].kind is Start && ev[pos].local == n_mergecells() {
                                assert(w0.root && !w0.closed && w0.skip == 0 && is_main(ev[pos]));
                                assert(wst == WsSt { ctx: WsCtx::Merge, seen: true, ..w0 });
                                lemma_ws_merge_run(ev, pos + 1, wst);
                                let m = mc_scan(ev, pos + 1, wst.regions);
                                lemma_ws_after_merge(ev, m.end + 1, WsSt { ctx: WsCtx::Top, regions: m.regions, ..wst });
                                assert(wst.regions =~= Seq::<Dimensions>::empty());
                                assert(m.regions == tot.regions);
                            } else {
                                assert(wst.ctx is Top && !wst.seen && wst.regions == w0.regions);
                            }
                        } else {
                            assert(tot.regions == wst.regions);
                            assert(merge_cells@ =~= tot.regions);
                        }
                    }
                }
//@@ before /if let Ok\(cells\) = read_merge_cells/
                        proof { assert(event.ev() == ev[pos]); assert(ev[pos].kind is Start && ev[pos].local == n_mergecells()); }
//@@ end
//@@ fn src/xlsx/mod.rs Xlsx::worksheet_merge_cells_at props=C17,C07 entry ret=r
//@@ sig
    ensures
        //# C17,C07.worksheet_merge_cells_frame
        final(self).but_merged() == old(self).but_merged() && final(self).g_merged() == old(self).g_merged(),
        //# C17.no_such_sheet_index
        n >= old(self).g_meta().m_sheets().len() ==> r is None,
        //# C17,C07.merge_cells_of_the_nth_sheet
        n < old(self).g_meta().m_sheets().len() ==> merge_cells_of(old(self).g_sheets()@, content(old(self).g_zip()), old(self).g_meta().m_sheets()[n as int].name@, r),
//@@ closure 0
    -> (res: String) ensures
        //# C17.nth_sheet_name
        res@ == sheet.name@
//@@ end
//@@ endimpl

// =====================================================================================================================
// C01: xl/_rels/workbook.xml.rels.  ECMA-376 Part 2 (OPC), 9.3 Relationships part: root element Relationships (namespace
// http://schemas.openxmlformats.org/package/2006/relationships) with Relationship children (empty elements): attributes Id (required,
// xsd:ID, unique in the part), Type (required), Target (required, xsd:anyURI), TargetMode (optional).
// The relationships of the workbook part are the map Id -> Target VALUE (attribute value with XML references resolved: a target such
// as `worksheets/a&b.xml` is written `Target="worksheets/a&amp;b.xml"`).  Ids are compared as written (read_workbook looks the
// `r:id` of a sheet up with its raw bytes).
// =====================================================================================================================
/// the OPC relationships namespace `http://schemas.openxmlformats.org/package/2006/relationships`
pub uninterp spec fn is_pkgrel_ns(ns: Seq<u8>) -> bool;
pub ghost struct RlAcc { pub id: Seq<u8>, pub target: Seq<char> }
/// Id / Target of a Relationship element read off its first k attributes; None: an attribute is malformed or the target cannot be unescaped
pub open spec fn rl_fold(attrs: Seq<Attr>, k: int) -> Option<RlAcc>
    decreases k
{
    if k <= 0 { Some(RlAcc { id: Seq::empty(), target: Seq::empty() }) }
    else {
        match rl_fold(attrs, k - 1) {
            None => None,
            Some(acc) => {
                let a = attrs[k - 1];
                if !a.ok { None }
                else if a.key == k_id_cap() { Some(RlAcc { id: a.raw, ..acc }) }
                else if a.key == k_target() { match unesc(a.raw) { Some(v) => Some(RlAcc { target: v, ..acc }), None => None } }
                else { Some(acc) }
            },
        }
    }
}
proof fn lemma_rl_fold_prefix(attrs: Seq<Attr>, k: int, n: int)
    requires 0 <= k <= n, rl_fold(attrs, n) is Some,
    ensures rl_fold(attrs, k) is Some,
    decreases n - k,
{
    if k < n { lemma_rl_fold_prefix(attrs, k + 1, n); }
}
/// the (Id, Target) a Relationship element declares; None: malformed, or a required attribute is missing
pub open spec fn rel_entry(e: Ev) -> Option<RlAcc> {
    match rl_fold(e.attrs, e.attrs.len() as int) {
        None => None,
        Some(acc) => if has_key(e.attrs, k_id_cap(), e.attrs.len() as int) && has_key(e.attrs, k_target(), e.attrs.len() as int) { Some(acc) } else { None },
    }
}
pub ghost struct RlSt { pub root: bool, pub rels: Map<Seq<u8>, Seq<char>> }
pub enum RlStep { Next(RlSt), Done, Bad }
pub ghost struct RlRes { pub ok: bool, pub rels: Map<Seq<u8>, Seq<char>>, pub end: int }
pub open spec fn rl_step(e: Ev, s: RlSt) -> RlStep {
    if e.kind is Error { RlStep::Bad }
    else if !s.root {
        if e.kind is Start { if is_pkgrel_ns(e.ns) && e.local == n_relationships() { RlStep::Next(RlSt { root: true, ..s }) } else { RlStep::Bad } }
        else if e.kind is End { RlStep::Bad }
        else { RlStep::Next(s) }
    } else if e.kind is Start {
        // CT_Relationships: Relationship* (empty elements)
        if is_pkgrel_ns(e.ns) && e.local == n_relationship() {
            match rel_entry(e) { Some(x) => RlStep::Next(RlSt { rels: s.rels.insert(x.id, x.target), ..s }), None => RlStep::Bad }
        } else { RlStep::Bad }
    } else if e.kind is End {
        if e.local == n_relationships() { RlStep::Done } else if e.local == n_relationship() { RlStep::Next(s) } else { RlStep::Bad }
    } else { RlStep::Next(s) }
}
pub open spec fn rl_bad(i: int) -> RlRes { RlRes { ok: false, rels: Map::empty(), end: i } }
pub open spec fn rl_scan(ev: Seq<Ev>, i: int, s: RlSt) -> RlRes
    decreases ev.len() - i
{
    if i < 0 || i >= ev.len() { rl_bad(i) }
    else {
        match rl_step(ev[i], s) {
            RlStep::Next(s2) => rl_scan(ev, i + 1, s2),
            RlStep::Done => RlRes { ok: true, rels: s.rels, end: i },
            RlStep::Bad => rl_bad(i),
        }
    }
}
/// the relationships a relationships part declares
pub open spec fn rl_part(ev: Seq<Ev>) -> RlRes { rl_scan(ev, 0, RlSt { root: false, rels: Map::empty() }) }
pub open spec fn rels_path() -> Seq<char> { "xl/_rels/workbook.xml.rels"@ }

/// <Relationships><Relationship Id=I Target=T/></Relationships> declares the one relationship I -> value of T
proof fn witness_rl_part(ns: Seq<u8>, id: Seq<u8>, t_raw: Seq<u8>, t: Seq<char>)
    requires is_pkgrel_ns(ns), unesc(t_raw) == Some(t),
    ensures ({
        let ev = seq![
            ev_tag(EvKind::Start, n_relationships(), ns, Seq::empty()),
            ev_tag(EvKind::Start, n_relationship(), ns, seq![at_ok(k_id_cap(), id), at_ok(k_target(), t_raw)]),
            ev_tag(EvKind::End, n_relationship(), ns, Seq::empty()),
            ev_tag(EvKind::End, n_relationships(), ns, Seq::empty())];
        rl_part(ev).ok && rl_part(ev).rels == Map::<Seq<u8>, Seq<char>>::empty().insert(id, t) }),
{
    lemma_names_distinct();
    let at = seq![at_ok(k_id_cap(), id), at_ok(k_target(), t_raw)];
    reveal_with_fuel(rl_fold, 3);
    assert(rl_fold(at, 2) == Some(RlAcc { id: id, target: t }));
    assert(at[0].key == k_id_cap() && at[1].key == k_target());
    assert(has_key(at, k_id_cap(), 2) && has_key(at, k_target(), 2));
    assert(rel_entry(ev_tag(EvKind::Start, n_relationship(), ns, at)) == Some(RlAcc { id: id, target: t }));
    reveal_with_fuel(rl_scan, 6);
}

//@@ impl src/xlsx/mod.rs Xlsx
#[verifier::loop_isolation(false)]
#[verifier::allow_complex_invariants]
//@@ fn src/xlsx/mod.rs Xlsx::read_relationships props=C01,C07,C16 entry ret=r
//@@ sig
    ensures
        //# C01.read_relationships_frame
        final(self).strings == old(self).strings && final(self).sheets == old(self).sheets && final(self).tables == old(self).tables
            && final(self).formats == old(self).formats && final(self).is_1904 == old(self).is_1904 && final(self).metadata == old(self).metadata
            && final(self).merged_regions == old(self).merged_regions && final(self).options == old(self).options
            && content(final(self).zip) == content(old(self).zip),
        //# C01,C07,C16.missing_relationships_part_is_an_error
        !has_part(content(old(self).zip), rels_path()) ==> r is Err && r->Err_0 is FileNotFound,
        //# C01.relationship_targets_by_id
        ({ let evs = part_events(content(old(self).zip), rels_path());
           has_part(content(old(self).zip), rels_path()) && evs is Some && rl_part(evs->Some_0).ok ==>
               r is Ok && bk_is((r->Ok_0)@, rl_part(evs->Some_0).rels) }),
//@@ replace /(a @ )?Attribute \{\s*key: QName\((b"[^"]*")\),\s*(value: v|\.\.),?\s*\}\s*=>/#0of2 Verus crashes on byte-string literal patterns: the slice is bound and compared in a guard (same test, same arm order); the literal, the other field pattern and a binding of the whole attribute are kept verbatim
\g<1>Attribute { key: QName(__k), \g<3> } if __k == \g<2> =>
//@@ replace /(a @ )?Attribute \{\s*key: QName\((b"[^"]*")\),\s*(value: v|\.\.),?\s*\}\s*=>/#1of2 (same)
\g<1>Attribute { key: QName(__k), \g<3> } if __k == \g<2> =>
//@@ replace /a\.map_err\((XlsxError::XmlAttr)\)\?/ Verus: "using a datatype constructor as a function value" unsupported; eta-expanded, same function
a.map_err(|e| -> (x: XlsxError) ensures x == \g<1>(e) { \g<1>(e) })?
//@@ body
        broadcast use {axiom_cow_str_owned, lemma_bytes_eq_array};
//@@ before /let mut relationships = /
        let ghost ev = xml.events();
        let ghost tot = rl_part(ev);
        let ghost good = tot.ok;
        let ghost mut st = RlSt { root: false, rels: Map::empty() };
        proof { axiom_bytelits(); lemma_names_distinct(); axiom_bytes_keyed_empty(); }
//@@ after /let mut relationships = [^;]*;/
        proof { assert(bk_is(relationships@, st.rels)); }
//@@ loop 0
            invariant_except_break
                //# C01.code_follows_the_schema_walk
                good ==> rl_scan(ev, xml.pos() as int, st) == tot,
            invariant
                xml.events() == ev,
                self.strings == old(self).strings && self.sheets == old(self).sheets && self.tables == old(self).tables
                    && self.formats == old(self).formats && self.is_1904 == old(self).is_1904 && self.metadata == old(self).metadata
                    && self.merged_regions == old(self).merged_regions && self.options == old(self).options,
                //# C01.relationships_registered_so_far
                good ==> bk_is(relationships@, st.rels),
            ensures
                good ==> st.rels == tot.rels,
            decreases xml.left(),
//@@ before /match xml\.read_event_into\(&mut buf\)/
            let ghost pos = xml.pos() as int;
            let ghost st0 = st;
            let ghost stp = if pos < ev.len() { rl_step(ev[pos], st) } else { RlStep::Bad };
            proof {
                if good {
                    assert(pos < ev.len());
                    assert(!(stp is Bad));
                    if ev[pos].kind is Start && ev[pos].local == n_relationship() {
                        assert(st0.root && is_pkgrel_ns(ev[pos].ns) && rel_entry(ev[pos]) is Some);
                        assert(stp->Next_0.rels == st0.rels.insert(rel_entry(ev[pos])->Some_0.id, rel_entry(ev[pos])->Some_0.target));
                    } else if ev[pos].kind is End && ev[pos].local == n_relationships() { assert(stp is Done); }
                    else { assert(stp is Next && stp->Next_0.rels == st0.rels); }
                    if stp is Next { st = stp->Next_0; }
                }
            }
//@@ before /let mut id = Vec::new\(\);/
                    let ghost at = ev[pos].attrs;
                    proof { assert(e.ev() == ev[pos]); assert(attrs_unique(at)); }
//@@ loop 1 it
                        invariant
                            attrs_match(it.seq(), at),
                            //# C01.relationship_id_and_target_from_attributes
                            good ==> rl_fold(at, it.index@ as int) is Some && rl_fold(at, it.index@ as int)->Some_0.id =~= id@
                                && rl_fold(at, it.index@ as int)->Some_0.target =~= target@,
                            good ==> forall|j: int| 0 <= j < it.index@ ==> (#[trigger] at[j]).ok,
                            good ==> (id@.len() > 0 ==> has_key(at, k_id_cap(), it.index@ as int)),
//@@ before /match a\.map_err/
                        let ghost k = it.index@ as int;
                        proof {
                            assert(0 <= k < at.len());
                            assert(a == it.seq()[k]);
                            if good {
                                lemma_rl_fold_prefix(at, k + 1, at.len() as int);
                                assert(at[k].ok);
                                if at[k].key == k_id_cap() {
                                    if id@.len() > 0 {
                                        let j = choose|j: int| 0 <= j < k && j < at.len() && (#[trigger] at[j]).key == k_id_cap();
                                        assert(at[j].ok && at[k].ok);
                                        assert(false);
                                    }
                                    assert(id@ + at[k].raw =~= at[k].raw);
                                }
                                if at[k].key == k_target() {
                                    assert(unesc(at[k].raw) is Some);
                                }
                                let acc = RlAcc { id: id@, target: target@ };
                                if at[k].key == k_id_cap() { assert(rl_fold(at, k + 1) == Some(RlAcc { id: at[k].raw, ..acc })); }
                                else if at[k].key == k_target() { assert(rl_fold(at, k + 1) == Some(RlAcc { target: unesc(at[k].raw)->Some_0, ..acc })); }
                                else { assert(rl_fold(at, k + 1) == Some(acc)); }
                            }
                        }
//@@ before /relationships\.insert\(/
                    proof {
                        if good { assert(rl_fold(at, at.len() as int)->Some_0.id == id@ && rl_fold(at, at.len() as int)->Some_0.target == target@); }
                        axiom_bytes_keyed_insert(relationships@, id, target);
                    }
//@@ end
//@@ endimpl

// =====================================================================================================================
// C17: the table cache.  `load_tables` fills it once (read_table_metadata: below; also under contract in unit xlsxwb -- frame, header / totals
// arithmetic, C06); `table_names` / `table_names_in_sheet` list the loaded names in order.
// =====================================================================================================================
/// every sheet part name starts with "xl/" (data invariant of `sheets`, established by read_workbook: clause C16.sheet_paths_under_xl of unit xlsxwb)
pub open spec fn is_prefix(p: Seq<char>, s: Seq<char>) -> bool { p.len() <= s.len() && s.subrange(0, p.len() as int) == p }
pub open spec fn sheet_paths_under_xl(sh: Seq<(String, String)>) -> bool { forall|i: int| 0 <= i < sh.len() ==> is_prefix("xl/"@, (#[trigger] sh[i]).1@) }
proof fn witness_sheet_paths_under_xl()
    ensures sheet_paths_under_xl(Seq::<(String, String)>::empty()),
{}
pub open spec fn refs1(v: Seq<&String>) -> Seq<Seq<char>> { v.map_values(|t: &String| t@) }
pub type TblEntry = (String, String, Vec<String>, Dimensions);
/// names of all loaded tables, in load order
pub open spec fn tbl_names(v: Seq<TblEntry>) -> Seq<Seq<char>> { v.map_values(|t: TblEntry| t.0@) }
/// names of the loaded tables recorded under exactly this sheet name, order preserved
pub open spec fn tbl_names_in(v: Seq<TblEntry>, sheet: Seq<char>) -> Seq<Seq<char>>
    decreases v.len()
{
    if v.len() == 0 { Seq::empty() } else {
        let k = tbl_names_in(v.drop_last(), sheet);
        if v.last().1@ == sheet { k.push(v.last().0@) } else { k }
    }
}
/// witness for the precondition "tables are loaded" (the API protocol `load_tables()` first; not a condition on the file)
proof fn witness_tables_loaded<RS>(x: Xlsx<RS>)
    ensures exists|y: Xlsx<RS>| y.g_tables() is Some,
{
    let y = Xlsx { tables: Some(arbitrary()), ..x };
    assert(y.g_tables() is Some);
}
proof fn witness_merged_loaded<RS>(x: Xlsx<RS>)
    ensures exists|y: Xlsx<RS>| y.g_merged() is Some,
{
    let y = Xlsx { merged_regions: Some(arbitrary()), ..x };
    assert(y.g_merged() is Some);
}

//@@ impl src/xlsx/mod.rs Xlsx
//@@ fn src/xlsx/mod.rs Xlsx::load_tables props=C17,C07,C06 ret=r
//@@ sig
    requires
        //# C16.sheet_paths_under_xl  (data invariant of `sheets`, established by read_workbook; not a condition on the file)
        sheet_paths_under_xl(old(self).g_sheets()@),
    ensures
        //# C17,C07.load_tables_frame
        final(self).but_tables() == old(self).but_tables(),
        //# C17,C07.load_tables_idempotent
        old(self).g_tables() is Some ==> r is Ok && final(self).g_tables() == old(self).g_tables(),
        //# C17.tables_loaded_or_unchanged
        (r is Ok ==> final(self).g_tables() is Some) && (r is Err ==> final(self).g_tables() == old(self).g_tables()),
//@@ end
#[verifier::loop_isolation(false)]
//@@ fn src/xlsx/mod.rs Xlsx::table_names props=C17,C06 ret=r
//@@ sig
    requires
        //# C17.tables_loaded  (documented: "Tables must be loaded before they are referenced")
        self.g_tables() is Some,
    ensures
        //# C17.table_names_in_load_order
        refs1(r@) == tbl_names(self.g_tables()->Some_0@),
//@@ replace /(self\.tables\s*\.as_ref\(\)\s*\.expect\("[^"]*"\)\s*\.iter\(\))\s*\.map\(\|(\([^|]*\))\| ([^\n]*)\)\s*\.collect\(\)/ Verus: `Iterator::map(closure)` loses its specification inside an impl with type parameters (README, More Verus facts); `it.map(|PAT| E).collect()` is unfolded into the loop that defines it; the iterator expression, the pattern and the mapped expression are re-inserted verbatim
{
            let mut __out = Vec::new();
            let ghost src = self.tables->Some_0@;
            for __x in it: \g<1>
                invariant
                    src == self.tables->Some_0@,
                    //# C17.table_names_in_load_order_so_far
                    refs1(__out@) == tbl_names(src.take(it.index@ as int)),
            {
                let ghost i = it.index@ as int;
                proof { assert(*__x == src[i]); }
                let \g<2> = __x; __out.push(\g<3>);
                proof { assert(refs1(__out@) =~= tbl_names(src.take(i)).push(src[i].0@)); assert(src.take(i + 1) =~= src.take(i).push(src[i])); }
            }
            proof { assert(src.take(src.len() as int) =~= src); }
            __out
        }
//@@ end
#[verifier::loop_isolation(false)]
//@@ fn src/xlsx/mod.rs Xlsx::table_names_in_sheet props=C17,C06 ret=r
//@@ sig
    requires
        //# C17.tables_loaded  (documented: "Tables must be loaded before they are referenced")
        self.g_tables() is Some,
    ensures
        //# C17.table_names_of_exactly_this_sheet_in_order
        refs1(r@) == tbl_names_in(self.g_tables()->Some_0@, sheet_name@),
//@@ replace /(self\.tables\s*\.as_ref\(\)\s*\.expect\("[^"]*"\)\s*\.iter\(\))\s*\.filter\(\|(\([^|]*\))\| ([^\n]*)\)\s*\.map\(\|(\([^|]*\))\| ([^\n]*)\)\s*\.collect\(\)/ Verus: vstd's prophetic specification of `Iterator::filter` is out of reach here; `it.filter(|PAT| P).map(|PAT2| E).collect()` is unfolded into the loop that defines it (std: filter yields the elements for which the predicate returns true, map applies the function, collect gathers in order); the iterator expression, the patterns, the predicate and the mapped expression are re-inserted verbatim
{
            let mut __out = Vec::new();
            let ghost src = self.tables->Some_0@;
            for __x in it: \g<1>
                invariant
                    src == self.tables->Some_0@,
                    //# C17.table_names_of_exactly_this_sheet_so_far
                    refs1(__out@) == tbl_names_in(src.take(it.index@ as int), sheet_name@),
            {
                let ghost i = it.index@ as int;
                proof { assert(*__x == src[i]); assert(src.take(i + 1).drop_last() =~= src.take(i)); }
                let __keep = { let \g<2> = __x; \g<3> };
                if __keep { let \g<4> = __x; __out.push(\g<5>); proof { assert(refs1(__out@) =~= tbl_names_in(src.take(i), sheet_name@).push(src[i].0@)); } }
            }
            proof { assert(src.take(src.len() as int) =~= src); }
            __out
        }
//@@ end
//@@ endimpl

// =====================================================================================================================
// C17: table parts (read_table_metadata).  A-std pieces the function needs (same text as in unit xlsxwb)
// =====================================================================================================================
// `into_rem`: same device for `vec::IntoIter` (used as loop measure where a `for` loop is desugared by rule R6)
pub uninterp spec fn into_rem<T>(it: &std::vec::IntoIter<T>) -> Seq<T>;
#[verifier::external_body]
pub broadcast proof fn axiom_into_rem<T>(it: &std::vec::IntoIter<T>)
    ensures #[trigger] into_rem(it) == IteratorSpec::remaining(it) {}
/// the first n characters of s are ASCII (so byte offset n is the character boundary after n characters)
pub open spec fn ascii_prefix(s: Seq<char>, n: int) -> bool { 0 <= n <= s.len() && forall|i: int| 0 <= i < n ==> (#[trigger] s[i] as u32) < 128 }
// TRUSTED: A-std -- string slicing `&s[..]` (the whole string) and `&s[n..]` where the first n characters are ASCII (no panic: byte offset
// n is a character boundary inside the string; yields the characters after the first n)
pub uninterp spec fn str_index_post<I: SliceIndex<str>>(s: Seq<char>, i: I, x: &<I as SliceIndex<str>>::Output) -> bool;
pub assume_specification<I: SliceIndex<str>>[ <str as Index<I>>::index ](s: &str, i: I) -> (x: &<I as SliceIndex<str>>::Output)
    ensures str_index_post(s@, i, x);
pub assume_specification<I: SliceIndex<str>>[ <String as Index<I>>::index ](s: &String, i: I) -> (x: &<I as SliceIndex<str>>::Output)
    ensures str_index_post(s@, i, x);
pub broadcast axiom fn axiom_str_index_full(s: Seq<char>, x: &str)
    ensures #[trigger] str_index_post::<RangeFull>(s, RangeFull, x) ==> x@ == s;
pub broadcast axiom fn axiom_str_index_from(s: Seq<char>, r: RangeFrom<usize>, x: &str)
    ensures #[trigger] str_index_post::<RangeFrom<usize>>(s, r, x) && ascii_prefix(s, r.start as int) ==> x@ == s.skip(r.start as int);
pub broadcast axiom fn axiom_string_index_req_full(s: &String)
    ensures #[trigger] <String as IndexSpec<RangeFull>>::index_req(s, &RangeFull);
pub broadcast axiom fn axiom_str_index_req_from(s: &str, r: RangeFrom<usize>)
    ensures ascii_prefix(s@, r.start as int) ==> #[trigger] <str as IndexSpec<RangeFrom<usize>>>::index_req(s, &r);
// TRUSTED: text -> integer parsing is NOT verified: `str::parse::<u32>` is an uninterpreted function of the text
#[verifier::external_trait_specification] pub trait ExFromStr: Sized { type ExternalTraitSpecificationFor: std::str::FromStr; type Err; }
pub uninterp spec fn parse_spec<F: std::str::FromStr>(s: Seq<char>) -> Result<F, <F as std::str::FromStr>::Err>;
pub assume_specification<F: std::str::FromStr>[ str::parse::<F> ](s: &str) -> (r: Result<F, <F as std::str::FromStr>::Err>)
    ensures r == parse_spec::<F>(s@);
// TRUSTED: A-std -- `String::as_bytes` (UTF-8 encoding of the content)
pub assume_specification[ String::as_bytes ](s: &String) -> (r: &[u8])
    ensures r@ == vstd::utf8::encode_utf8(s@);
// TRUSTED: A-std -- `str::rfind(char)`: "Returns the byte index for the first character of the last match of the pattern": a character
// boundary inside the string (no claim here on which one)
pub uninterp spec fn pat_occurs<P>(p: P, s: Seq<char>) -> bool;
pub broadcast axiom fn axiom_pat_occurs_char(c: char, s: Seq<char>)
    ensures #[trigger] pat_occurs::<char>(c, s) == s.contains(c);
#[verifier::allow(undeclared_external_trait)]
pub assume_specification<P: std::str::pattern::Pattern>[ str::rfind ](s: &str, p: P) -> (r: Option<usize>)
    where for<'a> <P as std::str::pattern::Pattern>::Searcher<'a>: std::str::pattern::ReverseSearcher<'a>
    ensures
        r is Some <==> pat_occurs(p, s@),
        r is Some ==> vstd::utf8::is_char_boundary(vstd::utf8::encode_utf8(s@), r->Some_0 as int);
// TRUSTED: A-std -- `&s[..n]` at a character boundary does not panic
pub broadcast axiom fn axiom_str_index_req_to(s: &str, r: std::ops::RangeTo<usize>)
    ensures vstd::utf8::is_char_boundary(vstd::utf8::encode_utf8(s@), r.end as int) ==> #[trigger] <str as IndexSpec<std::ops::RangeTo<usize>>>::index_req(s, &r);
// TRUSTED: A-std -- `<[T]>::contains`: "Returns true if the slice contains an element with the given value" (`peq`: PartialEq of T;
// for &str: same characters)
pub uninterp spec fn peq<T>(a: T, b: T) -> bool;
pub broadcast axiom fn axiom_peq_str(a: &str, b: &str)
    ensures #[trigger] peq::<&str>(a, b) == (a@ == b@);
pub assume_specification<T: PartialEq>[ <[T]>::contains ](s: &[T], x: &T) -> (r: bool)
    ensures r == exists|i: int| 0 <= i < s@.len() && peq(#[trigger] s@[i], *x);
// ---------------------------------------------------------------------------------------------------------------------
// C17: what a table part declares.  ECMA-376 Part 1, 18.5.1.2 table (CT_Table): attributes displayName (required), ref (required,
// ST_Ref: the whole table including header and totals rows), headerRowCount (xsd:unsignedInt, default 1), insertRow (xsd:boolean,
// default false), totalsRowCount (xsd:unsignedInt, default 0), ...; children autoFilter?, sortState?, tableColumns, tableStyleInfo?,
// extLst?.  18.5.1.4 tableColumns = tableColumn+ ; 18.5.1.3 tableColumn: attribute name (required: "the caption of the column"),
// children calculatedColumnFormula?, totalsRowFormula?, xmlColumnPr?, extLst?.
// Attribute VALUES are meant (XML references resolved); xsd:boolean is "true" | "false" | "1" | "0".
// ---------------------------------------------------------------------------------------------------------------------
#[verifier::opaque] pub open spec fn n_table() -> Seq<u8> { seq![0x74u8, 0x61u8, 0x62u8, 0x6cu8, 0x65u8] }   // table
#[verifier::opaque] pub open spec fn n_tablecolumn() -> Seq<u8> { seq![0x74u8, 0x61u8, 0x62u8, 0x6cu8, 0x65u8, 0x43u8, 0x6fu8, 0x6cu8, 0x75u8, 0x6du8, 0x6eu8] }   // tableColumn
#[verifier::opaque] pub open spec fn n_tablecolumns() -> Seq<u8> { seq![0x74u8, 0x61u8, 0x62u8, 0x6cu8, 0x65u8, 0x43u8, 0x6fu8, 0x6cu8, 0x75u8, 0x6du8, 0x6eu8, 0x73u8] }   // tableColumns
#[verifier::opaque] pub open spec fn k_displayname() -> Seq<u8> { seq![0x64u8, 0x69u8, 0x73u8, 0x70u8, 0x6cu8, 0x61u8, 0x79u8, 0x4eu8, 0x61u8, 0x6du8, 0x65u8] }   // displayName
#[verifier::opaque] pub open spec fn k_hdrcount() -> Seq<u8> { seq![0x68u8, 0x65u8, 0x61u8, 0x64u8, 0x65u8, 0x72u8, 0x52u8, 0x6fu8, 0x77u8, 0x43u8, 0x6fu8, 0x75u8, 0x6eu8, 0x74u8] }   // headerRowCount
#[verifier::opaque] pub open spec fn k_insertrow() -> Seq<u8> { seq![0x69u8, 0x6eu8, 0x73u8, 0x65u8, 0x72u8, 0x74u8, 0x52u8, 0x6fu8, 0x77u8] }   // insertRow
#[verifier::opaque] pub open spec fn k_totcount() -> Seq<u8> { seq![0x74u8, 0x6fu8, 0x74u8, 0x61u8, 0x6cu8, 0x73u8, 0x52u8, 0x6fu8, 0x77u8, 0x43u8, 0x6fu8, 0x75u8, 0x6eu8, 0x74u8] }   // totalsRowCount
#[verifier::opaque] pub open spec fn k_name() -> Seq<u8> { seq![0x6eu8, 0x61u8, 0x6du8, 0x65u8] }   // name
// TRUSTED: A-lit (see axiom_bytelits)
#[verifier::external_body]
pub proof fn axiom_bytelits_tbl()
    ensures
        b"table"@ == n_table(), b"tableColumn"@ == n_tablecolumn(), b"displayName"@ == k_displayname(), b"ref"@ == k_ref(),
        b"headerRowCount"@ == k_hdrcount(), b"insertRow"@ == k_insertrow(), b"totalsRowCount"@ == k_totcount(), b"name"@ == k_name(),
{}
proof fn lemma_tbl_names_distinct()
    ensures
        n_table() != n_tablecolumn(), n_table() != n_tablecolumns(), n_tablecolumn() != n_tablecolumns(),
        k_displayname() != k_ref(), k_displayname() != k_hdrcount(), k_displayname() != k_insertrow(), k_displayname() != k_totcount(),
        k_ref() != k_hdrcount(), k_ref() != k_insertrow(), k_ref() != k_totcount(), k_hdrcount() != k_insertrow(), k_hdrcount() != k_totcount(),
        k_insertrow() != k_totcount(),
{
    reveal(n_table); reveal(n_tablecolumn); reveal(n_tablecolumns); reveal(k_displayname); reveal(k_ref); reveal(k_hdrcount); reveal(k_insertrow); reveal(k_totcount);
    assert(n_table().len() == 5 && n_tablecolumn().len() == 11 && n_tablecolumns().len() == 12);
    assert(k_displayname().len() == 11 && k_ref().len() == 3 && k_hdrcount().len() == 14 && k_insertrow().len() == 9 && k_totcount().len() == 14);
    assert(k_hdrcount()[0] != k_totcount()[0]);
}
pub ghost struct TbMeta { pub name: Seq<char>, pub refc: Seq<char>, pub hdr: u32, pub ins: bool, pub tot: u32 }
/// CT_Table defaults: headerRowCount 1, insertRow false, totalsRowCount 0
pub open spec fn tb_meta0() -> TbMeta { TbMeta { name: Seq::empty(), refc: Seq::empty(), hdr: 1, ins: false, tot: 0 } }
/// xsd:boolean
pub open spec fn xsd_bool(v: Seq<char>) -> Option<bool> {
    if v == "1"@ || v == "true"@ { Some(true) } else if v == "0"@ || v == "false"@ { Some(false) } else { None }
}
/// xsd:unsignedInt as far as it fits u32 (the text -> number function itself is not verified: `parse_spec`)
pub open spec fn xsd_u32(v: Seq<char>) -> Option<u32> { match parse_spec::<u32>(v) { Ok(n) => Some(n), Err(_) => None } }
/// the attributes of a table element read off its first k attributes; None: malformed attribute / value outside its type
pub open spec fn tb_fold(attrs: Seq<Attr>, k: int) -> Option<TbMeta>
    decreases k
{
    if k <= 0 { Some(tb_meta0()) }
    else {
        match tb_fold(attrs, k - 1) {
            None => None,
            Some(m) => {
                let a = attrs[k - 1];
                if !a.ok { None }
                else if a.key == k_displayname() { match unesc(a.raw) { Some(v) => Some(TbMeta { name: v, ..m }), None => None } }
                else if a.key == k_ref() { match unesc(a.raw) { Some(v) => Some(TbMeta { refc: v, ..m }), None => None } }
                else if a.key == k_hdrcount() { match unesc(a.raw) { Some(v) => match xsd_u32(v) { Some(n) => Some(TbMeta { hdr: n, ..m }), None => None }, None => None } }
                else if a.key == k_insertrow() { match unesc(a.raw) { Some(v) => match xsd_bool(v) { Some(b) => Some(TbMeta { ins: b, ..m }), None => None }, None => None } }
                else if a.key == k_totcount() { match unesc(a.raw) { Some(v) => match xsd_u32(v) { Some(n) => Some(TbMeta { tot: n, ..m }), None => None }, None => None } }
                else { Some(m) }
            },
        }
    }
}
proof fn lemma_tb_fold_prefix(attrs: Seq<Attr>, k: int, n: int)
    requires 0 <= k <= n, tb_fold(attrs, n) is Some,
    ensures tb_fold(attrs, k) is Some,
    decreases n - k,
{
    if k < n { lemma_tb_fold_prefix(attrs, k + 1, n); }
}
/// the caption a tableColumn element declares; None: malformed attribute, `name` missing or not unescapable
pub open spec fn col_entry(e: Ev) -> Option<Seq<char>> {
    if !all_ok(e.attrs) { None }
    else {
        let k = ok_key_idx(e.attrs, k_name(), 0);
        if k >= e.attrs.len() { None } else { unesc(e.attrs[k].raw) }
    }
}
pub enum TbCtx { Top, Cols }
pub ghost struct TbSt { pub root: bool, pub ctx: TbCtx, pub skip: nat, pub seen_cols: bool, pub meta: TbMeta, pub cols: Seq<Seq<char>> }
pub enum TbStep { Next(TbSt), Done, Bad }
pub ghost struct TbRes { pub ok: bool, pub meta: TbMeta, pub cols: Seq<Seq<char>>, pub end: int }
pub open spec fn tb_init() -> TbSt { TbSt { root: false, ctx: TbCtx::Top, skip: 0, seen_cols: false, meta: tb_meta0(), cols: Seq::empty() } }
/// an element a name-matching reader would mistake for the table / one of its columns
pub open spec fn tb_stray(e: Ev) -> bool { e.local == n_table() || e.local == n_tablecolumn() }
/// the reference of the table decodes (ST_Ref)
pub open spec fn tb_ref_ok(m: TbMeta) -> bool { dim_of(vstd::utf8::encode_utf8(m.refc)) is Some }
pub open spec fn tb_step(e: Ev, s: TbSt) -> TbStep {
    if e.kind is Error { TbStep::Bad }
    else if !s.root {
        if e.kind is Start {
            if is_main(e) && e.local == n_table() {
                match tb_fold(e.attrs, e.attrs.len() as int) { Some(m) => TbStep::Next(TbSt { root: true, meta: m, ..s }), None => TbStep::Bad }
            } else { TbStep::Bad }
        } else if e.kind is End { TbStep::Bad }
        else { TbStep::Next(s) }
    } else {
        match s.ctx {
            TbCtx::Top =>
                if s.skip > 0 {
                    if e.kind is Start { if tb_stray(e) { TbStep::Bad } else { TbStep::Next(TbSt { skip: s.skip + 1, ..s }) } }
                    else if e.kind is End { if e.local == n_table() { TbStep::Bad } else { TbStep::Next(TbSt { skip: (s.skip - 1) as nat, ..s }) } }
                    else { TbStep::Next(s) }
                } else if e.kind is Start {
                    if is_main(e) && e.local == n_tablecolumns() {
                        if s.seen_cols { TbStep::Bad } else { TbStep::Next(TbSt { ctx: TbCtx::Cols, seen_cols: true, ..s }) }
                    } else if tb_stray(e) { TbStep::Bad }
                    else { TbStep::Next(TbSt { skip: 1, ..s }) }
                } else if e.kind is End {
                    if e.local == n_table() { if tb_ref_ok(s.meta) { TbStep::Done } else { TbStep::Bad } } else { TbStep::Bad }
                } else { TbStep::Next(s) },
            TbCtx::Cols =>
                if s.skip > 0 {
                    if e.kind is Start { if tb_stray(e) { TbStep::Bad } else { TbStep::Next(TbSt { skip: s.skip + 1, ..s }) } }
                    else if e.kind is End { if e.local == n_table() { TbStep::Bad } else { TbStep::Next(TbSt { skip: (s.skip - 1) as nat, ..s }) } }
                    else { TbStep::Next(s) }
                } else if e.kind is Start {
                    if is_main(e) && e.local == n_tablecolumn() {
                        match col_entry(e) { Some(c) => TbStep::Next(TbSt { cols: s.cols.push(c), skip: 1, ..s }), None => TbStep::Bad }
                    } else { TbStep::Bad }
                } else if e.kind is End {
                    if e.local == n_tablecolumns() { TbStep::Next(TbSt { ctx: TbCtx::Top, ..s }) } else { TbStep::Bad }
                } else { TbStep::Next(s) },
        }
    }
}
pub open spec fn tb_bad(i: int) -> TbRes { TbRes { ok: false, meta: tb_meta0(), cols: Seq::empty(), end: i } }
pub open spec fn tb_scan(ev: Seq<Ev>, i: int, s: TbSt) -> TbRes
    decreases ev.len() - i
{
    if i < 0 || i >= ev.len() { tb_bad(i) }
    else {
        match tb_step(ev[i], s) {
            TbStep::Next(s2) => tb_scan(ev, i + 1, s2),
            TbStep::Done => TbRes { ok: true, meta: s.meta, cols: s.cols, end: i },
            TbStep::Bad => tb_bad(i),
        }
    }
}
/// what a table part declares
pub open spec fn tb_part(ev: Seq<Ev>) -> TbRes { tb_scan(ev, 0, tb_init()) }
pub open spec fn strs(v: Seq<String>) -> Seq<Seq<char>> { v.map_values(|s: String| s@) }
spec fn meta_is(t: InnerTableMetadata, m: TbMeta) -> bool {
    t.display_name@ == m.name && t.ref_cells@ == m.refc && t.header_row_count == m.hdr && t.insert_row == m.ins && t.totals_row_count == m.tot
}
/// witness: <table displayName=N ref=R><tableColumns><tableColumn name=C/></tableColumns></table> declares (N, R, defaults, [C])
proof fn witness_tb_part(ns: Seq<u8>, n_raw: Seq<u8>, n: Seq<char>, r_raw: Seq<u8>, r: Seq<char>, c_raw: Seq<u8>, c: Seq<char>, d: Dimensions)
    requires is_main_ns(ns), unesc(n_raw) == Some(n), unesc(r_raw) == Some(r), unesc(c_raw) == Some(c), dim_of(vstd::utf8::encode_utf8(r)) == Some(d),
    ensures ({
        let ev = seq![
            ev_tag(EvKind::Start, n_table(), ns, seq![at_ok(k_displayname(), n_raw), at_ok(k_ref(), r_raw)]),
            ev_tag(EvKind::Start, n_tablecolumns(), ns, Seq::empty()),
            ev_tag(EvKind::Start, n_tablecolumn(), ns, seq![at_ok(k_name(), c_raw)]),
            ev_tag(EvKind::End, n_tablecolumn(), ns, Seq::empty()),
            ev_tag(EvKind::End, n_tablecolumns(), ns, Seq::empty()),
            ev_tag(EvKind::End, n_table(), ns, Seq::empty())];
        tb_part(ev).ok && tb_part(ev).meta == (TbMeta { name: n, refc: r, hdr: 1, ins: false, tot: 0 }) && tb_part(ev).cols == seq![c] }),
{
    lemma_tbl_names_distinct();
    let ta = seq![at_ok(k_displayname(), n_raw), at_ok(k_ref(), r_raw)];
    reveal_with_fuel(tb_fold, 3);
    assert(tb_fold(ta, 2) == Some(TbMeta { name: n, refc: r, hdr: 1, ins: false, tot: 0 }));
    let ca = seq![at_ok(k_name(), c_raw)];
    reveal_with_fuel(ok_key_idx, 2);
    assert(ok_key_idx(ca, k_name(), 0) == 0);
    assert(col_entry(ev_tag(EvKind::Start, n_tablecolumn(), ns, ca)) == Some(c));
    reveal_with_fuel(tb_scan, 8);
    assert(Seq::<Seq<char>>::empty().push(c) =~= seq![c]);
}
// rule R4: `format!(..)` (outside Verus) becomes an opaque string -- used for the part names read_table_metadata computes, about which
// nothing is claimed here
#[verifier::external_body] fn verif_opaque_string() -> String { String::new() }
//@@ item src/xlsx/mod.rs struct InnerTableMetadata
//@@ impl src/xlsx/mod.rs InnerTableMetadata
//@@ fn src/xlsx/mod.rs InnerTableMetadata::new props=C17 ret=r
//@@ sig
    ensures
        //# C17.table_attribute_defaults
        r.header_row_count == 1 && r.totals_row_count == 0 && !r.insert_row,
        r.display_name@ =~= Seq::<char>::empty() && r.ref_cells@ =~= Seq::<char>::empty(),
//@@ end
//@@ endimpl
//@@ impl src/xlsx/mod.rs Xlsx
#[verifier::loop_isolation(false)]
#[verifier::allow_complex_invariants]
//@@ fn src/xlsx/mod.rs Xlsx::read_table_metadata props=C17,C06,C07 entry ret=r r4
//@@ sig
    requires
        //# C16.sheet_paths_under_xl  (data invariant of `sheets`, established by read_workbook; not a condition on the file)
        sheet_paths_under_xl(old(self).sheets@),
    ensures
        //# C17,C07.load_tables_frame
        final(self).strings == old(self).strings && final(self).sheets == old(self).sheets && final(self).formats == old(self).formats
            && final(self).is_1904 == old(self).is_1904 && final(self).metadata == old(self).metadata
            && final(self).merged_regions == old(self).merged_regions && final(self).options == old(self).options
            && content(final(self).zip) == content(old(self).zip),
        //# C17.tables_loaded_or_unchanged
        r is Ok ==> final(self).tables is Some,
        r is Err ==> final(self).tables == old(self).tables,
//@@ replace /(a @ )?Attribute \{\s*key: QName\((b"[^"]*")\),\s*(value: v|\.\.),?\s*\}\s*=>/#0of8 Verus crashes on byte-string literal patterns: the slice is bound and compared in a guard (same test, same arm order); the literal, the other field pattern and a binding of the whole attribute are kept verbatim
\g<1>Attribute { key: QName(__k), \g<3> } if __k == \g<2> =>
//@@ replace /(a @ )?Attribute \{\s*key: QName\((b"[^"]*")\),\s*(value: v|\.\.),?\s*\}\s*=>/#1of8 (same)
\g<1>Attribute { key: QName(__k), \g<3> } if __k == \g<2> =>
//@@ replace /(a @ )?Attribute \{\s*key: QName\((b"[^"]*")\),\s*(value: v|\.\.),?\s*\}\s*=>/#2of8 (same)
\g<1>Attribute { key: QName(__k), \g<3> } if __k == \g<2> =>
//@@ replace /(a @ )?Attribute \{\s*key: QName\((b"[^"]*")\),\s*(value: v|\.\.),?\s*\}\s*=>/#3of8 (same)
\g<1>Attribute { key: QName(__k), \g<3> } if __k == \g<2> =>
//@@ replace /(a @ )?Attribute \{\s*key: QName\((b"[^"]*")\),\s*(value: v|\.\.),?\s*\}\s*=>/#4of8 (same)
\g<1>Attribute { key: QName(__k), \g<3> } if __k == \g<2> =>
//@@ replace /(a @ )?Attribute \{\s*key: QName\((b"[^"]*")\),\s*(value: v|\.\.),?\s*\}\s*=>/#5of8 (same)
\g<1>Attribute { key: QName(__k), \g<3> } if __k == \g<2> =>
//@@ replace /(a @ )?Attribute \{\s*key: QName\((b"[^"]*")\),\s*(value: v|\.\.),?\s*\}\s*=>/#6of8 (same)
\g<1>Attribute { key: QName(__k), \g<3> } if __k == \g<2> =>
//@@ replace /(a @ )?Attribute \{\s*key: QName\((b"[^"]*")\),\s*(value: v|\.\.),?\s*\}\s*=>/#7of8 (same)
\g<1>Attribute { key: QName(__k), \g<3> } if __k == \g<2> =>
//@@ replace /if let Attribute \{\s*key: QName\((b"[^"]*")\),\s*(value: v|\.\.),?\s*\} = a\s*\{([^{}]*)\}/ Verus crashes on byte-string literal patterns: the slice is bound by the `if let` and compared in a nested `if` (same test); literal, the other field pattern and body kept verbatim
if let Attribute { key: QName(__k), \g<2> } = a { if __k == \g<1> {\g<3>} }
//@@ replace /a\.map_err\((XlsxError::XmlAttr)\)\?/#0of2 Verus: "using a datatype constructor as a function value" unsupported; eta-expanded, same function
a.map_err(|e| -> (x: XlsxError) ensures x == \g<1>(e) { \g<1>(e) })?
//@@ replace /a\.map_err\((XlsxError::XmlAttr)\)\?/#1of2 (same)
a.map_err(|e| -> (x: XlsxError) ensures x == \g<1>(e) { \g<1>(e) })?
//@@ body
        broadcast use {axiom_cow_str_owned, axiom_str_index_req_to, axiom_str_index_req_from, axiom_str_index_from, axiom_pat_chars_str, axiom_iter_rem, axiom_into_rem, axiom_pat_occurs_char, axiom_peq_str, lemma_bytes_eq_array, lemma_bytes_eq_slice, lemma_subrange_full};
        proof { reveal_strlit("xl/"); }
//@@ r6 0 iter /&self\.sheets/ `<&Vec<T> as IntoIterator>::into_iter` is `iter()` (vstd specifies the latter)
self.sheets.iter()
//@@ loop 0
            invariant
                forall|j: int| 0 <= j < iter_rem(&__it0).len() ==> is_prefix("xl/"@, (#[trigger] iter_rem(&__it0)[j]).1@),
                self.strings == old(self).strings && self.sheets == old(self).sheets && self.formats == old(self).formats
                    && self.is_1904 == old(self).is_1904 && self.metadata == old(self).metadata && self.tables == old(self).tables
                    && self.merged_regions == old(self).merged_regions && self.options == old(self).options
                    && content(self.zip) == content(old(self).zip),
            decreases iter_rem(&__it0).len(),
//@@ r6 3
//@@ loop 3
                invariant
                self.strings == old(self).strings && self.sheets == old(self).sheets && self.formats == old(self).formats
                    && self.is_1904 == old(self).is_1904 && self.metadata == old(self).metadata && self.tables == old(self).tables
                    && self.merged_regions == old(self).merged_regions && self.options == old(self).options
                    && content(self.zip) == content(old(self).zip),
                decreases into_rem(&__it3).len(),
//@@ loop 1
                    invariant xml.events() == xml.events(),
                    decreases xml.left(),
//@@ before /let mut column_names = Vec::new\(\);/
                let ghost tev = xml.events();
                let ghost ttot = tb_part(tev);
                let ghost tgood = ttot.ok && xml.pos() == 0;
                let ghost mut tst = tb_init();
                proof { axiom_bytelits_tbl(); lemma_tbl_names_distinct(); }
//@@ after /let mut table_meta = InnerTableMetadata::new\(\);/
                proof { assert(meta_is(table_meta, tst.meta)); assert(strs(column_names@) =~= tst.cols); }
//@@ loop 4
                    invariant_except_break
                        //# C17.code_follows_the_schema_walk
                        tgood ==> tb_scan(tev, xml.pos() as int, tst) == ttot,
                    invariant
                        xml.events() == tev,
                        tgood ==> (!tst.root ==> tst.meta == tb_meta0()),
                        //# C17.table_attributes_so_far
                        tgood ==> meta_is(table_meta, tst.meta),
                        //# C17.table_columns_in_order_so_far
                        tgood ==> strs(column_names@) =~= tst.cols,
                    ensures
                        tgood ==> tst.meta == ttot.meta && tst.cols == ttot.cols && tb_ref_ok(tst.meta),
                    decreases xml.left(),
//@@ before /match xml\.read_event_into\(&mut buf\)/#1of2
                    let ghost tpos = xml.pos() as int;
                    let ghost t0 = tst;
                    let ghost tstp = if tpos < tev.len() { tb_step(tev[tpos], tst) } else { TbStep::Bad };
                    proof {
                        if tgood {
                            assert(tpos < tev.len());
                            assert(!(tstp is Bad));
                            if tev[tpos].kind is Start && tev[tpos].local == n_table() {
                                assert(!t0.root && is_main(tev[tpos]) && tb_fold(tev[tpos].attrs, tev[tpos].attrs.len() as int) is Some);
                                assert(tstp->Next_0.meta == tb_fold(tev[tpos].attrs, tev[tpos].attrs.len() as int)->Some_0 && tstp->Next_0.cols == t0.cols && tstp->Next_0.root);
                            } else if tev[tpos].kind is Start && tev[tpos].local == n_tablecolumn() {
                                assert(t0.root && t0.ctx is Cols && t0.skip == 0 && is_main(tev[tpos]) && col_entry(tev[tpos]) is Some);
                                assert(tstp->Next_0.cols == t0.cols.push(col_entry(tev[tpos])->Some_0) && tstp->Next_0.meta == t0.meta && tstp->Next_0.root);
                            } else if tev[tpos].kind is End && tev[tpos].local == n_table() {
                                assert(tstp is Done && tb_ref_ok(t0.meta));
                            } else {
                                assert(tstp is Next && tstp->Next_0.meta == t0.meta && tstp->Next_0.cols == t0.cols && (t0.root ==> tstp->Next_0.root));
                            }
                            if tstp is Next { tst = tstp->Next_0; }
                        }
                    }
//@@ before /for a in e\.attributes\(\) \{/#1of2
                            let ghost at = tev[tpos].attrs;
                            proof { assert(e.ev() == tev[tpos]); assert(attrs_unique(at)); }
//@@ loop 5 it
                                invariant
                                    attrs_match(it.seq(), at),
                                    //# C17.table_attributes_from_the_table_element
                                    tgood ==> tb_fold(at, it.index@ as int) is Some && meta_is(table_meta, tb_fold(at, it.index@ as int)->Some_0),
//@@ before /match a\.map_err/#1of2
                                let ghost k = it.index@ as int;
                                proof {
                                    assert(0 <= k < at.len());
                                    assert(a == it.seq()[k]);
                                    if tgood {
                                        lemma_tb_fold_prefix(at, k + 1, at.len() as int);
                                        assert(at[k].ok);
                                        let m = tb_fold(at, k)->Some_0;
                                        if at[k].key == k_displayname() { assert(tb_fold(at, k + 1) == Some(TbMeta { name: unesc(at[k].raw)->Some_0, ..m })); }
                                        else if at[k].key == k_ref() { assert(tb_fold(at, k + 1) == Some(TbMeta { refc: unesc(at[k].raw)->Some_0, ..m })); }
                                        else if at[k].key == k_hdrcount() { assert(tb_fold(at, k + 1) == Some(TbMeta { hdr: xsd_u32(unesc(at[k].raw)->Some_0)->Some_0, ..m })); }
                                        else if at[k].key == k_insertrow() {
                                            assert(tb_fold(at, k + 1) == Some(TbMeta { ins: xsd_bool(unesc(at[k].raw)->Some_0)->Some_0, ..m }));
                                        }
                                        else if at[k].key == k_totcount() { assert(tb_fold(at, k + 1) == Some(TbMeta { tot: xsd_u32(unesc(at[k].raw)->Some_0)->Some_0, ..m })); }
                                        else { assert(tb_fold(at, k + 1) == Some(m)); }
                                    }
                                }
//@@ before /for a in e\.attributes\(\)\.flatten\(\)/
                            let ghost cat = tev[tpos].attrs;
                            let ghost cols0 = strs(column_names@);
                            let ghost kx = ok_key_idx(cat, k_name(), 0);
                            proof {
                                assert(e.ev() == tev[tpos]); assert(attrs_unique(cat));
                                lemma_ok_key_idx_props(cat, k_name(), 0);
                                if tgood { assert(all_ok(cat) && kx < cat.len() && unesc(cat[kx].raw) is Some); }
                            }
//@@ loop 6 it
                                invariant
                                    tgood ==> it.seq().len() == cat.len() && forall|i: int| 0 <= i < cat.len() ==> (#[trigger] it.seq()[i]).is(cat[i]),
                                    //# C17.column_caption_from_the_name_attribute
                                    tgood ==> strs(column_names@) =~= (if it.index@ > kx { cols0.push(unesc(cat[kx].raw)->Some_0) } else { cols0 }),
//@@ before /if let Attribute/
                                let ghost i = it.index@ as int;
                                proof {
                                    if tgood {
                                        assert(0 <= i < cat.len());
                                        assert(a == it.seq()[i]);
                                        assert(a.is(cat[i]));
                                        assert(cat[i].ok && cat[kx].ok);
                                        if cat[i].key == k_name() {
                                            if i < kx { assert(false); }
                                            if kx < i { assert(cat[kx].key != cat[i].key); assert(false); }
                                        }
                                    }
                                }
//@@ before /let last_folder_index = /
            proof {
                assert(is_prefix("xl/"@, sheet_path@));
                assert(sheet_path@.subrange(0, 3)[2] == '/');
                assert(sheet_path@[2] == '/');
                assert(sheet_path@.contains('/'));
            }
//@@ after /let mut dims = get_dimension\([^;]*;/
                let ghost d0 = dims;
                let ghost hdr = table_meta.header_row_count as int;
                let ghost tot = table_meta.totals_row_count as int;
                let ghost ins: int = if table_meta.insert_row { 1 } else { 0 };
//@@ before /new_tables\.push\(\(/
                proof {
                    //# C17.table_data_range_minus_header_and_totals_rows
                    assert(dims.start.0 == d0.start.0 + hdr && dims.start.1 == d0.start.1 && dims.end.0 == d0.end.0 - tot - ins && dims.end.1 == d0.end.1);
                    //# C17.table_entry_is_the_declared_table
                    assert(tgood ==> table_meta.display_name@ == ttot.meta.name && strs(column_names@) == ttot.cols
                        && Some(d0) == dim_of(vstd::utf8::encode_utf8(ttot.meta.refc)) && hdr == ttot.meta.hdr && tot == ttot.meta.tot && (ins == 1 <==> ttot.meta.ins));
                }
//@@ after /new_tables\.push\(\([^;]*;/
                proof {
                    //# C17.table_attributed_to_the_sheet_being_scanned
                    assert(new_tables@.last().1@ == sheet_name@);
                }
//@@ end
//@@ endimpl

} // verus!
fn main() {}
