//@@ unit props=C14,C06
// Unit colname: utils::push_column (column letters used by the xls/xlsb formula renderers), verbatim text.
#![allow(unused_imports, dead_code, unused_variables, unused_mut, unused_assignments)]
use vstd::prelude::*;
use vstd::std_specs::iter::IteratorSpec;

verus! {

// ---- oracle, written from the property ("any column, A through IV/XFD, using spreadsheet letters"):
// spreadsheet column letters are the bijective base-26 numeral of (0-based column + 1) over the digits A=1 .. Z=26.
pub open spec fn is_upper_c(c: char) -> bool { 'A' <= c && c <= 'Z' }
pub open spec fn letter_val_c(c: char) -> nat { (c as u32 - 0x41 + 1) as nat }
/// bijective base-26 value of a letter string: A=1 .. Z=26, AA=27 ... (most significant letter first)
pub open spec fn b26c(s: Seq<char>) -> nat
    decreases s.len()
{
    if s.len() == 0 { 0 } else { b26c(s.drop_last()) * 26 + letter_val_c(s.last()) }
}
pub open spec fn all_upper_c(s: Seq<char>) -> bool { forall|i: int| 0 <= i < s.len() ==> is_upper_c(#[trigger] s[i]) }
pub open spec fn pow26(k: nat) -> nat decreases k { if k == 0 { 1 } else { 26 * pow26((k - 1) as nat) } }
/// what a call appended to the buffer
pub open spec fn appended(old: Seq<char>, new: Seq<char>) -> Seq<char> { new.subrange(old.len() as int, new.len() as int) }

/// spec sanity (the oracle agrees with the spreadsheet column names everybody knows): A=1, Z=26, AA=27, AZ=52, ZZ=702, AAA=703, IV=256, XFD=16384
proof fn lemma_b26c_examples()
    ensures
        b26c(seq!['A']) == 1, b26c(seq!['Z']) == 26, b26c(seq!['A', 'A']) == 27, b26c(seq!['A', 'Z']) == 52,
        b26c(seq!['Z', 'Z']) == 702, b26c(seq!['A', 'A', 'A']) == 703, b26c(seq!['I', 'V']) == 256, b26c(seq!['X', 'F', 'D']) == 16384,
{
    reveal_with_fuel(b26c, 5);
    assert(seq!['A', 'A'].drop_last() =~= seq!['A']);
    assert(seq!['A', 'Z'].drop_last() =~= seq!['A']);
    assert(seq!['Z', 'Z'].drop_last() =~= seq!['Z']);
    assert(seq!['I', 'V'].drop_last() =~= seq!['I']);
    assert(seq!['A', 'A', 'A'].drop_last() =~= seq!['A', 'A']);
    assert(seq!['X', 'F', 'D'].drop_last() =~= seq!['X', 'F']);
    assert(seq!['X', 'F'].drop_last() =~= seq!['X']);
}

/// the oracle is injective on names: (all upper) value determines the last letter -- used for C14.column_letters_last
proof fn lemma_b26c_last(s: Seq<char>)
    requires all_upper_c(s), s.len() >= 1,
    ensures (s.last() as u32 - 0x41) as nat == (b26c(s) - 1) % 26,
{
    assert(is_upper_c(s[s.len() - 1]));
    let q = b26c(s.drop_last());
    let d = (s.last() as u32 - 0x41) as nat;
    assert(b26c(s) - 1 == q * 26 + d);
    assert((q * 26 + d) % 26 == d) by (nonlinear_arith) requires d < 26;
}

/// the characters an iterator (of any type) will yield, in order
pub uninterp spec fn iter_chars<I>(it: I) -> Seq<char>;

// TRUSTED: documented behaviour of <String as Extend<char>>::extend: appends every char the iterator yields, in order
pub assume_specification<I: IntoIterator<Item = char>>[ <String as Extend<char>>::extend::<I> ](s: &mut String, iter: I)
    ensures final(s)@ == old(s)@ + iter_chars(iter);

// TRUSTED: for the only instantiation used (Rev<Chars>, an Iterator and therefore its own IntoIterator) the yielded characters are
// vstd's `remaining()` of that iterator; vstd itself gives `s.chars().rev().remaining() == s@.reverse()`.
#[verifier::external_body]
pub broadcast proof fn axiom_iter_chars_rev_chars(it: core::iter::Rev<core::str::Chars<'_>>)
    ensures #[trigger] iter_chars(it) == it.remaining(),
{}

//@@ fn src/utils.rs push_column props=C14 entry
//@@ sig
    ensures
        //# C14.column_letters_frame
        final(buf)@.len() >= old(buf)@.len() && final(buf)@.subrange(0, old(buf)@.len() as int) == old(buf)@,
        //# C14.column_letters_uppercase
        all_upper_c(appended(old(buf)@, final(buf)@)),
        //# C14.column_letters_len
        col < 16384 ==> 1 <= appended(old(buf)@, final(buf)@).len() <= 3,
        //# C14.column_letters_last
        appended(old(buf)@, final(buf)@).len() >= 1 && appended(old(buf)@, final(buf)@).last() as u32 == 0x41 + col % 26,
        //# C14.column_letters
        col < 16384 ==> b26c(appended(old(buf)@, final(buf)@)) == col + 1,
        //# C14.column_letters_single
        col < 26 ==> b26c(appended(old(buf)@, final(buf)@)) == col + 1,
//@@ body
    broadcast use axiom_iter_chars_rev_chars;
    let ghost col0 = col;
    let ghost b0 = buf@;
//@@ after /buf\.push\([^;]*;/
        proof {
            // hints only (no restatement of what the code pushes)
            if buf@.len() == b0.len() + 1 && buf@.drop_last() =~= b0 {
                assert(appended(b0, buf@) =~= seq![buf@.last()]);
                assert(seq![buf@.last()].drop_last() =~= Seq::<char>::empty());
                reveal_with_fuel(b26c, 2);
            }
        }
//@@ before /while col/
        proof { assert(pow26(0) == 1); }
//@@ loop 0
            invariant
                all_upper_c(rev@),
                col0 < 16384 ==> rev@.len() <= 2,
                col0 >= 26,
                rev@.len() == 0 ==> col == col0,
                rev@.len() >= 1 ==> rev@[0] as u32 == 0x41 + col0 % 26,
                col * pow26(rev@.len()) <= col0,
            decreases col,
//@@ before /let c = /
            let ghost r0 = rev@;
            let ghost colb = col;
//@@ after /col \/= [^;]*;/
            proof {
                reveal_with_fuel(pow26, 4);
                if rev@.len() == r0.len() + 1 && col * 26 <= colb {
                    assert(pow26(rev@.len()) == 26 * pow26(r0.len()));
                    if col0 < 16384 && r0.len() == 2 { assert(pow26(2) == 676); assert(colb * 676 >= 17576); assert(false); }
                    assert(col * (26 * pow26(r0.len())) <= colb * pow26(r0.len())) by (nonlinear_arith) requires col * 26 <= colb;
                }
            }
//@@ after /buf\.extend\([^;]*;/
        proof {
            if buf@ == b0 + rev@.reverse() { assert(appended(b0, buf@) =~= rev@.reverse()); }
        }
//@@ end

} // verus!
fn main() {}
