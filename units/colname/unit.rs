//@@ unit props=C14,C06,C16
// Unit colname: utils::push_column (column letters used by the xls/xlsb formula renderers), verbatim text.
#![allow(unused_imports, dead_code, unused_variables, unused_mut, unused_assignments)]
use vstd::prelude::*;
use vstd::std_specs::iter::IteratorSpec;

verus! {

// ---- oracle, written from the property ("any column, A through IV/XFD, using spreadsheet letters"):
// spreadsheet column letters are the bijective base-26 numeral of (0-based column + 1) over the digits A=1 .. Z=26.
pub open spec fn is_upper_c(c: char) -> bool { 'A' <= c && c <= 'Z' }
pub open spec fn letter_val_c(c: char) -> nat { (c as u32 - 0x41 + 1) as nat }
/// bijective base-26 value of a letter string: A=1 .. Z=26, AA=27 ... (most significant letter first)
pub open spec fn b26c(s: Seq<char>) -> nat
    decreases s.len()
{
    if s.len() == 0 { 0 } else { b26c(s.drop_last()) * 26 + letter_val_c(s.last()) }
}
pub open spec fn all_upper_c(s: Seq<char>) -> bool { forall|i: int| 0 <= i < s.len() ==> is_upper_c(#[trigger] s[i]) }
pub open spec fn pow26(k: nat) -> nat decreases k { if k == 0 { 1 } else { 26 * pow26((k - 1) as nat) } }
/// what a call appended to the buffer
pub open spec fn appended(old: Seq<char>, new: Seq<char>) -> Seq<char> { new.subrange(old.len() as int, new.len() as int) }

/// spec sanity (the oracle agrees with the spreadsheet column names everybody knows): A=1, Z=26, AA=27, AZ=52, ZZ=702, AAA=703, IV=256, XFD=16384
proof fn lemma_b26c_examples()
    ensures
        b26c(seq!['A']) == 1, b26c(seq!['Z']) == 26, b26c(seq!['A', 'A']) == 27, b26c(seq!['A', 'Z']) == 52,
        b26c(seq!['Z', 'Z']) == 702, b26c(seq!['A', 'A', 'A']) == 703, b26c(seq!['I', 'V']) == 256, b26c(seq!['X', 'F', 'D']) == 16384,
{
    reveal_with_fuel(b26c, 5);
    assert(seq!['A', 'A'].drop_last() =~= seq!['A']);
    assert(seq!['A', 'Z'].drop_last() =~= seq!['A']);
    assert(seq!['Z', 'Z'].drop_last() =~= seq!['Z']);
    assert(seq!['I', 'V'].drop_last() =~= seq!['I']);
    assert(seq!['A', 'A', 'A'].drop_last() =~= seq!['A', 'A']);
    assert(seq!['X', 'F', 'D'].drop_last() =~= seq!['X', 'F']);
    assert(seq!['X', 'F'].drop_last() =~= seq!['X']);
}

/// value of a letter string written least-significant letter first (what the loop accumulates before the final reversal)
pub open spec fn b26c_rev(s: Seq<char>) -> nat
    decreases s.len()
{
    if s.len() == 0 { 0 } else { b26c_rev(s.drop_last()) + letter_val_c(s.last()) * pow26((s.len() - 1) as nat) }
}
proof fn lemma_b26c_prepend(d: char, t: Seq<char>)
    requires is_upper_c(d),
    ensures b26c(seq![d] + t) == letter_val_c(d) * pow26(t.len()) + b26c(t),
    decreases t.len(),
{
    let s = seq![d] + t;
    if t.len() == 0 {
        assert(s =~= seq![d]);
        assert(s.len() == 1);
        assert(s.last() == d);
        assert(s.drop_last() =~= Seq::<char>::empty());
        assert(b26c(s.drop_last()) == 0);
        assert(b26c(s) == b26c(s.drop_last()) * 26 + letter_val_c(s.last()));
        assert(pow26(0) == 1);
        assert(b26c(t) == 0);
        assert(letter_val_c(d) * pow26(t.len()) == letter_val_c(d)) by (nonlinear_arith) requires pow26(t.len()) == 1;
    } else {
        assert(s.drop_last() =~= seq![d] + t.drop_last());
        assert(s.last() == t.last());
        lemma_b26c_prepend(d, t.drop_last());
        let p = pow26(t.drop_last().len());
        assert(pow26(t.len()) == 26 * p);
        assert(b26c(s) == b26c(s.drop_last()) * 26 + letter_val_c(s.last()));
        assert(b26c(t) == b26c(t.drop_last()) * 26 + letter_val_c(t.last()));
        let dv = letter_val_c(d);
        assert((dv * p + b26c(t.drop_last())) * 26 == dv * (26 * p) + b26c(t.drop_last()) * 26) by (nonlinear_arith);
        assert(dv * pow26(t.len()) == dv * (26 * p));
    }
}
proof fn lemma_b26c_reverse(s: Seq<char>)
    requires all_upper_c(s),
    ensures b26c(s.reverse()) == b26c_rev(s),
    decreases s.len(),
{
    if s.len() == 0 {
        assert(s.reverse() =~= Seq::<char>::empty());
    } else {
        let t = s.drop_last();
        assert(s.reverse() =~= seq![s.last()] + t.reverse());
        assert forall|i: int| 0 <= i < t.len() implies is_upper_c(#[trigger] t[i]) by { assert(t[i] == s[i]); }
        assert(is_upper_c(s[s.len() - 1]));
        lemma_b26c_reverse(t);
        lemma_b26c_prepend(s.last(), t.reverse());
        assert(t.reverse().len() == s.len() - 1);
    }
}

/// the characters an iterator (of any type) will yield, in order
pub uninterp spec fn iter_chars<I>(it: I) -> Seq<char>;

// TRUSTED: documented behaviour of <String as Extend<char>>::extend: appends every char the iterator yields, in order
pub assume_specification<I: IntoIterator<Item = char>>[ <String as Extend<char>>::extend::<I> ](s: &mut String, iter: I)
    ensures final(s)@ == old(s)@ + iter_chars(iter);

// TRUSTED: for the only instantiation used (Rev<Chars>, an Iterator and therefore its own IntoIterator) the yielded characters are
// vstd's `remaining()` of that iterator; vstd itself gives `s.chars().rev().remaining() == s@.reverse()`.
#[verifier::external_body]
pub broadcast proof fn axiom_iter_chars_rev_chars(it: core::iter::Rev<core::str::Chars<'_>>)
    ensures #[trigger] iter_chars(it) == it.remaining(),
{}

//@@ fn src/utils.rs push_column props=C14,C16 entry
//@@ sig
    ensures
        //# C14,C16.column_letters_frame
        final(buf)@.len() >= old(buf)@.len() && final(buf)@.subrange(0, old(buf)@.len() as int) == old(buf)@,
        //# C14,C16.column_letters_uppercase
        all_upper_c(appended(old(buf)@, final(buf)@)),
        //# C14,C16.column_letters_len
        col < 16384 ==> 1 <= appended(old(buf)@, final(buf)@).len() <= 3,
        //# C14,C16.column_letters
        b26c(appended(old(buf)@, final(buf)@)) == col + 1,
//@@ body
    broadcast use axiom_iter_chars_rev_chars;
    let ghost col0 = col;
    let ghost b0 = buf@;
//@@ after /buf\.push\([^;]*;/
        proof {
            // hints only (no restatement of what the code pushes)
            if buf@.len() == b0.len() + 1 && buf@.drop_last() =~= b0 {
                assert(appended(b0, buf@) =~= seq![buf@.last()]);
                assert(seq![buf@.last()].drop_last() =~= Seq::<char>::empty());
                reveal_with_fuel(b26c, 2);
            }
        }
//@@ before /while col/
        proof { assert(pow26(0) == 1); }
//@@ loop 0
            invariant
                all_upper_c(rev@),
                col0 < 16384 ==> rev@.len() <= 2,
                col0 + 1 == (col + 1) * pow26(rev@.len()) + b26c_rev(rev@),
            decreases col,
//@@ before /let c = /
            let ghost r0 = rev@;
            let ghost colb = col;
//@@ after /col -= 1;/
            proof {
                // hints only: conditional on what the body did, never restating it
                if rev@.len() == r0.len() + 1 && rev@.drop_last() =~= r0 {
                    let lv = letter_val_c(rev@.last());
                    let p = pow26(r0.len());
                    assert(pow26(rev@.len()) == 26 * p);
                    assert(b26c_rev(rev@) == b26c_rev(r0) + lv * p);
                    if colb + 1 == (col + 1) * 26 + lv {
                        assert((colb + 1) * p == (col + 1) * (26 * p) + lv * p) by (nonlinear_arith) requires colb + 1 == (col + 1) * 26 + lv;
                    }
                    if col0 < 16384 && r0.len() == 2 {
                        reveal_with_fuel(pow26, 4);
                        assert(p == 676);
                        assert((colb + 1) * 676 >= 18252);
                        assert(false);
                    }
                }
            }
//@@ before /rev\.push\(/#1of2
        let ghost r1 = rev@;
//@@ before /buf\.extend\(/
        proof {
            if rev@.len() == r1.len() + 1 && rev@.drop_last() =~= r1 {
                assert(b26c_rev(rev@) == b26c_rev(r1) + letter_val_c(rev@.last()) * pow26(r1.len()));
            }
        }
//@@ after /buf\.extend\([^;]*;/
        proof {
            if buf@ == b0 + rev@.reverse() {
                assert(appended(b0, buf@) =~= rev@.reverse());
                lemma_b26c_reverse(rev@);
            }
        }
//@@ end

} // verus!
fn main() {}
