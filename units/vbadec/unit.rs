//@@ unit props=C18,C06
// Unit vbadec: [MS-OVBA] 2.4.1 decompression (src/cfb.rs decompress_stream) and dir-stream record helpers (src/vba.rs), verbatim text.
#![allow(unused_imports, dead_code, unused_variables, unused_mut, unused_assignments)]
#![feature(pattern)]
use vstd::prelude::*;
use vstd::std_specs::iter::IteratorSpec;

verus! {

#[verifier::external_type_specification] #[verifier::external_body] pub struct ExIoError(std::io::Error);

// TRUSTED: std::io::ErrorKind is a plain enum; `io::Error::from(kind)` builds an error value and never panics
#[verifier::external_type_specification] pub struct ExErrorKind(std::io::ErrorKind);
pub assume_specification [<std::io::Error as From<std::io::ErrorKind>>::from] (k: std::io::ErrorKind) -> std::io::Error;

//@@ item src/cfb.rs enum CfbError

//@@ include common/bytes.rs

// TRUSTED: a Rust slice never spans more than isize::MAX bytes (std::slice documentation, "the total size len * size_of::<T>() of the slice must be no larger than isize::MAX")
#[verifier::external_body]
pub proof fn axiom_slice_len_isize(s: &[u8])
    ensures s@.len() <= isize::MAX,
{}

pub open spec fn p2(k: nat) -> nat decreases k { if k == 0 { 1 } else { 2 * p2((k - 1) as nat) } }

proof fn lemma_p2_vals()
    ensures p2(0) == 1, p2(1) == 2, p2(2) == 4, p2(3) == 8, p2(4) == 16, p2(5) == 32, p2(6) == 64, p2(7) == 128, p2(8) == 256,
        p2(9) == 512, p2(10) == 1024, p2(11) == 2048, p2(12) == 4096, p2(13) == 8192, p2(14) == 16384, p2(15) == 32768, p2(16) == 65536,
{
    reveal_with_fuel(p2, 18);
}

proof fn lemma_shl_p2(k: u16)
    requires k <= 15
    ensures (1u16 << k) == p2(k as nat)
{
    lemma_p2_vals();
    assert(1u16 << 0u16 == 1 && 1u16 << 1u16 == 2 && 1u16 << 2u16 == 4 && 1u16 << 3u16 == 8 && 1u16 << 4u16 == 16 && 1u16 << 5u16 == 32 && 1u16 << 6u16 == 64 && 1u16 << 7u16 == 128
        && 1u16 << 8u16 == 256 && 1u16 << 9u16 == 512 && 1u16 << 10u16 == 1024 && 1u16 << 11u16 == 2048 && 1u16 << 12u16 == 4096 && 1u16 << 13u16 == 8192 && 1u16 << 14u16 == 16384 && 1u16 << 15u16 == 32768) by (bit_vector);
}

/// [MS-OVBA] 2.4.1.3.19.1 CopyToken: Length = (Token & LengthMask) + 3 with LengthMask = 0xFFFF >> BitCount, i.e. the low 16-BitCount bits
pub open spec fn tok_len(tok: int, bc: nat) -> int { tok % (p2((16 - bc) as nat) as int) + 3 }
/// Offset = ((Token & OffsetMask) >> (16 - BitCount)) + 1, i.e. the high BitCount bits
pub open spec fn tok_off(tok: int, bc: nat) -> int { tok / (p2((16 - bc) as nat) as int) + 1 }

proof fn lemma_tok_bits(token: u16, bc: u16)
    requires 4 <= bc <= 15
    ensures
        (token & (0xFFFFu16 >> bc)) as int == tok_len(token as int, bc as nat) - 3,
        ((token & !(0xFFFFu16 >> bc)) >> ((16 - bc) as u16)) as int == tok_off(token as int, bc as nat) - 1,
        3 <= tok_len(token as int, bc as nat) <= p2((16 - bc) as nat) + 2,
        1 <= tok_off(token as int, bc as nat) <= p2(bc as nat),
{
    assert((token & (0xFFFFu16 >> bc)) == token % (1u16 << ((16 - bc) as u16))) by (bit_vector) requires 4 <= bc <= 15;
    assert(((token & !(0xFFFFu16 >> bc)) >> ((16 - bc) as u16)) == token / (1u16 << ((16 - bc) as u16))) by (bit_vector) requires 4 <= bc <= 15;
    lemma_shl_p2((16 - bc) as u16);
    lemma_p2_vals();
    let m = p2((16 - bc) as nat) as int;
    assert(m * p2(bc as nat) == 65536) by {
        if bc == 4 {} else if bc == 5 {} else if bc == 6 {} else if bc == 7 {} else if bc == 8 {} else if bc == 9 {} else if bc == 10 {} else if bc == 11 {} else if bc == 12 {} else if bc == 13 {} else if bc == 14 {} else {}
    }
    assert((token as int) / m < p2(bc as nat)) by (nonlinear_arith) requires m > 0, m * p2(bc as nat) == 65536, 0 <= token as int, (token as int) < 65536;
}

/// the table `POWER_2` of decompress_stream is 2^k
pub open spec fn is_p2_table(t: [usize; 16]) -> bool { forall|k: int| 0 <= k < 16 ==> t[k] == p2(k as nat) }

// =====================================================================================================================
// [MS-OVBA] 2.4.1 as mathematics over Seq<u8> (written from the format text, not from the code)
// =====================================================================================================================

/// u16 little endian at position p
pub open spec fn u16_at(s: Seq<u8>, p: int) -> int { s[p] as int + 256 * (s[p + 1] as int) }
/// CompressedChunkHeader (2.4.1.1.5): bits 0..11 CompressedChunkSize = chunk bytes - 3, bits 12..14 signature 0b011, bit 15 CompressedChunkFlag
pub open spec fn hdr_size(h: int) -> int { h % 4096 }
pub open spec fn hdr_sig(h: int) -> int { (h / 4096) % 8 }
pub open spec fn hdr_compressed(h: int) -> bool { h / 32768 == 1 }
/// FlagByte bit k, least significant first: true = CopyToken, false = LiteralToken (2.4.1.1.7)
pub open spec fn flag_bit(flags: u8, k: int) -> bool { (flags as int / (p2(k as nat) as int)) % 2 == 1 }

/// CopyToken help (2.4.1.3.19.1): BitCount = max(ceil(log2(difference)), 4) = the least b >= 4 with 2^b >= difference
pub open spec fn bit_count_from(d: int, b: nat) -> nat
    decreases 16 - b
{
    if b >= 16 || p2(b) >= d { b } else { bit_count_from(d, b + 1) }
}
pub open spec fn copy_bit_count(d: int) -> nat { bit_count_from(d, 4) }

/// byte-by-byte copy of n bytes from `off` bytes back (2.4.1.3.11 Byte Copy): overlapping copies repeat
#[verifier::opaque]
pub open spec fn copy_bytes(out: Seq<u8>, off: int, n: int) -> Seq<u8>
    decreases n
{
    if n <= 0 { out } else { copy_bytes(out.push(out[out.len() - off]), off, n - 1) }
}

/// TokenSequences of one compressed chunk: data bytes [p, e); `flags`/`k` = current FlagByte and the index of its next bit
/// (k == 8: a new FlagByte is due); `out` = whole decompressed buffer, `start` = DecompressedChunkStart.
/// None = malformed (token crosses the chunk end, copy offset reaches before the chunk's start).
#[verifier::opaque]
pub open spec fn dec_toks(s: Seq<u8>, p: int, e: int, flags: u8, k: int, out: Seq<u8>, start: int) -> Option<Seq<u8>>
    decreases e - p
{
    if p >= e {
        if p == e { Some(out) } else { None }
    } else if k >= 8 {
        dec_toks(s, p + 1, e, s[p], 0, out, start)
    } else if !flag_bit(flags, k) {
        dec_toks(s, p + 1, e, flags, k + 1, out.push(s[p]), start)
    } else if p + 2 > e {
        None
    } else {
        let tok = u16_at(s, p);
        let d = out.len() - start;
        let bc = copy_bit_count(d);
        if tok_off(tok, bc) > d { None } else { dec_toks(s, p + 2, e, flags, k + 1, copy_bytes(out, tok_off(tok, bc), tok_len(tok, bc)), start) }
    }
}

/// CompressedChunk* from position i (a chunk boundary) to the end of the container
#[verifier::opaque]
pub open spec fn dec_chunks(s: Seq<u8>, i: int, out: Seq<u8>) -> Option<Seq<u8>>
    decreases s.len() - i
{
    if i >= s.len() {
        if i == s.len() { Some(out) } else { None }
    } else if i + 2 > s.len() {
        None
    } else {
        let h = u16_at(s, i);
        let e = i + hdr_size(h) + 3;
        if hdr_sig(h) != 3 || e > s.len() {
            None
        } else if !hdr_compressed(h) {
            // raw chunk: exactly 4096 data bytes
            if hdr_size(h) != 4095 { None } else { dec_chunks(s, e, out + s.subrange(i + 2, e)) }
        } else {
            match dec_toks(s, i + 2, e, 0, 8, out, out.len() as int) {
                Some(o2) => if o2.len() - out.len() > 4096 { None } else { dec_chunks(s, e, o2) },
                None => None,
            }
        }
    }
}

/// CompressedContainer = SignatureByte 0x01 ++ CompressedChunk*
pub open spec fn decode_opt(s: Seq<u8>) -> Option<Seq<u8>> {
    if s.len() >= 1 && s[0] == 1 { dec_chunks(s, 1, Seq::<u8>::empty()) } else { None }
}
pub open spec fn valid_container(s: Seq<u8>) -> bool { decode_opt(s) is Some }
pub open spec fn decode(s: Seq<u8>) -> Seq<u8> { decode_opt(s).unwrap() }

proof fn lemma_copy_small(out: Seq<u8>, off: int, n: int)
    requires 0 <= n <= off <= out.len(),
    ensures copy_bytes(out, off, n) == out + out.subrange(out.len() - off, out.len() - off + n),
    decreases n,
{
    reveal(copy_bytes);
    if n == 0 {
        assert(out + out.subrange(out.len() - off, out.len() - off) =~= out);
    } else {
        let o1 = out.push(out[out.len() - off]);
        lemma_copy_small(o1, off, n - 1);
        assert(o1 + o1.subrange(o1.len() - off, o1.len() - off + n - 1) =~= out + out.subrange(out.len() - off, out.len() - off + n));
    }
}

proof fn lemma_copy_add(out: Seq<u8>, off: int, a: int, b: int)
    requires 0 <= a, 0 <= b, 1 <= off <= out.len(),
    ensures copy_bytes(out, off, a + b) == copy_bytes(copy_bytes(out, off, a), off, b),
    decreases a,
{
    reveal(copy_bytes);
    if a > 0 {
        lemma_copy_add(out.push(out[out.len() - off]), off, a - 1, b);
    }
}

proof fn lemma_copy_len(out: Seq<u8>, off: int, n: int)
    requires 0 <= n, 1 <= off <= out.len(),
    ensures copy_bytes(out, off, n).len() == out.len() + n,
    decreases n,
{
    reveal(copy_bytes);
    if n > 0 { lemma_copy_len(out.push(out[out.len() - off]), off, n - 1); }
}

pub open spec fn p2i(j: int) -> nat { p2(j as nat) }
/// `(4..16).find(|i| POWER_2[*i] >= d)` (first hit) is BitCount
proof fn lemma_bit_count(d: int, b: int)
    requires 4 <= b < 16, p2(b as nat) >= d, forall|j: int| 4 <= j < b ==> #[trigger] p2i(j) < d,
    ensures copy_bit_count(d) == b,
{
    reveal_with_fuel(bit_count_from, 14);
    lemma_p2_vals();
    assert(p2i(4) < d || b == 4);
    assert(b > 5 ==> p2i(5) < d); assert(b > 6 ==> p2i(6) < d); assert(b > 7 ==> p2i(7) < d); assert(b > 8 ==> p2i(8) < d);
    assert(b > 9 ==> p2i(9) < d); assert(b > 10 ==> p2i(10) < d); assert(b > 11 ==> p2i(11) < d); assert(b > 12 ==> p2i(12) < d);
    assert(b > 13 ==> p2i(13) < d); assert(b > 14 ==> p2i(14) < d);
}

proof fn lemma_flag_bit(f: u8, k: i32)
    requires 0 <= k < 8
    ensures ((f & (1u8 << k)) == 0) == !flag_bit(f, k as int)
{
    reveal_with_fuel(p2, 10);
    if k == 0 { assert(((f & (1u8 << 0i32)) == 0) == ((f / 1) % 2 == 0)) by (bit_vector); }
    else if k == 1 { assert(((f & (1u8 << 1i32)) == 0) == ((f / 2) % 2 == 0)) by (bit_vector); }
    else if k == 2 { assert(((f & (1u8 << 2i32)) == 0) == ((f / 4) % 2 == 0)) by (bit_vector); }
    else if k == 3 { assert(((f & (1u8 << 3i32)) == 0) == ((f / 8) % 2 == 0)) by (bit_vector); }
    else if k == 4 { assert(((f & (1u8 << 4i32)) == 0) == ((f / 16) % 2 == 0)) by (bit_vector); }
    else if k == 5 { assert(((f & (1u8 << 5i32)) == 0) == ((f / 32) % 2 == 0)) by (bit_vector); }
    else if k == 6 { assert(((f & (1u8 << 6i32)) == 0) == ((f / 64) % 2 == 0)) by (bit_vector); }
    else { assert(((f & (1u8 << 7i32)) == 0) == ((f / 128) % 2 == 0)) by (bit_vector); }
}

/// end of the container reached
proof fn lemma_chunks_end(s: Seq<u8>, i: int, out: Seq<u8>)
    requires i >= s.len(),
    ensures dec_chunks(s, i, out) == (if i == s.len() { Some(out) } else { None::<Seq<u8>> }),
{
    reveal(dec_chunks);
}

// ---- single steps of dec_toks (the function is opaque in the body of decompress_stream; every step is an explicit lemma call)
proof fn lemma_toks_end(s: Seq<u8>, p: int, e: int, f: u8, k: int, out: Seq<u8>, start: int)
    requires p >= e,
    ensures dec_toks(s, p, e, f, k, out, start) == (if p == e { Some(out) } else { None::<Seq<u8>> }),
{
    reveal(dec_toks);
}
proof fn lemma_toks_some(s: Seq<u8>, p: int, e: int, f: u8, k: int, out: Seq<u8>, start: int)
    requires dec_toks(s, p, e, f, k, out, start) is Some,
    ensures p <= e,
{
    reveal(dec_toks);
}
proof fn lemma_toks_flag(s: Seq<u8>, p: int, e: int, f: u8, out: Seq<u8>, start: int)
    requires p < e,
    ensures dec_toks(s, p, e, f, 8, out, start) == dec_toks(s, p + 1, e, s[p], 0, out, start),
{
    reveal(dec_toks);
}
/// with k == 8 the old FlagByte is irrelevant
proof fn lemma_toks_k8(s: Seq<u8>, p: int, e: int, f1: u8, f2: u8, out: Seq<u8>, start: int)
    ensures dec_toks(s, p, e, f1, 8, out, start) == dec_toks(s, p, e, f2, 8, out, start),
{
    reveal(dec_toks);
}
proof fn lemma_toks_literal(s: Seq<u8>, p: int, e: int, f: u8, k: int, out: Seq<u8>, start: int)
    requires p < e, 0 <= k < 8, !flag_bit(f, k),
    ensures dec_toks(s, p, e, f, k, out, start) == dec_toks(s, p + 1, e, f, k + 1, out.push(s[p]), start),
{
    reveal(dec_toks);
}
proof fn lemma_toks_copy(s: Seq<u8>, p: int, e: int, f: u8, k: int, out: Seq<u8>, start: int)
    requires p < e, 0 <= k < 8, flag_bit(f, k), dec_toks(s, p, e, f, k, out, start) is Some,
    ensures
        p + 2 <= e,
        tok_off(u16_at(s, p), copy_bit_count(out.len() - start)) <= out.len() - start,
        dec_toks(s, p, e, f, k, out, start) == dec_toks(s, p + 2, e, f, k + 1,
            copy_bytes(out, tok_off(u16_at(s, p), copy_bit_count(out.len() - start)), tok_len(u16_at(s, p), copy_bit_count(out.len() - start))), start),
{
    reveal(dec_toks);
}
/// FlagByte as far as the invariant of the token loop is concerned: irrelevant once all 8 bits are used
pub open spec fn fl(f: u8, k: int) -> u8 { if k >= 8 { 0u8 } else { f } }

/// one unfolding of dec_chunks at a chunk boundary i < |s| of a valid container
proof fn lemma_chunk_unfold(s: Seq<u8>, i: int, out: Seq<u8>)
    requires dec_chunks(s, i, out) is Some, i < s.len(),
    ensures
        i + 2 <= s.len(),
        hdr_sig(u16_at(s, i)) == 3,
        i + hdr_size(u16_at(s, i)) + 3 <= s.len(),
        !hdr_compressed(u16_at(s, i)) ==> hdr_size(u16_at(s, i)) == 4095
            && dec_chunks(s, i, out) == dec_chunks(s, i + 4098, out + s.subrange(i + 2, i + 4098)),
        hdr_compressed(u16_at(s, i)) ==> ({
            let e = i + hdr_size(u16_at(s, i)) + 3;
            let t = dec_toks(s, i + 2, e, 0, 8, out, out.len() as int);
            t is Some && t.unwrap().len() - out.len() <= 4096 && dec_chunks(s, i, out) == dec_chunks(s, e, t.unwrap())
        }),
{
    reveal(dec_chunks);
}

// ---- witnesses: the specification on concrete containers (guards against a vacuous or mis-stated `decode`)
proof fn lemma_chunk_fold_compressed(s: Seq<u8>, i: int, out: Seq<u8>, o2: Seq<u8>)
    requires
        0 <= i, i + 2 <= s.len(), hdr_sig(u16_at(s, i)) == 3, hdr_compressed(u16_at(s, i)), i + hdr_size(u16_at(s, i)) + 3 <= s.len(),
        dec_toks(s, i + 2, i + hdr_size(u16_at(s, i)) + 3, 0, 8, out, out.len() as int) == Some(o2), o2.len() - out.len() <= 4096,
    ensures dec_chunks(s, i, out) == dec_chunks(s, i + hdr_size(u16_at(s, i)) + 3, o2),
{
    reveal(dec_chunks);
}
proof fn lemma_copy3(o: Seq<u8>, off: int)
    requires 1 <= off <= o.len(),
    ensures copy_bytes(o, off, 3) == o.push(o[o.len() - off]).push(o.push(o[o.len() - off])[o.len() + 1 - off])
        .push(o.push(o[o.len() - off]).push(o.push(o[o.len() - off])[o.len() + 1 - off])[o.len() + 2 - off]),
{
    reveal_with_fuel(copy_bytes, 4);
}

/// one chunk, literal 'A' then CopyToken 0x0000 (offset 1, length 3, overlapping): "AAAA"
proof fn witness_decode_literal_and_copy()
    ensures
        valid_container(seq![1u8, 0x03, 0xB0, 0x02, 0x41, 0x00, 0x00]),
        decode(seq![1u8, 0x03, 0xB0, 0x02, 0x41, 0x00, 0x00]) == seq![0x41u8, 0x41, 0x41, 0x41],
{
    let s = seq![1u8, 0x03, 0xB0, 0x02, 0x41, 0x00, 0x00];
    let em = Seq::<u8>::empty();
    lemma_p2_vals();
    assert(u16_at(s, 1) == 0xB003);
    assert(hdr_size(0xB003) == 3 && hdr_sig(0xB003) == 3 && hdr_compressed(0xB003));
    assert(!flag_bit(2u8, 0) && flag_bit(2u8, 1)) by { assert(p2(0) as int == 1 && p2(1) as int == 2); assert(2int / 1 == 2 && 2int / 2 == 1); }
    assert(u16_at(s, 5) == 0);
    let o1 = em.push(0x41u8);
    assert(copy_bit_count(1) == 4) by { reveal_with_fuel(bit_count_from, 2); }
    assert(tok_off(0, 4) == 1 && tok_len(0, 4) == 3);
    lemma_copy3(o1, 1);
    let o4 = copy_bytes(o1, 1, 3);
    assert(o4 =~= seq![0x41u8, 0x41, 0x41, 0x41]);
    lemma_toks_end(s, 7, 7, 2u8, 2, o4, 0);
    assert(dec_toks(s, 5, 7, 2u8, 1, o1, 0) == Some(o4)) by { reveal(dec_toks); }
    lemma_toks_literal(s, 4, 7, 2u8, 0, em, 0);
    lemma_toks_flag(s, 3, 7, 0u8, em, 0);
    assert(dec_toks(s, 3, 7, 0u8, 8, em, 0) == Some(o4));
    lemma_chunk_fold_compressed(s, 1, em, o4);
    lemma_chunks_end(s, 7, o4);
    assert(dec_chunks(s, 1, em) == Some(o4));
}

/// two chunks: chunk 1 = one full group of 8 literal tokens 'A'..'H', chunk 2 = literal 'I' (the container of the fixed C18 defect):
/// the specification says "ABCDEFGHI"
proof fn witness_full_group_container()
    ensures
        valid_container(seq![1u8, 0x08, 0xB0, 0x00, 0x41, 0x42, 0x43, 0x44, 0x45, 0x46, 0x47, 0x48, 0x01, 0xB0, 0x00, 0x49]),
        decode(seq![1u8, 0x08, 0xB0, 0x00, 0x41, 0x42, 0x43, 0x44, 0x45, 0x46, 0x47, 0x48, 0x01, 0xB0, 0x00, 0x49])
            == seq![0x41u8, 0x42, 0x43, 0x44, 0x45, 0x46, 0x47, 0x48, 0x49],
{
    let s = seq![1u8, 0x08, 0xB0, 0x00, 0x41, 0x42, 0x43, 0x44, 0x45, 0x46, 0x47, 0x48, 0x01, 0xB0, 0x00, 0x49];
    let em = Seq::<u8>::empty();
    lemma_p2_vals();
    assert(u16_at(s, 1) == 0xB008 && u16_at(s, 12) == 0xB001);
    assert(hdr_size(0xB008) == 8 && hdr_sig(0xB008) == 3 && hdr_compressed(0xB008));
    assert(hdr_size(0xB001) == 1 && hdr_sig(0xB001) == 3 && hdr_compressed(0xB001));
    assert(forall|k: int| 0 <= k < 8 ==> !#[trigger] flag_bit(0u8, k)) by {
        assert forall|k: int| 0 <= k < 8 implies !#[trigger] flag_bit(0u8, k) by { assert(0int / (p2(k as nat) as int) == 0) by (nonlinear_arith) requires p2(k as nat) > 0; }
    }
    let o1 = em.push(0x41u8); let o2 = o1.push(0x42u8); let o3 = o2.push(0x43u8); let o4 = o3.push(0x44u8);
    let o5 = o4.push(0x45u8); let o6 = o5.push(0x46u8); let o7 = o6.push(0x47u8); let o8 = o7.push(0x48u8); let o9 = o8.push(0x49u8);
    // chunk 1: data [3, 12)
    lemma_toks_flag(s, 3, 12, 0u8, em, 0);
    lemma_toks_literal(s, 4, 12, 0u8, 0, em, 0);
    lemma_toks_literal(s, 5, 12, 0u8, 1, o1, 0);
    lemma_toks_literal(s, 6, 12, 0u8, 2, o2, 0);
    lemma_toks_literal(s, 7, 12, 0u8, 3, o3, 0);
    lemma_toks_literal(s, 8, 12, 0u8, 4, o4, 0);
    lemma_toks_literal(s, 9, 12, 0u8, 5, o5, 0);
    lemma_toks_literal(s, 10, 12, 0u8, 6, o6, 0);
    lemma_toks_literal(s, 11, 12, 0u8, 7, o7, 0);
    lemma_toks_end(s, 12, 12, 0u8, 8, o8, 0);
    assert(dec_toks(s, 3, 12, 0u8, 8, em, 0) == Some(o8));
    // chunk 2: data [14, 16)
    lemma_toks_flag(s, 14, 16, 0u8, o8, 8);
    lemma_toks_literal(s, 15, 16, 0u8, 0, o8, 8);
    lemma_toks_end(s, 16, 16, 0u8, 1, o9, 8);
    assert(dec_toks(s, 14, 16, 0u8, 8, o8, 8) == Some(o9));
    lemma_chunk_fold_compressed(s, 12, o8, o9);
    lemma_chunks_end(s, 16, o9);
    lemma_chunk_fold_compressed(s, 1, em, o8);
    assert(dec_chunks(s, 1, em) == Some(o9));
    assert(o9 =~= seq![0x41u8, 0x42, 0x43, 0x44, 0x45, 0x46, 0x47, 0x48, 0x49]);
}

/// what the validity of the container says about the compressed chunk at cs (ghost constants of one outer iteration)
pub open spec fn chunk_facts(sq: Seq<u8>, cs: int, e: int, full: Option<Seq<u8>>, tgt: Option<Seq<u8>>, base_len: int) -> bool {
    tgt is Some && full == dec_chunks(sq, e, tgt.unwrap()) && cs + 3 <= e <= sq.len() && tgt.unwrap().len() - base_len <= 4096
}

//@@ fn src/cfb.rs decompress_stream props=C18 entry ret=r
//@@ sig
    ensures
        //# C18.decode
        valid_container(s@) ==> (r matches Ok(v) && v@ == decode(s@)),
        //# C18.bad_container_signature_rejected
        s@.len() >= 1 && s@[0] != 1 ==> r is Err,
        //# C06.empty_container_rejected
        s@.len() == 0 ==> r is Err,
//@@ body
    proof { axiom_slice_len_isize(s); }
//@@ closure 0
 -> (b: bool) requires *i < 16, ensures
    //# C18.bit_count_predicate
    b == (POWER_2[*i as int] >= decomp_len),
//@@ before /let mut res = /
    proof {
        lemma_p2_vals();
        assert(1usize << 1 == 2 && 1usize << 2 == 4 && 1usize << 3 == 8 && 1usize << 4 == 16 && 1usize << 5 == 32 && 1usize << 6 == 64 && 1usize << 7 == 128
            && 1usize << 8 == 256 && 1usize << 9 == 512 && 1usize << 10 == 1024 && 1usize << 11 == 2048 && 1usize << 12 == 4096 && 1usize << 13 == 8192 && 1usize << 14 == 16384 && 1usize << 15 == 32768) by (bit_vector);
        assert(is_p2_table(POWER_2));
    }
//@@ before /let mut i = 1/
    let ghost sq = s@;
    let ghost full = dec_chunks(sq, 1, Seq::<u8>::empty());
    let ghost ok = full is Some;
    proof { assert(res@ =~= Seq::<u8>::empty()); }
//@@ loop 0
        invariant 1 <= i, s@.len() <= isize::MAX, is_p2_table(POWER_2), sq == s@,
            valid_container(s@) ==> ok,
            ok ==> (full is Some && full == dec_chunks(sq, i as int, res@)),
        decreases (if i < s@.len() { s@.len() - i } else { 0 }),
//@@ before /if s\.len\(\) - i < /#0of3
        let ghost res_top = res@;
        proof { if ok { lemma_chunk_unfold(sq, i as int, res_top); } }
//@@ after /let chunk_flag = [^;]*;/
        let ghost cs = i - 2;
        let ghost e = cs + (chunk_size as int) + 3;
        let ghost base = res@;
        let ghost tgt = dec_toks(sq, cs + 2, e, 0u8, 8, base, start as int);
        proof {
            assert(chunk_header & 0x0FFF == chunk_header % 4096) by (bit_vector);
            assert((chunk_header & 0x7000) >> 12 == (chunk_header / 4096) % 8) by (bit_vector);
            assert((chunk_header & 0x8000) >> 15 == chunk_header / 32768) by (bit_vector);
            if ok {
                assert(res@ == res_top);
                lemma_chunk_unfold(sq, cs, res_top);
                assert(s@.subrange(cs, s@.len() as int)[0] == sq[cs] && s@.subrange(cs, s@.len() as int)[1] == sq[cs + 1]);
                assert(chunk_header as int == u16_at(sq, cs));
                if chunk_flag != 0 {
                    assert(hdr_compressed(chunk_header as int));
                    assert(chunk_facts(sq, cs, e, full, tgt, start as int));
                } else {
                    assert(!hdr_compressed(chunk_header as int));
                    assert(e == cs + 4098);
                }
            }
        }
//@@ after /\bi \+= \d+;/#1of5
            proof { if ok {
                assert(s@.subrange(cs + 2, e) == sq.subrange(cs + 2, e));
                assert(res@ == base + sq.subrange(cs + 2, e));
                assert(i == e);
            } }
//@@ before /let start = /
        let ghost i_chunk = i;
//@@ loop 1
                invariant_except_break
                    chunk_len <= chunk_size + 2,
                    res@.len() - start <= 8194 + 5 * chunk_len,
                    ok ==> tgt == dec_toks(sq, i as int, e, 0u8, 8, res@, start as int),
                invariant
                    1 <= i, i_chunk <= i, s@.len() <= isize::MAX, is_p2_table(POWER_2), chunk_size <= 4095, start <= res@.len(), sq == s@,
                    chunk_len == i - (cs + 2), e == cs + chunk_size + 3,
                    ok ==> chunk_facts(sq, cs, e, full, tgt, start as int),
                    ok ==> full is Some, valid_container(s@) ==> ok,
                ensures
                    ok ==> (full is Some && full == dec_chunks(sq, i as int, res@)),
                decreases (if i < s@.len() { s@.len() - i } else { 0 }),
//@@ loop 2 it
                    invariant
                        1 <= i, i_top + 1 <= i <= s@.len(), i_chunk <= i_top,
                        i_top < s@.len() <= isize::MAX, is_p2_table(POWER_2), chunk_size <= 4095, start <= res@.len(), sq == s@,
                        chunk_len <= chunk_size + 3, it.index@ > 0 ==> chunk_len <= chunk_size + 2,
                        res@.len() - start <= 8194 + 5 * chunk_len,
                        it.seq().len() == 8, forall|k: int| 0 <= k < 8 ==> it.seq()[k] == k,
                        chunk_len == i - (cs + 2), e == cs + chunk_size + 3,
                        ok ==> chunk_facts(sq, cs, e, full, tgt, start as int),
                        ok ==> full is Some, valid_container(s@) ==> ok,
                        ok ==> tgt == dec_toks(sq, i as int, e, fl(bit_flags, it.index@ as int), it.index@ as int, res@, start as int),
//@@ before /break;/
                    proof { if ok {
                        lemma_toks_some(sq, i as int, e, 0u8, 8, res@, start as int);
                        lemma_toks_end(sq, i as int, e, 0u8, 8, res@, start as int);
                    } }
//@@ before /break 'chunk;/
                        proof { if ok {
                            lemma_toks_some(sq, i as int, e, fl(bit_flags, it.index@ as int), it.index@ as int, res@, start as int);
                            lemma_toks_end(sq, i as int, e, fl(bit_flags, it.index@ as int), it.index@ as int, res@, start as int);
                        } }
//@@ before /let bit_flags = /
                let ghost i_top = i;
//@@ after /chunk_len \+= 1;/#0of2
                proof {
                    if ok {
                        // `chunk_len <= chunk_size` was just tested: the chunk's data is not exhausted, a next FlagByte is really due
                        assert(i_top < e);
                        lemma_toks_flag(sq, i_top as int, e, 0u8, res@, start as int);
                    }
                }
//@@ before /if \(bit_flags & /
                    let ghost kk = it.index@ as int;
                    let ghost i_tok = i;
                    let ghost res0 = res@;
                    proof {
                        lemma_flag_bit(bit_flags, bit_index);
                        assert(bit_index == kk);
                        if ok { assert(i < e); }
                    }
//@@ before /res\.push\(/
                        proof {
                            if ok { lemma_toks_literal(sq, i as int, e, bit_flags, kk, res@, start as int); }
                        }
//@@ after /chunk_len \+= 1;/#1of2
                        proof { if ok && kk == 7 { lemma_toks_k8(sq, i_tok + 1, e, bit_flags, 0u8, res@, start as int); } }
//@@ before /if s\.len\(\) - i < /#2of3
                        proof {
                            if ok { lemma_toks_copy(sq, i as int, e, bit_flags, kk, res@, start as int); }
                        }
//@@ before /let bit_count = /
                        proof {
                            lemma_p2_vals();
                            let ghost r0 = (4usize..16usize).remaining();
                            assert(r0.len() == 12 && r0[0] == 4 && r0[1] == 5 && r0[2] == 6 && r0[3] == 7 && r0[4] == 8 && r0[5] == 9 && r0[6] == 10
                                && r0[7] == 11 && r0[8] == 12 && r0[9] == 13 && r0[10] == 14 && r0[11] == 15);
                            assert(POWER_2[15] == 32768);
                        }
//@@ after /let offset = [^;]*;/
                        proof {
                            lemma_p2_vals();
                            lemma_tok_bits(token, bit_count as u16);
                            assert(len_mask == 0xFFFFu16 >> (bit_count as u16));
                            assert(len == tok_len(token as int, bit_count as nat));
                            assert(offset == tok_off(token as int, bit_count as nat));
                            assert(POWER_2[bit_count as int] == p2(bit_count as nat));
                            // decomp_len > 4096 ==> bit_count >= 13 ==> len <= 10
                            assert(decomp_len > 4096 ==> len <= 10);
                            assert(len <= 4098);
                            assert(len <= offset ==> len <= 4096);
                            assert(offset < len ==> offset <= 4096);
                            assert(forall|j: int| 4 <= j < bit_count ==> POWER_2[j] < decomp_len);
                            assert forall|j: int| 4 <= j < bit_count implies #[trigger] p2i(j) < decomp_len by { assert(POWER_2[j] == p2(j as nat)); }
                            lemma_bit_count(decomp_len as int, bit_count as int);
                            // the table search `(4..16).find(..)` found a hit (the `.unwrap()` above is discharged from decomp_len <= 32768 = POWER_2[15])
                            // and the FIRST hit is [MS-OVBA]'s BitCount = max(4, ceil(log2(difference)))
                            //# C18.copytoken_bitcount
                            assert(4 <= bit_count < 16 && bit_count as nat == copy_bit_count(decomp_len as int)
                                && p2(bit_count as nat) >= decomp_len && (bit_count > 4 ==> p2((bit_count - 1) as nat) < decomp_len));
                            if ok {
                                assert(s@.subrange(i_tok as int, s@.len() as int)[0] == sq[i_tok as int] && s@.subrange(i_tok as int, s@.len() as int)[1] == sq[i_tok + 1]);
                                assert(token as int == u16_at(sq, i_tok as int));
                                assert(offset <= decomp_len);
                            }
                        }
//@@ loop 3
                            invariant
                                1 <= offset, 1 <= len <= len0, res@.len() + len == res0.len() + len0,
                                offset < len0 ==> offset <= 4096,
                                offset <= res0.len(),
                                ok ==> copy_bytes(res0, offset as int, len0 as int) == copy_bytes(res@, offset as int, len as int),
                            decreases len,
//@@ before /while len > offset/
                        let ghost len0 = len;
//@@ before /buf\[\.\.offset\]\s*\.copy/
                            let ghost r1 = res@;
//@@ before /len -= offset/
                            proof {
                                if ok {
                                    lemma_copy_small(r1, offset as int, offset as int);
                                    lemma_copy_add(r1, offset as int, offset as int, len - offset);
                                    assert(res@ =~= r1 + r1.subrange(r1.len() - offset, r1.len() as int));
                                }
                            }
//@@ before /buf\[\.\.len\]\s*\.copy/
                        let ghost r2 = res@;
//@@ after /res\.extend_from_slice\(&buf\[\.\.len\]\);/
                        proof {
                            if ok {
                                lemma_copy_small(r2, offset as int, len as int);
                                assert(res@ =~= r2 + r2.subrange(r2.len() - offset, r2.len() - offset + len));
                                lemma_copy_add(res@, offset as int, 0, 0);
                                assert(res@ == copy_bytes(res0, offset as int, len0 as int));
                                if kk == 7 { lemma_toks_k8(sq, i_tok + 2, e, bit_flags, 0u8, res@, start as int); }
                            }
                        }
//@@ before /Ok\(res\)/
    proof { if ok { lemma_chunks_end(sq, i as int, res@); } }
//@@ end

// =====================================================================================================================
// src/vba.rs: record helpers of the decompressed `dir` stream ([MS-OVBA] 2.3.4.2), reader = `&mut &[u8]` (A-io)
// =====================================================================================================================
/// `crate::cfb::{CfbError, XlsEncoding}` as src/vba.rs names them
pub mod cfb { pub use super::{CfbError, XlsEncoding}; }

// TRUSTED: (A-io) `byteorder::ReadBytesExt::read_u16/read_u32::<LittleEndian>` on the reader `&[u8]` (std `impl Read for &[u8]`):
// with >= N bytes left it returns their little-endian value and advances the slice by N; otherwise it returns Err(UnexpectedEof)
// (the slice position after an Err is unspecified). It never panics.
pub mod byteorder {
    use vstd::prelude::*;
    use super::{le16, le32};
    pub struct LittleEndian;
    pub trait ReadBytesExt {
        spec fn rem(&self) -> Seq<u8>;
        fn read_u16<T>(&mut self) -> (r: Result<u16, std::io::Error>)
            ensures match r {
                Ok(v) => old(self).rem().len() >= 2 && v as int == le16(old(self).rem()) && final(self).rem() == old(self).rem().skip(2),
                Err(_) => old(self).rem().len() < 2,
            };
        fn read_u32<T>(&mut self) -> (r: Result<u32, std::io::Error>)
            ensures match r {
                Ok(v) => old(self).rem().len() >= 4 && v as int == le32(old(self).rem()) && final(self).rem() == old(self).rem().skip(4),
                Err(_) => old(self).rem().len() < 4,
            };
    }
    impl<'a> ReadBytesExt for &'a [u8] {
        open spec fn rem(&self) -> Seq<u8> { (*self)@ }
        #[verifier::external_body]
        fn read_u16<T>(&mut self) -> (r: Result<u16, std::io::Error>) { unimplemented!() }
        #[verifier::external_body]
        fn read_u32<T>(&mut self) -> (r: Result<u32, std::io::Error>) { unimplemented!() }
    }
}
use byteorder::{LittleEndian, ReadBytesExt};

// TRUSTED: (A-enc) stand-in for cfb::XlsEncoding (wraps an encoding_rs `&'static Encoding`): `from_codepage` finds the encoding of a
// code page or fails with CodePageNotFound; `decode_all` decodes a byte string with it (total, never panics). The decoded text is an
// uninterpreted function of (code page, bytes).
pub struct XlsEncoding { pub cp: u16 }
pub uninterp spec fn codepage_known(cp: u16) -> bool;
pub uninterp spec fn decoded(cp: u16, bytes: Seq<u8>) -> Seq<char>;
impl XlsEncoding {
    #[verifier::external_body]
    pub fn from_codepage(codepage: u16) -> (r: Result<XlsEncoding, CfbError>)
        ensures match r { Ok(e) => codepage_known(codepage) && e.cp == codepage, Err(_) => !codepage_known(codepage) },
    { unimplemented!() }
    #[verifier::external_body]
    pub fn decode_all(&self, stream: &[u8]) -> (r: String)
        ensures r@ == decoded(self.cp, stream@),
    { unimplemented!() }
}

//@@ item src/vba.rs enum VbaError
// expansion of `from_err!(crate::cfb::CfbError, VbaError, Cfb)` / `from_err!(std::io::Error, VbaError, Io)` (macro in src/utils.rs)
impl vstd::std_specs::convert::FromSpecImpl<std::io::Error> for VbaError {
    open spec fn obeys_from_spec() -> bool { true }
    open spec fn from_spec(e: std::io::Error) -> Self { VbaError::Io(e) }
}
impl From<std::io::Error> for VbaError {
    fn from(e: std::io::Error) -> (r: VbaError) { VbaError::Io(e) }
}
impl vstd::std_specs::convert::FromSpecImpl<CfbError> for VbaError {
    open spec fn obeys_from_spec() -> bool { true }
    open spec fn from_spec(e: CfbError) -> Self { VbaError::Cfb(e) }
}
impl From<CfbError> for VbaError {
    fn from(e: CfbError) -> (r: VbaError) { VbaError::Cfb(e) }
}
// TRUSTED: `log_enabled!(Level::Warn)` is an opaque boolean (state of the global logger); only guards a `warn!` statement
#[verifier::external_body]
fn verif_log_enabled() -> bool { false }

//@@ item src/vba.rs struct Module

/// a variable-length record at the cursor: u32 LE size, then size * mult payload bytes
pub open spec fn var_len(s: Seq<u8>, mult: int) -> int { le32(s) * mult }

//@@ fn src/vba.rs skip props=C06 entry ret=res
//@@ sig
    ensures
        //# C18.skip_ok
        res is Ok ==> old(stream)@.len() >= n && final(stream)@ == old(stream)@.skip(n as int),
        //# C18.skip_err_iff_short
        res is Err <==> old(stream)@.len() < n,
//@@ end

//@@ fn src/vba.rs read_variable_record props=C06 ret=res
//@@ sig
    // every call site in src/vba.rs passes mult == 1 (with a larger factor `u32 as usize * mult` can overflow a 32-bit usize)
    requires mult == 1,
    ensures
        //# C18.var_record
        res matches Ok(rec) ==> (old(r)@.len() >= 4 + var_len(old(r)@, mult as int)
            && rec@ == old(r)@.subrange(4, 4 + var_len(old(r)@, mult as int))
            && final(r)@ == old(r)@.skip(4 + var_len(old(r)@, mult as int))),
        //# C18.var_record_err_iff_short
        res is Err <==> (old(r)@.len() < 4 || old(r)@.len() < 4 + var_len(old(r)@, mult as int)),
//@@ before /let \(read, next\)/
    proof {
        assert(len == var_len(old(r)@, mult as int));
    }
//@@ end

proof fn witness_read_variable_record() ensures 1usize == 1 {}

//@@ fn src/vba.rs check_record props=C06 entry ret=res
//@@ sig
    ensures
        //# C18.check_record_ok
        res is Ok ==> old(r)@.len() >= 2 && le16(old(r)@) == id && final(r)@ == old(r)@.skip(2),
        //# C18.check_record_err
        res is Err ==> old(r)@.len() < 2 || le16(old(r)@) != id,
        //# C18.check_record_wrong_id_rejected
        old(r)@.len() >= 2 && le16(old(r)@) != id ==> (res matches Err(VbaError::InvalidRecordId { expected, found }) && expected == id && found as int == le16(old(r)@)),
//@@ end

//@@ fn src/vba.rs check_variable_record props=C06 entry ret=res
//@@ replace /log_enabled!\(Level::Warn\)/ opaque boolean, guards only a dropped warn! statement
verif_log_enabled()
//@@ sig
    ensures
        //# C18.check_var_record_ok
        res matches Ok(rec) ==> (old(r)@.len() >= 6 && le16(old(r)@) == id
            && old(r)@.len() >= 6 + le32(old(r)@.skip(2))
            && rec@ == old(r)@.subrange(6, 6 + le32(old(r)@.skip(2)))
            && final(r)@ == old(r)@.skip(6 + le32(old(r)@.skip(2)))),
        //# C18.check_var_record_wrong_id_rejected
        old(r)@.len() >= 2 && le16(old(r)@) != id ==> res is Err,
//@@ end

// ---- [MS-OVBA] 2.3.4.2 dir stream, written over the *suffix* t of the stream that starts at the record in question
/// 2.3.4.2.1: PROJECTSYSKIND (10 bytes) [PROJECTCOMPATVERSION, id 0x004A, 10 bytes] PROJECTLCID (10) PROJECTLCIDINVOKE (10)
/// PROJECTCODEPAGE (id u16, size u32, CodePage u16): the stream suffix that starts at PROJECTCODEPAGE
pub open spec fn dir_codepage_rec(s: Seq<u8>) -> Seq<u8> {
    if le16(s.skip(10)) == 0x004A { s.skip(10).skip(10).skip(20) } else { s.skip(10).skip(20) }
}
pub open spec fn dir_codepage(s: Seq<u8>) -> int { le16(dir_codepage_rec(s).skip(6)) }

/// variable record at the head of t: id u16, size u32, payload[size]
pub open spec fn vr_size(t: Seq<u8>) -> int { le32(t.skip(2)) }
pub open spec fn vr_payload(t: Seq<u8>) -> Seq<u8> { t.subrange(6, 6 + vr_size(t)) }
pub open spec fn vr_rest(t: Seq<u8>) -> Seq<u8> { t.skip(6 + vr_size(t)) }

/// 2.3.4.2.3.2 MODULE record at the head of t: MODULENAME 0x19, MODULENAMEUNICODE 0x47, MODULESTREAMNAME 0x1A (+ unicode 0x32),
/// MODULEDOCSTRING 0x1C (+ unicode 0x48) are variable records; then MODULEOFFSET: id 0x31, size u32, TextOffset u32
pub open spec fn mod_name(t: Seq<u8>) -> Seq<u8> { vr_payload(t) }
pub open spec fn mod_stream_name(t: Seq<u8>) -> Seq<u8> { vr_payload(vr_rest(vr_rest(t))) }
pub open spec fn mod_offset_rec(t: Seq<u8>) -> Seq<u8> { vr_rest(vr_rest(vr_rest(vr_rest(vr_rest(vr_rest(t)))))) }
pub open spec fn mod_text_offset(t: Seq<u8>) -> int { le32(mod_offset_rec(t).skip(2).skip(4)) }
/// after TextOffset: MODULEHELPCONTEXT (id, 8 bytes), MODULECOOKIE (id, 6 bytes), MODULETYPE id (0x21 / 0x22)
pub open spec fn mod_flags(t: Seq<u8>) -> Seq<u8> { mod_offset_rec(t).skip(2).skip(4).skip(4).skip(2).skip(8).skip(2).skip(6).skip(2) }
/// each of MODULETYPE / MODULEREADONLY 0x25 / MODULEPRIVATE 0x28 is followed by a reserved u32, then the next id; the Terminator 0x2B
/// and its reserved u32 end the MODULE record
pub open spec fn mod_flags_rest(u: Seq<u8>) -> Seq<u8>
    decreases u.len()
{
    if u.len() < 6 { u } else if le16(u.skip(4)) == 0x002B { u.skip(4).skip(2).skip(4) } else { mod_flags_rest(u.skip(4).skip(2)) }
}
pub open spec fn mod_rest(t: Seq<u8>) -> Seq<u8> { mod_flags_rest(mod_flags(t)) }
/// suffix at which the j-th MODULE record starts
pub open spec fn nth_mod(t0: Seq<u8>, j: int) -> Seq<u8>
    decreases j
{
    if j <= 0 { t0 } else { mod_rest(nth_mod(t0, j - 1)) }
}
/// 2.3.4.2.3: (id 0x000F consumed by the caller) size u32, Count u16, PROJECTCOOKIE (8 bytes), MODULE records
pub open spec fn modules_count(s: Seq<u8>) -> int { le16(s.skip(4)) }
pub open spec fn modules_first(s: Seq<u8>) -> Seq<u8> { s.skip(4).skip(2).skip(8) }
spec fn module_ok(t: Seq<u8>, m: Module, cp: u16) -> bool {
    m.text_offset as int == mod_text_offset(t) && m.name@ == decoded(cp, mod_name(t)) && m.stream_name@ == decoded(cp, mod_stream_name(t))
}

//@@ fn src/vba.rs read_dir_information props=C18 entry ret=res
//@@ sig
    ensures
        //# C18.dir_codepage
        res matches Ok(enc) ==> enc.cp as int == dir_codepage(old(stream)@),
//@@ body
    let ghost s0 = stream@;
//@@ before /if stream\.len\(\) >= /
    proof {
        assert(stream@ == s0.skip(10));
        if stream@.len() >= 2 { assert(le16(stream@.subrange(0, 2)) == le16(s0.skip(10))); }
    }
//@@ before /let encoding = /
    proof {
        assert(stream@ == dir_codepage_rec(s0).skip(6));
    }
//@@ end

//@@ fn src/vba.rs read_modules props=C18 entry ret=res
//@@ sig
    ensures
        //# C18.module_count
        res matches Ok(mods) ==> mods@.len() == modules_count(old(stream)@),
        //# C18.module_name_stream_offset
        res matches Ok(mods) ==> (forall|j: int| 0 <= j < mods@.len() ==>
            module_ok(nth_mod(modules_first(old(stream)@), j), #[trigger] mods@[j], encoding.cp)),
        //# C18.modules_consumed
        res matches Ok(mods) ==> final(stream)@ == nth_mod(modules_first(old(stream)@), mods@.len() as int),
//@@ body
    let ghost s0 = stream@;
    let ghost t0 = modules_first(s0);
//@@ loop 0 it
        invariant
            it.seq().len() == module_len, module_len == modules_count(s0), t0 == modules_first(s0),
            modules@.len() == it.index@,
            stream@ == nth_mod(t0, it.index@ as int),
            forall|j: int| 0 <= j < modules@.len() ==> module_ok(nth_mod(t0, j), #[trigger] modules@[j], encoding.cp),
//@@ before /let name = check_variable_record/
        let ghost t = stream@;
        let ghost kk = it.index@ as int;
        let ghost mods0 = modules@;
//@@ loop 1
            invariant_except_break
                mod_flags_rest(u0) == mod_flags_rest(stream@),
            ensures
                mod_flags_rest(u0) == stream@.skip(4),
            decreases stream@.len(),
//@@ before /loop \{/
        let ghost u0 = stream@;
        proof { assert(u0 == mod_flags(t)); }
//@@ after /loop \{/
            let ghost u = stream@;
//@@ after /modules\.push\(Module \{[^;]*;/
        proof {
            assert(stream@ == mod_rest(t));
            assert(nth_mod(t0, kk + 1) == mod_rest(nth_mod(t0, kk)));
            assert(module_ok(t, modules@[kk], encoding.cp));
            assert forall|j: int| 0 <= j < modules@.len() implies module_ok(nth_mod(t0, j), #[trigger] modules@[j], encoding.cp) by {
                if j < kk { assert(modules@[j] == mods0[j]); }
            }
        }
//@@ end

// ---- REFERENCE records (2.3.4.2.2): Reference::from_stream, no-panic and termination only
#[verifier::external_type_specification] #[verifier::external_body] pub struct ExPathBuf(std::path::PathBuf);
use std::path::PathBuf;
// TRUSTED: str::strip_prefix never panics (no functional clause depends on its result)
pub assume_specification<P: std::str::pattern::Pattern> [str::strip_prefix::<P>] (_0: &str, _1: P) -> std::option::Option<&str>;
//@@ item src/vba.rs struct Reference
//@@ impl src/vba.rs "Reference"
// TRUSTED: Reference::set_libid is NOT verified (String::rsplit / PathBuf are outside vstd). Assumed from its text: its only access to the
// stream is `read_variable_record(stream, 1)?`, so the cursor never moves backwards; it does not touch `self.name`.
// (read_variable_record itself is verified panic-free above)
//@@ fn src/vba.rs Reference::set_libid external_body ret=res
//@@ sig
    ensures final(stream)@.len() <= old(stream)@.len(), final(self).name == old(self).name,
//@@ end
//@@ fn src/vba.rs Reference::from_stream props=C18 entry ret=res
//@@ sig
//@@ loop 0
            invariant true,
            decreases stream@.len(),
//@@ end
//@@ endimpl

} // verus!
fn main() {}
