//@@ unit props=C18,C06
// Unit vbadec: [MS-OVBA] 2.4.1 decompression (src/cfb.rs decompress_stream) and dir-stream record helpers (src/vba.rs), verbatim text.
#![allow(unused_imports, dead_code, unused_variables, unused_mut, unused_assignments)]
use vstd::prelude::*;

verus! {

#[verifier::external_type_specification] #[verifier::external_body] pub struct ExIoError(std::io::Error);

//@@ item src/cfb.rs enum CfbError

//@@ include common/bytes.rs

//@@ fn src/cfb.rs decompress_stream props=C18 entry ret=r
//@@ sig
//@@ loop 0
        invariant 1 <= i,
        decreases s@.len() - i,
//@@ loop 1
                invariant true,
                decreases s@.len() - i,
//@@ loop 2 it
                    invariant true,
//@@ loop 3
                            invariant true,
                            decreases len,
//@@ end

} // verus!
fn main() {}
